(* C14 — durability clauses: what is served is what is stored after every successful change, and a
   failed write leaves the served state alone.  Proved on the code as repaired by the fix commits
   7f1a0f1, 0d04e9a, eebcdab in /repo (model/C14_Store.v mirrors it); the witnesses that refuted both
   statements on the tree before are kept as regression lemmas at the end. *)
From Coq Require Import String Ascii.
From PDV Require Import lib.Base lib.C14_AList model.C14_Store proof.C14_StoreProof.
Local Open Scope string_scope.
Local Open Scope Z_scope.

(* ---------- projections ---------- *)
(* lifecycle / identity fields of a served record (everything LoadStores can give back) *)
Definition proj (x : sstore) := (s_addr x, s_state x, s_pd x, s_labels x, s_ver x, s_lw x, s_rw x).
Definition sproj (s : state) (id : Z) := option_map proj (sv s id).
Definition sm (s : state) (id : Z) : option meta := aget (st_meta s) id.
Definition wl (s : state) (id : Z) : Z := match aget (st_lw s) id with Some w => w | None => 1 end.
Definition wr_ (s : state) (id : Z) : Z := match aget (st_rw s) id with Some w => w | None => 1 end.
(* what a new leader would load for this id *)
Definition stored_proj (s : state) (id : Z) :=
  option_map (fun m => (m_addr m, m_state m, m_pd m, m_labels m, m_ver m, wl s id, wr_ s id)) (sm s id).
Definition agree (s : state) (id : Z) : Prop := sproj s id = stored_proj s id.

(* the meta record in storage is the served one *)
Definition synced (s : state) (id : Z) : Prop :=
  match sv s id with Some x => sm s id = Some (meta_of x) | None => sm s id = None end.
(* the weight keys in storage are the served weights; an id that is not served has no weight keys *)
Definition wagree (s : state) (id : Z) : Prop :=
  match sv s id with
  | Some x => s_lw x = wl s id /\ s_rw x = wr_ s id
  | None => aget (st_lw s) id = None /\ aget (st_rw s) id = None
  end.
Definition Winv (s : state) : Prop := forall id, wagree s id.

Lemma synced_wagree_agree s id : synced s id -> wagree s id -> agree s id.
Proof.
  unfold synced, wagree, agree, sproj, stored_proj. destruct (sv s id) as [x|].
  - intros -> [A B]. cbn. unfold proj. rewrite A, B. reflexivity.
  - intros -> _. reflexivity.
Qed.

(* ---------- field frames of the helpers ---------- *)
Lemma f_version_change s : served (version_change s) = served s /\ st_meta (version_change s) = st_meta s /\
  st_lw (version_change s) = st_lw s /\ st_rw (version_change s) = st_rw s.
Proof. unfold version_change. destruct (min_ver _); [destruct (ver_lt _ _)|]; cbn; auto. Qed.

Definition same_store (a b : state) : Prop :=
  served a = served b /\ st_meta a = st_meta b /\ st_lw a = st_lw b /\ st_rw a = st_rw b.
Lemma same_store_refl a : same_store a a.
Proof. repeat split. Qed.
Lemma same_store_trans a b c : same_store a b -> same_store b c -> same_store a c.
Proof. intros (A&B&C&D) (E&F&G&H). repeat split; congruence. Qed.
Lemma same_store_views a b id : same_store a b ->
  sv a id = sv b id /\ sm a id = sm b id /\ wl a id = wl b id /\ wr_ a id = wr_ b id.
Proof. intros (A&B&C&D). unfold sv, sm, wl, wr_. rewrite A, B, C, D. auto. Qed.

(* ---------- put_locked, completely ---------- *)
Lemma put_locked_full s id x f idx s' ok :
  put_locked s id x f idx = (s', ok) ->
  (forall j, sv s' j = if (ok && (id =? j))%bool then Some x else sv s j) /\
  (ok = true -> sm s' id = Some (meta_of x)) /\
  (forall j, j <> id -> sm s' j = sm s j) /\
  st_lw s' = st_lw s /\ st_rw s' = st_rw s.
Proof.
  intros H. split; [apply (put_locked_sv _ _ _ _ _ _ _ H)|].
  unfold put_locked in H.
  destruct (wr_cases f id idx) as [E|[E|E]]; rewrite E in H; cbn in H; inv H.
  - unfold sm. cbn. repeat split; auto.
    + intros _. apply aget_aset_eq.
    + intros j Hj. apply aget_aset_ne. auto.
  - repeat split; auto. discriminate.
  - repeat split; auto; [discriminate|]. intros j Hj. unfold sm; cbn. apply aget_aset_ne. auto.
Qed.

(* ---------- what one command does to one store id, durability view ---------- *)
Inductive outcome (s : state) (o : op) (s' : state) (r : res) (id : Z) : Prop :=
| oa_same : sproj s' id = sproj s id -> outcome s o s' r id
| oa_sync : (is_err r = false \/ is_clean o = true) -> synced s' id -> outcome s o s' r id.

Lemma sproj_eq s s' id : sv s' id = sv s id -> sproj s' id = sproj s id.
Proof. unfold sproj; intros ->; reflexivity. Qed.

Lemma synced_same_store a b id : same_store a b -> synced b id -> synced a id.
Proof. intros H. destruct (same_store_views _ _ id H) as (A&B&_). unfold synced. rewrite A, B. auto. Qed.

Lemma same_store_version_change s : same_store (version_change s) s.
Proof. apply f_version_change. Qed.

(* generic: a guarded single write through put_locked on the target, nothing else *)
Lemma put_locked_outcome s0 o s id x f idx s' ok r j :
  put_locked s id x f idx = (s', ok) ->
  (forall k, sv s k = sv s0 k) ->
  (ok = true -> is_err r = false) ->
  outcome s0 o s' r j.
Proof.
  intros H Hs Hr. destruct (put_locked_full _ _ _ _ _ _ _ H) as (A&B&C&_&_).
  destruct (Z.eqb_spec id j) as [->|Hne].
  - destruct ok.
    + apply oa_sync; [left; auto|]. unfold synced. rewrite A, Z.eqb_refl. cbn. auto.
    + apply oa_same. apply sproj_eq. rewrite A. cbn. apply Hs.
  - apply oa_same. apply sproj_eq. rewrite A.
    destruct (Z.eqb_spec id j); [contradiction|]. rewrite andb_false_r. apply Hs.
Qed.

Lemma put_impl_outcome s p force f s' r o : put_impl s p force f = (s', r) -> forall j, outcome s o s' r j.
Proof.
  unfold put_impl. intros H j.
  destruct (p_id p =? 0); [inv H; apply oa_same; reflexivity|].
  destruct (p_ver p) as [v|]; [|inv H; apply oa_same; reflexivity].
  destruct (negb (compatible (cver s) v)); [inv H; apply oa_same; reflexivity|].
  destruct (dup_addr s (p_id p) (p_addr p)); [inv H; apply oa_same; reflexivity|].
  destruct (sv s (p_id p)) as [old|] eqn:Eold;
    (match type of H with context [labels_rejected ?a ?b] => destruct (labels_rejected a b) end; [inv H; apply oa_same; reflexivity|]);
    match type of H with context [put_locked ?a ?b ?c ?d ?e] => destruct (put_locked a b c d e) as [s1 ok] eqn:Epl end;
    inv H; (eapply put_locked_outcome; [exact Epl|reflexivity|]); intros ->; reflexivity.
Qed.

Lemma outcome_same_store s o s1 s' r j : same_store s' s1 -> outcome s o s1 r j -> outcome s o s' r j.
Proof.
  intros H O. destruct (same_store_views _ _ j H) as (A&B&_).
  destruct O as [E|Hr Hs].
  - apply oa_same. unfold sproj in *. rewrite A. exact E.
  - apply oa_sync; [exact Hr|]. eapply synced_same_store; eauto.
Qed.

Lemma do_put_outcome s p f s' r g : do_put s p f = (s', r) -> forall j, outcome s (OPut g p f) s' r j.
Proof.
  unfold do_put. destruct (put_impl s p false f) as [s1 r1] eqn:E. intros H j.
  pose proof (put_impl_outcome _ _ _ _ _ _ (OPut g p f) E j) as O.
  destruct r1; inv H; try exact O.
  eapply outcome_same_store; [apply same_store_version_change|exact O].
Qed.

Lemma do_labels_outcome s id ls force f s' r :
  do_labels s id ls force f = (s', r) -> forall j, outcome s (OLabels id ls force f) s' r j.
Proof.
  unfold do_labels. destruct (sv s id) as [x|] eqn:E; intros H j; [|inv H; apply oa_same; reflexivity].
  eapply put_impl_outcome; exact H.
Qed.

Lemma do_remove_outcome s id pd f s' r o : do_remove s id pd f = (s', r) -> forall j, outcome s o s' r j.
Proof.
  unfold do_remove. destruct (sv s id) as [x|] eqn:E; intros H j; [|inv H; apply oa_same; reflexivity].
  destruct (sstate_eqb (s_state x) Offline && Bool.eqb (s_pd x) pd)%bool; [inv H; apply oa_same; reflexivity|].
  destruct (is_tomb x); [inv H; apply oa_same; reflexivity|].
  destruct (s_pd x); [inv H; apply oa_same; reflexivity|].
  destruct (put_locked s id (with_state x Offline pd) f 0) as [s1 ok] eqn:Epl. inv H.
  eapply put_locked_outcome; [exact Epl|reflexivity|]. intros ->; reflexivity.
Qed.

Lemma do_up_outcome s id f s' r o : do_up s id f = (s', r) -> forall j, outcome s o s' r j.
Proof.
  unfold do_up. destruct (sv s id) as [x|] eqn:E; intros H j; [|inv H; apply oa_same; reflexivity].
  destruct (is_tomb x); [inv H; apply oa_same; reflexivity|].
  destruct (s_pd x) eqn:Ep; [inv H; apply oa_same; reflexivity|].
  destruct (sstate_eqb (s_state x) Up); [inv H; apply oa_same; reflexivity|].
  destruct (put_locked s id (with_state x Up false) f 0) as [s1 ok] eqn:Epl. inv H.
  eapply put_locked_outcome; [exact Epl|reflexivity|]. intros ->; reflexivity.
Qed.

(* buryStore: same store elsewhere; on the target either nothing served changed or it is synced *)
Lemma do_bury_durable s id f s' r :
  do_bury s id f = (s', r) ->
  st_lw s' = st_lw s /\ st_rw s' = st_rw s /\
  (forall j, j <> id -> sv s' j = sv s j /\ sm s' j = sm s j) /\
  (sv s' id = sv s id \/ (r = ROk /\ synced s' id /\ exists y, sv s' id = Some y /\ s_state y = Tombstone)).
Proof.
  unfold do_bury. destruct (sv s id) as [x|] eqn:E; intros H.
  2:{ inv H. repeat split; auto. }
  destruct (is_tomb x); [inv H; rewrite E; repeat split; auto|].
  destruct (sstate_eqb (s_state x) Up); [inv H; rewrite E; repeat split; auto|].
  destruct (negb (tree_count s id =? 0)); [inv H; rewrite E; repeat split; auto|].
  destruct (put_locked s id (with_state x Tombstone (s_pd x)) f 0) as [s1 ok] eqn:Epl. inv H.
  destruct (put_locked_full _ _ _ _ _ _ _ Epl) as (A&B&C&D&F).
  destruct (same_store_version_change s1) as (S1&S2&S3&S4).
  split; [rewrite S3; exact D|]. split; [rewrite S4; exact F|]. split.
  - intros j Hj. unfold sv, sm. rewrite S1, S2. fold (sv s1 j) (sm s1 j). rewrite A, (C j Hj).
    destruct (Z.eqb_spec id j); [congruence|]. rewrite andb_false_r. auto.
  - unfold sv at 1. rewrite S1. fold (sv s1 id). rewrite A, Z.eqb_refl, andb_true_r.
    destruct ok; [right|left; exact E]. split; [reflexivity|]. split.
    + unfold synced, sv, sm. rewrite S1, S2. fold (sv s1 id) (sm s1 id). rewrite A, Z.eqb_refl. cbn. auto.
    + unfold sv. rewrite S1. fold (sv s1 id). rewrite A, Z.eqb_refl. cbn. eexists; split; reflexivity.
Qed.

Lemma do_bury_outcome s id f s' r o : do_bury s id f = (s', r) -> forall j, outcome s o s' r j.
Proof.
  intros H j. destruct (do_bury_durable _ _ _ _ _ H) as (_&_&A&B).
  destruct (Z.eqb_spec j id) as [->|Hne].
  - destruct B as [B|[-> [B _]]]; [apply oa_same, sproj_eq; exact B|apply oa_sync; auto].
  - apply oa_same, sproj_eq, A; exact Hne.
Qed.

(* checkStores *)
Definition dur_rel (s acc : state) : Prop :=
  st_lw acc = st_lw s /\ st_rw acc = st_rw s /\
  forall j, (sv acc j = sv s j) \/ (synced acc j /\ exists y, sv acc j = Some y /\ s_state y = Tombstone).

Lemma check_one_dur s f acc e : dur_rel s acc -> dur_rel s (check_one f acc e).
Proof.
  intros (L&R&D). unfold check_one.
  destruct (sv acc e) as [x|] eqn:Ex; [|repeat split; auto].
  destruct (is_tomb x || sstate_eqb (s_state x) Up)%bool eqn:Eg; [repeat split; auto|].
  destruct (tree_count acc e =? 0); [|repeat split; auto].
  destruct (do_bury acc e f) as [s1 r1] eqn:Eb. cbn [fst].
  destruct (do_bury_durable _ _ _ _ _ Eb) as (L1&R1&A&B).
  split; [congruence|]. split; [congruence|]. intros j.
  destruct (Z.eqb_spec j e) as [->|Hne].
  - destruct B as [B|[_ B]]; [|right; exact B].
    destruct (D e) as [D1|[_ [y [Ey Ty]]]]; [left; congruence|].
    (* it was not a tombstone in acc, since it passed the guard *)
    rewrite Ex in Ey. inv Ey. apply orb_false_iff in Eg as [Eg _]. apply is_tomb_false in Eg. contradiction.
  - destruct (A j Hne) as [A1 A2]. destruct (D j) as [D1|[D1 [y [Ey Ty]]]]; [left; congruence|].
    right. split; [|exists y; split; congruence]. unfold synced in *. rewrite A1, A2. exact D1.
Qed.

Lemma do_check_dur s order f : dur_rel s (do_check s order f).
Proof.
  unfold do_check. generalize (order ++ map fst (served s))%list. intros l.
  assert (G : forall l acc, dur_rel s acc -> dur_rel s (fold_left (check_one f) l acc)).
  { induction l0 as [|e l0 IH]; intros acc R; cbn [fold_left]; [exact R|]. apply IH, check_one_dur, R. }
  apply G. repeat split. intros j; left; reflexivity.
Qed.

Lemma do_check_outcome s order f j : outcome s (OCheck order f) (do_check s order f) RNone j.
Proof.
  destruct (do_check_dur s order f) as (_&_&D). destruct (D j) as [E|[E _]].
  - apply oa_same, sproj_eq, E.
  - apply oa_sync; [left; reflexivity|exact E].
Qed.

Lemma sm_restore_weights s s0 id k : sm (restore_weights s s0 id) k = sm s k.
Proof. reflexivity. Qed.

Lemma do_weight_outcome s id lw rw f s' r o : do_weight s id lw rw f = (s', r) -> forall j, outcome s o s' r j.
Proof.
  unfold do_weight. destruct (sv s id) as [x|] eqn:E; intros H j; [|inv H; apply oa_same; reflexivity].
  destruct (wr f id 0) as [a0 ok0]. destruct ok0; cbn [negb] in H.
  2:{ inv H. apply oa_same, sproj_eq. destruct a0; reflexivity. }
  destruct (wr f id 1) as [a1 ok1]. destruct ok1; cbn [negb] in H.
  2:{ inv H. apply oa_same, sproj_eq. destruct a0, a1; reflexivity. }
  match type of H with context [put_locked ?a ?b ?c ?d ?e] => destruct (put_locked a b c d e) as [s2 ok] eqn:Epl end.
  assert (Es : forall k, sv (if a1 then write_rw (if a0 then write_lw s id lw else s) id rw else if a0 then write_lw s id lw else s) k = sv s k)
    by (intros k; destruct a0, a1; reflexivity).
  destruct ok; inv H.
  - eapply put_locked_outcome; [exact Epl|exact Es|reflexivity].
  - apply oa_same, sproj_eq.
    change (sv (write_rw (write_lw s2 id (s_lw x)) id (s_rw x)) j) with (sv s2 j).
    destruct (put_locked_full _ _ _ _ _ _ _ Epl) as (A&_). rewrite A. cbn [andb]. apply Es.
Qed.

(* Storage.DeleteStore *)
Lemma delete_store_dur s id f s1 ok :
  delete_store s id f = (s1, ok) ->
  served s1 = served s /\ (forall j, j <> id -> sm s1 j = sm s j) /\ (ok = true -> sm s1 id = None).
Proof.
  unfold delete_store. destruct (wr_cases f id 0) as [W0|[W0|W0]]; rewrite W0; cbn [negb].
  2,3: intros H; inv H; repeat split; auto; discriminate.
  destruct (wr_cases f id 1) as [W1|[W1|W1]]; rewrite W1; cbn [negb].
  2,3: intros H; inv H; repeat split; auto; discriminate.
  destruct (wr_cases f id 2) as [W2|[W2|W2]]; rewrite W2; cbn [negb]; intros H; inv H.
  - split; [reflexivity|]. split.
    + intros j Hj. unfold sm; cbn. apply aget_adel_ne; auto.
    + intros _. unfold sm; cbn. apply aget_adel_eq.
  - repeat split; auto. discriminate.
  - split; [reflexivity|]. split; [|discriminate]. intros j Hj. unfold sm; cbn. apply aget_adel_ne; auto.
Qed.

(* RemoveTombStoneRecords *)
Lemma clean_loop_dur f order : forall s s' r,
  clean_loop s order f = (s', r) ->
  forall j, (sv s' j = sv s j /\ (sv s j = None -> sm s' j = sm s j)) \/ (sv s' j = None /\ sm s' j = None).
Proof.
  induction order as [|id rest IH]; intros s s' r H; cbn [clean_loop] in H; [inv H; auto|].
  destruct (sv s id) as [x|] eqn:E; [|eapply IH; eauto].
  destruct (is_tomb x && (s_rcf x <=? 0))%bool; [|eapply IH; eauto].
  destruct (delete_store s id f) as [s1 ok] eqn:Ed.
  destruct (delete_store_dur _ _ _ _ _ Ed) as (Sv&Sm&Sd).
  assert (Sv' : forall k, sv s1 k = sv s k) by (intros k; unfold sv; rewrite Sv; reflexivity).
  destruct ok.
  - pose proof (IH _ _ _ H) as D. intros j.
    destruct (Z.eqb_spec id j) as [->|Hne].
    + right. destruct (D j) as [[D1 D2]|D1]; [|exact D1].
      rewrite sv_del_served, Z.eqb_refl in D1, D2. split; [exact D1|].
      rewrite (D2 eq_refl). change (sm (del_served s1 j) j) with (sm s1 j). apply Sd; reflexivity.
    + destruct (D j) as [[D1 D2]|D1]; [left|right; exact D1].
      rewrite sv_del_served in D1, D2. destruct (Z.eqb_spec id j); [contradiction|].
      rewrite Sv' in D1, D2. split; [exact D1|]. intros Hn. rewrite (D2 Hn).
      change (sm (del_served s1 id) j) with (sm s1 j). apply Sm; auto.
  - inv H. intros j. left. split; [apply Sv'|]. intros Hn. apply Sm. intros ->. congruence.
Qed.

Lemma do_clean_outcome s order f s' r : do_clean s order f = (s', r) -> forall j, outcome s (OClean order f) s' r j.
Proof.
  unfold do_clean. destruct (clean_loop s order f) as [s1 r1] eqn:E. intros H j.
  assert (s' = s1) as -> by (destruct r1; try (inv H; reflexivity); destruct (cleanable s1); inv H; reflexivity).
  destruct (clean_loop_dur _ _ _ _ _ E j) as [[D1 _]|[D1 D2]].
  - apply oa_same, sproj_eq, D1.
  - apply oa_sync; [right; reflexivity|]. unfold synced. rewrite D1. exact D2.
Qed.

Lemma do_heartbeat_outcome s id f s' r o : do_heartbeat s id f = (s', r) -> forall j, outcome s o s' r j.
Proof.
  unfold do_heartbeat. destruct (sv s id) as [x|] eqn:E; intros H j; [|inv H; apply oa_same; reflexivity].
  destruct (is_tomb x); [inv H; apply oa_same; reflexivity|].
  destruct (if s_hbp x then (false, true) else wr f id 0) as [applied ok]. inv H.
  apply oa_same. unfold sproj. rewrite sv_set_served.
  assert (Ea : sv (if applied then write_meta s id (meta_of x) else s) j = sv s j) by (destruct applied; reflexivity).
  rewrite Ea. destruct (Z.eqb_spec id j) as [<-|]; [|reflexivity]. rewrite E. reflexivity.
Qed.

Lemma refresh_rcf_sproj s id j : sproj (refresh_rcf s id) j = sproj s j.
Proof.
  unfold refresh_rcf, sproj. destruct (sv s id) as [x|] eqn:E; [|reflexivity].
  rewrite sv_set_served. destruct (Z.eqb_spec id j) as [<-|]; [|reflexivity]. rewrite E. reflexivity.
Qed.
Lemma do_region_sproj s r stores j : sproj (do_region s r stores) j = sproj s j.
Proof.
  unfold do_region. set (s1 := set_regions s (aset (regions s) r stores)).
  assert (G : forall l a, sproj (fold_left refresh_rcf l a) j = sproj a j).
  { induction l as [|i l IH]; intros a; cbn [fold_left]; [reflexivity|]. rewrite IH. apply refresh_rcf_sproj. }
  rewrite G. reflexivity.
Qed.

(* ---------- every command, every id ---------- *)
Theorem run_cmd_outcome s o s' r : run_cmd s o = (s', r) -> forall j, outcome s o s' r j.
Proof.
  destruct o as [g p f|id ls force f|id pd f|id f|id f|corder f|id lw rw f|order f|id f|rg stores|e]; cbn [run_cmd]; intros H.
  - destruct g.
    + cbv zeta in H. destruct (sv s (p_id p)) as [x|] eqn:E.
      * destruct (is_tomb x); [inv H; intros j; apply oa_same; reflexivity|].
        destruct (negb (e_pr (cenv s)) && is_tiflash (p_labels p))%bool; [inv H; intros j; apply oa_same; reflexivity|]. eapply do_put_outcome; eauto.
      * destruct (negb (e_pr (cenv s)) && is_tiflash (p_labels p))%bool; [inv H; intros j; apply oa_same; reflexivity|]. eapply do_put_outcome; eauto.
    + eapply do_put_outcome; eauto.
  - eapply do_labels_outcome; eauto.
  - eapply do_remove_outcome; eauto.
  - eapply do_up_outcome; eauto.
  - eapply do_bury_outcome; eauto.
  - inv H. apply do_check_outcome.
  - eapply do_weight_outcome; eauto.
  - eapply do_clean_outcome; eauto.
  - eapply do_heartbeat_outcome; eauto.
  - inv H. intros j. apply oa_same. apply do_region_sproj.
  - inv H. intros j. apply oa_same. reflexivity.
Qed.

(* ---------- the weight keys: an invariant of every history ---------- *)
(* frame: weight keys untouched, served weights inherited, served ids not growing *)
Definition wf_rel (s s' : state) : Prop :=
  st_lw s' = st_lw s /\ st_rw s' = st_rw s /\
  forall id, match sv s' id with
             | Some y => exists x, sv s id = Some x /\ s_lw y = s_lw x /\ s_rw y = s_rw x
             | None => sv s id = None
             end.
Lemma wf_rel_refl s : wf_rel s s.
Proof. repeat split. intros id. destruct (sv s id); eauto. Qed.
Lemma wf_rel_trans a b c : wf_rel a b -> wf_rel b c -> wf_rel a c.
Proof.
  intros (A1&A2&A3) (B1&B2&B3). split; [congruence|]. split; [congruence|].
  intros id. specialize (A3 id). specialize (B3 id). destruct (sv c id) as [z|].
  - destruct B3 as (y&Ey&L1&R1). rewrite Ey in A3. destruct A3 as (x&Ex&L2&R2). exists x. repeat split; congruence.
  - rewrite B3 in A3. exact A3.
Qed.
Lemma wf_rel_same_store s s' : same_store s' s -> wf_rel s s'.
Proof.
  intros (A&B&C&D). split; [exact C|]. split; [exact D|]. intros id. unfold sv. rewrite A. destruct (aget (served s) id); eauto.
Qed.
Lemma Winv_wf s s' : Winv s -> wf_rel s s' -> Winv s'.
Proof.
  intros I (A&B&C) id. specialize (C id). specialize (I id). unfold wagree, wl, wr_ in *. rewrite A, B.
  destruct (sv s' id) as [y|].
  - destruct C as (x&Ex&L&R). rewrite Ex in I. destruct I; split; congruence.
  - rewrite C in I. exact I.
Qed.

Lemma put_locked_wf s id x0 x f idx s' ok :
  put_locked s id x f idx = (s', ok) -> sv s id = Some x0 -> s_lw x = s_lw x0 -> s_rw x = s_rw x0 -> wf_rel s s'.
Proof.
  intros H E L R. destruct (put_locked_full _ _ _ _ _ _ _ H) as (A&_&_&D&F).
  split; [exact D|]. split; [exact F|]. intros j. rewrite A.
  destruct (ok && (id =? j))%bool eqn:Eg.
  - apply andb_true_iff in Eg as [_ Eg]. apply Z.eqb_eq in Eg. subst j. eauto.
  - destruct (sv s j); eauto.
Qed.

Lemma set_served_wf s id x0 x : sv s id = Some x0 -> s_lw x = s_lw x0 -> s_rw x = s_rw x0 -> wf_rel s (set_served s id x).
Proof.
  intros E L R. repeat split. intros j. rewrite sv_set_served.
  destruct (Z.eqb_spec id j) as [<-|]; [eauto|destruct (sv s j); eauto].
Qed.

Lemma put_impl_winv s p force f s' r : put_impl s p force f = (s', r) -> Winv s -> Winv s'.
Proof.
  unfold put_impl. intros H I.
  destruct (p_id p =? 0); [inv H; exact I|].
  destruct (p_ver p) as [v|]; [|inv H; exact I].
  destruct (negb (compatible (cver s) v)); [inv H; exact I|].
  destruct (dup_addr s (p_id p) (p_addr p)); [inv H; exact I|].
  destruct (sv s (p_id p)) as [old|] eqn:Eold.
  - match type of H with context [labels_rejected ?a ?b] => destruct (labels_rejected a b) end; [inv H; exact I|].
    match type of H with context [put_locked ?a ?b ?c ?d ?e] => destruct (put_locked a b c d e) as [s1 ok] eqn:Epl end.
    inv H. eapply Winv_wf; [exact I|]. eapply put_locked_wf; [exact Epl|exact Eold|reflexivity|reflexivity].
  - (* a new store: it is served with weights 1/1, and there are no weight keys for an id that is not served *)
    match type of H with context [labels_rejected ?a ?b] => destruct (labels_rejected a b) end; [inv H; exact I|].
    match type of H with context [put_locked ?a ?b ?c ?d ?e] => destruct (put_locked a b c d e) as [s1 ok] eqn:Epl end.
    inv H. destruct (put_locked_full _ _ _ _ _ _ _ Epl) as (A&_&_&D&F).
    pose proof (I (p_id p)) as Ip. unfold wagree in Ip. rewrite Eold in Ip. destruct Ip as [Z1 Z2].
    intros j. unfold wagree, wl, wr_. rewrite A, D, F.
    destruct (ok && (p_id p =? j))%bool eqn:Eg.
    + apply andb_true_iff in Eg as [_ Eg]. apply Z.eqb_eq in Eg. subst j. rewrite Z1, Z2. cbn. auto.
    + exact (I j).
Qed.

Lemma Winv_same_store s s' : same_store s' s -> Winv s -> Winv s'.
Proof. intros H I. eapply Winv_wf; [exact I|apply wf_rel_same_store; exact H]. Qed.

Lemma do_bury_wf s id f s' r : do_bury s id f = (s', r) -> wf_rel s s'.
Proof.
  unfold do_bury. destruct (sv s id) as [x|] eqn:E; intros H; [|inv H; apply wf_rel_refl].
  destruct (is_tomb x); [inv H; apply wf_rel_refl|].
  destruct (sstate_eqb (s_state x) Up); [inv H; apply wf_rel_refl|].
  destruct (negb (tree_count s id =? 0)); [inv H; apply wf_rel_refl|].
  destruct (put_locked s id (with_state x Tombstone (s_pd x)) f 0) as [s1 ok] eqn:Epl. inv H.
  eapply wf_rel_trans; [eapply put_locked_wf; [exact Epl|exact E|reflexivity|reflexivity]|].
  apply wf_rel_same_store, same_store_version_change.
Qed.

Lemma do_check_wf s order f : wf_rel s (do_check s order f).
Proof.
  unfold do_check. generalize (order ++ map fst (served s))%list. intros l.
  assert (G : forall l acc, wf_rel s acc -> wf_rel s (fold_left (check_one f) l acc)).
  { induction l0 as [|e l0 IH]; intros acc R; cbn [fold_left]; [exact R|]. apply IH.
    unfold check_one. destruct (sv acc e) as [x|]; [|exact R].
    destruct (is_tomb x || sstate_eqb (s_state x) Up)%bool; [exact R|].
    destruct (tree_count acc e =? 0); [|exact R].
    destruct (do_bury acc e f) as [s1 r1] eqn:Eb. cbn [fst].
    eapply wf_rel_trans; [exact R|eapply do_bury_wf; eauto]. }
  apply G, wf_rel_refl.
Qed.

Lemma refresh_rcf_wf s id : wf_rel s (refresh_rcf s id).
Proof.
  unfold refresh_rcf. destruct (sv s id) as [x|] eqn:E; [|apply wf_rel_refl].
  eapply set_served_wf; [exact E|reflexivity|reflexivity].
Qed.

(* the weight keys after restore_w are what they were *)
Lemma aget_restore_w m id old k : aget (restore_w m id old) k = if id =? k then old else aget m k.
Proof. unfold restore_w. destruct old; [apply aget_aset|apply aget_adel]. Qed.

Lemma restore_weights_wagree s s0 id :
  served s = served s0 -> (forall k, k <> id -> aget (st_lw s) k = aget (st_lw s0) k /\ aget (st_rw s) k = aget (st_rw s0) k) ->
  Winv s0 -> Winv (restore_weights s s0 id).
Proof.
  intros Sv Fr I k. specialize (I k). unfold wagree, wl, wr_, sv in *. cbn [served st_lw st_rw restore_weights].
  rewrite Sv, !aget_restore_w. destruct (Z.eqb_spec id k) as [<-|Hne]; [exact I|].
  destruct (Fr k (not_eq_sym Hne)) as [A B]. rewrite A, B. exact I.
Qed.

Lemma delete_store_winv s id f s1 ok :
  delete_store s id f = (s1, ok) -> Winv s ->
  if ok then (forall k, k <> id -> wagree s1 k) /\ aget (st_lw s1) id = None /\ aget (st_rw s1) id = None /\ served s1 = served s
  else Winv s1.
Proof.
  intros H I. unfold delete_store in H.
  assert (R : forall s', served s' = served s ->
                (forall k, k <> id -> aget (st_lw s') k = aget (st_lw s) k /\ aget (st_rw s') k = aget (st_rw s) k) ->
                Winv (restore_weights s' s id)) by (intros; apply restore_weights_wagree; auto).
  destruct (wr_cases f id 0) as [W0|[W0|W0]]; rewrite W0 in H; cbn [negb] in H.
  2:{ inv H. apply R; [reflexivity|]. auto. }
  2:{ inv H. apply R; [reflexivity|]. intros k Hk. cbn. rewrite aget_adel_ne; auto. }
  destruct (wr_cases f id 1) as [W1|[W1|W1]]; rewrite W1 in H; cbn [negb] in H.
  2:{ inv H. apply R; [reflexivity|]. intros k Hk. cbn. rewrite aget_adel_ne; auto. }
  2:{ inv H. apply R; [reflexivity|]. intros k Hk. cbn. rewrite !aget_adel_ne; auto. }
  destruct (wr_cases f id 2) as [W2|[W2|W2]]; rewrite W2 in H; cbn [negb] in H; inv H.
  - split; [|cbn; rewrite !aget_adel_eq; auto].
    intros k Hk. specialize (I k). unfold wagree, wl, wr_, sv in *. cbn. rewrite !aget_adel_ne; auto.
  - apply R; [reflexivity|]. intros k Hk. cbn. rewrite !aget_adel_ne; auto.
  - apply R; [reflexivity|]. intros k Hk. cbn. rewrite !aget_adel_ne; auto.
Qed.

Lemma clean_loop_winv f order : forall s s' r, clean_loop s order f = (s', r) -> Winv s -> Winv s'.
Proof.
  induction order as [|id rest IH]; intros s s' r H I; cbn [clean_loop] in H; [inv H; exact I|].
  destruct (sv s id) as [x|] eqn:E; [|eapply IH; eauto].
  destruct (is_tomb x && (s_rcf x <=? 0))%bool; [|eapply IH; eauto].
  destruct (delete_store s id f) as [s1 ok] eqn:Ed.
  pose proof (delete_store_winv _ _ _ _ _ Ed I) as D. destruct ok; [|inv H; exact D].
  destruct D as (D1&D2&D3&D4). eapply IH; [exact H|].
  intros k. unfold wagree. rewrite sv_del_served. destruct (Z.eqb_spec id k) as [<-|Hne].
  - cbn. auto.
  - specialize (D1 k (not_eq_sym Hne)). exact D1.
Qed.

Theorem winv_step s o s' r : Winv s -> run_cmd s o = (s', r) -> Winv s'.
Proof.
  destruct o as [g p f|id ls force f|id pd f|id f|id f|corder f|id lw rw f|order f|id f|rg stores|e]; cbn [run_cmd]; intros I H.
  - assert (P : forall s1 r1, do_put s p f = (s1, r1) -> Winv s1).
    { unfold do_put. destruct (put_impl s p false f) as [s1 r1] eqn:E. intros s2 r2 H2.
      pose proof (put_impl_winv _ _ _ _ _ _ E I) as I1.
      destruct r1; inv H2; try exact I1. eapply Winv_same_store; [apply same_store_version_change|exact I1]. }
    destruct g; [cbv zeta in H; destruct (sv s (p_id p)) as [x|]; [destruct (is_tomb x); [inv H; exact I|]|];
                 (destruct (negb (e_pr (cenv s)) && is_tiflash (p_labels p))%bool; [inv H; exact I|])|]; eapply P; eauto.
  - unfold do_labels in H. destruct (sv s id) as [x|] eqn:E; [|inv H; exact I].
    eapply put_impl_winv; eauto.
  - unfold do_remove in H. destruct (sv s id) as [x|] eqn:E; [|inv H; exact I].
    destruct (sstate_eqb (s_state x) Offline && Bool.eqb (s_pd x) pd)%bool; [inv H; exact I|].
    destruct (is_tomb x); [inv H; exact I|]. destruct (s_pd x); [inv H; exact I|].
    destruct (put_locked s id (with_state x Offline pd) f 0) as [s1 ok] eqn:Epl. inv H.
    eapply Winv_wf; [exact I|eapply put_locked_wf; [exact Epl|exact E|reflexivity|reflexivity]].
  - unfold do_up in H. destruct (sv s id) as [x|] eqn:E; [|inv H; exact I].
    destruct (is_tomb x); [inv H; exact I|]. destruct (s_pd x); [inv H; exact I|].
    destruct (sstate_eqb (s_state x) Up); [inv H; exact I|].
    destruct (put_locked s id (with_state x Up false) f 0) as [s1 ok] eqn:Epl. inv H.
    eapply Winv_wf; [exact I|eapply put_locked_wf; [exact Epl|exact E|reflexivity|reflexivity]].
  - eapply Winv_wf; [exact I|eapply do_bury_wf; eauto].
  - inv H. eapply Winv_wf; [exact I|apply do_check_wf].
  - (* SetStoreWeight: success writes both keys and the served weights; every failure puts the keys back *)
    unfold do_weight in H. destruct (sv s id) as [x|] eqn:E; [|inv H; exact I].
    destruct (wr_cases f id 0) as [W0|[W0|W0]]; rewrite W0 in H; cbn [negb] in H.
    2:{ inv H. apply restore_weights_wagree; auto. }
    2:{ inv H. apply restore_weights_wagree; [reflexivity| |exact I]. intros k Hk. cbn. rewrite aget_aset_ne; auto. }
    destruct (wr_cases f id 1) as [W1|[W1|W1]]; rewrite W1 in H; cbn [negb] in H.
    2:{ inv H. apply restore_weights_wagree; [reflexivity| |exact I]. intros k Hk. cbn. rewrite aget_aset_ne; auto. }
    2:{ inv H. apply restore_weights_wagree; [reflexivity| |exact I]. intros k Hk. cbn. rewrite !aget_aset_ne; auto. }
    match type of H with context [put_locked ?a ?b ?c ?d ?e] => destruct (put_locked a b c d e) as [s2 ok] eqn:Epl end.
    destruct (put_locked_full _ _ _ _ _ _ _ Epl) as (A&_&_&D&F). cbn [st_lw st_rw write_rw write_lw] in D, F.
    destruct ok; inv H.
    + intros k. unfold wagree, wl, wr_. rewrite A, D, F. cbn [andb]. rewrite !aget_aset.
      destruct (Z.eqb_spec id k) as [<-|Hne]; [cbn; auto|]. exact (I k).
    + intros k. unfold wagree, wl, wr_, sv. cbn [served st_lw st_rw write_rw write_lw]. fold (sv s2 k).
      rewrite A, D, F. cbn [andb]. rewrite !aget_aset. unfold sv at 1. cbn [served write_rw write_lw]. fold (sv s k).
      destruct (Z.eqb_spec id k) as [<-|Hne]; [rewrite E; auto|]. exact (I k).
  - unfold do_clean in H. destruct (clean_loop s order f) as [s1 r1] eqn:E.
    assert (s' = s1) as -> by (destruct r1; try (inv H; reflexivity); destruct (cleanable s1); inv H; reflexivity).
    eapply clean_loop_winv; eauto.
  - unfold do_heartbeat in H. destruct (sv s id) as [x|] eqn:E; [|inv H; exact I].
    destruct (is_tomb x); [inv H; exact I|].
    destruct (if s_hbp x then (false, true) else wr f id 0) as [applied ok]. inv H.
    eapply Winv_wf; [exact I|].
    eapply wf_rel_trans; [|eapply (set_served_wf _ id x); [|reflexivity|reflexivity]].
    + destruct applied; (split; [reflexivity|split; [reflexivity|intros j; destruct (sv s j) eqn:Ej; cbn; unfold sv in *; cbn; rewrite ?Ej; eauto]]).
    + destruct applied; exact E.
  - inv H. eapply Winv_wf; [exact I|]. unfold do_region.
    set (s1 := set_regions s (aset (regions s) rg stores)).
    assert (G : forall l a, wf_rel s a -> wf_rel s (fold_left refresh_rcf l a)).
    { induction l as [|i l IH]; intros a Ha; cbn [fold_left]; [exact Ha|]. apply IH.
      eapply wf_rel_trans; [exact Ha|apply refresh_rcf_wf]. }
    apply G. apply wf_rel_same_store. repeat split.
  - inv H. exact I.
Qed.

(* ---------- histories ---------- *)
Definition reach (cv : ver) (p : payload) (ops : list op) : state := run_state run_op (boot cv p) ops.

Lemma Winv_boot cv p : Winv (boot cv p).
Proof.
  intros id. unfold wagree, sv, boot, wl, wr_. cbn. destruct (p_id p =? id); cbn; auto.
Qed.

Lemma run_op_state s o : fst (run_op s o) = fst (run_cmd s o).
Proof. unfold run_op. destruct (run_cmd s o); reflexivity. Qed.

Lemma Winv_run s ops : Winv s -> Winv (run_state run_op s ops).
Proof.
  revert s; induction ops as [|o r IH]; intros s I; cbn [run_state]; [exact I|].
  rewrite run_op_state. apply IH.
  destruct (run_cmd s o) as [s1 r1] eqn:E. cbn [fst]. eapply winv_step; eauto.
Qed.

(* statement 4: after every successful change the stored record equals the served record *)
Definition success_full : Prop :=
  forall cv p ops o s' r, run_cmd (reach cv p ops) o = (s', r) -> (is_err r = false \/ is_clean o = true) ->
    forall id, sproj s' id <> sproj (reach cv p ops) id -> agree s' id.

Theorem success_full_pf : success_full.
Proof.
  intros cv p ops o s' r H Hr id Hc.
  pose proof (Winv_run _ ops (Winv_boot cv p)) as I. fold (reach cv p ops) in I.
  pose proof (winv_step _ _ _ _ I H) as I'.
  destruct (run_cmd_outcome _ _ _ _ H id) as [E|_ Hs]; [contradiction|].
  apply synced_wagree_agree; [exact Hs|apply I'].
Qed.

Lemma changed_meta_is_stored_pf s o s' r :
  run_cmd s o = (s', r) -> (is_err r = false \/ is_clean o = true) ->
  forall id, sproj s' id <> sproj s id -> synced s' id.
Proof.
  intros H Hr id Hc. destruct (run_cmd_outcome _ _ _ _ H id) as [E|_ Hs]; [contradiction|exact Hs].
Qed.

(* statement 5: a failed operation leaves the served state unchanged (any state, any command, any fault) *)
Definition failed_full : Prop :=
  forall s o s' r, run_cmd s o = (s', r) -> is_err r = true -> is_clean o = false ->
    forall id, sproj s' id = sproj s id.

Theorem failed_full_pf : failed_full.
Proof.
  intros s o s' r H He Hc id. destruct (run_cmd_outcome _ _ _ _ H id) as [E|Hr _]; [exact E|].
  destruct Hr; congruence.
Qed.

(* the cleanup, when it stops at a storage error: what it already removed is gone from both sides *)
Lemma clean_error_pf s order f s' r :
  run_cmd s (OClean order f) = (s', r) -> forall id, sproj s' id = sproj s id \/ synced s' id.
Proof.
  intros H id. destruct (run_cmd_outcome _ _ _ _ H id) as [E|_ Hs]; auto.
Qed.

(* ---------- regressions: the witnesses that refuted the two statements before the fix commits ---------- *)
Definition boot1 : payload := Payload 1 "a1" Up false [("zone", "z1"); ("host", "h1")] (Some (4, 0, 0)).

(* SetStoreWeight whose second write fails: the leader-weight key is put back; after the next change all agree *)
Lemma regression_weight_rollback :
  let s1 := reach (0, 0, 0) boot1 [OWeight 1 3 4 (Fault 1 1 FBefore)] in
  aget (st_lw s1) 1 = None /\
  exists s', run_cmd s1 (ORemove 1 false NoFault) = (s', ROk) /\ agree s' 1.
Proof. cbn zeta. split; [vm_compute; reflexivity|]. eexists. split; [vm_compute; reflexivity|]. unfold agree. vm_compute. reflexivity. Qed.

(* weights 3/4, offline, buried, record removed (with its weight keys), id registered again: served 1/1, stored 1/1 *)
Definition w_cleanup : list op :=
  [OWeight 1 3 4 NoFault; OPut false (Payload 2 "a2" Up false [] (Some (4, 0, 0))) NoFault;
   ORemove 1 false NoFault; OCheck [1] NoFault; OClean [1] NoFault].
Lemma regression_cleanup_removes_weight_keys :
  exists s' r, run_cmd (reach (0, 0, 0) boot1 w_cleanup) (OPut false (Payload 1 "a1" Up false [] (Some (4, 0, 0))) NoFault) = (s', r)
    /\ r = ROk /\ agree s' 1.
Proof. eexists; eexists. split; [vm_compute; reflexivity|]. split; [reflexivity|]. unfold agree. vm_compute. reflexivity. Qed.

(* a non-forced put on an existing store whose save fails: the served labels are what they were *)
Lemma regression_failed_put_keeps_labels :
  run_cmd (boot (0, 0, 0) boot1) (OPut false (Payload 1 "a1" Up false [("zone", "z2"); ("host", "")] (Some (4, 0, 0))) (Fault 1 0 FBefore))
  = (boot (0, 0, 0) boot1, RStorage).
Proof. vm_compute. reflexivity. Qed.

(* ====================================================================================================
   Several failing writes in one operation (model/C14_Store.v, layer do_weight_m / delete_store_m)
   ==================================================================================================== *)
Lemma served_restore_m s id a b mf n : served (fst (restore_m s id a b mf n)) = served s.
Proof. unfold restore_m. cbn [fst]. destruct (fst (wrm mf n)), (fst (wrm mf (S n))); reflexivity. Qed.
Lemma served_save_weight_m s id lw rw mf n : served (fst (fst (save_weight_m s id lw rw mf n))) = served s.
Proof.
  unfold save_weight_m. destruct (wrm mf n) as [a0 [|]]; cbn [negb].
  - destruct (wrm mf (S n)) as [a1 [|]]; cbn [negb].
    + destruct a0, a1; reflexivity.
    + match goal with |- context [restore_m ?x ?i ?a ?b ?m ?k] => pose proof (served_restore_m x i a b m k) as R; destruct (restore_m x i a b m k) end.
      cbn [fst] in *. rewrite R. destruct a0, a1; reflexivity.
  - match goal with |- context [restore_m ?x ?i ?a ?b ?m ?k] => pose proof (served_restore_m x i a b m k) as R; destruct (restore_m x i a b m k) end.
    cbn [fst] in *. rewrite R. destruct a0; reflexivity.
Qed.

(* ANY set of failing writes, restoring writes included: an operation that reports an error leaves what is served exactly as it was *)
Opaque restore_m save_weight_m.
Theorem multi_failed_keeps_served_pf s o mf s' r : run_mop s o mf = (s', r) -> r <> ROk -> served s' = served s.
Proof.
  destruct o as [id lw rw|id]; cbn [run_mop]; intros H Hr.
  - unfold do_weight_m in H. destruct (sv s id) as [x|]; [|inv H; reflexivity].
    pose proof (served_save_weight_m s id lw rw mf 0) as S1.
    destruct (save_weight_m s id lw rw mf 0) as [[s1 ok] n1]. cbn [fst] in S1. destruct ok; cbn [negb] in H; [|inv H; exact S1].
    destruct (wrm mf n1) as [a2 [|]]; [inv H; congruence|]. inv H.
    rewrite served_save_weight_m. destruct a2; exact S1.
  - unfold do_clean_one_m in H. destruct (delete_store_m s id mf) as [s1 ok] eqn:E.
    assert (S1 : ok = false -> served s1 = served s).
    { unfold delete_store_m in E.
      destruct (wrm mf 0) as [a0 [|]]; cbn [negb] in E.
      2:{ inv E. intros _. rewrite served_restore_m. destruct a0; reflexivity. }
      destruct (wrm mf 1) as [a1 [|]]; cbn [negb] in E.
      2:{ inv E. intros _. rewrite served_restore_m. destruct a0, a1; reflexivity. }
      destruct (wrm mf 2) as [a2 [|]]; cbn [negb] in E; [inv E; discriminate|].
      inv E. intros _. rewrite served_restore_m. destruct a0, a1, a2; reflexivity. }
    destruct ok; inv H; [congruence|]. apply S1; reflexivity.
Qed.
Transparent restore_m save_weight_m.

(* with at most one failing write the layer is the single-fault model: its theorems (stored = served after a failed operation too) carry over *)
Lemma wr_self id i k j : wr (Fault id i k) id j = wrm [(i, k)] j.
Proof. unfold wr, wrm. rewrite Z.eqb_refl. cbn [andb]. destruct (Nat.eqb i j); [destruct k|]; reflexivity. Qed.
Lemma state_eta s : State (served s) (st_meta s) (st_lw s) (st_rw s) (regions s) (cver s) (cenv s) = s.
Proof. destruct s; reflexivity. Qed.

Theorem weight_single_fault_pf s id lw rw i k : do_weight_m s id lw rw [(i, k)] = do_weight s id lw rw (Fault id i k).
Proof.
  unfold do_weight_m, do_weight. destruct (sv s id) as [x|]; [|reflexivity].
  unfold save_weight_m, restore_m, put_locked. rewrite !wr_self.
  destruct i as [|[|[|i]]]; destruct k; cbn; reflexivity.
Qed.
Theorem weight_no_fault_pf s id lw rw : do_weight_m s id lw rw [] = do_weight s id lw rw NoFault.
Proof.
  unfold do_weight_m, do_weight. destruct (sv s id) as [x|]; [|reflexivity]. cbn. reflexivity.
Qed.
Theorem delete_single_fault_pf s id i k : delete_store_m s id [(i, k)] = delete_store s id (Fault id i k).
Proof.
  unfold delete_store_m, delete_store, restore_m. rewrite !wr_self.
  destruct i as [|[|[|i]]]; destruct k; cbn; reflexivity.
Qed.

(* why the hypothesis "the restoring writes succeed" is needed for stored = served after a failed operation: the region-weight
   write fails, and so does the write that puts the leader weight back: the error is reported, the served weight is still 1,
   the stored leader weight is 5 *)
Definition multi_base : state :=
  State [(2, SStore "a2" Up false [] (4, 0, 0) 1 1 0 false)] [(2, Meta "a2" Up false [] (4, 0, 0))] [] [] [] (4, 0, 0) (Env [] false true).
Lemma multi_fault_witness :
  exists s', do_weight_m multi_base 2 5 7 [(1%nat, FBefore); (2%nat, FBefore)] = (s', RStorage) /\
    served s' = served multi_base /\ aget (st_lw s') 2 = Some 5 /\ sv s' 2 = Some (SStore "a2" Up false [] (4, 0, 0) 1 1 0 false).
Proof. eexists. vm_compute. repeat split; reflexivity. Qed.

(* ====================================================================================================
   A new leader loads the same storage (model: restart)
   ==================================================================================================== *)
Lemma aget_map_entries {A B} (g : Z -> A -> B) (l : list (Z * A)) id :
  aget (map (fun e : Z * A => (fst e, g (fst e) (snd e))) l) id = option_map (g id) (aget l id).
Proof.
  induction l as [|[k v] r IH]; [reflexivity|]. cbn. destruct (Z.eqb_spec k id) as [->|]; [reflexivity|exact IH].
Qed.
(* what the new leader serves for a store id is exactly what storage holds for it: the record with its weight keys; nothing else *)
Theorem restart_serves_stored_pf s id : sproj (restart s) id = stored_proj s id.
Proof.
  unfold sproj, stored_proj, sv, sm, restart. cbn [served].
  rewrite (aget_map_entries (fun i m => SStore (m_addr m) (m_state m) (m_pd m) (m_labels m) (m_ver m)
                                         (match aget (st_lw s) i with Some w => w | None => 1 end)
                                         (match aget (st_rw s) i with Some w => w | None => 1 end) 0 false)).
  destruct (aget (st_meta s) id) as [m|]; reflexivity.
Qed.
(* hence: a store whose served record agrees with storage (which every successful change establishes: success_full) is served unchanged by
   the new leader; a tombstone stays a tombstone, an address stays the address *)
Theorem restart_keeps_agreeing_store_pf s id : agree s id -> sproj (restart s) id = sproj s id.
Proof. unfold agree. intros A. rewrite restart_serves_stored_pf. symmetry. exact A. Qed.
Theorem restart_keeps_storage_pf s : st_meta (restart s) = st_meta s /\ st_lw (restart s) = st_lw s /\ st_rw (restart s) = st_rw s.
Proof. unfold restart. cbn. auto. Qed.
Theorem restart_idempotent_pf s id : sproj (restart (restart s)) id = sproj (restart s) id.
Proof. rewrite !restart_serves_stored_pf. reflexivity. Qed.
