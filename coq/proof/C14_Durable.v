(* C14 — durability clauses: what is served is what is stored after every successful change, and a
   failed write leaves the served state alone.  Both are false of the code as it is (model/C14_Store.v
   mirrors it): the refutations and the strongest true statements are proved here. *)
From Coq Require Import String Ascii.
From PDV Require Import lib.Base lib.C14_AList model.C14_Store proof.C14_StoreProof.
Local Open Scope string_scope.
Local Open Scope Z_scope.

(* ---------- projections ---------- *)
(* lifecycle / identity fields of a served record (everything LoadStores can give back) *)
Definition proj (x : sstore) := (s_addr x, s_state x, s_pd x, labels_of (s_cells x), s_ver x, s_lw x, s_rw x).
Definition sproj (s : state) (id : Z) := option_map proj (sv s id).
Definition sm (s : state) (id : Z) : option meta := aget (st_meta s) id.
Definition wl (s : state) (id : Z) : Z := match aget (st_lw s) id with Some w => w | None => 1 end.
Definition wr_ (s : state) (id : Z) : Z := match aget (st_rw s) id with Some w => w | None => 1 end.
(* what a new leader would load for this id *)
Definition stored_proj (s : state) (id : Z) :=
  option_map (fun m => (m_addr m, m_state m, m_pd m, m_labels m, m_ver m, wl s id, wr_ s id)) (sm s id).
Definition agree (s : state) (id : Z) : Prop := sproj s id = stored_proj s id.

(* the meta record in storage is the served one *)
Definition synced (s : state) (id : Z) : Prop :=
  match sv s id with Some x => sm s id = Some (meta_of x) | None => sm s id = None end.
(* the weight keys in storage are the served weights *)
Definition wagree (s : state) (id : Z) : Prop :=
  match sv s id with Some x => s_lw x = wl s id /\ s_rw x = wr_ s id | None => True end.
Definition Winv (s : state) : Prop := forall id, wagree s id.

Lemma synced_wagree_agree s id : synced s id -> wagree s id -> agree s id.
Proof.
  unfold synced, wagree, agree, sproj, stored_proj. destruct (sv s id) as [x|].
  - intros -> [A B]. cbn. unfold proj. rewrite A, B. reflexivity.
  - intros -> _. reflexivity.
Qed.

Lemma map_snd_combine_seq {A} (l : list A) : forall n, map snd (combine (seq n (length l)) l) = l.
Proof. induction l as [|a l IH]; intros n; cbn; [reflexivity|]. rewrite IH. reflexivity. Qed.
Lemma labels_renumber l : labels_of (renumber l) = l.
Proof. unfold labels_of, renumber. apply map_snd_combine_seq. Qed.

(* ---------- field frames of the helpers ---------- *)
Lemma f_roll_add s id : served (roll_add s id) = served s /\ st_meta (roll_add s id) = st_meta s /\
  st_lw (roll_add s id) = st_lw s /\ st_rw (roll_add s id) = st_rw s.
Proof. unfold roll_add. destruct (existsb _ _); cbn; auto. Qed.
Lemma f_version_change s : served (version_change s) = served s /\ st_meta (version_change s) = st_meta s /\
  st_lw (version_change s) = st_lw s /\ st_rw (version_change s) = st_rw s.
Proof. unfold version_change. destruct (min_ver _); [destruct (ver_lt _ _)|]; cbn; auto. Qed.

Definition same_store (a b : state) : Prop :=
  served a = served b /\ st_meta a = st_meta b /\ st_lw a = st_lw b /\ st_rw a = st_rw b.
Lemma same_store_refl a : same_store a a.
Proof. repeat split. Qed.
Lemma same_store_trans a b c : same_store a b -> same_store b c -> same_store a c.
Proof. intros (A&B&C&D) (E&F&G&H). repeat split; congruence. Qed.
Lemma same_store_views a b id : same_store a b ->
  sv a id = sv b id /\ sm a id = sm b id /\ wl a id = wl b id /\ wr_ a id = wr_ b id.
Proof. intros (A&B&C&D). unfold sv, sm, wl, wr_. rewrite A, B, C, D. auto. Qed.

(* ---------- put_locked, completely ---------- *)
Lemma put_locked_full s id x f idx s' ok :
  put_locked s id x f idx = (s', ok) ->
  (forall j, sv s' j = if (ok && (id =? j))%bool then Some x else sv s j) /\
  (ok = true -> sm s' id = Some (meta_of x)) /\
  (forall j, j <> id -> sm s' j = sm s j) /\
  st_lw s' = st_lw s /\ st_rw s' = st_rw s.
Proof.
  intros H. split; [apply (put_locked_sv _ _ _ _ _ _ _ H)|].
  unfold put_locked in H.
  destruct (wr_cases f id idx) as [E|[E|E]]; rewrite E in H; cbn in H; inv H.
  - destruct (f_roll_add (set_served (write_meta s id (meta_of x)) id x) id) as (_&B&C&D).
    unfold sm. rewrite B, C, D. cbn. repeat split; auto.
    + intros _. apply aget_aset_eq.
    + intros j Hj. apply aget_aset_ne. auto.
  - repeat split; auto. discriminate.
  - repeat split; auto; [discriminate|]. intros j Hj. unfold sm; cbn. apply aget_aset_ne. auto.
Qed.

(* ---------- what one command does to one store id, durability view ---------- *)
Definition with_cells (x : sstore) (c : list lcell) : sstore :=
  SStore (s_addr x) (s_state x) (s_pd x) c (s_cap x) (s_ver x) (s_lw x) (s_rw x) (s_rcf x) (s_hbp x) (s_hb x).
(* a put / label update that goes through MergeLabels on store id with the label list ls *)
Definition merging (o : op) (id : Z) (ls : list label) : Prop :=
  match o with
  | OPut _ p _ => p_id p = id /\ p_labels p = ls
  | OLabels i l false _ => i = id /\ l = ls
  | _ => False
  end.

Inductive outcome (s : state) (o : op) (s' : state) (r : res) (id : Z) : Prop :=
| oa_same : sproj s' id = sproj s id -> outcome s o s' r id
| oa_sync : (is_err r = false \/ is_clean o = true) -> synced s' id -> outcome s o s' r id
| oa_inplace old ls : is_err r = true -> merging o id ls -> sv s id = Some old ->
    sv s' id = Some (with_cells old (snd (merge_labels (s_cells old) (s_cap old) ls))) -> outcome s o s' r id.

Lemma sproj_eq s s' id : sv s' id = sv s id -> sproj s' id = sproj s id.
Proof. unfold sproj; intros ->; reflexivity. Qed.

Lemma synced_same_store a b id : same_store a b -> synced b id -> synced a id.
Proof. intros H. destruct (same_store_views _ _ id H) as (A&B&_). unfold synced. rewrite A, B. auto. Qed.

Lemma same_store_version_change s : same_store (version_change s) s.
Proof. apply f_version_change. Qed.
Lemma same_store_roll_del s id : same_store (roll_del s id) s.
Proof. repeat split. Qed.
Lemma same_store_roll_add s id : same_store (roll_add s id) s.
Proof. apply f_roll_add. Qed.

(* generic: a guarded single write through put_locked on the target, nothing else *)
Lemma put_locked_outcome s0 o s id x f idx s' ok r j :
  put_locked s id x f idx = (s', ok) ->
  (forall k, sv s k = sv s0 k) ->
  (ok = true -> is_err r = false) ->
  outcome s0 o s' r j.
Proof.
  intros H Hs Hr. destruct (put_locked_full _ _ _ _ _ _ _ H) as (A&B&C&_&_).
  destruct (Z.eqb_spec id j) as [->|Hne].
  - destruct ok.
    + apply oa_sync; [left; auto|]. unfold synced. rewrite A, Z.eqb_refl. cbn. auto.
    + apply oa_same. apply sproj_eq. rewrite A. cbn. apply Hs.
  - apply oa_same. apply sproj_eq. rewrite A.
    destruct (Z.eqb_spec id j); [contradiction|]. rewrite andb_false_r. apply Hs.
Qed.

Lemma put_impl_outcome s p force f s' r o :
  put_impl s p force f = (s', r) ->
  (force = false -> forall old, sv s (p_id p) = Some old -> merging o (p_id p) (p_labels p)) ->
  forall j, outcome s o s' r j.
Proof.
  unfold put_impl. intros H Hm j.
  destruct (p_id p =? 0); [inv H; apply oa_same; reflexivity|].
  destruct (p_ver p) as [v|]; [|inv H; apply oa_same; reflexivity].
  destruct (negb (compatible (cver s) v)); [inv H; apply oa_same; reflexivity|].
  destruct (dup_addr s (p_id p) (p_addr p)); [inv H; apply oa_same; reflexivity|].
  destruct (sv s (p_id p)) as [old|] eqn:Eold.
  - destruct force.
    + (* forced labels: no merge, nothing happens before the write *)
      match type of H with context [put_locked ?a ?b ?c ?d ?e] => destruct (put_locked a b c d e) as [s1 ok] eqn:Epl end.
      inv H.
      destruct (put_locked_full _ _ _ _ _ _ _ Epl) as (A&B&C&_&_).
      destruct (Z.eqb_spec (p_id p) j) as [<-|Hne].
      * destruct ok.
        -- apply oa_sync; [left; reflexivity|]. unfold synced. rewrite A, Z.eqb_refl. cbn. auto.
        -- apply oa_same. unfold sproj. rewrite A. cbn [andb]. rewrite sv_set_served, Z.eqb_refl, Eold. reflexivity.
      * apply oa_same. apply sproj_eq. rewrite A.
        destruct (Z.eqb_spec (p_id p) j); [contradiction|]. rewrite andb_false_r, sv_set_served.
        destruct (Z.eqb_spec (p_id p) j); [contradiction|reflexivity].
    + destruct (merge_labels (s_cells old) (s_cap old) (p_labels p)) as [ls cells'] eqn:Em.
      match type of H with context [put_locked ?a ?b ?c ?d ?e] => destruct (put_locked a b c d e) as [s1 ok] eqn:Epl end.
      inv H.
      destruct (put_locked_full _ _ _ _ _ _ _ Epl) as (A&B&C&_&_).
      destruct (Z.eqb_spec (p_id p) j) as [<-|Hne].
      * destruct ok.
        -- apply oa_sync; [left; reflexivity|]. unfold synced. rewrite A, Z.eqb_refl. cbn. auto.
        -- eapply oa_inplace; [reflexivity|apply (Hm eq_refl old eq_refl)|exact Eold|].
           rewrite A. cbn [andb]. rewrite sv_set_served, Z.eqb_refl. rewrite Em. reflexivity.
      * apply oa_same. apply sproj_eq. rewrite A.
        destruct (Z.eqb_spec (p_id p) j); [contradiction|]. rewrite andb_false_r, sv_set_served.
        destruct (Z.eqb_spec (p_id p) j); [contradiction|reflexivity].
  - match type of H with context [put_locked ?a ?b ?c ?d ?e] => destruct (put_locked a b c d e) as [s1 ok] eqn:Epl end.
    inv H. eapply put_locked_outcome; [exact Epl|reflexivity|]. intros ->. reflexivity.
Qed.

Lemma outcome_same_store s o s1 s' r j : same_store s' s1 -> outcome s o s1 r j -> outcome s o s' r j.
Proof.
  intros H O. destruct (same_store_views _ _ j H) as (A&B&_).
  destruct O as [E|Hr Hs|old ls Hr Hm Eo En].
  - apply oa_same. unfold sproj in *. rewrite A. exact E.
  - apply oa_sync; [exact Hr|]. eapply synced_same_store; eauto.
  - eapply oa_inplace; eauto. rewrite A. exact En.
Qed.

Lemma outcome_res s o s' r r' j : is_err r = is_err r' -> outcome s o s' r j -> outcome s o s' r' j.
Proof.
  intros H O. destruct O as [E|Hr Hs|old ls Hr Hm Eo En].
  - apply oa_same; auto.
  - apply oa_sync; [rewrite <- H; exact Hr|exact Hs].
  - eapply oa_inplace; [rewrite <- H; exact Hr|exact Hm|exact Eo|exact En].
Qed.

Lemma do_put_outcome s p f s' r g : do_put s p f = (s', r) -> forall j, outcome s (OPut g p f) s' r j.
Proof.
  unfold do_put. destruct (put_impl s p false f) as [s1 r1] eqn:E. intros H j.
  assert (O : outcome s (OPut g p f) s1 r1 j).
  { eapply put_impl_outcome; [exact E|]. intros _ old _. cbn. auto. }
  destruct r1; inv H; try exact O.
  eapply outcome_same_store; [apply same_store_version_change|exact O].
Qed.

Lemma do_labels_outcome s id ls force f s' r :
  do_labels s id ls force f = (s', r) -> forall j, outcome s (OLabels id ls force f) s' r j.
Proof.
  unfold do_labels. destruct (sv s id) as [x|] eqn:E; intros H j; [|inv H; apply oa_same; reflexivity].
  eapply put_impl_outcome; [exact H|]. intros -> old _. cbn. auto.
Qed.

Lemma do_remove_outcome s id pd f s' r o : do_remove s id pd f = (s', r) -> forall j, outcome s o s' r j.
Proof.
  unfold do_remove. destruct (sv s id) as [x|] eqn:E; intros H j; [|inv H; apply oa_same; reflexivity].
  destruct (sstate_eqb (s_state x) Offline && Bool.eqb (s_pd x) pd)%bool; [inv H; apply oa_same; reflexivity|].
  destruct (is_tomb x); [inv H; apply oa_same; reflexivity|].
  destruct (s_pd x); [inv H; apply oa_same; reflexivity|].
  destruct (put_locked s id (with_state x Offline pd) f 0) as [s1 ok] eqn:Epl. inv H.
  eapply put_locked_outcome; [exact Epl|reflexivity|]. intros ->; reflexivity.
Qed.

Lemma do_up_outcome s id f s' r o : do_up s id f = (s', r) -> forall j, outcome s o s' r j.
Proof.
  unfold do_up. destruct (sv s id) as [x|] eqn:E; intros H j; [|inv H; apply oa_same; reflexivity].
  destruct (is_tomb x); [inv H; apply oa_same; reflexivity|].
  destruct (s_pd x) eqn:Ep; [inv H; apply oa_same; reflexivity|].
  destruct (sstate_eqb (s_state x) Up); [inv H; apply oa_same; reflexivity|].
  destruct (put_locked s id (with_state x Up false) f 0) as [s1 ok] eqn:Epl. inv H.
  eapply put_locked_outcome; [exact Epl|reflexivity|]. intros ->; reflexivity.
Qed.

(* buryStore: same store elsewhere; on the target either nothing served changed or it is synced *)
Lemma do_bury_durable s id f s' r :
  do_bury s id f = (s', r) ->
  st_lw s' = st_lw s /\ st_rw s' = st_rw s /\
  (forall j, j <> id -> sv s' j = sv s j /\ sm s' j = sm s j) /\
  (sv s' id = sv s id \/ (r = ROk /\ synced s' id /\ exists y, sv s' id = Some y /\ s_state y = Tombstone)).
Proof.
  unfold do_bury. destruct (sv s id) as [x|] eqn:E; intros H.
  2:{ inv H. repeat split; auto. }
  destruct (is_tomb x); [inv H; rewrite E; repeat split; auto|].
  destruct (sstate_eqb (s_state x) Up); [inv H; rewrite E; repeat split; auto|].
  destruct (put_locked s id (with_state x Tombstone (s_pd x)) f 0) as [s1 ok] eqn:Epl. inv H.
  destruct (put_locked_full _ _ _ _ _ _ _ Epl) as (A&B&C&D&F).
  set (s2 := if ok then roll_del (version_change s1) id else version_change s1).
  assert (SS : same_store s2 s1).
  { subst s2. destruct ok; [eapply same_store_trans; [apply same_store_roll_del|]|]; apply same_store_version_change. }
  destruct SS as (S1&S2&S3&S4).
  split; [rewrite S3; exact D|]. split; [rewrite S4; exact F|]. split.
  - intros j Hj. unfold sv, sm. rewrite S1, S2. fold (sv s1 j) (sm s1 j). rewrite A, (C j Hj).
    destruct (Z.eqb_spec id j); [congruence|]. rewrite andb_false_r. auto.
  - unfold sv at 1. rewrite S1. fold (sv s1 id). rewrite A, Z.eqb_refl, andb_true_r.
    destruct ok; [right|left; exact E]. split; [reflexivity|]. split.
    + unfold synced, sv, sm. rewrite S1, S2. fold (sv s1 id) (sm s1 id). rewrite A, Z.eqb_refl. cbn. auto.
    + unfold sv. rewrite S1. fold (sv s1 id). rewrite A, Z.eqb_refl. cbn. eexists; split; reflexivity.
Qed.

Lemma do_bury_outcome s id f s' r o : do_bury s id f = (s', r) -> forall j, outcome s o s' r j.
Proof.
  intros H j. destruct (do_bury_durable _ _ _ _ _ H) as (_&_&A&B).
  destruct (Z.eqb_spec j id) as [->|Hne].
  - destruct B as [B|[-> [B _]]]; [apply oa_same, sproj_eq; exact B|apply oa_sync; auto].
  - apply oa_same, sproj_eq, A; exact Hne.
Qed.

(* checkStores *)
Definition dur_rel (s acc : state) : Prop :=
  st_lw acc = st_lw s /\ st_rw acc = st_rw s /\
  forall j, (sv acc j = sv s j) \/ (synced acc j /\ exists y, sv acc j = Some y /\ s_state y = Tombstone).

Lemma check_one_dur s f acc e : dur_rel s acc -> dur_rel s (check_one f acc e).
Proof.
  intros (L&R&D). unfold check_one.
  destruct (sv acc e) as [x|] eqn:Ex; [|repeat split; auto].
  destruct (is_tomb x || sstate_eqb (s_state x) Up)%bool eqn:Eg; [repeat split; auto|].
  destruct (tree_count acc e =? 0); [|repeat split; auto].
  destruct (do_bury acc e f) as [s1 r1] eqn:Eb. cbn [fst].
  destruct (do_bury_durable _ _ _ _ _ Eb) as (L1&R1&A&B).
  split; [congruence|]. split; [congruence|]. intros j.
  destruct (Z.eqb_spec j e) as [->|Hne].
  - destruct B as [B|[_ B]]; [|right; exact B].
    destruct (D e) as [D1|[_ [y [Ey Ty]]]]; [left; congruence|].
    (* it was not a tombstone in acc, since it passed the guard *)
    rewrite Ex in Ey. inv Ey. apply orb_false_iff in Eg as [Eg _]. apply is_tomb_false in Eg. contradiction.
  - destruct (A j Hne) as [A1 A2]. destruct (D j) as [D1|[D1 [y [Ey Ty]]]]; [left; congruence|].
    right. split; [|exists y; split; congruence]. unfold synced in *. rewrite A1, A2. exact D1.
Qed.

Lemma do_check_dur s order f : dur_rel s (do_check s order f).
Proof.
  unfold do_check. generalize (order ++ map fst (served s))%list. intros l.
  assert (G : forall l acc, dur_rel s acc -> dur_rel s (fold_left (check_one f) l acc)).
  { induction l0 as [|e l0 IH]; intros acc R; cbn [fold_left]; [exact R|]. apply IH, check_one_dur, R. }
  apply G. repeat split. intros j; left; reflexivity.
Qed.

Lemma do_check_outcome s order f j : outcome s (OCheck order f) (do_check s order f) RNone j.
Proof.
  destruct (do_check_dur s order f) as (_&_&D). destruct (D j) as [E|[E _]].
  - apply oa_same, sproj_eq, E.
  - apply oa_sync; [left; reflexivity|exact E].
Qed.

Lemma do_weight_outcome s id lw rw f s' r o : do_weight s id lw rw f = (s', r) -> forall j, outcome s o s' r j.
Proof.
  unfold do_weight. destruct (sv s id) as [x|] eqn:E; intros H j; [|inv H; apply oa_same; reflexivity].
  destruct (wr f id 0) as [a0 ok0]. destruct ok0; cbn [negb] in H.
  2:{ inv H. apply oa_same, sproj_eq. destruct a0; reflexivity. }
  destruct (wr f id 1) as [a1 ok1]. destruct ok1; cbn [negb] in H.
  2:{ inv H. apply oa_same, sproj_eq. destruct a0, a1; reflexivity. }
  match type of H with context [put_locked ?a ?b ?c ?d ?e] => destruct (put_locked a b c d e) as [s2 ok] eqn:Epl end.
  inv H. eapply put_locked_outcome; [exact Epl| |intros ->; reflexivity].
  intros k. destruct a0, a1; reflexivity.
Qed.

(* RemoveTombStoneRecords *)
Lemma clean_loop_dur f order : forall s s' r,
  clean_loop s order f = (s', r) ->
  st_lw s' = st_lw s /\ st_rw s' = st_rw s /\
  forall j, (sv s' j = sv s j /\ (sv s j = None -> sm s' j = sm s j)) \/ (sv s' j = None /\ sm s' j = None).
Proof.
  induction order as [|id rest IH]; intros s s' r H; cbn [clean_loop] in H; [inv H; repeat split; auto|].
  destruct (sv s id) as [x|] eqn:E; [|eapply IH; eauto].
  destruct (is_tomb x && (s_rcf x <=? 0))%bool; [|eapply IH; eauto].
  destruct (wr_cases f id 0) as [W|[W|W]]; rewrite W in H.
  - destruct (IH _ _ _ H) as (L&R&D). split; [exact L|]. split; [exact R|]. intros j.
    destruct (Z.eqb_spec id j) as [->|Hne].
    + right. destruct (D j) as [[D1 D2]|D1]; [|exact D1].
      rewrite sv_del_served, Z.eqb_refl in D1, D2. split; [exact D1|].
      rewrite (D2 eq_refl). unfold sm; cbn. apply aget_adel_eq.
    + destruct (D j) as [[D1 D2]|D1]; [left|right; exact D1].
      rewrite sv_del_served in D1, D2. destruct (Z.eqb_spec id j); [contradiction|].
      split; [exact D1|]. intros Hn. rewrite (D2 Hn). unfold sm; cbn. apply aget_adel_ne; auto.
  - inv H. repeat split; auto.
  - inv H. split; [reflexivity|]. split; [reflexivity|]. intros j. left. split; [reflexivity|].
    intros Hn. unfold sm; cbn. apply aget_adel_ne. intros ->. congruence.
Qed.

Lemma do_clean_outcome s order f s' r : do_clean s order f = (s', r) -> forall j, outcome s (OClean order f) s' r j.
Proof.
  unfold do_clean. destruct (clean_loop s order f) as [s1 r1] eqn:E. intros H j.
  assert (s' = s1) as -> by (destruct r1; try (inv H; reflexivity); destruct (cleanable s1); inv H; reflexivity).
  destruct (clean_loop_dur _ _ _ _ _ E) as (_&_&D). destruct (D j) as [[D1 _]|[D1 D2]].
  - apply oa_same, sproj_eq, D1.
  - apply oa_sync; [right; reflexivity|]. unfold synced. rewrite D1. exact D2.
Qed.

Lemma do_heartbeat_outcome s id f s' r o : do_heartbeat s id f = (s', r) -> forall j, outcome s o s' r j.
Proof.
  unfold do_heartbeat. destruct (sv s id) as [x|] eqn:E; intros H j; [|inv H; apply oa_same; reflexivity].
  destruct (is_tomb x); [inv H; apply oa_same; reflexivity|].
  destruct (if s_hbp x then (false, true) else wr f id 0) as [applied ok].
  match type of H with context [roll_add ?a ?b] => set (s2 := roll_add a b) in * end.
  assert (Es : sproj s2 j = sproj s j).
  { unfold sproj. subst s2. rewrite sv_roll_add, sv_set_served.
    assert (Ea : sv (if applied then write_meta s id (meta_of x) else s) j = sv s j) by (destruct applied; reflexivity).
    rewrite Ea. destruct (Z.eqb_spec id j) as [<-|]; [|reflexivity]. rewrite E. cbn. unfold proj. cbn.
    rewrite labels_renumber. reflexivity. }
  apply oa_same. rewrite <- Es. apply sproj_eq.
  destruct (existsb _ (rolling s2)); inv H; reflexivity.
Qed.

Lemma refresh_rcf_sproj s id j : sproj (refresh_rcf s id) j = sproj s j.
Proof.
  unfold refresh_rcf, sproj. destruct (sv s id) as [x|] eqn:E; [|reflexivity].
  rewrite sv_set_served. destruct (Z.eqb_spec id j) as [<-|]; [|reflexivity]. rewrite E. reflexivity.
Qed.
Lemma do_region_sproj s r stores j : sproj (do_region s r stores) j = sproj s j.
Proof.
  unfold do_region. set (s1 := set_regions s (aset (regions s) r stores)).
  assert (G : forall l a, sproj (fold_left refresh_rcf l a) j = sproj a j).
  { induction l as [|i l IH]; intros a; cbn [fold_left]; [reflexivity|]. rewrite IH. apply refresh_rcf_sproj. }
  rewrite G. reflexivity.
Qed.

(* ---------- every command, every id ---------- *)
Theorem run_cmd_outcome s o s' r : run_cmd s o = (s', r) -> forall j, outcome s o s' r j.
Proof.
  unfold run_cmd. destruct (crashed s); [intros H; inv H; intros j; apply oa_same; reflexivity|].
  destruct o as [g p f|id ls force f|id pd f|id f|id f|corder f|id lw rw f|order f|id f|rg stores]; cbn [run_cmd0]; intros H.
  - destruct g.
    + destruct (sv s (p_id p)) as [x|] eqn:E.
      * destruct (is_tomb x); [inv H; intros j; apply oa_same; reflexivity|]. eapply do_put_outcome; eauto.
      * eapply do_put_outcome; eauto.
    + eapply do_put_outcome; eauto.
  - eapply do_labels_outcome; eauto.
  - eapply do_remove_outcome; eauto.
  - eapply do_up_outcome; eauto.
  - eapply do_bury_outcome; eauto.
  - inv H. apply do_check_outcome.
  - eapply do_weight_outcome; eauto.
  - eapply do_clean_outcome; eauto.
  - eapply do_heartbeat_outcome; eauto.
  - inv H. intros j. apply oa_same. apply do_region_sproj.
Qed.

(* ---------- the weight keys ---------- *)
(* the excluded class of the partial theorem: a SetStoreWeight whose writes are faulted, and a new
   registration of an id whose weight keys are still in storage (left there by the tombstone cleanup) *)
Definition op_hazard_free (s : state) (o : op) : Prop :=
  match o with
  | OWeight _ _ _ f => f = NoFault
  | OPut _ p _ => sv s (p_id p) = None -> aget (st_lw s) (p_id p) = None /\ aget (st_rw s) (p_id p) = None
  | _ => True
  end.

Definition wf_rel (s s' : state) : Prop :=
  st_lw s' = st_lw s /\ st_rw s' = st_rw s /\
  forall id y, sv s' id = Some y -> exists x, sv s id = Some x /\ s_lw y = s_lw x /\ s_rw y = s_rw x.
Lemma wf_rel_refl s : wf_rel s s.
Proof. repeat split. intros id y E; eauto. Qed.
Lemma wf_rel_trans a b c : wf_rel a b -> wf_rel b c -> wf_rel a c.
Proof.
  intros (A1&A2&A3) (B1&B2&B3). split; [congruence|]. split; [congruence|].
  intros id z E. destruct (B3 _ _ E) as (y&Ey&L1&R1). destruct (A3 _ _ Ey) as (x&Ex&L2&R2).
  exists x. repeat split; congruence.
Qed.
Lemma wf_rel_same_store s s' : same_store s' s -> wf_rel s s'.
Proof.
  intros (A&B&C&D). split; [exact C|]. split; [exact D|]. intros id y E. unfold sv in *. rewrite A in E. eauto.
Qed.
Lemma Winv_wf s s' : Winv s -> wf_rel s s' -> Winv s'.
Proof.
  intros I (A&B&C) id. unfold wagree. destruct (sv s' id) as [y|] eqn:E; [|exact Logic.I].
  destruct (C _ _ E) as (x&Ex&L&R). specialize (I id). unfold wagree in I. rewrite Ex in I.
  unfold wl, wr_ in *. rewrite A, B. destruct I; split; congruence.
Qed.

Lemma put_locked_wf s id x0 x f idx s' ok :
  put_locked s id x f idx = (s', ok) -> sv s id = Some x0 -> s_lw x = s_lw x0 -> s_rw x = s_rw x0 -> wf_rel s s'.
Proof.
  intros H E L R. destruct (put_locked_full _ _ _ _ _ _ _ H) as (A&_&_&D&F).
  split; [exact D|]. split; [exact F|]. intros j y Ej. rewrite A in Ej.
  destruct (ok && (id =? j))%bool eqn:Eg; [|eauto].
  apply andb_true_iff in Eg as [_ Eg]. apply Z.eqb_eq in Eg. subst j. inv Ej. eauto.
Qed.

Lemma set_served_wf s id x0 x : sv s id = Some x0 -> s_lw x = s_lw x0 -> s_rw x = s_rw x0 -> wf_rel s (set_served s id x).
Proof.
  intros E L R. repeat split. intros j y Ej. rewrite sv_set_served in Ej.
  destruct (Z.eqb_spec id j) as [<-|]; [inv Ej; eauto|eauto].
Qed.

Lemma put_impl_wf s p force f s' r :
  put_impl s p force f = (s', r) ->
  (sv s (p_id p) = None -> aget (st_lw s) (p_id p) = None /\ aget (st_rw s) (p_id p) = None) ->
  Winv s -> Winv s'.
Proof.
  unfold put_impl. intros H Hz I.
  destruct (p_id p =? 0); [inv H; exact I|].
  destruct (p_ver p) as [v|]; [|inv H; exact I].
  destruct (negb (compatible (cver s) v)); [inv H; exact I|].
  destruct (dup_addr s (p_id p) (p_addr p)); [inv H; exact I|].
  destruct (sv s (p_id p)) as [old|] eqn:Eold.
  - destruct (if force then (p_labels p, s_cells old) else merge_labels (s_cells old) (s_cap old) (p_labels p)) as [ls cells'].
    match type of H with context [put_locked ?a ?b ?c ?d ?e] => destruct (put_locked a b c d e) as [s1 ok] eqn:Epl end.
    inv H. eapply Winv_wf; [exact I|]. eapply wf_rel_trans.
    2:{ eapply put_locked_wf; [exact Epl|rewrite sv_set_served, Z.eqb_refl; reflexivity|reflexivity|reflexivity]. }
    eapply (set_served_wf s (p_id p) old); [exact Eold|reflexivity|reflexivity].
  - match type of H with context [put_locked ?a ?b ?c ?d ?e] => destruct (put_locked a b c d e) as [s1 ok] eqn:Epl end.
    inv H. destruct (put_locked_full _ _ _ _ _ _ _ Epl) as (A&_&_&D&F). destruct (Hz eq_refl) as [Z1 Z2].
    intros j. unfold wagree. rewrite A.
    destruct (ok && (p_id p =? j))%bool eqn:Eg.
    + apply andb_true_iff in Eg as [_ Eg]. apply Z.eqb_eq in Eg. subst j.
      unfold wl, wr_. rewrite D, F, Z1, Z2. cbn. auto.
    + specialize (I j). unfold wagree, wl, wr_ in *. rewrite D, F. exact I.
Qed.

Lemma Winv_same_store s s' : same_store s' s -> Winv s -> Winv s'.
Proof. intros H I. eapply Winv_wf; [exact I|apply wf_rel_same_store; exact H]. Qed.

Lemma do_bury_wf s id f s' r : do_bury s id f = (s', r) -> wf_rel s s'.
Proof.
  unfold do_bury. destruct (sv s id) as [x|] eqn:E; intros H; [|inv H; apply wf_rel_refl].
  destruct (is_tomb x); [inv H; apply wf_rel_refl|].
  destruct (sstate_eqb (s_state x) Up); [inv H; apply wf_rel_refl|].
  destruct (put_locked s id (with_state x Tombstone (s_pd x)) f 0) as [s1 ok] eqn:Epl. inv H.
  eapply wf_rel_trans; [eapply put_locked_wf; [exact Epl|exact E|reflexivity|reflexivity]|].
  apply wf_rel_same_store. destruct ok; [eapply same_store_trans; [apply same_store_roll_del|]|]; apply same_store_version_change.
Qed.

Lemma do_check_wf s order f : wf_rel s (do_check s order f).
Proof.
  unfold do_check. generalize (order ++ map fst (served s))%list. intros l.
  assert (G : forall l acc, wf_rel s acc -> wf_rel s (fold_left (check_one f) l acc)).
  { induction l0 as [|e l0 IH]; intros acc R; cbn [fold_left]; [exact R|]. apply IH.
    unfold check_one. destruct (sv acc e) as [x|]; [|exact R].
    destruct (is_tomb x || sstate_eqb (s_state x) Up)%bool; [exact R|].
    destruct (tree_count acc e =? 0); [|exact R].
    destruct (do_bury acc e f) as [s1 r1] eqn:Eb. cbn [fst].
    eapply wf_rel_trans; [exact R|eapply do_bury_wf; eauto]. }
  apply G, wf_rel_refl.
Qed.

Lemma clean_loop_wf f order : forall s s' r, clean_loop s order f = (s', r) -> wf_rel s s'.
Proof.
  induction order as [|id rest IH]; intros s s' r H; cbn [clean_loop] in H; [inv H; apply wf_rel_refl|].
  destruct (sv s id) as [x|] eqn:E; [|eapply IH; eauto].
  destruct (is_tomb x && (s_rcf x <=? 0))%bool; [|eapply IH; eauto].
  destruct (wr_cases f id 0) as [W|[W|W]]; rewrite W in H.
  - eapply wf_rel_trans; [|eapply IH; exact H].
    repeat split. intros j y Ej. rewrite sv_del_served in Ej. destruct (id =? j); [discriminate|]. eauto.
  - inv H. apply wf_rel_refl.
  - inv H. repeat split. intros j y Ej. eauto.
Qed.

Lemma refresh_rcf_wf s id : wf_rel s (refresh_rcf s id).
Proof.
  unfold refresh_rcf. destruct (sv s id) as [x|] eqn:E; [|apply wf_rel_refl].
  eapply set_served_wf; [exact E|reflexivity|reflexivity].
Qed.

Theorem winv_step s o s' r : Winv s -> op_hazard_free s o -> run_cmd s o = (s', r) -> Winv s'.
Proof.
  unfold run_cmd. destruct (crashed s); [intros I _ H; inv H; exact I|].
  destruct o as [g p f|id ls force f|id pd f|id f|id f|corder f|id lw rw f|order f|id f|rg stores]; cbn [run_cmd0 op_hazard_free]; intros I Hz H.
  - assert (P : forall s1 r1, do_put s p f = (s1, r1) -> Winv s1).
    { unfold do_put. destruct (put_impl s p false f) as [s1 r1] eqn:E. intros s2 r2 H2.
      pose proof (put_impl_wf _ _ _ _ _ _ E Hz I) as I1.
      destruct r1; inv H2; try exact I1. eapply Winv_same_store; [apply same_store_version_change|exact I1]. }
    destruct g; [destruct (sv s (p_id p)) as [x|]; [destruct (is_tomb x); [inv H; exact I|]|]|]; eapply P; eauto.
  - unfold do_labels in H. destruct (sv s id) as [x|] eqn:E; [|inv H; exact I].
    eapply put_impl_wf; [exact H| |exact I]. cbn. intros Hn. congruence.
  - unfold do_remove in H. destruct (sv s id) as [x|] eqn:E; [|inv H; exact I].
    destruct (sstate_eqb (s_state x) Offline && Bool.eqb (s_pd x) pd)%bool; [inv H; exact I|].
    destruct (is_tomb x); [inv H; exact I|]. destruct (s_pd x); [inv H; exact I|].
    destruct (put_locked s id (with_state x Offline pd) f 0) as [s1 ok] eqn:Epl. inv H.
    eapply Winv_wf; [exact I|eapply put_locked_wf; [exact Epl|exact E|reflexivity|reflexivity]].
  - unfold do_up in H. destruct (sv s id) as [x|] eqn:E; [|inv H; exact I].
    destruct (is_tomb x); [inv H; exact I|]. destruct (s_pd x); [inv H; exact I|].
    destruct (sstate_eqb (s_state x) Up); [inv H; exact I|].
    destruct (put_locked s id (with_state x Up false) f 0) as [s1 ok] eqn:Epl. inv H.
    eapply Winv_wf; [exact I|eapply put_locked_wf; [exact Epl|exact E|reflexivity|reflexivity]].
  - eapply Winv_wf; [exact I|eapply do_bury_wf; eauto].
  - inv H. eapply Winv_wf; [exact I|apply do_check_wf].
  - subst f. unfold do_weight in H. destruct (sv s id) as [x|] eqn:E; [|inv H; exact I].
    cbn [wr negb] in H.
    match type of H with context [put_locked ?a ?b ?c ?d ?e] => destruct (put_locked a b c d e) as [s2 ok] eqn:Epl end.
    inv H. unfold put_locked in Epl. cbn [wr] in Epl. inv Epl.
    intros j. unfold wagree. rewrite sv_roll_add, sv_set_served.
    destruct (f_roll_add (set_served (write_meta (write_rw (write_lw s id lw) id rw) id
       (meta_of (SStore (s_addr x) (s_state x) (s_pd x) (renumber (labels_of (s_cells x))) (length (s_cells x)) (s_ver x) lw rw (s_rcf x) (s_hbp x) (s_hb x)))) id
       (SStore (s_addr x) (s_state x) (s_pd x) (renumber (labels_of (s_cells x))) (length (s_cells x)) (s_ver x) lw rw (s_rcf x) (s_hbp x) (s_hb x))) id) as (_&_&C&D).
    unfold wl, wr_. rewrite C, D. cbn [st_lw st_rw set_served write_meta write_rw write_lw].
    rewrite !aget_aset. destruct (Z.eqb_spec id j) as [<-|Hne].
    + cbn. auto.
    + specialize (I j). unfold wagree, wl, wr_ in I. exact I.
  - unfold do_clean in H. destruct (clean_loop s order f) as [s1 r1] eqn:E.
    assert (s' = s1) as -> by (destruct r1; try (inv H; reflexivity); destruct (cleanable s1); inv H; reflexivity).
    eapply Winv_wf; [exact I|eapply clean_loop_wf; eauto].
  - unfold do_heartbeat in H. destruct (sv s id) as [x|] eqn:E; [|inv H; exact I].
    destruct (is_tomb x); [inv H; exact I|].
    destruct (if s_hbp x then (false, true) else wr f id 0) as [applied ok].
    match type of H with context [roll_add ?a ?b] => set (s2 := roll_add a b) in * end.
    assert (W2 : wf_rel s s2).
    { subst s2. eapply wf_rel_trans; [|apply wf_rel_same_store, same_store_roll_add].
      eapply wf_rel_trans; [|eapply (set_served_wf _ id x); [|reflexivity|reflexivity]].
      - destruct applied; (split; [reflexivity|split; [reflexivity|intros j y Ej; eauto]]).
      - destruct applied; exact E. }
    eapply Winv_wf; [exact I|]. eapply wf_rel_trans; [exact W2|]. apply wf_rel_same_store.
    destruct (existsb _ (rolling s2)); inv H; repeat split.
  - inv H. eapply Winv_wf; [exact I|]. unfold do_region.
    set (s1 := set_regions s (aset (regions s) rg stores)).
    assert (G : forall l a, wf_rel s a -> wf_rel s (fold_left refresh_rcf l a)).
    { induction l as [|i l IH]; intros a Ha; cbn [fold_left]; [exact Ha|]. apply IH.
      eapply wf_rel_trans; [exact Ha|apply refresh_rcf_wf]. }
    apply G. apply wf_rel_same_store. repeat split.
Qed.

(* ---------- histories ---------- *)
Definition reach (cv : ver) (p : payload) (ops : list op) : state := run_state run_op (boot cv p) ops.

Fixpoint hazard_free (s : state) (ops : list op) : Prop :=
  match ops with [] => True | o :: r => op_hazard_free s o /\ hazard_free (fst (run_cmd s o)) r end.

Lemma Winv_boot cv p : Winv (boot cv p).
Proof.
  intros id. unfold wagree, sv, boot. cbn. destruct (p_id p =? id); [|exact I]. cbn. auto.
Qed.

Lemma run_op_state s o : fst (run_op s o) = fst (run_cmd s o).
Proof. unfold run_op. destruct (run_cmd s o); reflexivity. Qed.

Lemma Winv_run s ops : Winv s -> hazard_free s ops -> Winv (run_state run_op s ops).
Proof.
  revert s; induction ops as [|o r IH]; intros s I H; cbn [run_state]; [exact I|].
  destruct H as [H1 H2]. rewrite run_op_state. apply IH; [|exact H2].
  destruct (run_cmd s o) as [s1 r1] eqn:E. cbn [fst]. eapply winv_step; eauto.
Qed.

(* statement 4: after every successful change the stored record equals the served record *)
Lemma success_step s o s' r :
  Winv s -> op_hazard_free s o -> run_cmd s o = (s', r) -> (is_err r = false \/ is_clean o = true) ->
  forall id, sproj s' id <> sproj s id -> agree s' id.
Proof.
  intros I Hz H Hr id Hc. pose proof (winv_step _ _ _ _ I Hz H) as I'.
  destruct (run_cmd_outcome _ _ _ _ H id) as [E|_ Hs|old ls He Hm _ _].
  - contradiction.
  - apply synced_wagree_agree; [exact Hs|apply I'].
  - exfalso. destruct Hr as [Hr|Hr]; [congruence|].
    destruct o; cbn in Hr, Hm; try discriminate; contradiction.
Qed.

Theorem success_partial_pf cv p ops o s' r :
  hazard_free (boot cv p) (ops ++ [o]) -> run_cmd (reach cv p ops) o = (s', r) ->
  (is_err r = false \/ is_clean o = true) ->
  forall id, sproj s' id <> sproj (reach cv p ops) id -> agree s' id.
Proof.
  intros Hz H. unfold reach in *.
  assert (G : forall s, Winv s -> hazard_free s (ops ++ [o]) ->
            Winv (run_state run_op s ops) /\ op_hazard_free (run_state run_op s ops) o).
  { clear. induction ops as [|a r IH]; intros s I H; cbn [app hazard_free run_state] in *.
    - destruct H; auto.
    - destruct H as [H1 H2]. rewrite run_op_state. apply IH; [|exact H2].
      destruct (run_cmd s a) as [s1 r1] eqn:E. cbn [fst]. eapply winv_step; eauto. }
  destruct (G _ (Winv_boot cv p) Hz) as [I Ho]. eapply success_step; eauto.
Qed.

Lemma changed_meta_is_stored_pf s o s' r :
  run_cmd s o = (s', r) -> (is_err r = false \/ is_clean o = true) ->
  forall id, sproj s' id <> sproj s id -> synced s' id.
Proof.
  intros H Hr id Hc. destruct (run_cmd_outcome _ _ _ _ H id) as [E|_ Hs|old ls He Hm _ _]; [contradiction|exact Hs|].
  exfalso. destruct Hr as [Hr|Hr]; [congruence|]. destruct o; cbn in Hr, Hm; try discriminate; contradiction.
Qed.

(* statement 5: a failed operation leaves the served state unchanged *)
Definition op_merge_inert (s : state) (o : op) : Prop :=
  forall id ls old, merging o id ls -> sv s id = Some old ->
    labels_of (snd (merge_labels (s_cells old) (s_cap old) ls)) = labels_of (s_cells old).

Lemma failed_only_labels_pf s o s' r :
  run_cmd s o = (s', r) -> is_err r = true -> is_clean o = false ->
  forall id, sproj s' id = sproj s id \/
             exists old ls, merging o id ls /\ sv s id = Some old /\
                            sv s' id = Some (with_cells old (snd (merge_labels (s_cells old) (s_cap old) ls))).
Proof.
  intros H He Hc id. destruct (run_cmd_outcome _ _ _ _ H id) as [E|Hr _|old ls _ Hm Eo En].
  - left; exact E.
  - destruct Hr; congruence.
  - right. exists old, ls. auto.
Qed.

Theorem failed_partial_pf s o s' r :
  run_cmd s o = (s', r) -> is_err r = true -> is_clean o = false -> op_merge_inert s o ->
  forall id, sproj s' id = sproj s id.
Proof.
  intros H He Hc Hi id. destruct (failed_only_labels_pf _ _ _ _ H He Hc id) as [E|(old&ls&Hm&Eo&En)]; [exact E|].
  unfold sproj. rewrite En, Eo. cbn [option_map]. unfold proj, with_cells. cbn [s_addr s_state s_pd s_cells s_ver s_lw s_rw]. rewrite (Hi _ _ _ Hm Eo). reflexivity.
Qed.

(* the cleanup, when it stops at a storage error: what it already removed is gone from both sides *)
Lemma clean_error_pf s order f s' r :
  run_cmd s (OClean order f) = (s', r) -> forall id, sproj s' id = sproj s id \/ synced s' id.
Proof.
  intros H id. destruct (run_cmd_outcome _ _ _ _ H id) as [E|_ Hs|old ls _ Hm _ _]; auto. cbn in Hm. contradiction.
Qed.

(* ---------- the two full statements and their refutations ---------- *)
Definition success_full : Prop :=
  forall cv p ops o s' r, run_cmd (reach cv p ops) o = (s', r) -> (is_err r = false \/ is_clean o = true) ->
    forall id, sproj s' id <> sproj (reach cv p ops) id -> agree s' id.

Definition failed_full : Prop :=
  forall cv p ops o s' r, run_cmd (reach cv p ops) o = (s', r) -> is_err r = true -> is_clean o = false ->
    forall id, sproj s' id = sproj (reach cv p ops) id.

Definition boot1 : payload := Payload 1 "a1" Up false [("zone", "z1"); ("host", "h1")] (Some (4, 0, 0)).

(* SetStoreWeight whose second write fails (the leader-weight key is already written), then any
   successful change of that store: storage says leader weight 3, the served record says 1 *)
Definition w_weight : list op := [OWeight 1 3 4 (Fault 1 1 FBefore)].
(* weights 3/4, offline, buried, record removed, id registered again: served 1/1, reloaded 3/4 *)
Definition w_cleanup : list op :=
  [OWeight 1 3 4 NoFault; OPut false (Payload 2 "a2" Up false [] (Some (4, 0, 0))) NoFault;
   ORemove 1 false NoFault; OCheck [1] NoFault; OClean [1] NoFault].

Lemma success_refuted_pf : ~ success_full.
Proof.
  intros H.
  specialize (H (0, 0, 0) boot1 w_weight (ORemove 1 false NoFault)).
  destruct (run_cmd (reach (0, 0, 0) boot1 w_weight) (ORemove 1 false NoFault)) as [s' r] eqn:E.
  specialize (H s' r eq_refl). vm_compute in E. inv E.
  specialize (H (or_introl eq_refl) 1). vm_compute in H.
  assert (A : Some ("a1", Offline, false, [("zone", "z1"); ("host", "h1")], (4, 0, 0), 1, 1) <>
              Some ("a1", Up, false, [("zone", "z1"); ("host", "h1")], (4, 0, 0), 1, 1)) by discriminate.
  specialize (H A). discriminate H.
Qed.

Lemma success_refuted_cleanup_pf :
  exists s' r, run_cmd (reach (0, 0, 0) boot1 w_cleanup) (OPut false (Payload 1 "a1" Up false [] (Some (4, 0, 0))) NoFault) = (s', r)
    /\ r = ROk /\ sproj s' 1 <> sproj (reach (0, 0, 0) boot1 w_cleanup) 1 /\ ~ agree s' 1.
Proof.
  eexists; eexists. split; [vm_compute; reflexivity|]. split; [reflexivity|]. split.
  - vm_compute. discriminate.
  - unfold agree. vm_compute. discriminate.
Qed.

(* a non-forced put on an existing store whose save fails: MergeLabels has already overwritten the
   served label in place (zone z1 -> z2) *)
Lemma failed_refuted_pf : ~ failed_full.
Proof.
  intros H.
  specialize (H (0, 0, 0) boot1 [] (OPut false (Payload 1 "a1" Up false [("zone", "z2")] (Some (4, 0, 0))) (Fault 1 0 FBefore))).
  match type of H with forall s' r, ?t = _ -> _ => destruct t as [s' r] eqn:E end.
  specialize (H s' r eq_refl). vm_compute in E. inv E.
  specialize (H eq_refl eq_refl 1). vm_compute in H. discriminate H.
Qed.
