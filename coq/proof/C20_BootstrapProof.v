(* C20 — proofs about model/C20_Bootstrap.v *)
From Coq Require Import String.
From PDV Require Import lib.Base lib.Skel lib.C15_Guard gen.Gen_C20 model.C20_Bootstrap.
Local Open Scope Z_scope.

Ltac inj_some :=
  repeat match goal with
  | H : Some _ = Some _ |- _ => inversion H; subst; clear H
  | H : None = Some _ |- _ => discriminate H
  | H : Some _ = None |- _ => discriminate H
  end.

Definition num (x : pc) : nat := match x with PAfterRc n _ | PWon n _ => n end.
Definition pay (x : pc) : payload := match x with PAfterRc _ p | PWon _ p => p end.

(* the bootstrap record: absent, or written completely by one request w with a valid payload *)
Definition rec_ok (s : state) : Prop :=
  (root (e s) = None /\ btime (e s) = None /\ stores (e s) = [] /\ regions (e s) = [] /\ applied s = [])
  \/ (exists w p, root (e s) = Some w /\ btime (e s) = Some w /\ stores (e s) = [(store_of p, w)]
        /\ regions (e s) = [(region_of p, w)] /\ applied s = [w] /\ In (w, p) (reqs s) /\ check_req p = None).

Record Inv (s : state) : Prop := {
  i_rec  : rec_ok s;
  i_ack  : forall n, In n (acked s) -> applied s = [n];
  i_nodup : NoDup (acked s);
  i_won  : forall t n p, thr s t = Some (PWon n p) -> applied s = [n] /\ ~ In n (acked s);
  i_thr  : forall t x, thr s t = Some x -> (num x < nreq s)%nat /\ In (num x, pay x) (reqs s) /\ check_req (pay x) = None;
  i_inj  : forall t t' x x', thr s t = Some x -> thr s t' = Some x' -> num x = num x' -> t = t';
  i_reqs : forall n p, In (n, p) (reqs s) -> (n < nreq s)%nat;
  i_run  : running s = true -> root (e s) <> None;
  i_done : forall n, In n (done_ok s) -> root (e s) <> None;
  i_cid  : forall m v, mids s m = Some v -> cid (e s) = Some v
}.

Lemma inv_init c : Inv (init c).
Proof.
  constructor; cbn; intros; try contradiction; try discriminate.
  - left. repeat split; reflexivity.
  - constructor.
Qed.

Lemma set_thr_eq s t x j : set_thr s t x j = if Nat.eqb j t then x else thr s j.
Proof. reflexivity. Qed.

(* labels that touch neither the record, nor the threads, nor the ghosts of the bootstrap part *)
Lemma inv_begin s t hid p s' : Inv s -> step s (LBegin t hid p) = Some s' -> Inv s'.
Proof.
  intros I H. cbn in H. destruct (thr s t) eqn:Et; [discriminate|].
  destruct (negb (hid =? scid s)); [inj_some; exact I|].
  destruct (running s); [inj_some; exact I|].
  destruct (check_req p) eqn:Ec; [inj_some; exact I|]. inj_some.
  destruct I. constructor; cbn; auto.
  - destruct i_rec0 as [H0|(w & q & H1 & H2 & H3 & H4 & H5 & H6 & H7)]; [left; exact H0|].
    right. exists w, q. repeat split; auto. right; exact H6.
  - intros t' n q. rewrite set_thr_eq. destruct (Nat.eqb t' t); [discriminate|apply i_won0].
  - intros t' x. rewrite set_thr_eq. destruct (Nat.eqb t' t); intros Hx.
    + inj_some. cbn. repeat split; [lia | left; reflexivity | exact Ec].
    + destruct (i_thr0 _ _ Hx) as (Ha & Hb & Hc). repeat split; [lia | right; exact Hb | exact Hc].
  - intros t1 t2 x x'. rewrite !set_thr_eq.
    destruct (Nat.eqb_spec t1 t), (Nat.eqb_spec t2 t); intros H1 H2 Hn; subst; auto.
    + inj_some. cbn in Hn. destruct (i_thr0 _ _ H2) as (Ha & _). lia.
    + inj_some. cbn in Hn. destruct (i_thr0 _ _ H1) as (Ha & _). lia.
    + eapply i_inj0; eauto.
  - intros n q [Hq|Hq]; [inversion Hq; subst; lia | specialize (i_reqs0 _ _ Hq); lia].
  - discriminate.
Qed.

Lemma inv_drop_thr s t done' :
  Inv s -> (forall n, In n done' -> root (e s) <> None) ->
  Inv (State (e s) (scid s) (running s) (set_thr s t None) (nreq s) (reqs s) (applied s) (acked s) done' (mpend s) (mids s)).
Proof.
  intros I Hd. destruct I. constructor; cbn.
  - destruct i_rec0 as [H0|H0]; [left|right]; exact H0.
  - exact i_ack0.
  - exact i_nodup0.
  - intros t' n' q. rewrite set_thr_eq. destruct (Nat.eqb t' t); [discriminate|apply i_won0].
  - intros t' x. rewrite set_thr_eq. destruct (Nat.eqb t' t); [discriminate|apply i_thr0].
  - intros t1 t2 x x'. rewrite !set_thr_eq. destruct (Nat.eqb t1 t), (Nat.eqb t2 t); try discriminate. apply i_inj0.
  - exact i_reqs0.
  - exact i_run0.
  - exact Hd.
  - exact i_cid0.
Qed.

Lemma inv_txn s t o s' : Inv s -> step s (LTxn t o) = Some s' -> Inv s'.
Proof.
  intros I H. cbn in H. destruct (thr s t) as [[n p|n p]|] eqn:Et; try discriminate. inj_some.
  pose proof I as I0. destruct I. destruct (i_thr0 _ _ Et) as (Hn & Hin & Hvalid). cbn in Hn, Hin, Hvalid.
  destruct (root (e s)) as [w|] eqn:Er.
  - (* the record exists: the comparison fails whatever the outcome; nothing is applied *)
    cbn [is_some negb].
    destruct o; cbn; apply inv_drop_thr; try exact I0; try (intros n' _; rewrite Er; discriminate).
  - (* free: applied unless ErrNotApplied; acknowledged (won) only with Ok *)
    cbn [is_some negb].
    destruct i_rec0 as [(_ & H2 & H3 & H4 & H5)|(w & q & H1 & _)]; [|congruence].
    assert (Hack0 : acked s = []).
    { destruct (acked s) as [|a r] eqn:Ea; [reflexivity|]. specialize (i_ack0 a (or_introl eq_refl)). congruence. }
    assert (Hnowon : forall t' n' q, thr s t' = Some (PWon n' q) -> False).
    { intros t' n' q Hq. destruct (i_won0 _ _ _ Hq) as [Hq1 _]. congruence. }
    assert (Hrec : rec_ok (State (boot_puts n p (e s)) (scid s) (running s) (thr s) (nreq s) (reqs s) (n :: applied s) (acked s) (done_ok s) (mpend s) (mids s))).
    { right. exists n, p. unfold boot_puts; cbn. rewrite H3, H4, H5. cbn. repeat split; auto. }
    destruct o; cbn.
    + (* Ok: won *)
      constructor; cbn.
      * exact Hrec.
      * rewrite Hack0. intros ? [].
      * exact i_nodup0.
      * intros t' n' q. rewrite set_thr_eq. destruct (Nat.eqb_spec t' t); intros Hq.
        -- inj_some. rewrite Hack0, H5. split; [reflexivity|intros []].
        -- destruct (Hnowon _ _ _ Hq).
      * intros t' x. rewrite set_thr_eq. destruct (Nat.eqb t' t); intros Hx; [inj_some; cbn; auto | apply (i_thr0 _ _ Hx)].
      * intros t1 t2 x x'. rewrite !set_thr_eq.
        destruct (Nat.eqb_spec t1 t), (Nat.eqb_spec t2 t); intros Hx1 Hx2 Hnum; subst; auto.
        -- inj_some. cbn in Hnum. symmetry. eapply (i_inj0 t2 t); eauto.
        -- inj_some. cbn in Hnum. eapply (i_inj0 t1 t); eauto.
        -- eapply i_inj0; eauto.
      * exact i_reqs0.
      * discriminate.
      * discriminate.
      * exact i_cid0.
    + (* ErrNotApplied: nothing happened *)
      apply inv_drop_thr; [exact I0 | apply (i_done _ I0)].
    + (* ErrApplied: the record is written, nobody is told *)
      constructor; cbn.
      * exact Hrec.
      * rewrite Hack0. intros ? [].
      * exact i_nodup0.
      * intros t' n' q. rewrite set_thr_eq. destruct (Nat.eqb t' t); [discriminate|]. intros Hq. destruct (Hnowon _ _ _ Hq).
      * intros t' x. rewrite set_thr_eq. destruct (Nat.eqb t' t); [discriminate|apply i_thr0].
      * intros t1 t2 x x'. rewrite !set_thr_eq. destruct (Nat.eqb t1 t), (Nat.eqb t2 t); try discriminate. apply i_inj0.
      * exact i_reqs0.
      * discriminate.
      * discriminate.
      * exact i_cid0.
Qed.

Lemma inv_start s t s' : Inv s -> step s (LStart t) = Some s' -> Inv s'.
Proof.
  intros I H. cbn in H. destruct (thr s t) as [[n p|n p]|] eqn:Et; try discriminate. inj_some.
  destruct I. destruct (i_won0 _ _ _ Et) as [Happ Hnot].
  assert (Hack0 : acked s = []).
  { destruct (acked s) as [|a r] eqn:Ea; [reflexivity|]. pose proof (i_ack0 a (or_introl eq_refl)) as Ha.
    rewrite Happ in Ha. inversion Ha; subst. destruct Hnot. left; reflexivity. }
  constructor; cbn.
  - destruct i_rec0 as [H0|H0]; [left|right]; exact H0.
  - rewrite Hack0. intros n' [<-|[]]. exact Happ.
  - rewrite Hack0. repeat constructor. intros [].
  - intros t' n' q. rewrite set_thr_eq. destruct (Nat.eqb_spec t' t) as [|Hne]; [discriminate|]. intros Hq.
    destruct (i_won0 _ _ _ Hq) as [Hq1 _]. rewrite Happ in Hq1. inversion Hq1; subst.
    exfalso. apply Hne. eapply (i_inj0 t' t); eauto.
  - intros t' x. rewrite set_thr_eq. destruct (Nat.eqb t' t); [discriminate|apply i_thr0].
  - intros t1 t2 x x'. rewrite !set_thr_eq. destruct (Nat.eqb t1 t), (Nat.eqb t2 t); try discriminate. apply i_inj0.
  - exact i_reqs0.
  - intros _. destruct i_rec0 as [(_ & _ & _ & _ & H5)|(w & q & H1 & _)]; congruence.
  - exact i_done0.
  - exact i_cid0.
Qed.

Lemma inv_startfail s t s' : Inv s -> step s (LStartFail t) = Some s' -> Inv s'.
Proof.
  intros I H. cbn in H. destruct (thr s t) as [[n p|n p]|] eqn:Et; try discriminate. inj_some.
  apply inv_drop_thr; [exact I | apply (i_done _ I)].
Qed.

Lemma inv_other s l s' :
  Inv s -> step s l = Some s' ->
  match l with LReload | LStop | LMemGet _ | LMemTxn _ _ _ => True | _ => False end -> Inv s'.
Proof.
  intros I H Hl. destruct l; try contradiction; cbn in H.
  - inj_some. destruct I. constructor; cbn; auto.
    destruct (root (e s)); [discriminate|]. cbn. discriminate.
  - inj_some. destruct I. constructor; cbn; auto. discriminate.
  - destruct (mpend s m); [discriminate|]. destruct (cid (e s)) as [v|] eqn:Ec; inj_some; destruct I; constructor; cbn; auto.
    intros m' v'. destruct (Nat.eqb m' m); [intros Hv; inj_some; exact Ec | apply i_cid0].
  - destruct (negb (mpend s m)); [discriminate|]. inj_some.
    pose proof (i_cid _ I) as Hcid.
    assert (Hbase : forall e' mp' mi', rec_ok s -> root e' = root (e s) -> btime e' = btime (e s) -> stores e' = stores (e s) ->
              regions e' = regions (e s) -> (forall m' v', mi' m' = Some v' -> cid e' = Some v') ->
              Inv (State e' (scid s) (running s) (thr s) (nreq s) (reqs s) (applied s) (acked s) (done_ok s) mp' mi')).
    { intros e' mp' mi' Hr H1 H2 H3 H4 H5. destruct I. constructor; cbn; auto.
      - unfold rec_ok in *. cbn. rewrite H1, H2, H3, H4. exact Hr.
      - rewrite H1. exact i_run0.
      - rewrite H1. exact i_done0. }
    destruct (cid (e s)) as [v|] eqn:Ec; cbn [is_some negb].
    + (* the key exists: nothing is applied; with Ok the member reads the stored id *)
      assert (Hold : forall m' v', mids s m' = Some v' -> cid (e s) = Some v') by (intros m' v' Hv; rewrite Ec; apply (Hcid _ _ Hv)).
      destruct o; cbn; apply Hbase; try reflexivity; try apply (i_rec _ I); intros m' v'; destruct (Nat.eqb m' m); intros Hv; try rewrite Ec in Hv.
      * inj_some. exact Ec.
      * apply (Hold _ _ Hv).
      * apply (Hold _ _ Hv).
      * apply (Hold _ _ Hv).
      * apply (Hold _ _ Hv).
      * apply (Hold _ _ Hv).
    + assert (Hnone : forall m' v', mids s m' = Some v' -> False) by (intros m' v' Hv; specialize (Hcid _ _ Hv); congruence).
      destruct o; cbn; apply Hbase; try reflexivity; try apply (i_rec _ I); intros m' v'; destruct (Nat.eqb m' m); intros Hv; try rewrite Ec in Hv; cbn in Hv.
      * inj_some. reflexivity.
      * destruct (Hnone _ _ Hv).
      * destruct (Hnone _ _ Hv).
      * destruct (Hnone _ _ Hv).
      * destruct (Hnone _ _ Hv).
      * destruct (Hnone _ _ Hv).
Qed.

Theorem inv_step s l s' : Inv s -> step s l = Some s' -> Inv s'.
Proof.
  intros I H. destruct l.
  - eapply inv_begin; eauto.
  - eapply inv_txn; eauto.
  - eapply inv_start; eauto.
  - eapply inv_startfail; eauto.
  - eapply inv_other; eauto. exact Logic.I.
  - eapply inv_other; eauto. exact Logic.I.
  - eapply inv_other; eauto. exact Logic.I.
  - eapply inv_other; eauto. exact Logic.I.
Qed.

Theorem inv_exec c ls : Inv (exec step (init c) ls).
Proof. apply invariant_exec; [exact inv_step | apply inv_init]. Qed.

(* ---------- the statements ---------- *)
Section Statements.
  Variable c : Z.
  Notation run ls := (exec step (init c) ls).

  Lemma at_most_one_txn_pf ls : (List.length (applied (run ls)) <= 1)%nat.
  Proof.
    destruct (i_rec _ (inv_exec c ls)) as [(_ & _ & _ & _ & H)|(w & p & _ & _ & _ & _ & H & _)]; rewrite H; cbn; lia.
  Qed.

  Lemma at_most_one_ack_pf ls : (List.length (acked (run ls)) <= 1)%nat /\ forall n, In n (acked (run ls)) -> applied (run ls) = [n].
  Proof.
    pose proof (inv_exec c ls) as I. split; [|apply (i_ack _ I)].
    destruct (acked (run ls)) as [|a [|b r]] eqn:E; cbn; try lia.
    pose proof (i_nodup _ I) as Hn. rewrite E in Hn.
    pose proof (i_ack _ I a) as Ha. pose proof (i_ack _ I b) as Hb. rewrite E in Ha, Hb.
    specialize (Ha (or_introl eq_refl)). specialize (Hb (or_intror (or_introl eq_refl))).
    rewrite Ha in Hb. inversion Hb; subst. inversion Hn as [|? ? Hnot _]; subst. destruct Hnot. left; reflexivity.
  Qed.

  (* some valid request got an answer from etcd without a storage error  ==>  the record exists, written once *)
  Lemma record_exists_pf ls : done_ok (run ls) <> [] ->
    exists w, applied (run ls) = [w] /\ root (e (run ls)) = Some w.
  Proof.
    intros Hd. pose proof (inv_exec c ls) as I.
    destruct (done_ok (run ls)) as [|n r] eqn:E; [contradiction|].
    pose proof (i_done _ I n) as Hr. rewrite E in Hr. specialize (Hr (or_introl eq_refl)).
    destruct (i_rec _ I) as [(H0 & _)|(w & p & H1 & _ & _ & _ & H5 & _)]; [contradiction|]. exists w; auto.
  Qed.

  Lemma stored_all_from_winner_pf ls :
    match root (e (run ls)) with
    | Some w => exists p, In (w, p) (reqs (run ls)) /\ check_req p = None /\ btime (e (run ls)) = Some w
                          /\ stores (e (run ls)) = [(store_of p, w)] /\ regions (e (run ls)) = [(region_of p, w)]
                          /\ applied (run ls) = [w] /\ forall n, In n (acked (run ls)) -> n = w
    | None => btime (e (run ls)) = None /\ stores (e (run ls)) = [] /\ regions (e (run ls)) = [] /\ acked (run ls) = []
    end.
  Proof.
    pose proof (inv_exec c ls) as I.
    destruct (i_rec _ I) as [(H0 & H1 & H2 & H3 & H4)|(w & p & H1 & H2 & H3 & H4 & H5 & H6 & H7)].
    - rewrite H0. repeat split; auto.
      destruct (acked (run ls)) as [|a r] eqn:E; [reflexivity|].
      pose proof (i_ack _ I a) as Ha. rewrite E in Ha. specialize (Ha (or_introl eq_refl)). congruence.
    - rewrite H1. exists p. repeat split; auto.
      intros n Hn. pose proof (i_ack _ I n Hn) as Ha. congruence.
  Qed.

  Lemma running_implies_bootstrapped_pf ls : running (run ls) = true -> root (e (run ls)) <> None.
  Proof. apply (i_run _ (inv_exec c ls)). Qed.

  Lemma cluster_id_agreed_pf ls m v : mids (run ls) m = Some v -> cid (e (run ls)) = Some v.
  Proof. apply (i_cid _ (inv_exec c ls)). Qed.

  Lemma members_agree_pf ls m m' v v' : mids (run ls) m = Some v -> mids (run ls) m' = Some v' -> v = v'.
  Proof.
    intros H1 H2. apply cluster_id_agreed_pf in H1. apply cluster_id_agreed_pf in H2. congruence.
  Qed.

  (* the winner's last step is always enabled and acknowledges exactly it *)
  Lemma winner_is_acknowledged_pf ls t n p :
    thr (run ls) t = Some (PWon n p) ->
    exists s', step (run ls) (LStart t) = Some s' /\ acked s' = [n] /\ running s' = true.
  Proof.
    intros Ht. pose proof (inv_exec c ls) as I. cbn. rewrite Ht. eexists. split; [reflexivity|]. cbn. split; [|reflexivity].
    destruct (i_won _ I _ _ _ Ht) as [Happ Hnot].
    destruct (acked (run ls)) as [|a r] eqn:E; [reflexivity|].
    pose proof (i_ack _ I a) as Ha. rewrite E in Ha. specialize (Ha (or_introl eq_refl)).
    rewrite Happ in Ha. inversion Ha; subst. destruct Hnot. left; reflexivity.
  Qed.
End Statements.

(* without storage faults, whoever applied the record is (or is about to be) the one answered OK *)
Definition no_fault (_ : state) (l : label) : bool :=
  match l with LTxn _ Ok | LMemTxn _ _ Ok => true | LTxn _ _ | LMemTxn _ _ _ | LStartFail _ => false | _ => true end.

Definition winner_known (s : state) : Prop :=
  forall w, applied s = [w] -> In w (acked s) \/ exists t p, thr s t = Some (PWon w p).

Lemma winner_known_step s l s' : Inv s -> winner_known s -> no_fault s l = true -> step s l = Some s' -> winner_known s'.
Proof.
  intros I Hk Hf H w. destruct l; cbn in H.
  - destruct (thr s t) eqn:Et; [discriminate|].
    destruct (negb (hid =? scid s)); [inj_some; apply Hk|]. destruct (running s); [inj_some; apply Hk|].
    destruct (check_req p); inj_some; [apply Hk|]. cbn. intros Ha. destruct (Hk _ Ha) as [Hw|(t' & q & Hq)]; [left; exact Hw|].
    right. exists t', q. rewrite set_thr_eq. destruct (Nat.eqb_spec t' t); [subst; congruence|exact Hq].
  - destruct (thr s t) as [[n p|n p]|] eqn:Et; try discriminate. destruct o; try discriminate. inj_some. cbn.
    destruct (root (e s)) eqn:Er; cbn.
    + intros Ha. destruct (Hk _ Ha) as [Hw|(t' & q & Hq)]; [left; exact Hw|].
      right. exists t', q. rewrite set_thr_eq. destruct (Nat.eqb_spec t' t); [subst; congruence|exact Hq].
    + intros Ha. destruct (i_rec _ I) as [(_ & _ & _ & _ & H5)|(w0 & q & H1 & _)]; [|congruence].
      rewrite H5 in Ha. inversion Ha; subst. right. exists t, p. rewrite set_thr_eq, Nat.eqb_refl. reflexivity.
  - destruct (thr s t) as [[n p|n p]|] eqn:Et; try discriminate. inj_some. cbn. intros Ha.
    destruct (i_won _ I _ _ _ Et) as [Happ _]. left. left. congruence.
  - discriminate Hf.
  - inj_some. cbn. apply Hk.
  - inj_some. cbn. apply Hk.
  - destruct (mpend s m); [discriminate|]. destruct (cid (e s)); inj_some; cbn; apply Hk.
  - destruct (negb (mpend s m)); [discriminate|]. inj_some. cbn. apply Hk.
Qed.

Lemma exactly_one_pf c ls :
  guarded step no_fault (init c) ls = true ->
  done_ok (exec step (init c) ls) <> [] ->
  exists w, applied (exec step (init c) ls) = [w] /\ root (e (exec step (init c) ls)) = Some w
            /\ (acked (exec step (init c) ls) = [w] \/ exists t p, thr (exec step (init c) ls) t = Some (PWon w p)).
Proof.
  intros Hg Hd.
  assert (H : Inv (exec step (init c) ls) /\ winner_known (exec step (init c) ls)).
  { apply (invariant_guarded step no_fault (fun s => Inv s /\ winner_known s)); [|split; [apply inv_init|intros w Hw; discriminate Hw]|exact Hg].
    intros s l s' [I Hk] Hf Hs. split; [eapply inv_step; eauto | eapply winner_known_step; eauto]. }
  destruct H as [I Hk]. destruct (record_exists_pf c ls Hd) as (w & Ha & Hr). exists w. split; [exact Ha|]. split; [exact Hr|].
  destruct (Hk _ Ha) as [Hw|Hw]; [left|right; exact Hw].
  destruct (at_most_one_ack_pf c ls) as [Hlen _].
  destruct (acked (exec step (init c) ls)) as [|a [|b r]]; cbn in *; try contradiction; try lia.
  destruct Hw as [->|[]]. reflexivity.
Qed.

(* ---------- a loser, a refused or a malformed request changes nothing ---------- *)
Lemma loser_changes_nothing_pf s t o s' :
  root (e s) <> None -> step s (LTxn t o) = Some s' ->
  e s' = e s /\ applied s' = applied s /\ acked s' = acked s /\ running s' = running s /\ thr s' t = None.
Proof.
  intros Hr H. cbn in H. destruct (thr s t) as [[n p|n p]|]; try discriminate.
  destruct (root (e s)) eqn:Er; [|contradiction]. cbn in H. inj_some. cbn. rewrite set_thr_eq, Nat.eqb_refl.
  destruct o; cbn; auto.
Qed.

(* ---------- the winner's answer may arrive late: OCommit ; OFinish is the same bootstrap as OFinish Ok ---------- *)
Lemma late_answer_same_bootstrap_pf s t s1 o :
  boot_commit s t = Some (s1, BStarted) -> boot_finish s1 t o = boot_finish s t Ok.
Proof.
  unfold boot_commit, boot_finish. destruct (thr s t) as [[n p|n p]|] eqn:Et; try discriminate.
  destruct (step s (LTxn t Ok)) as [s2|] eqn:Es; [|discriminate].
  destruct (thr s2 t) as [[n2 p2|n2 p2]|] eqn:Et2; intro H; try discriminate.
  injection H as <-. rewrite Et2. reflexivity.
Qed.

(* a transaction that loses in OCommit is answered at once, exactly like OFinish Ok *)
Lemma commit_loser_is_finish_pf s t s1 :
  boot_commit s t = Some (s1, BConflict) -> boot_finish s t Ok = Some (s1, BConflict).
Proof.
  unfold boot_commit, boot_finish. destruct (thr s t) as [[n p|n p]|] eqn:Et; try discriminate.
  destruct (step s (LTxn t Ok)) as [s2|] eqn:Es; [|discriminate].
  destruct (thr s2 t) as [[n2 p2|n2 p2]|] eqn:Et2; intro H; try discriminate; injection H as <-; reflexivity.
Qed.

Lemma slow_commit_below_timeout_pf r t ms :
  (ms < request_timeout_ms)%Z -> run_op1 r (OFinishSlow t ms) = run_op1 r (OFinish t Ok).
Proof. intro H. cbn. apply Z.ltb_lt in H. rewrite H. reflexivity. Qed.

(* ---------- the start-up identity check refuses as soon as ANY answering peer is of another cluster ---------- *)
Lemma startup_check_spec local answers :
  startup_check local answers = true <-> (forall id, In (Some id) answers -> id = local).
Proof.
  induction answers as [|[id|] r IH]; cbn.
  - split; [intros _ id []|reflexivity].
  - destruct (Z.eqb_spec id local) as [->|Hne].
    + rewrite IH. split; [intros H x [Hx|Hx]; [inversion Hx; reflexivity|auto] | intros H x Hx; apply H; right; exact Hx].
    + split; [discriminate|]. intros H. exfalso. apply Hne, H. left. reflexivity.
  - rewrite IH. split; [intros H x [Hx|Hx]; [discriminate|auto] | intros H x Hx; apply H; right; exact Hx].
Qed.

Lemma startup_check_refuses_foreign_pf local answers id :
  In (Some id) answers -> id <> local -> startup_check local answers = false.
Proof.
  intros Hin Hne. destruct (startup_check local answers) eqn:E; [|reflexivity].
  exfalso. apply Hne. apply (proj1 (startup_check_spec local answers) E). exact Hin.
Qed.

Lemma refused_at_begin_pf s t hid p s' :
  (hid <> scid s \/ running s = true \/ check_req p <> None) -> step s (LBegin t hid p) = Some s' -> s' = s.
Proof.
  intros Hc H. cbn in H. destruct (thr s t); [discriminate|].
  destruct (Z.eqb_spec hid (scid s)) as [Heq|Hne]; cbn in H; [|inj_some; reflexivity].
  destruct (running s) eqn:Erun; [inj_some; reflexivity|].
  destruct (check_req p) eqn:Ec; [inj_some; reflexivity|].
  destruct Hc as [Hc|[Hc|Hc]]; [contradiction|discriminate|contradiction].
Qed.

Lemma cluster_id_stable_pf s l s' v : cid (e s) = Some v -> step s l = Some s' -> cid (e s') = Some v.
Proof.
  intros Hc H. destruct l; cbn in H.
  - destruct (thr s t); [discriminate|]. destruct (negb (hid =? scid s)); [inj_some; exact Hc|].
    destruct (running s); [inj_some; exact Hc|]. destruct (check_req p); inj_some; exact Hc.
  - destruct (thr s t) as [[n p|n p]|]; try discriminate. inj_some. cbn.
    destruct (match o with ErrNotApplied => false | _ => negb (is_some (root (e s))) end); exact Hc.
  - destruct (thr s t) as [[n p|n p]|]; try discriminate. inj_some. exact Hc.
  - destruct (thr s t) as [[n p|n p]|]; try discriminate. inj_some. exact Hc.
  - inj_some. exact Hc.
  - inj_some. exact Hc.
  - destruct (mpend s m); [discriminate|]. rewrite Hc in H. inj_some. exact Hc.
  - destruct (negb (mpend s m)); [discriminate|]. inj_some. cbn. rewrite Hc. cbn.
    destruct o; cbn; exact Hc.
Qed.

(* absent storage faults a member always ends up with the stored id *)
Lemma member_obtains_id_pf s m c s' :
  step s (LMemTxn m c Ok) = Some s' -> exists v, mids s' m = Some v /\ cid (e s') = Some v.
Proof.
  intros H. cbn in H. destruct (negb (mpend s m)); [discriminate|]. inj_some. cbn. rewrite Nat.eqb_refl.
  destruct (cid (e s)) as [v|] eqn:Ec; cbn; [rewrite Ec; exists v; auto | exists c; auto].
Qed.

(* ---------- the handler table: every handler but the three exempt ones compares the cluster id ---------- *)
Local Open Scope string_scope.
Definition checks_cluster_id (k : string) : bool :=
  existsb (String.eqb k) ["validateRequest"; "compare"; "syncer"].
Definition handler_ok (h : string * list string) : bool :=
  exempt (fst h) || existsb checks_cluster_id (snd h).

Lemma handler_table_ok : forallb handler_ok handlers = true.
Proof. vm_compute. reflexivity. Qed.

(* the model's Ok outcome covers every etcd latency below the time the bootstrap transaction waits: that time is the code's *)
Lemma request_timeout_matches_code : kv_request_timeout_ns = (request_timeout_ms * 1000000)%Z.
Proof. reflexivity. Qed.

Lemma mismatched_id_refused_table_pf :
  forall h ks, In (h, ks) handlers -> exempt h = false -> exists k, In k ks /\ checks_cluster_id k = true.
Proof.
  intros h ks Hin Hex. pose proof handler_table_ok as H. rewrite forallb_forall in H. specialize (H _ Hin).
  unfold handler_ok in H. cbn [fst snd] in H. rewrite Hex in H. cbn in H. apply existsb_exists in H. exact H.
Qed.

(* the three ways of checking do compare: validateRequest, RegionSyncer.Sync and Tso's direct comparison *)
Lemma validateRequest_compares : In (IfE "v1.GetClusterId() != v0.clusterID" [Ret] []) skel_validateRequest.
Proof. vm_compute. tauto. Qed.
Lemma syncer_compares : In "v4 != v0.server.ClusterID()" syncer_sync_conds.
Proof. vm_compute. tauto. Qed.

(* the handlers the driver exercises and the table agree on who is exempt *)
Lemma exempt_are_listed : forall h, exempt h = true -> exists ks, In (h, ks) handlers.
Proof.
  intros h H. unfold exempt in H. cbn in H.
  repeat (apply orb_true_iff in H as [H|H]; [apply String.eqb_eq in H; subst; eexists; vm_compute; tauto|]). discriminate.
Qed.

(* ---------- nothing happens before the validation ----------
   pre_validation_calls (regenerated): the calls a handler makes on the server before the statement that validates
   the caller, the forwarding block aside.  Unary handlers make none (UpdateServiceGCSafePoint takes its lock);
   the streams receive first; RegionHeartbeat alone answers NOT_BOOTSTRAPPED (read-only) before it validates. *)
Definition harmless_before_validation : list string := ["Recv"; "Context"; "IsClosed"; "Lock"; "Unlock"].
Definition heartbeat_not_bootstrapped_answer : list string := ["GetRaftCluster"; "notBootstrappedHeader"; "Send"].
Definition mem_str (x : string) (l : list string) : bool := existsb (String.eqb x) l.
Definition pre_ok (h : string * list string) : bool :=
  exempt (fst h)
  || forallb (fun c => mem_str c harmless_before_validation
                       || (String.eqb (fst h) "RegionHeartbeat" && mem_str c heartbeat_not_bootstrapped_answer)) (snd h).

Lemma pre_validation_table_ok : forallb pre_ok pre_validation_calls = true.
Proof. vm_compute. reflexivity. Qed.

Lemma nothing_before_validation_pf :
  forall h cs, In (h, cs) pre_validation_calls -> exempt h = false -> h <> "RegionHeartbeat" ->
    forall c, In c cs -> In c harmless_before_validation.
Proof.
  intros h cs Hin Hex Hne c Hc. pose proof pre_validation_table_ok as H. rewrite forallb_forall in H. specialize (H _ Hin).
  unfold pre_ok in H. cbn [fst snd] in H. rewrite Hex in H. cbn [orb] in H. rewrite forallb_forall in H. specialize (H _ Hc).
  apply String.eqb_neq in Hne. rewrite Hne in H. cbn [andb] in H. rewrite orb_false_r in H.
  unfold mem_str in H. apply existsb_exists in H as (x & Hx & Heq). apply String.eqb_eq in Heq. subst. exact Hx.
Qed.

(* the table covers exactly the handlers of the validation table *)
Lemma pre_validation_covers_handlers : map fst pre_validation_calls = map fst handlers.
Proof. vm_compute. reflexivity. Qed.

(* a request without any header message carries cluster id 0 (nil-safe getter): refused like any other foreign id,
   as long as the cluster id itself is not 0 (initOrGetClusterID draws (unix seconds << 32) + random) *)
Lemma headerless_refused_pf s t p s' :
  scid s <> 0%Z -> step s (LBegin t (hid_of None) p) = Some s' -> s' = s.
Proof. intros Hc. apply refused_at_begin_pf. left. cbn. congruence. Qed.

Local Open Scope Z_scope.
(* ---------- the winner's cluster.Start fails: the answer is an error although the record is stored ---------- *)
Lemma start_failure_pf c ls t n p s' :
  thr (exec step (init c) ls) t = Some (PWon n p) -> step (exec step (init c) ls) (LStartFail t) = Some s' ->
  e s' = e (exec step (init c) ls) /\ applied s' = [n] /\ root (e s') = Some n /\ acked s' = [] /\ thr s' t = None
  /\ running s' = running (exec step (init c) ls).
Proof.
  intros Ht H. pose proof (inv_exec c ls) as I. cbn in H. rewrite Ht in H. inj_some. cbn.
  destruct (i_won _ I _ _ _ Ht) as [Happ Hnot].
  rewrite set_thr_eq, Nat.eqb_refl. repeat split; auto.
  - destruct (i_rec _ I) as [(_ & _ & _ & _ & H5)|(w & q & H1 & _ & _ & _ & H5 & _)]; congruence.
  - destruct (acked (exec step (init c) ls)) as [|a r] eqn:E; [reflexivity|].
    pose proof (i_ack _ I a) as Ha. rewrite E in Ha. specialize (Ha (or_introl eq_refl)).
    rewrite Happ in Ha. inversion Ha; subst. destruct Hnot. left; reflexivity.
Qed.

(* whatever retries do afterwards, nobody is ever answered OK any more and the record never changes: the cluster comes up
   with the next reload (leader change / restart) *)
Lemma after_start_failure_pf s l s' :
  Inv s -> root (e s) <> None -> acked s = [] -> (forall t n p, thr s t = Some (PWon n p) -> False) ->
  step s l = Some s' ->
  root (e s') = root (e s) /\ stores (e s') = stores (e s) /\ regions (e s') = regions (e s) /\ acked s' = []
  /\ (forall t n p, thr s' t = Some (PWon n p) -> False).
Proof.
  intros I Hr Ha Hw H. destruct l; cbn in H.
  - destruct (thr s t) eqn:Et; [discriminate|].
    destruct (negb (hid =? scid s)); [inj_some; auto|]. destruct (running s); [inj_some; auto|].
    destruct (check_req p); inj_some; [auto|]. cbn. repeat split; auto.
    intros t' n' q. rewrite set_thr_eq. destruct (Nat.eqb t' t); [discriminate|apply Hw].
  - destruct (thr s t) as [[n p|n p]|] eqn:Et; try discriminate. inj_some.
    destruct (root (e s)) eqn:Er; [|contradiction]. cbn.
    assert (Hs : match o with ErrNotApplied => false | _ => false end = false) by (destruct o; reflexivity).
    destruct o; cbn; repeat split; auto; intros t' n' q; rewrite set_thr_eq; destruct (Nat.eqb t' t); try discriminate; apply Hw.
  - destruct (thr s t) as [[n p|n p]|] eqn:Et; try discriminate. destruct (Hw _ _ _ Et).
  - destruct (thr s t) as [[n p|n p]|] eqn:Et; try discriminate. destruct (Hw _ _ _ Et).
  - inj_some. cbn. auto.
  - inj_some. cbn. auto.
  - destruct (mpend s m); [discriminate|]. destruct (cid (e s)); inj_some; cbn; auto.
  - destruct (negb (mpend s m)); [discriminate|]. inj_some. cbn.
    destruct (match o with ErrNotApplied => false | _ => negb (is_some (cid (e s))) end); cbn; auto.
Qed.

(* ---------- streaming handlers: the refusal is per message, not per stream ---------- *)
Lemma stream_per_message_pf name running c : forall hs k h b,
  nth_error hs k = Some h -> hid_of h <> c ->
  nth_error (stream_run name running c hs) k = Some b -> b = BMismatch \/ b = BNotBoot.
Proof.
  induction hs as [|h0 r IH]; intros k h b Hk Hne Hb; [destruct k; discriminate|].
  cbn [stream_run] in Hb.
  destruct (String.eqb name "RegionHeartbeat" && negb running)%string.
  - destruct k as [|k]; cbn in Hb; [inversion Hb; auto | destruct k; discriminate].
  - destruct (Z.eqb_spec (hid_of h0) c) as [Heq|Hneq]; cbn [negb] in Hb.
    + destruct k as [|k]; cbn in Hk, Hb.
      * inversion Hk; subst. contradiction.
      * eapply IH; eauto.
    + destruct k as [|k]; cbn in Hb; [inversion Hb; auto | destruct k; discriminate].
Qed.

(* a refused message ends the stream: nothing after it is processed *)
Lemma stream_stops_at_refusal_pf name running c : forall hs k,
  nth_error (stream_run name running c hs) k = Some BMismatch -> List.length (stream_run name running c hs) = S k.
Proof.
  induction hs as [|h0 r IH]; intros k Hb; [destruct k; discriminate|].
  cbn [stream_run] in *.
  destruct (String.eqb name "RegionHeartbeat" && negb running)%string.
  - destruct k as [|k]; cbn in Hb; [discriminate | destruct k; discriminate].
  - destruct (negb (hid_of h0 =? c)).
    + destruct k as [|k]; cbn in Hb; [reflexivity | destruct k; discriminate].
    + destruct k as [|k]; cbn in Hb; [discriminate|]. cbn [List.length]. f_equal.
      apply IH; exact Hb.
Qed.

(* where the check sits in the code: directly in the body of the receive loop (not under another condition, not before
   the loop), and before the call that serves the message *)
Local Open Scope string_scope.
Definition is_check (c : string) (x : ev) : bool := match x with IfE c' [Ret] [] => String.eqb c c' | _ => false end.
Definition is_call (f : string) (x : ev) : bool := match x with Call g => String.eqb f g | _ => false end.
Fixpoint precedes (p q : ev -> bool) (l : list ev) : bool :=
  match l with
  | [] => false
  | x :: r => if q x then false else if p x then existsb q r else precedes p q r
  end.
(* some receive loop of the skeleton has p directly in its body, before q *)
Definition in_loop_before (p q : ev -> bool) (sk : list ev) : bool :=
  existsb (fun x => match x with ForE body => precedes p q body | _ => false end) sk.

Lemma stream_checks_every_message_pf :
  in_loop_before (is_check "v5.GetHeader().GetClusterId() != v0.clusterID") (is_call "HandleTSORequest") skel_Tso = true
  /\ in_loop_before (is_call "validateRequest") (is_call "HandleRegionHeartbeat") skel_RegionHeartbeat = true
  /\ in_loop_before (is_check "v4 != v0.server.ClusterID()") (is_call "syncHistoryRegion") skel_SyncerSync = true.
Proof. vm_compute. repeat split; reflexivity. Qed.

(* ---------- one identity: PutClusterConfig cannot change the id of the cluster record ---------- *)
Local Open Scope Z_scope.
(* RaftCluster.PutConfig: an accepted body replaces the cluster meta (id, max_peer_count) verbatim *)
Definition put_meta (c : Z) (meta : Z * Z) (body : option (Z * Z)) : Z * Z :=
  match body with
  | Some (id, mp) => if id =? c then (id, mp) else meta
  | None => meta
  end.

Lemma put_meta_agrees c meta body :
  put_meta c meta body = match put_config c body with Some mp => (c, mp) | None => meta end.
Proof.
  unfold put_meta, put_config. destruct body as [[id mp]|]; [|reflexivity].
  destruct (Z.eqb_spec id c); [subst; reflexivity|reflexivity].
Qed.

Lemma config_identity_pf c : forall bodies meta, fst meta = c -> fst (fold_left (put_meta c) bodies meta) = c.
Proof.
  induction bodies as [|b r IH]; intros meta H; [exact H|]. cbn [fold_left]. apply IH.
  rewrite put_meta_agrees. destruct (put_config c b); [reflexivity|exact H].
Qed.

Local Open Scope string_scope.
Lemma put_config_compares : In (IfE "v1.GetId() != v0.clusterID" [Ret] []) skel_PutConfig.
Proof. vm_compute. tauto. Qed.
