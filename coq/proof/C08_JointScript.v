(* C08 — the joint build path as a script on the store model: learners first, one enter / leave pair
   with the leader moved before, inside or after it, removals last.  If the parameters of the script satisfy
   the listed conditions, the checker accepts it (general in the number of peers). *)
From Coq Require Import String.
From PDV Require Import lib.Base gen.Gen_C08 model.C08_Steps model.C08_Builder
     proof.C08_ListFacts proof.C08_SimPhases.
Local Open Scope list_scope.
Local Open Scope Z_scope.

Definition learner_of (a : peer) : peer := Peer (pstore a) (pid a) Learner.
Definition add_steps (light : bool) (A : list peer) : list step := map (fun a => add_step light (pstore a) (pid a)) A.
Definition remove_steps (R : list peer) : list step := map (fun p => RemovePeer (pstore p) (pid p)) R.

(* plan_check does not look at conf_ver *)
Definition same_conf (r r' : region) : Prop := peers r' = peers r /\ leader r' = leader r /\ rng r' = rng r.

Lemma scan_pairs_cv ps l cv cv' rg cls tl : forall pairs acc,
  scan_pairs (Region ps l cv' rg) cls tl pairs acc = scan_pairs (Region ps l cv rg) cls tl pairs acc.
Proof.
  induction pairs as [|x rest IH]; intros acc; cbn [scan_pairs]; [reflexivity|].
  unfold get_store_peer; cbn [peers leader].
  destruct (negb (oid (find (on_store (fst x)) ps) =? snd x)); [reflexivity|].
  destruct (cls (orole (find (on_store (fst x)) ps))); [reflexivity| |]; destruct acc as [[ij nj] dl]; apply IH.
Qed.

Lemma check_safety_cv ps l cv cv' rg s : check_safety (Region ps l cv' rg) s = check_safety (Region ps l cv rg) s.
Proof.
  destruct s; try reflexivity; cbn [check_safety]; rewrite (scan_pairs_cv ps l cv cv' rg);
    match goal with |- context [scan_pairs ?r ?c ?t ?p ?a] => destruct (scan_pairs r c t p a) as [e|acc] end; try reflexivity;
    rewrite (scan_pairs_cv ps l cv cv' rg);
    match goal with |- context [scan_pairs ?r ?c ?t ?p ?a] => destruct (scan_pairs r c t p a) as [e|acc'] end; reflexivity.
Qed.

Lemma exec_step_same_conf r r' s : same_conf r r' ->
  match exec_step r s, exec_step r' s with
  | RSkip, RSkip => True
  | RUnsafe _, RUnsafe _ => True
  | RNoCmd, RNoCmd => True
  | RRejected _, RRejected _ => True
  | RDone _ a, RDone _ b => same_conf a b
  | _, _ => False
  end.
Proof.
  intros (Hp & Hl & Hr). destruct r as [ps l cv rg], r' as [ps' l' cv' rg']. cbn in Hp, Hl, Hr. subst ps' l' rg'.
  assert (Hf : is_finish (Region ps l cv' rg) s = is_finish (Region ps l cv rg) s) by (destruct s; reflexivity).
  pose proof (check_safety_cv ps l cv cv' rg s) as Hs.
  assert (Hc : cmd_of_step (Region ps l cv' rg) s = cmd_of_step (Region ps l cv rg) s) by (destruct s; reflexivity).
  unfold exec_step. rewrite Hf, Hs, Hc.
  destruct (is_finish (Region ps l cv rg) s); [exact I|].
  destruct (check_safety (Region ps l cv rg) s); [exact I|].
  destruct (cmd_of_step (Region ps l cv rg) s) as [c|]; [|exact I].
  destruct c as [o|t o|cs| |]; unfold apply_cmd, is_in_joint, get_store_peer; cbn [peers leader conf_ver rng].
  - destruct o as [p|]; [|exact I].
    destruct (find (on_store (pstore p)) ps) as [q|]; [|exact I]. destruct (negb (pid q =? pid p) || is_learner q); [exact I|].
    repeat split.
  - destruct o as [p|]; [|exact I]. destruct (existsb in_joint ps); [exact I|].
    destruct (apply_change false l ps (t, p)); [repeat split|exact I].
  - destruct cs as [|c cs].
    + destruct (negb (existsb in_joint ps)); [exact I|].
      destruct (role_eqb (orole (find (on_store l) ps)) Demoting && is_some (find (on_store l) ps)); [exact I|].
      repeat split.
    + destruct (existsb in_joint ps); [exact I|].
      destruct (apply_changes true l ps (c :: cs)); [repeat split|exact I].
  - repeat split.
  - repeat split.
Qed.

Lemma trans_violation_same_conf g a b a' b' : same_conf a a' -> same_conf b b' -> trans_violation g a' b' = trans_violation g a b.
Proof.
  intros (H1 & H2 & H3) (H4 & H5 & H6). unfold trans_violation, leader_kept, leader_to_valid, get_store_peer. rewrite H1, H2, H4, H5. reflexivity.
Qed.

Lemma plan_check_same_conf g ss : forall r r', same_conf r r' -> plan_check g r' ss = plan_check g r ss.
Proof.
  induction ss as [|s rest IH]; intros r r' H; cbn [plan_check].
  - destruct H as (H1 & H2 & H3). unfold final_violation, get_store_peer. rewrite H1, H2. reflexivity.
  - pose proof (exec_step_same_conf r r' s H) as E.
    destruct (exec_step r s) as [|e| |c|c a], (exec_step r' s) as [|e'| |c'|c' a']; try contradiction; try reflexivity.
    + apply IH. exact H.
    + rewrite (trans_violation_same_conf g r a r' a' H E).
      destruct (trans_violation g r a); [reflexivity|].
      assert (Hf : is_finish a' s = is_finish a s).
      { destruct E as (E1 & E2 & E3). destruct a as [ps l cv rg], a' as [ps' l' cv' rg']. cbn in E1, E2, E3. subst. destruct s; reflexivity. }
      rewrite Hf. destruct (is_finish a s); [apply IH; exact E|reflexivity].
Qed.

Lemma same_conf_refl r : same_conf r r.
Proof. repeat split. Qed.

(* a region by its parts, conf_ver irrelevant *)
Definition reg (ps : list peer) (l rg : Z) (cv : Z) : region := Region ps l cv rg.

Lemma plan_check_cv g ps l rg cv cv' ss : plan_check g (reg ps l rg cv') ss = plan_check g (reg ps l rg cv) ss.
Proof. apply plan_check_same_conf. repeat split. Qed.

(* ---------- the adds ---------- *)
Lemma pc_adds g light : forall A ps l rg cv rest,
  Inv g (reg ps l rg cv) -> NJ ps ->
  ND (map learner_of A) -> (forall a, In a A -> lk ps (pstore a) = None) ->
  exists cv', plan_check g (reg ps l rg cv) (add_steps light A ++ rest) = plan_check g (reg (ps ++ map learner_of A) l rg cv') rest
              /\ Inv g (reg (ps ++ map learner_of A) l rg cv') /\ NJ (ps ++ map learner_of A).
Proof.
  induction A as [|a A IH]; intros ps l rg cv rest I Hnj Hnd Hfresh; cbn [add_steps map app].
  - exists cv. rewrite app_nil_r. auto.
  - destruct (pc_add_learner g (reg ps l rg cv) light (pstore a) (pid a) (add_steps light A ++ rest) I Hnj (Hfresh a (or_introl eq_refl)))
      as (E & I' & Hnj').
    cbn [reg set_peers peers leader conf_ver rng] in E, I', Hnj'.
    unfold ND in Hnd. cbn [map] in Hnd. inversion Hnd as [|? ? Hn Hd]; subst.
    destruct (IH (ps ++ [learner_of a]) l rg (cv + 1) rest I' Hnj' Hd) as (cv' & E2 & I2 & Hnj2).
    { intros b Hb. rewrite lk_app. rewrite (Hfresh b (or_intror Hb)). unfold lk; cbn. unfold on_store; cbn.
      destruct (pstore a =? pstore b) eqn:Eq; [|reflexivity].
      apply Z.eqb_eq in Eq. exfalso. apply Hn. cbn. rewrite Eq. apply in_map_iff. exists (learner_of b). split; [reflexivity|apply in_map; exact Hb]. }
    exists cv'. rewrite <- app_assoc in E2, I2, Hnj2. cbn [app] in E2, I2, Hnj2.
    split; [|split; assumption]. etransitivity; [exact E|exact E2].
Qed.

(* ---------- the removals ---------- *)
Definition remove_all (ps : list peer) (R : list peer) : list peer := fold_left (fun acc p => remove_store acc (pstore p)) R ps.

Lemma lk_remove_store ps st s : ND ps -> lk (remove_store ps st) s = if s =? st then None else lk ps s.
Proof.
  intros H. unfold remove_store. rewrite lk_filter by exact H. destruct (lk ps s) as [p|] eqn:E; [|destruct (s =? st); reflexivity].
  apply lk_Some in E as [_ E]. unfold on_store. rewrite E, (Z.eqb_sym s st). destruct (st =? s); reflexivity.
Qed.

Lemma pc_removes g : forall R ps l rg cv rest,
  Inv g (reg ps l rg cv) -> NJ ps ->
  NoDup (map pstore R) -> (forall p, In p R -> lk ps (pstore p) = Some (Peer (pstore p) (pid p) Learner)) ->
  (forall p, In p R -> pstore p <> l) ->
  exists cv', plan_check g (reg ps l rg cv) (remove_steps R ++ rest) = plan_check g (reg (remove_all ps R) l rg cv') rest
              /\ Inv g (reg (remove_all ps R) l rg cv') /\ NJ (remove_all ps R).
Proof.
  induction R as [|p R IH]; intros ps l rg cv rest I Hnj Hnd HR Hl; cbn [remove_steps map app remove_all fold_left].
  - exists cv. auto.
  - destruct (pc_remove_learner g (reg ps l rg cv) (pstore p) (pid p) (remove_steps R ++ rest) I Hnj (HR p (or_introl eq_refl)))
      as (E & I' & Hnj').
    { cbn. intros C. apply (Hl p (or_introl eq_refl)). auto. }
    cbn [reg set_peers peers leader conf_ver rng] in E, I', Hnj'.
    inversion Hnd as [|? ? Hn Hd]; subst.
    destruct (IH (remove_store ps (pstore p)) l rg (cv + 1) rest I' Hnj' Hd) as (cv' & E2 & I2 & Hnj2).
    { intros q Hq. rewrite lk_remove_store by (apply (inv_nd _ _ I)).
      destruct (pstore q =? pstore p) eqn:Eq; [apply Z.eqb_eq in Eq; exfalso; apply Hn; rewrite <- Eq; apply in_map; exact Hq|].
      apply HR. right. exact Hq. }
    { intros q Hq. apply Hl. right. exact Hq. }
    exists cv'. split; [|split; assumption]. etransitivity; [exact E|exact E2].
Qed.

(* ---------- enter, optional transfer inside, leave ---------- *)
Lemma enter_role_nil ps : map (enter_role [] []) ps = ps.
Proof. erewrite map_ext; [apply map_id|]. intros p. reflexivity. Qed.

Lemma leave_role_NJ ps : NJ ps -> map leave_role ps = ps.
Proof.
  intros H. erewrite map_ext_in; [apply map_id|]. intros p Hp. unfold leave_role. destruct (H p Hp) as [E|E]; rewrite E; reflexivity.
Qed.

Definition post_joint (P D : list (Z * Z)) (ps : list peer) : list peer := map leave_role (map (enter_role P D) ps).

Lemma count_joint_enter P D ps :
  ND ps -> NJ ps ->
  (forall x, In x P -> lk ps (fst x) = Some (Peer (fst x) (snd x) Learner)) ->
  (forall x, In x D -> lk ps (fst x) = Some (Peer (fst x) (snd x) Voter)) ->
  NoDup (map fst P) -> NoDup (map fst D) -> (forall x, In x D -> ~ In (fst x) (map fst P)) ->
  countb in_joint (map (enter_role P D) ps) = Z.of_nat (length P + length D).
Proof.
  intros Hnd Hnj HP HD HnP HnD Hdisj. rewrite countb_map.
  (* joint after entering = listed in P or in D *)
  rewrite (countb_ext _ (fun q => memst (pstore q) P || memst (pstore q) D)).
  2:{ intros q Hq. unfold enter_role. destruct (memst (pstore q) P); [reflexivity|]. destruct (memst (pstore q) D); [reflexivity|].
      unfold in_joint. destruct (Hnj q Hq) as [E|E]; rewrite E; reflexivity. }
  (* one peer per listed store *)
  assert (G : forall L, NoDup (map fst L) -> (forall x, In x L -> exists p, lk ps (fst x) = Some p) ->
                        countb (fun q => memst (pstore q) L) ps = Z.of_nat (length L)).
  { induction L as [|x L IH]; intros HnL HL.
    - apply countb_zero. reflexivity.
    - inversion HnL as [|? ? Hn Hd]; subst. cbn [length]. rewrite Nat2Z.inj_succ.
      rewrite <- (IH Hd (fun y Hy => HL y (or_intror Hy))).
      rewrite (countb_split (fun q => memst (pstore q) (x :: L)) (fun q => pstore q =? fst x)).
      destruct (HL x (or_introl eq_refl)) as (p & Hp).
      assert (E1 : countb (fun q => memst (pstore q) (x :: L) && (pstore q =? fst x)) ps = 1).
      { rewrite (countb_ext _ (on_store (fst x))).
        - clear - Hnd Hp. unfold countb. revert Hnd Hp. unfold ND, lk. induction ps as [|q r IHr]; cbn [map find filter]; intros Hnd Hp; [discriminate|].
          inversion Hnd as [|? ? Hn Hd]; subst. destruct (on_store (fst x) q) eqn:E.
          + cbn [length]. replace (filter (on_store (fst x)) r) with (@nil peer); [reflexivity|].
            symmetry. apply on_store_true in E. clear - Hn E. induction r as [|y r IH]; cbn [filter]; [reflexivity|].
            destruct (on_store (fst x) y) eqn:E2.
            * apply on_store_true in E2. exfalso. apply Hn. cbn. left. congruence.
            * apply IH. intros C. apply Hn. right. exact C.
          + apply IHr; assumption.
        - intros q _. unfold on_store, memst. cbn [existsb]. rewrite (Z.eqb_sym (fst x) (pstore q)).
          destruct (pstore q =? fst x); destruct (existsb (fun x0 : Z * Z => fst x0 =? pstore q) L); reflexivity. }
      assert (E2 : countb (fun q => memst (pstore q) (x :: L) && negb (pstore q =? fst x)) ps = countb (fun q => memst (pstore q) L) ps).
      { apply countb_ext. intros q _. unfold memst at 1. cbn [existsb]. fold (memst (pstore q) L). rewrite (Z.eqb_sym (fst x) (pstore q)).
        destruct (pstore q =? fst x) eqn:E; cbn [orb negb andb].
        - apply Z.eqb_eq in E. symmetry. apply memst_false. rewrite E. exact Hn.
        - rewrite andb_true_r. reflexivity. }
      rewrite E1, E2. lia. }
  rewrite (countb_split _ (fun q => memst (pstore q) P)).
  rewrite (countb_ext (fun q => (memst (pstore q) P || memst (pstore q) D) && memst (pstore q) P) (fun q => memst (pstore q) P)).
  2:{ intros q _. destruct (memst (pstore q) P), (memst (pstore q) D); reflexivity. }
  rewrite (countb_ext (fun q => (memst (pstore q) P || memst (pstore q) D) && negb (memst (pstore q) P)) (fun q => memst (pstore q) D)).
  2:{ intros q _. destruct (memst (pstore q) P) eqn:E1, (memst (pstore q) D) eqn:E2; cbn; try reflexivity.
      unfold memst in E1, E2. apply existsb_exists in E1 as (x & Hx & Hs1). apply existsb_exists in E2 as (y & Hy & Hs2).
      apply Z.eqb_eq in Hs1, Hs2. exfalso. apply (Hdisj y Hy). rewrite Hs2, <- Hs1. apply in_map. exact Hx. }
  rewrite (G P HnP), (G D HnD); [rewrite Nat2Z.inj_add; reflexivity| |]; intros x Hx; eexists; [apply HD|apply HP]; exact Hx.
Qed.

(* mid = None: no transfer inside; mid = Some tl: leadership goes to tl between enter and leave *)
Lemma pc_joint_mid g ps l rg cv P D (mid : option (Z * Z)) rest :
  Inv g (reg ps l rg cv) -> NJ ps ->
  (forall x, In x P -> lk ps (fst x) = Some (Peer (fst x) (snd x) Learner)) ->
  (forall x, In x D -> lk ps (fst x) = Some (Peer (fst x) (snd x) Voter)) ->
  NoDup (map fst P) -> NoDup (map fst D) -> (forall x, In x D -> ~ In (fst x) (map fst P)) ->
  g_min_voters g <= voters_new (map (enter_role P D) ps) ->
  match mid with
  | None => ~ In l (map fst D)
  | Some (from, tl) => In tl (map fst P) /\ tl <> l
  end ->
  let l' := match mid with None => l | Some (_, tl) => tl end in
  exists cv',
    plan_check g (reg ps l rg cv)
      (ChangePeerV2Enter P D :: (match mid with None => [] | Some (from, tl) => [TransferLeader from tl] end) ++ ChangePeerV2Leave P D :: rest)
    = plan_check g (reg (post_joint P D ps) l' rg cv') rest
    /\ Inv g (reg (post_joint P D ps) l' rg cv') /\ NJ (post_joint P D ps).
Proof.
  intros I Hnj HP HD HnP HnD Hdisj Hvn Hmid l'.
  assert (Hcase : P ++ D = [] \/ P ++ D <> []).
  { destruct P; [destruct D; [left; reflexivity|right; discriminate]|right; discriminate]. }
  destruct Hcase as [Hemp|Hne].
  - (* nothing to promote or demote: both steps are already finished *)
    apply app_eq_nil in Hemp as [-> ->].
    destruct mid as [[from tl]|]; [destruct Hmid as [[] _]|].
    exists cv. cbn [app]. rewrite pc_enter_empty, (pc_leave_empty g (reg ps l rg cv) rest Hnj).
    unfold post_joint. rewrite enter_role_nil, (leave_role_NJ _ Hnj). auto.
  - pose proof (pc_enter g (reg ps l rg cv) P D) as E.
    cbn [reg peers leader conf_ver rng set_peers] in E.
    set (ps3 := map (enter_role P D) ps) in *.
    assert (Hnd : ND ps) by (apply (inv_nd _ _ I)).
    assert (Hnd3 : ND ps3) by (apply ND_map; [intros q; apply enter_role_store|exact Hnd]).
    assert (Hlk3 : forall s, lk ps3 s = option_map (enter_role P D) (lk ps s)) by (intros s; apply lk_map; intros q; apply enter_role_store).
    assert (HP3 : forall x, In x P -> lk ps3 (fst x) = Some (Peer (fst x) (snd x) Incoming)).
    { intros x Hx. rewrite Hlk3, (HP x Hx). cbn [option_map]. unfold enter_role; cbn [pstore pid]. rewrite (memst_true _ P x Hx eq_refl). reflexivity. }
    assert (HD3 : forall x, In x D -> lk ps3 (fst x) = Some (Peer (fst x) (snd x) Demoting)).
    { intros x Hx. rewrite Hlk3, (HD x Hx). cbn [option_map]. unfold enter_role; cbn [pstore pid].
      rewrite (memst_false _ P (Hdisj x Hx)), (memst_true _ D x Hx eq_refl). reflexivity. }
    assert (Hcount : countb in_joint ps3 = Z.of_nat (length P + length D)) by (apply count_joint_enter; auto).
    destruct mid as [[from tl]|].
    + (* transfer inside *)
      destruct Hmid as [HtlP Htl]. apply in_map_iff in HtlP as (x & Hxs & Hx).
      destruct (E (TransferLeader from tl :: ChangePeerV2Leave P D :: rest) I Hnj HP HD HnP HnD Hdisj Hne Hvn) as (E1 & I3).
      destruct (pc_transfer g _ from tl (ChangePeerV2Leave P D :: rest) (Peer (fst x) (snd x) Incoming) I3) as (E2 & I3').
      { cbn [peers]. rewrite <- Hxs. apply HP3. exact Hx. }
      { right. reflexivity. }
      { cbn. auto. }
      cbn [set_leader peers leader conf_ver rng] in E2, I3'.
      destruct (pc_leave g _ P D rest I3') as (E3 & I4 & Hnj4).
      { cbn [peers]. exact HP3. }
      { cbn [peers]. exact HD3. }
      { unfold count_joint. cbn [peers]. exact Hcount. }
      { exact Hne. }
      { cbn [peers leader]. eexists. split; [rewrite <- Hxs; apply HP3; exact Hx|]. right. reflexivity. }
      cbn [set_peers peers leader conf_ver rng] in E3, I4, Hnj4.
      eexists. split; [|split; [exact I4|exact Hnj4]].
      cbn [app]. etransitivity; [exact E1|]. etransitivity; [exact E2|exact E3].
    + destruct (E (ChangePeerV2Leave P D :: rest) I Hnj HP HD HnP HnD Hdisj Hne Hvn) as (E1 & I3).
      destruct (pc_leave g _ P D rest I3) as (E3 & I4 & Hnj4).
      { cbn [peers]. exact HP3. }
      { cbn [peers]. exact HD3. }
      { unfold count_joint. cbn [peers]. exact Hcount. }
      { exact Hne. }
      { unfold reg, set_peers; cbn [peers leader]. destruct (inv_leader _ _ I) as (lp & Hlp & Hll). unfold reg in Hlp; cbn [peers leader] in Hlp.
        exists (enter_role P D lp). split; [rewrite Hlk3, Hlp; reflexivity|].
        assert (Hs : pstore lp = l) by (apply lk_Some in Hlp; tauto).
        unfold enter_role. rewrite Hs. rewrite (memst_false _ D Hmid).
        destruct (memst l P) eqn:EP.
        - right. reflexivity.
        - left. destruct (Hnj lp (proj1 (lk_Some _ _ _ Hlp))) as [R|R]; [exact R|]. unfold is_learner in Hll. rewrite R in Hll. discriminate. }
      cbn [set_peers peers leader conf_ver rng] in E3, I4, Hnj4.
      eexists. split; [|split; [exact I4|exact Hnj4]].
      cbn [app]. etransitivity; [exact E1|exact E3].
Qed.

(* ---------- the whole script ---------- *)
Inductive tmode := TBefore | TAfter | TInside | TStay.

Definition joint_plan (light : bool) (A : list peer) (P D : list (Z * Z)) (R : list peer) (m : tmode) (ol tl : Z) : list step :=
  add_steps light A
  ++ (match m with TBefore => [TransferLeader ol tl] | _ => [] end)
  ++ ChangePeerV2Enter P D
  :: (match m with TInside => [TransferLeader ol tl] | _ => [] end)
  ++ ChangePeerV2Leave P D
  :: (match m with TAfter => [TransferLeader ol tl] | _ => [] end)
  ++ remove_steps R.

Lemma final_ok g ps l rg cv :
  Inv g (reg ps l rg cv) -> NJ ps ->
  same_placement (placement ps) (g_target g) = true -> (g_leader g = 0 \/ g_leader g = l) ->
  plan_check g (reg ps l rg cv) [] = None.
Proof.
  intros I Hnj Hsp Hl. cbn [plan_check]. unfold final_violation, reg. cbn [peers leader]. rewrite Hsp. cbn [negb].
  assert (E : negb (g_leader g =? 0) && negb (l =? g_leader g) = false).
  { destruct Hl as [-> | ->]; [reflexivity|]. rewrite Z.eqb_refl. apply andb_false_r. }
  rewrite E. destruct (inv_leader _ _ I) as (p & Hp & Hlr). unfold reg in Hp; cbn [peers leader] in Hp.
  unfold get_store_peer; cbn [peers]. fold (lk ps l). rewrite Hp.
  destruct (Hnj p (proj1 (lk_Some _ _ _ Hp))) as [R|R]; unfold new_voter; rewrite R; [reflexivity|].
  unfold is_learner in Hlr. rewrite R in Hlr. discriminate.
Qed.

Theorem joint_script_ok g ps0 l0 rg cv light A P D R m tl :
  let ps1 := ps0 ++ map learner_of A in
  let ps4 := post_joint P D ps1 in
  let psF := remove_all ps4 R in
  (* the origin *)
  ND ps0 -> NJ ps0 ->
  (exists lp, lk ps0 l0 = Some lp /\ prole lp = Voter) ->
  (* adds *)
  ND (map learner_of A) -> (forall a, In a A -> lk ps0 (pstore a) = None) ->
  (* promotions and demotions *)
  (forall x, In x P -> lk ps1 (fst x) = Some (Peer (fst x) (snd x) Learner)) ->
  (forall x, In x D -> lk ps1 (fst x) = Some (Peer (fst x) (snd x) Voter)) ->
  NoDup (map fst P) -> NoDup (map fst D) -> (forall x, In x D -> ~ In (fst x) (map fst P)) ->
  (* removals: learners by then *)
  NoDup (map pstore R) -> (forall p, In p R -> lk ps4 (pstore p) = Some (Peer (pstore p) (pid p) Learner)) ->
  (forall p, In p R -> pstore p <> tl) ->
  (* the leader *)
  match m with
  | TStay => tl = l0 /\ ~ In l0 (map fst D)
  | TBefore => tl <> l0 /\ (exists q, lk ps1 tl = Some q /\ prole q = Voter) /\ ~ In tl (map fst D)
  | TAfter => tl <> l0 /\ ~ In l0 (map fst D) /\ (exists q, lk ps4 tl = Some q /\ prole q = Voter)
  | TInside => tl <> l0 /\ In tl (map fst P)
  end ->
  (* the goal *)
  g_min_voters g <= voters_old ps0 -> g_min_voters g <= voters_new ps0 ->
  g_min_voters g <= voters_new (map (enter_role P D) ps1) ->
  same_placement (placement psF) (g_target g) = true ->
  (g_leader g = 0 \/ g_leader g = tl) ->
  forall ol, plan_check g (reg ps0 l0 rg cv) (joint_plan light A P D R m ol tl) = None.
Proof.
  intros ps1 ps4 psF Hnd0 Hnj0 (lp & Hlp & Hlrole) HndA HA HP HD HnP HnD Hdisj HnR HR HRl Hmode Hvo Hvn Hvn3 Hsp Hgl ol.
  assert (I0 : Inv g (reg ps0 l0 rg cv)).
  { constructor; cbn [reg peers leader]; auto. exists lp. split; [exact Hlp|]. unfold is_learner. rewrite Hlrole. reflexivity. }
  unfold joint_plan.
  destruct (pc_adds g light A ps0 l0 rg cv
              ((match m with TBefore => [TransferLeader ol tl] | _ => [] end)
               ++ ChangePeerV2Enter P D :: (match m with TInside => [TransferLeader ol tl] | _ => [] end)
               ++ ChangePeerV2Leave P D :: (match m with TAfter => [TransferLeader ol tl] | _ => [] end) ++ remove_steps R)
              I0 Hnj0 HndA HA) as (cv1 & E1 & I1 & Hnj1).
  fold ps1 in E1, I1, Hnj1. rewrite E1. clear E1.
  (* finishing from the post-joint state with leader tl *)
  assert (Fin : forall cvx, Inv g (reg ps4 tl rg cvx) -> NJ ps4 ->
                 plan_check g (reg ps4 tl rg cvx) (remove_steps R) = None).
  { intros cvx I4 Hnj4.
    destruct (pc_removes g R ps4 tl rg cvx [] I4 Hnj4 HnR HR HRl) as (cvF & EF & IF & HnjF).
    rewrite app_nil_r in EF. rewrite EF. fold psF. apply final_ok; auto. }
  destruct m.
  - (* transfer before *)
    destruct Hmode as (Hne & (q & Hq & Hqr) & HtlD).
    destruct (pc_transfer g (reg ps1 l0 rg cv1) ol tl
                (ChangePeerV2Enter P D :: [] ++ ChangePeerV2Leave P D :: [] ++ remove_steps R) q I1) as (E2 & I2).
    { exact Hq. } { left. exact Hqr. } { cbn. auto. }
    cbn [app]. cbn [app] in E2. rewrite E2. clear E2. unfold reg, set_leader in I2 |- *. cbn [peers leader conf_ver rng] in I2 |- *.
    destruct (pc_joint_mid g ps1 tl rg cv1 P D None (remove_steps R) I2 Hnj1 HP HD HnP HnD Hdisj Hvn3 HtlD) as (cv4 & E3 & I4 & Hnj4).
    cbn [app] in E3. unfold reg in E3. rewrite E3. apply Fin; auto.
  - (* transfer after *)
    destruct Hmode as (Hne & Hl0D & (q & Hq & Hqr)).
    destruct (pc_joint_mid g ps1 l0 rg cv1 P D None ([TransferLeader ol tl] ++ remove_steps R) I1 Hnj1 HP HD HnP HnD Hdisj Hvn3 Hl0D)
      as (cv4 & E3 & I4 & Hnj4).
    cbn [app] in E3 |- *. rewrite E3. clear E3. fold ps4 in I4, Hnj4 |- *.
    destruct (pc_transfer g (reg ps4 l0 rg cv4) ol tl (remove_steps R) q I4) as (E4 & I5).
    { exact Hq. } { left. exact Hqr. } { cbn. auto. }
    rewrite E4. unfold reg, set_leader in I5 |- *. cbn [peers leader conf_ver rng] in I5 |- *. apply (Fin cv4); auto.
  - (* transfer inside *)
    destruct Hmode as (Hne & HtlP).
    destruct (pc_joint_mid g ps1 l0 rg cv1 P D (Some (ol, tl)) (remove_steps R) I1 Hnj1 HP HD HnP HnD Hdisj Hvn3 (conj HtlP Hne))
      as (cv4 & E3 & I4 & Hnj4).
    cbn [app] in E3 |- *. rewrite E3. apply Fin; auto.
  - (* leader stays *)
    destruct Hmode as (-> & Hl0D).
    destruct (pc_joint_mid g ps1 l0 rg cv1 P D None (remove_steps R) I1 Hnj1 HP HD HnP HnD Hdisj Hvn3 Hl0D) as (cv4 & E3 & I4 & Hnj4).
    cbn [app] in E3 |- *. rewrite E3. apply Fin; auto.
Qed.
