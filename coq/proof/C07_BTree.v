(* C07 — stage 2: the order statistics PD added to google/btree (`indices`).
   `indices[i] = size(children[0]) + ... + size(children[i]) + i` is the position of item i in the in-order walk.
   Every bookkeeping function of `indices` (model/C07_BTree.v: ix_*; transcribed as list functions, bodies tied in
   proof/C07_Skel.v) implements the obvious operation on the list of child sizes.  Used by proof/C07_BTreeRefine.v. *)
From Coq Require Import List ZArith Lia Bool.
From PDV Require Import model.C07_BTreeSpec model.C07_BTree.
Import ListNotations.
Local Open Scope Z_scope.

(* ---- the size-list specification ---- *)
Lemma fold_add_acc l z : fold_right Z.add z l = fold_right Z.add 0 l + z.
Proof. induction l as [|y l IH]; cbn; [lia|]. rewrite IH. lia. Qed.

Lemma idx_from_shift acc d ss : idx_from (acc + d) ss = map (fun v => v + d) (idx_from acc ss).
Proof.
  revert acc. induction ss as [|s r IH]; intros acc; cbn; [reflexivity|].
  f_equal; [lia|]. rewrite <- IH. f_equal. lia.
Qed.

Lemma idx_from_app acc a b :
  idx_from acc (a ++ b) = idx_from acc a ++ idx_from (acc + fold_right Z.add 0 a + Z.of_nat (length a)) b.
Proof.
  revert acc. induction a as [|s r IH]; intros acc; cbn [app idx_from fold_right length].
  - f_equal. lia.
  - f_equal. rewrite IH. f_equal. f_equal. lia.
Qed.

Lemma idx_from_length acc ss : length (idx_from acc ss) = length ss.
Proof. revert acc. induction ss as [|s r IH]; intros acc; cbn; [reflexivity|]. rewrite IH. reflexivity. Qed.

(* the entry before position i: accumulated sizes + (i - 1) *)
Lemma idx_from_nth_prefix acc a s b :
  nth (length a) (idx_from acc (a ++ s :: b)) 0 = acc + fold_right Z.add 0 a + Z.of_nat (length a) + s.
Proof.
  rewrite idx_from_app. rewrite app_nth2; rewrite idx_from_length; [|lia]. rewrite Nat.sub_diag. reflexivity.
Qed.

Theorem add_at_spec a s b d acc :
  ix_add_at (length a) d (idx_from acc (a ++ s :: b)) = idx_from acc (a ++ (s + d) :: b).
Proof.
  revert acc. induction a as [|x a IH]; intros acc; cbn [app idx_from length ix_add_at].
  - f_equal; [lia|]. replace (acc + (s + d) + 1) with ((acc + s + 1) + d) by lia.
    rewrite (idx_from_shift (acc + s + 1) d b).
    generalize (idx_from (acc + s + 1) b). intros l. induction l as [|y l IHl]; cbn; [reflexivity|]. rewrite IHl. reflexivity.
  - f_equal. apply IH.
Qed.

Theorem insert_at_spec a b sz :
  ix_insert_at (length a) sz (idx_of (a ++ b)) = idx_of (a ++ sz :: b).
Proof.
  unfold ix_insert_at, idx_of. rewrite !idx_from_app. cbn [idx_from].
  rewrite firstn_app, idx_from_length, Nat.sub_diag, firstn_O, app_nil_r, firstn_all2 by (rewrite idx_from_length; lia).
  rewrite skipn_app, idx_from_length, Nat.sub_diag, skipn_O, skipn_all2 by (rewrite idx_from_length; lia). cbn [app].
  f_equal. f_equal.
  - destruct a as [|x a']; [cbn; lia|].
    destruct (@exists_last _ (x :: a') ltac:(discriminate)) as (a0 & sl & E). rewrite E.
    rewrite app_length. cbn [length]. replace (length a0 + 1)%nat with (S (length a0)) by lia.
    rewrite app_nth1 by (rewrite idx_from_length, app_length; cbn; lia).
    rewrite (idx_from_nth_prefix 0 a0 sl []). rewrite fold_right_app. cbn [fold_right].
    rewrite (fold_add_acc a0 (sl + 0)). lia.
  - replace (0 + fold_right Z.add 0 a + Z.of_nat (length a) + sz + 1)
      with (0 + fold_right Z.add 0 a + Z.of_nat (length a) + (sz + 1)) by lia.
    rewrite (idx_from_shift (0 + fold_right Z.add 0 a + Z.of_nat (length a)) (sz + 1) b). apply map_ext. intros v; lia.
Qed.

Theorem push_spec ss sz : ix_push sz (idx_of ss) = idx_of (ss ++ [sz]).
Proof.
  unfold ix_push, idx_of. rewrite idx_from_app. cbn [idx_from].
  destruct ss as [|x r]; [cbn; f_equal; lia|].
  destruct (idx_from 0 (x :: r)) as [|y l] eqn:E; [cbn in E; discriminate|]. rewrite <- E. f_equal. f_equal.
  destruct (@exists_last _ (x :: r) ltac:(discriminate)) as (a0 & sl & E'). rewrite E'.
  rewrite idx_from_app. cbn [idx_from]. rewrite last_last.
  rewrite fold_right_app, app_length. cbn [fold_right length].
  rewrite (fold_add_acc a0 (sl + 0)). lia.
Qed.

Theorem merge_spec a s1 s2 b :
  ix_merge (length a) (idx_of (a ++ s1 :: s2 :: b)) = idx_of (a ++ (s1 + 1 + s2) :: b).
Proof.
  unfold ix_merge, idx_of. rewrite !idx_from_app. cbn [idx_from].
  rewrite firstn_app, idx_from_length, Nat.sub_diag, firstn_O, app_nil_r, firstn_all2 by (rewrite idx_from_length; lia).
  f_equal.
  replace (S (length a)) with (length (idx_from 0 a) + 1)%nat by (rewrite idx_from_length; lia).
  rewrite skipn_app. rewrite skipn_all2 by lia. cbn [app].
  replace (length (idx_from 0 a) + 1 - length (idx_from 0 a))%nat with 1%nat by lia. cbn [skipn].
  f_equal; [lia|]. f_equal. lia.
Qed.

Theorem remove_at_spec a s b :
  ix_remove_at (length a) (idx_of (a ++ s :: b)) = (s, idx_of (a ++ b)).
Proof.
  unfold ix_remove_at, idx_of.
  assert (SZ : match length a with
               | O => nth 0 (idx_from 0 (a ++ s :: b)) 0
               | S p => nth (length a) (idx_from 0 (a ++ s :: b)) 0 - nth p (idx_from 0 (a ++ s :: b)) 0 - 1
               end = s).
  { destruct a as [|x a']; [cbn; lia|].
    destruct (@exists_last _ (x :: a') ltac:(discriminate)) as (a0 & sl & E). rewrite E.
    rewrite app_length. cbn [length]. replace (length a0 + 1)%nat with (S (length a0)) by lia.
    replace (S (length a0)) with (length (a0 ++ [sl])) at 1 by (rewrite app_length; cbn; lia).
    rewrite (idx_from_nth_prefix 0 (a0 ++ [sl]) s b).
    rewrite <- app_assoc. cbn [app]. rewrite (idx_from_nth_prefix 0 a0 sl (s :: b)).
    rewrite fold_right_app, app_length. cbn [fold_right length].
    rewrite (fold_add_acc a0 (sl + 0)). lia. }
  rewrite SZ. f_equal. rewrite !idx_from_app. cbn [idx_from].
  rewrite firstn_app, idx_from_length, Nat.sub_diag, firstn_O, app_nil_r, firstn_all2 by (rewrite idx_from_length; lia).
  f_equal.
  replace (S (length a)) with (length (idx_from 0 a) + 1)%nat by (rewrite idx_from_length; lia).
  rewrite skipn_app. rewrite skipn_all2 by lia. cbn [app].
  replace (length (idx_from 0 a) + 1 - length (idx_from 0 a))%nat with 1%nat by lia. cbn [skipn].
  replace (0 + fold_right Z.add 0 a + Z.of_nat (length a) + s + 1)
    with (0 + fold_right Z.add 0 a + Z.of_nat (length a) + (s + 1)) by lia.
  rewrite (idx_from_shift (0 + fold_right Z.add 0 a + Z.of_nat (length a)) (s + 1) b), map_map. rewrite <- (map_id (idx_from _ b)) at 2. apply map_ext. intros v; lia.
Qed.

Theorem split_spec a s b nxt :
  ix_split (length a) nxt (idx_of (a ++ s :: b)) = idx_of (a ++ (s - 1 - nxt) :: nxt :: b).
Proof.
  unfold ix_split.
  replace (S (length a)) with (length (a ++ [s])) by (rewrite app_length; cbn; lia).
  replace (a ++ s :: b) with ((a ++ [s]) ++ b) by (rewrite <- app_assoc; reflexivity).
  rewrite insert_at_spec. rewrite <- app_assoc. cbn [app].
  unfold idx_of. rewrite !idx_from_app. cbn [idx_from].
  assert (U : forall l x r f, upd_nth (length l) f (l ++ x :: r) = l ++ f x :: r).
  { induction l as [|y l IHl]; intros x r f; cbn; [reflexivity|]. rewrite IHl. reflexivity. }
  rewrite <- (idx_from_length 0 a) at 1. rewrite U. f_equal. f_equal; [lia|]. f_equal; [lia|]. f_equal. lia.
Qed.

Theorem pop_spec a s : ix_pop (idx_of (a ++ [s])) = (s, idx_of a).
Proof.
  unfold ix_pop, idx_of. rewrite idx_from_app. cbn [idx_from]. rewrite removelast_last.
  rewrite app_length, idx_from_length. cbn [length].
  replace (length a + 1 - 1)%nat with (length a) by lia.
  rewrite app_nth2 by (rewrite idx_from_length; lia). rewrite idx_from_length, Nat.sub_diag. cbn [nth].
  f_equal. destruct a as [|x a']; [cbn; lia|].
  replace (Nat.eqb (length (x :: a') + 1) 1) with false by (symmetry; apply Nat.eqb_neq; cbn; lia).
  destruct (@exists_last _ (x :: a') ltac:(discriminate)) as (a0 & sl & E). rewrite E.
  rewrite app_length. cbn [length]. replace (length a0 + 1 + 1 - 2)%nat with (length a0) by lia.
  rewrite app_nth1 by (rewrite idx_from_length, app_length; cbn; lia).
  rewrite (idx_from_nth_prefix 0 a0 sl []). rewrite fold_right_app. cbn [fold_right].
  rewrite (fold_add_acc a0 (sl + 0)). lia.
Qed.

