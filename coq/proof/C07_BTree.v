(* C07 — stage 2, first part: the order statistics PD added to google/btree (`indices`, GetAt, GetWithIndex).
   `indices[i] = size(children[0]) + ... + size(children[i]) + i` is the position of item i in the in-order walk.
   Part A: every bookkeeping function of `indices` (transcribed as list functions; bodies tied in proof/C07_Skel.v)
   implements the obvious operation on the list of child sizes.
   Part B: on any node whose `indices` satisfy that equation, `getAt k` is the k-th element of the in-order walk.
   The structural operations (split / steal / merge on nodes) are NOT modelled here: for them L0 = pkg/btree rests on
   the differential check (degrees 2,3,4,64). *)
From Coq Require Import List ZArith Lia Bool.
Import ListNotations.
Local Open Scope Z_scope.

(* ---------------------------------------------------------------------------------------- *)
(* Part A                                                                                     *)
Fixpoint idx_from (acc : Z) (sizes : list Z) : list Z :=
  match sizes with
  | [] => []
  | s :: r => (acc + s) :: idx_from (acc + s + 1) r
  end.
Definition idx_of (sizes : list Z) : list Z := idx_from 0 sizes.

(* func (s *indices) addAt(index, delta): every entry from index on grows by delta *)
Fixpoint add_at (index : nat) (delta : Z) (s : list Z) : list Z :=
  match s, index with
  | [], _ => []
  | x :: r, O => (x + delta) :: add_at O delta r
  | x :: r, S j => x :: add_at j delta r
  end.

(* func (s *indices) insertAt(index, sz) *)
Definition insert_at (index : nat) (sz : Z) (s : list Z) : list Z :=
  firstn index s
  ++ (match index with O => sz | S p => nth p s 0 + sz + 1 end)
  :: map (fun v => v + sz + 1) (skipn index s).

(* func (s *indices) push(sz) *)
Definition push (sz : Z) (s : list Z) : list Z :=
  match s with [] => [sz] | _ => s ++ [last s 0 + 1 + sz] end.

Fixpoint upd_nth (i : nat) (f : Z -> Z) (l : list Z) : list Z :=
  match l, i with
  | [], _ => []
  | x :: r, O => f x :: r
  | x :: r, S j => x :: upd_nth j f r
  end.

(* func (s *indices) split(index, nextSize): insertAt(index+1, -1); s[index] -= 1 + nextSize *)
Definition split (index : nat) (next_size : Z) (s : list Z) : list Z :=
  upd_nth index (fun v => v - (1 + next_size)) (insert_at (S index) (-1) s).

(* func (s *indices) merge(index): entries index+1.. move one slot down, the last slot is dropped *)
Definition merge (index : nat) (s : list Z) : list Z := firstn index s ++ skipn (S index) s.

(* func (s *indices) removeAt(index) *)
Definition remove_at (index : nat) (s : list Z) : Z * list Z :=
  let sz := match index with O => nth 0 s 0 | S p => nth index s 0 - nth p s 0 - 1 end in
  (sz, firstn index s ++ map (fun v => v - sz - 1) (skipn (S index) s)).

(* func (s *indices) pop() *)
Definition pop (s : list Z) : Z * list Z :=
  let l := length s in
  let out := nth (l - 1) s 0 in
  ((if Nat.eqb l 1 then out else out - (nth (l - 2) s 0 + 1)), removelast s).

(* ---- the size-list specification ---- *)
Lemma fold_add_acc l z : fold_right Z.add z l = fold_right Z.add 0 l + z.
Proof. induction l as [|y l IH]; cbn; [lia|]. rewrite IH. lia. Qed.

Lemma idx_from_shift acc d ss : idx_from (acc + d) ss = map (fun v => v + d) (idx_from acc ss).
Proof.
  revert acc. induction ss as [|s r IH]; intros acc; cbn; [reflexivity|].
  f_equal; [lia|]. rewrite <- IH. f_equal. lia.
Qed.

Lemma idx_from_app acc a b :
  idx_from acc (a ++ b) = idx_from acc a ++ idx_from (acc + fold_right Z.add 0 a + Z.of_nat (length a)) b.
Proof.
  revert acc. induction a as [|s r IH]; intros acc; cbn [app idx_from fold_right length].
  - f_equal. lia.
  - f_equal. rewrite IH. f_equal. f_equal. lia.
Qed.

Lemma idx_from_length acc ss : length (idx_from acc ss) = length ss.
Proof. revert acc. induction ss as [|s r IH]; intros acc; cbn; [reflexivity|]. rewrite IH. reflexivity. Qed.

(* the entry before position i: accumulated sizes + (i - 1) *)
Lemma idx_from_nth_prefix acc a s b :
  nth (length a) (idx_from acc (a ++ s :: b)) 0 = acc + fold_right Z.add 0 a + Z.of_nat (length a) + s.
Proof.
  rewrite idx_from_app. rewrite app_nth2; rewrite idx_from_length; [|lia]. rewrite Nat.sub_diag. reflexivity.
Qed.

Theorem add_at_spec a s b d acc :
  add_at (length a) d (idx_from acc (a ++ s :: b)) = idx_from acc (a ++ (s + d) :: b).
Proof.
  revert acc. induction a as [|x a IH]; intros acc; cbn [app idx_from length add_at].
  - f_equal; [lia|]. replace (acc + (s + d) + 1) with ((acc + s + 1) + d) by lia.
    rewrite (idx_from_shift (acc + s + 1) d b).
    generalize (idx_from (acc + s + 1) b). intros l. induction l as [|y l IHl]; cbn; [reflexivity|]. rewrite IHl. reflexivity.
  - f_equal. apply IH.
Qed.

Theorem insert_at_spec a b sz :
  insert_at (length a) sz (idx_of (a ++ b)) = idx_of (a ++ sz :: b).
Proof.
  unfold insert_at, idx_of. rewrite !idx_from_app. cbn [idx_from].
  rewrite firstn_app, idx_from_length, Nat.sub_diag, firstn_O, app_nil_r, firstn_all2 by (rewrite idx_from_length; lia).
  rewrite skipn_app, idx_from_length, Nat.sub_diag, skipn_O, skipn_all2 by (rewrite idx_from_length; lia). cbn [app].
  f_equal. f_equal.
  - destruct a as [|x a']; [cbn; lia|].
    destruct (@exists_last _ (x :: a') ltac:(discriminate)) as (a0 & sl & E). rewrite E.
    rewrite app_length. cbn [length]. replace (length a0 + 1)%nat with (S (length a0)) by lia.
    rewrite app_nth1 by (rewrite idx_from_length, app_length; cbn; lia).
    rewrite (idx_from_nth_prefix 0 a0 sl []). rewrite fold_right_app. cbn [fold_right].
    rewrite (fold_add_acc a0 (sl + 0)). lia.
  - replace (0 + fold_right Z.add 0 a + Z.of_nat (length a) + sz + 1)
      with (0 + fold_right Z.add 0 a + Z.of_nat (length a) + (sz + 1)) by lia.
    rewrite (idx_from_shift (0 + fold_right Z.add 0 a + Z.of_nat (length a)) (sz + 1) b). apply map_ext. intros v; lia.
Qed.

Theorem push_spec ss sz : push sz (idx_of ss) = idx_of (ss ++ [sz]).
Proof.
  unfold push, idx_of. rewrite idx_from_app. cbn [idx_from].
  destruct ss as [|x r]; [cbn; f_equal; lia|].
  destruct (idx_from 0 (x :: r)) as [|y l] eqn:E; [cbn in E; discriminate|]. rewrite <- E. f_equal. f_equal.
  destruct (@exists_last _ (x :: r) ltac:(discriminate)) as (a0 & sl & E'). rewrite E'.
  rewrite idx_from_app. cbn [idx_from]. rewrite last_last.
  rewrite fold_right_app, app_length. cbn [fold_right length].
  rewrite (fold_add_acc a0 (sl + 0)). lia.
Qed.

Theorem merge_spec a s1 s2 b :
  merge (length a) (idx_of (a ++ s1 :: s2 :: b)) = idx_of (a ++ (s1 + 1 + s2) :: b).
Proof.
  unfold merge, idx_of. rewrite !idx_from_app. cbn [idx_from].
  rewrite firstn_app, idx_from_length, Nat.sub_diag, firstn_O, app_nil_r, firstn_all2 by (rewrite idx_from_length; lia).
  f_equal.
  replace (S (length a)) with (length (idx_from 0 a) + 1)%nat by (rewrite idx_from_length; lia).
  rewrite skipn_app. rewrite skipn_all2 by lia. cbn [app].
  replace (length (idx_from 0 a) + 1 - length (idx_from 0 a))%nat with 1%nat by lia. cbn [skipn].
  f_equal; [lia|]. f_equal. lia.
Qed.

Theorem remove_at_spec a s b :
  remove_at (length a) (idx_of (a ++ s :: b)) = (s, idx_of (a ++ b)).
Proof.
  unfold remove_at, idx_of.
  assert (SZ : match length a with
               | O => nth 0 (idx_from 0 (a ++ s :: b)) 0
               | S p => nth (length a) (idx_from 0 (a ++ s :: b)) 0 - nth p (idx_from 0 (a ++ s :: b)) 0 - 1
               end = s).
  { destruct a as [|x a']; [cbn; lia|].
    destruct (@exists_last _ (x :: a') ltac:(discriminate)) as (a0 & sl & E). rewrite E.
    rewrite app_length. cbn [length]. replace (length a0 + 1)%nat with (S (length a0)) by lia.
    replace (S (length a0)) with (length (a0 ++ [sl])) at 1 by (rewrite app_length; cbn; lia).
    rewrite (idx_from_nth_prefix 0 (a0 ++ [sl]) s b).
    rewrite <- app_assoc. cbn [app]. rewrite (idx_from_nth_prefix 0 a0 sl (s :: b)).
    rewrite fold_right_app, app_length. cbn [fold_right length].
    rewrite (fold_add_acc a0 (sl + 0)). lia. }
  rewrite SZ. f_equal. rewrite !idx_from_app. cbn [idx_from].
  rewrite firstn_app, idx_from_length, Nat.sub_diag, firstn_O, app_nil_r, firstn_all2 by (rewrite idx_from_length; lia).
  f_equal.
  replace (S (length a)) with (length (idx_from 0 a) + 1)%nat by (rewrite idx_from_length; lia).
  rewrite skipn_app. rewrite skipn_all2 by lia. cbn [app].
  replace (length (idx_from 0 a) + 1 - length (idx_from 0 a))%nat with 1%nat by lia. cbn [skipn].
  replace (0 + fold_right Z.add 0 a + Z.of_nat (length a) + s + 1)
    with (0 + fold_right Z.add 0 a + Z.of_nat (length a) + (s + 1)) by lia.
  rewrite (idx_from_shift (0 + fold_right Z.add 0 a + Z.of_nat (length a)) (s + 1) b), map_map. rewrite <- (map_id (idx_from _ b)) at 2. apply map_ext. intros v; lia.
Qed.

Theorem split_spec a s b nxt :
  split (length a) nxt (idx_of (a ++ s :: b)) = idx_of (a ++ (s - 1 - nxt) :: nxt :: b).
Proof.
  unfold split.
  replace (S (length a)) with (length (a ++ [s])) by (rewrite app_length; cbn; lia).
  replace (a ++ s :: b) with ((a ++ [s]) ++ b) by (rewrite <- app_assoc; reflexivity).
  rewrite insert_at_spec. rewrite <- app_assoc. cbn [app].
  unfold idx_of. rewrite !idx_from_app. cbn [idx_from].
  assert (U : forall l x r f, upd_nth (length l) f (l ++ x :: r) = l ++ f x :: r).
  { induction l as [|y l IHl]; intros x r f; cbn; [reflexivity|]. rewrite IHl. reflexivity. }
  rewrite <- (idx_from_length 0 a) at 1. rewrite U. f_equal. f_equal; [lia|]. f_equal; [lia|]. f_equal. lia.
Qed.

Theorem pop_spec a s : pop (idx_of (a ++ [s])) = (s, idx_of a).
Proof.
  unfold pop, idx_of. rewrite idx_from_app. cbn [idx_from]. rewrite removelast_last.
  rewrite app_length, idx_from_length. cbn [length].
  replace (length a + 1 - 1)%nat with (length a) by lia.
  rewrite app_nth2 by (rewrite idx_from_length; lia). rewrite idx_from_length, Nat.sub_diag. cbn [nth].
  f_equal. destruct a as [|x a']; [cbn; lia|].
  replace (Nat.eqb (length (x :: a') + 1) 1) with false by (symmetry; apply Nat.eqb_neq; cbn; lia).
  destruct (@exists_last _ (x :: a') ltac:(discriminate)) as (a0 & sl & E). rewrite E.
  rewrite app_length. cbn [length]. replace (length a0 + 1 + 1 - 2)%nat with (length a0) by lia.
  rewrite app_nth1 by (rewrite idx_from_length, app_length; cbn; lia).
  rewrite (idx_from_nth_prefix 0 a0 sl []). rewrite fold_right_app. cbn [fold_right].
  rewrite (fold_add_acc a0 (sl + 0)). lia.
Qed.

(* ---------------------------------------------------------------------------------------- *)
(* Part B: getAt on a node with correct indices                                               *)
Section GetAt.
  Context {A : Type}.

  Inductive bnode := BNode (its : list A) (ch : list bnode) (idx : list Z).

  Lemma bnode_ind' (P : bnode -> Prop) :
    (forall its ch idx, Forall P ch -> P (BNode its ch idx)) -> forall n, P n.
  Proof.
    intros H. fix IH 1. intros [its ch idx]. apply H.
    induction ch as [|c ch IHch]; constructor; [apply IH|exact IHch].
  Qed.

  (* in-order walk *)
  Fixpoint flatten (n : bnode) : list A :=
    let fix inter (its : list A) (cs : list bnode) {struct cs} : list A :=
        match cs with
        | [] => []
        | c :: cs' => match its with
                      | [] => flatten c
                      | i :: its' => flatten c ++ i :: inter its' cs'
                      end
        end in
    match n with
    | BNode its ch idx => match ch with [] => its | _ => inter its ch end
    end.

  Fixpoint inter (its : list A) (cs : list bnode) {struct cs} : list A :=
    match cs with
    | [] => []
    | c :: cs' => match its with
                  | [] => flatten c
                  | i :: its' => flatten c ++ i :: inter its' cs'
                  end
    end.

  Lemma flatten_node its c cs idx : flatten (BNode its (c :: cs) idx) = inter its (c :: cs).
  Proof. reflexivity. Qed.

  (* node.length() *)
  Definition bsize (n : bnode) : Z :=
    match n with BNode its ch idx => match idx with [] => Z.of_nat (length its) | _ => last idx 0 end end.

  (* sort.SearchInts(s, k) on an ascending slice: the smallest i with s[i] >= k *)
  Fixpoint search_ints (s : list Z) (k : Z) : nat :=
    match s with [] => O | x :: r => if k <=? x then O else S (search_ints r k) end.

  (* func (n *node) getAt(k) *)
  Fixpoint get_at (n : bnode) (k : Z) : option A :=
    match n with
    | BNode its ch idx =>
        if (bsize n <=? k) || (k <? 0) then None
        else match ch with
             | [] => nth_error its (Z.to_nat k)
             | _ =>
                 let i := search_ints idx k in
                 if nth i idx 0 =? k then nth_error its i
                 else (fix pick (cs : list bnode) (j : nat) : option A :=
                         match cs with
                         | [] => None
                         | c :: cs' =>
                             match j with
                             | O => get_at c (match i with O => k | S p => k - nth p idx 0 - 1 end)
                             | S j' => pick cs' j'
                             end
                         end) ch i
             end
    end.

  Definition fsize (c : bnode) : Z := Z.of_nat (length (flatten c)).

  (* the size equation of pkg/btree's comment, recursively *)
  Inductive wf : bnode -> Prop :=
  | wf_leaf its : wf (BNode its [] [])
  | wf_node its ch : length ch = S (length its) -> Forall wf ch ->
                     wf (BNode its ch (idx_of (map fsize ch))).

  Lemma inter_length its cs : length cs = S (length its) ->
    Z.of_nat (length (inter its cs)) = fold_right Z.add 0 (map fsize cs) + Z.of_nat (length its).
  Proof.
    revert its. induction cs as [|c cs IH]; intros its L; [discriminate|]. cbn [inter map fold_right].
    destruct its as [|i its'].
    - destruct cs; [|discriminate]. cbn. unfold fsize. lia.
    - cbn in L. rewrite app_length. cbn [length]. rewrite Nat2Z.inj_add, Nat2Z.inj_succ, IH by lia. unfold fsize. cbn [length]. lia.
  Qed.

  Lemma last_idx_from acc ss d : ss <> [] ->
    last (idx_from acc ss) d = acc + fold_right Z.add 0 ss + Z.of_nat (length ss) - 1.
  Proof.
    revert acc. induction ss as [|s r IH]; intros acc NE; [contradiction|]. cbn [idx_from].
    destruct r as [|s2 r2]; [cbn; lia|].
    change (last ((acc + s) :: idx_from (acc + s + 1) (s2 :: r2)) d) with (last (idx_from (acc + s + 1) (s2 :: r2)) d).
    rewrite IH by discriminate. cbn [fold_right length]. lia.
  Qed.

  Lemma bsize_wf n : wf n -> bsize n = fsize n.
  Proof.
    intros W. destruct W as [its|its ch L F]; [reflexivity|].
    destruct ch as [|c cs]; [discriminate|]. unfold fsize. rewrite flatten_node, (inter_length _ _ L).
    change (last (idx_from 0 (map fsize (c :: cs))) 0 = fold_right Z.add 0 (map fsize (c :: cs)) + Z.of_nat (length its)).
    rewrite last_idx_from by discriminate. rewrite map_length. cbn [length] in *. lia.
  Qed.

  (* the arithmetic of one descent step, with the positions shifted by acc *)
  Lemma inter_nth its cs acc k : length cs = S (length its) -> 0 <= k < Z.of_nat (length (inter its cs)) ->
    let idx := idx_from acc (map fsize cs) in
    let i := search_ints idx (k + acc) in
    if nth i idx 0 =? k + acc
    then nth_error (inter its cs) (Z.to_nat k) = nth_error its i
    else exists c, nth_error cs i = Some c /\
         nth_error (inter its cs) (Z.to_nat k) =
         nth_error (flatten c) (Z.to_nat (k + acc - match i with O => acc | S p => nth p idx 0 + 1 end)).
  Proof.
    revert its acc k. induction cs as [|c cs IH]; intros its acc k L K; [discriminate|].
    cbn [map idx_from search_ints]. cbn zeta.
    destruct (Z.leb_spec (k + acc) (acc + fsize c)) as [LE|GT].
    - cbn [nth]. destruct (Z.eqb_spec (acc + fsize c) (k + acc)) as [E|NE].
      + (* item 0 *)
        destruct its as [|i0 its']; cbn [inter] in *.
        * unfold fsize in E. lia.
        * rewrite nth_error_app2 by (unfold fsize in E; lia).
          replace (Z.to_nat k - length (flatten c))%nat with O by (unfold fsize in E; lia). reflexivity.
      + exists c. split; [reflexivity|]. replace (k + acc - acc) with k by lia.
        destruct its as [|i0 its']; cbn [inter]; [reflexivity|].
        apply nth_error_app1. unfold fsize in *. lia.
    - (* further right *)
      destruct its as [|i0 its']; cbn [inter] in K |- *.
      + unfold fsize in GT. lia.
      + cbn in L. rewrite app_length in K. cbn [length] in K.
        assert (K' : 0 <= k - fsize c - 1 < Z.of_nat (length (inter its' cs))) by (unfold fsize in *; lia).
        specialize (IH its' (acc + fsize c + 1) (k - fsize c - 1) ltac:(lia) K'). cbn zeta in IH.
        replace (k - fsize c - 1 + (acc + fsize c + 1)) with (k + acc) in IH by lia.
        set (i' := search_ints (idx_from (acc + fsize c + 1) (map fsize cs)) (k + acc)) in *.
        cbn [nth].
        assert (NE : nth_error (flatten c ++ i0 :: inter its' cs) (Z.to_nat k)
                     = nth_error (inter its' cs) (Z.to_nat (k - fsize c - 1))).
        { rewrite nth_error_app2 by (unfold fsize in *; lia).
          replace (Z.to_nat k - length (flatten c))%nat with (S (Z.to_nat (k - fsize c - 1))) by (unfold fsize in *; lia). reflexivity. }
        rewrite NE.
        destruct (nth i' (idx_from (acc + fsize c + 1) (map fsize cs)) 0 =? k + acc); [exact IH|].
        destruct IH as (c' & Hc' & E'). exists c'. split; [exact Hc'|]. rewrite E'. f_equal. f_equal.
        destruct i' as [|p]; cbn [nth]; lia.
  Qed.

  Definition child_off (idx : list Z) (i : nat) (k : Z) : Z :=
    match i with O => k | S p => k - nth p idx 0 - 1 end.

  Lemma get_at_node its c cs idx k :
    get_at (BNode its (c :: cs) idx) k =
    if (bsize (BNode its (c :: cs) idx) <=? k) || (k <? 0) then None
    else let i := search_ints idx k in
         if nth i idx 0 =? k then nth_error its i
         else match nth_error (c :: cs) i with
              | Some c' => get_at c' (child_off idx i k)
              | None => None
              end.
  Proof.
    cbn [get_at]. destruct ((bsize (BNode its (c :: cs) idx) <=? k) || (k <? 0)); [reflexivity|].
    cbn zeta. destruct (nth (search_ints idx k) idx 0 =? k); [reflexivity|].
    fold (child_off idx (search_ints idx k) k). generalize (child_off idx (search_ints idx k) k). intros kk.
    destruct (search_ints idx k) as [|j]; [reflexivity|]. cbn [nth_error]. revert j. clear.
    induction cs as [|c1 l IH]; intros j; [destruct j; reflexivity|]. destruct j as [|j']; [reflexivity|]. cbn [nth_error]. apply IH.
  Qed.

  Lemma search_ints_before s kk q : search_ints s kk = S q -> nth q s 0 < kk.
  Proof.
    revert q. induction s as [|x s IHs]; intros q Hs; [discriminate|]. cbn [search_ints] in Hs.
    destruct (kk <=? x) eqn:LE; [discriminate|]. apply Z.leb_gt in LE.
    injection Hs as Hq. destruct q as [|q']; cbn [nth]; [exact LE|]. apply IHs. exact Hq.
  Qed.

  Theorem get_at_spec n : wf n -> forall k, 0 <= k -> get_at n k = nth_error (flatten n) (Z.to_nat k).
  Proof.
    induction n as [its ch idx IHch] using bnode_ind'. intros W k K0.
    pose proof (bsize_wf _ W) as BS. inversion W as [its0|its0 ch0 L F]; subst.
    - cbn [get_at flatten]. cbn [bsize] in *.
      destruct (Z.leb_spec (Z.of_nat (length its)) k) as [GE|LT]; cbn [orb].
      + symmetry. apply nth_error_None. lia.
      + replace (k <? 0) with false by (symmetry; apply Z.ltb_ge; lia). reflexivity.
    - destruct ch as [|c cs]; [discriminate|].
      rewrite get_at_node, BS.
      replace (fsize (BNode its (c :: cs) (idx_of (map fsize (c :: cs))))) with (Z.of_nat (length (inter its (c :: cs)))) by reflexivity.
      rewrite flatten_node.
      destruct (Z.leb_spec (Z.of_nat (length (inter its (c :: cs)))) k) as [GE|LT]; cbn [orb].
      + symmetry. apply nth_error_None. lia.
      + replace (k <? 0) with false by (symmetry; apply Z.ltb_ge; lia).
        assert (K : 0 <= k < Z.of_nat (length (inter its (c :: cs)))) by lia.
        pose proof (inter_nth its (c :: cs) 0 k L K) as H. cbn zeta in H. rewrite Z.add_0_r in H.
        fold (idx_of (map fsize (c :: cs))) in H. cbn zeta.
        set (idx := idx_of (map fsize (c :: cs))) in *.
        set (i := search_ints idx k) in *.
        destruct (nth i idx 0 =? k); [symmetry; exact H|].
        destruct H as (c' & Hc' & E). rewrite Hc', E.
        assert (OFF : 0 <= child_off idx i k).
        { unfold child_off. destruct i as [|p] eqn:EI; [lia|]. pose proof (search_ints_before idx k p EI). lia. }
        replace (k - match i with O => 0 | S p => nth p idx 0 + 1 end) with (child_off idx i k)
          by (unfold child_off; destruct i; lia).
        rewrite Forall_forall in IHch, F. apply IHch; [eapply nth_error_In; eauto| |exact OFF].
        apply F. eapply nth_error_In; eauto.
  Qed.
End GetAt.
