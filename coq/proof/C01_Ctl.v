(* C01/C02 proofs, layer 1: control facts (who may be doing what). *)
From Coq Require Import ZArith List Bool Lia.
From PDV Require Import lib.Base gen.Gen_C01 model.C01_Tso.
Import ListNotations.
Local Open Scope Z_scope.

Definition in_campaign (c : ctl_st) : bool := match c with CElected | CIniting | CFailed => true | _ => false end.
Definition serving (c : ctl_st) : bool := match c with CServing => true | _ => false end.

Record Ctl (s : state) : Prop := {
  c_e2   : forall m, valid (mems s m) = true -> busy s m = true -> owner s = Some m;
  c_none : forall m, serving (ctl (mems s m)) = false -> phys (mems s m) = None;
  c_fl   : forall m, in_campaign (ctl (mems s m)) = true -> upd (mems s m) = UIdle /\ ur (mems s m) = RIdle;
  c_syn  : forall m, idle_syn (syn (mems s m)) = false -> ctl (mems s m) = CIniting;
  c_ur   : forall m, idle_ur (ur (mems s m)) = false -> phys (mems s m) <> None;
  c_pend : forall m, has_pending s m = true -> in_campaign (ctl (mems s m)) = false
}.

Lemma ctl_init iv gap : Ctl (init iv gap).
Proof. constructor; cbn; intros; try discriminate; auto. Qed.

Ltac inj :=
  repeat match goal with
  | H : Some _ = Some _ |- _ => inversion H; subst; clear H
  | H : (_, _) = (_, _) |- _ => inversion H; subst; clear H
  | H : None = Some _ |- _ => discriminate H
  | H : Some _ = None |- _ => discriminate H
  | H : true = false |- _ => discriminate H
  | H : false = true |- _ => discriminate H
  end.

Ltac eqb_cases :=
  repeat match goal with
  | H : context [Nat.eqb ?a ?b] |- _ => destruct (Nat.eqb_spec a b); subst
  | |- context [Nat.eqb ?a ?b] => destruct (Nat.eqb_spec a b); subst
  end.

(* busy only depends on the member's own control fields and on the records *)
Lemma busy_set_mem_other s m x m' : m' <> m -> busy (set_mem s m x) m' = busy s m'.
Proof.
  intros Hne. unfold busy, has_pending, set_mem; cbn. unfold upd_f.
  destruct (Nat.eqb_spec m' m); [contradiction|reflexivity].
Qed.

Lemma has_pending_set_mem s m x m' : has_pending (set_mem s m x) m' = has_pending s m'.
Proof. reflexivity. Qed.

Lemma busy_true_of_parts s m :
  busy s m = negb (idle_ctl (ctl (mems s m)) && idle_syn (syn (mems s m)) && idle_upd (upd (mems s m)) && idle_ur (ur (mems s m)))
             || has_pending s m.
Proof. reflexivity. Qed.

Lemma is_owner_true s m : is_owner s m = true -> owner s = Some m.
Proof. unfold is_owner. destruct (owner s); [|discriminate]. intros H; apply Nat.eqb_eq in H; congruence. Qed.

Lemma is_owner_refl s m : owner s = Some m -> is_owner s m = true.
Proof. unfold is_owner. intros ->. apply Nat.eqb_refl. Qed.

Definition busy_of (x : mem) (pend : bool) : bool :=
  negb (idle_ctl (ctl x) && idle_syn (syn x) && idle_upd (upd x) && idle_ur (ur x)) || pend.

(* a label that rewrites only member m's record (and possibly the stored window) *)
Lemma ctl_set_mem s m x w :
  Ctl s ->
  (valid x = true -> busy_of x (has_pending s m) = true -> owner s = Some m) ->
  (serving (ctl x) = false -> phys x = None) ->
  (in_campaign (ctl x) = true -> upd x = UIdle /\ ur x = RIdle) ->
  (idle_syn (syn x) = false -> ctl x = CIniting) ->
  (idle_ur (ur x) = false -> phys x <> None) ->
  (has_pending s m = true -> in_campaign (ctl x) = false) ->
  Ctl (State w (owner s) (upd_f (mems s) m x) (recs s) (clock s) (interval s) (gap_ms s)).
Proof.
  intros [E2 NONE FL SYN UR PEND] H1 H2 H3 H4 H5 H6.
  constructor; cbn; unfold upd_f; intros m'.
  - unfold busy, has_pending; cbn; unfold upd_f. destruct (Nat.eqb_spec m' m); subst; [exact H1|apply E2].
  - destruct (Nat.eqb_spec m' m); subst; [exact H2|apply NONE].
  - destruct (Nat.eqb_spec m' m); subst; [exact H3|apply FL].
  - destruct (Nat.eqb_spec m' m); subst; [exact H4|apply SYN].
  - destruct (Nat.eqb_spec m' m); subst; [exact H5|apply UR].
  - unfold has_pending; cbn. destruct (Nat.eqb_spec m' m); subst; [exact H6|apply PEND].
Qed.

Lemma save_txn_shape s m o t :
  exists w, fst (save_txn s m o t) = State w (owner s) (mems s) (recs s) (clock s) (interval s) (gap_ms s).
Proof.
  unfold save_txn. destruct s as [w0 ow ms0 rs ck iv gp].
  unfold is_owner, set_W; cbn.
  destruct o; cbn; destruct (match ow with Some o0 => Nat.eqb o0 m | None => false end); cbn; eexists; reflexivity.
Qed.

Lemma save_txn_acked s m o t : snd (save_txn s m o t) = true -> owner s = Some m.
Proof. unfold save_txn. destruct o; cbn; try discriminate. apply is_owner_true. Qed.

Lemma state_eta s : s = State (W s) (owner s) (mems s) (recs s) (clock s) (interval s) (gap_ms s).
Proof. destruct s; reflexivity. Qed.

Ltac ctl_mem I :=
  first [ eapply (ctl_set_mem _ _ _ _ I) | idtac ].

Lemma busy_of_true_l x p : negb (idle_ctl (ctl x) && idle_syn (syn x) && idle_upd (upd x) && idle_ur (ur x)) = true -> busy_of x p = true.
Proof. unfold busy_of. intros ->. reflexivity. Qed.

Arguments Z.shiftr : simpl never.
Arguments Z.land : simpl never.
Arguments Z.ones : simpl never.
Arguments Z.div : simpl never.
Arguments save_txn : simpl never.
Arguments set_physical : simpl never.
Arguments need_save : simpl never.
Arguments busy : simpl never.
Arguments has_pending : simpl never.
Arguments save_busy : simpl never.
Arguments locked : simpl never.

Ltac std := auto; try discriminate.
Ltac ctl6 := apply ctl_set_mem; [assumption | cbn | cbn | cbn | cbn | cbn | cbn].
Ltac by_e2 E2 Hv := intros; apply E2; [exact Hv || assumption|]; unfold busy.

Lemma not_in_campaign_of_upd s m : Ctl s -> idle_upd (upd (mems s m)) = false -> in_campaign (ctl (mems s m)) = false.
Proof.
  intros I Hu. destruct (in_campaign (ctl (mems s m))) eqn:E; [|reflexivity].
  destruct (c_fl _ I _ E) as [Hx _]. rewrite Hx in Hu. discriminate.
Qed.
Lemma not_in_campaign_of_ur s m : Ctl s -> idle_ur (ur (mems s m)) = false -> in_campaign (ctl (mems s m)) = false.
Proof.
  intros I Hu. destruct (in_campaign (ctl (mems s m))) eqn:E; [|reflexivity].
  destruct (c_fl _ I _ E) as [_ Hx]. rewrite Hx in Hu. discriminate.
Qed.
Lemma serving_of_phys s m p : Ctl s -> phys (mems s m) = Some p -> serving (ctl (mems s m)) = true.
Proof.
  intros I Hp. destruct (serving (ctl (mems s m))) eqn:E; [reflexivity|]. rewrite (c_none _ I _ E) in Hp. discriminate.
Qed.
Lemma busy_of_ctl s m : idle_ctl (ctl (mems s m)) = false -> busy s m = true.
Proof. unfold busy. intros ->. reflexivity. Qed.
Lemma busy_of_upd s m : idle_upd (upd (mems s m)) = false -> busy s m = true.
Proof. unfold busy. intros ->. rewrite !andb_false_r. reflexivity. Qed.
Lemma busy_of_ur s m : idle_ur (ur (mems s m)) = false -> busy s m = true.
Proof. unfold busy. intros ->. rewrite !andb_false_r. reflexivity. Qed.
Lemma busy_of_syn s m : idle_syn (syn (mems s m)) = false -> busy s m = true.
Proof. unfold busy. intros ->. rewrite !andb_false_r. reflexivity. Qed.
Lemma idle_ctl_of_serving c : serving c = true -> idle_ctl c = false.
Proof. destruct c; cbn; congruence. Qed.
Lemma in_campaign_of_serving c : serving c = true -> in_campaign c = false.
Proof. destruct c; cbn; congruence. Qed.

Lemma set_physical_fields x n f :
  ctl (set_physical x n f) = ctl x /\ syn (set_physical x n f) = syn x /\ upd (set_physical x n f) = upd x /\
  ur (set_physical x n f) = ur x /\ valid (set_physical x n f) = valid x /\ last_saved (set_physical x n f) = last_saved x.
Proof. unfold set_physical. destruct (phys x); [destruct (0 <? _)|destruct f]; cbn; auto 10. Qed.

Lemma ctl_step0 s l s' : Ctl s -> step0 s l = Some s' -> Ctl s'.
Proof.
  intros I H. pose proof I as [E2 NONE FL SYN UR PEND].
  destruct l; cbn in H.
  - (* LElect *)
    destruct (owner s) eqn:Eo; [discriminate|]. destruct (busy s m) eqn:Eb; [discriminate|]. inj.
    unfold busy in Eb. apply orb_false_iff in Eb as [Eb Ep]. apply negb_false_iff in Eb.
    apply andb_true_iff in Eb as [Eb Hiu]. apply andb_true_iff in Eb as [Eb Hiup]. apply andb_true_iff in Eb as [Hic His].
    constructor; cbn; unfold upd_f; intros m'.
    + unfold busy, has_pending; cbn; unfold upd_f. destruct (Nat.eqb_spec m' m); subst; [reflexivity|].
      intros Hv Hb. assert (Hb' : busy s m' = true) by exact Hb. specialize (E2 _ Hv Hb'). congruence.
    + destruct (Nat.eqb_spec m' m); subst; cbn; [|apply NONE].
      intros _; apply NONE; destruct (ctl (mems s m)); try discriminate; reflexivity.
    + destruct (Nat.eqb_spec m' m); subst; cbn; [intros _|apply FL].
      destruct (upd (mems s m)), (ur (mems s m)); try discriminate; auto.
    + destruct (Nat.eqb_spec m' m); subst; cbn; [|apply SYN].
      destruct (syn (mems s m)); try discriminate.
    + destruct (Nat.eqb_spec m' m); subst; cbn; [|apply UR].
      destruct (ur (mems s m)); try discriminate.
    + unfold has_pending; cbn. destruct (Nat.eqb_spec m' m); subst; [|apply PEND].
      unfold has_pending in Ep. rewrite Ep. discriminate.
  - (* LValidOff *)
    inj. unfold set_mem. ctl6; std.
  - (* LValidOn *)
    destruct (is_owner s m || negb (busy s m)) eqn:Ec; [|discriminate]. inj. unfold set_mem.
    ctl6; std.
    intros _ Hb. apply orb_true_iff in Ec as [Ec|Ec]; [apply is_owner_true; exact Ec|].
    apply negb_true_iff in Ec. unfold busy in Ec. unfold busy_of in Hb. cbn in Hb. congruence.
  - (* LOwnerGone *)
    destruct (owner s) as [m|] eqn:Eo; [|discriminate]. destruct (valid (mems s m)) eqn:Ev; [discriminate|]. inj.
    constructor; cbn; auto.
    intros m' Hv Hb. assert (Hb' : busy s m' = true) by exact Hb. specialize (E2 _ Hv Hb'). congruence.
  - (* LSyncLoad *)
    destruct (ctl (mems s m)) eqn:Ec; try discriminate. destruct (syn (mems s m)) eqn:Es; try discriminate.
    destruct (save_busy (mems s m)); [discriminate|]. inj. unfold set_mem.
    destruct (FL m) as [Hu Hr]; [rewrite Ec; reflexivity|].
    ctl6; std.
    all: try solve [ intros Hv _; apply E2; [exact Hv|]; apply busy_of_ctl; rewrite Ec; reflexivity ].
    all: try solve [ intros _; apply NONE; rewrite Ec; reflexivity ].
    all: try solve [ intros Hp; specialize (PEND _ Hp); rewrite Ec in PEND; discriminate ].
  - (* LSyncSave *)
    destruct (syn (mems s m)) as [|last|] eqn:Es; try discriminate.
    set (t := _ + interval s) in H.
    destruct (save_txn s m o t) as [s1 acked] eqn:Et.
    destruct (save_txn_shape s m o t) as [w Hw]. rewrite Et in Hw; cbn in Hw. subst s1.
    pose proof (SYN m) as Hc. rewrite Es in Hc. specialize (Hc eq_refl).
    destruct (FL m) as [Hu Hr]; [rewrite Hc; reflexivity|].
    assert (Hn : phys (mems s m) = None) by (apply NONE; rewrite Hc; reflexivity).
    assert (Hnp : has_pending s m = true -> False) by (intros Hp; specialize (PEND _ Hp); rewrite Hc in PEND; discriminate).
    destruct acked; inj; unfold set_mem; cbn; ctl6; std.
    all: try solve [ intros _ _; apply (save_txn_acked s m o t); rewrite Et; reflexivity ].
    all: try solve [ rewrite Hc; auto ].
    all: try solve [ intros Hp; destruct (Hnp Hp) ].
    all: try solve [ intros Hv _; apply E2; [exact Hv|]; apply busy_of_ctl; rewrite Hc; reflexivity ].
    all: try solve [ intros Hp; destruct (Hnp Hp) ].
  - (* LSyncSet *)
    destruct (syn (mems s m)) as [| |next] eqn:Es; try discriminate.
    destruct (locked (mems s m)) eqn:El; [discriminate|]. inj. unfold set_mem.
    pose proof (SYN m) as Hc. rewrite Es in Hc. specialize (Hc eq_refl).
    destruct (FL m) as [Hu Hr]; [rewrite Hc; reflexivity|].
    assert (Hnp : has_pending s m = true -> False) by (intros Hp; specialize (PEND _ Hp); rewrite Hc in PEND; discriminate).
    destruct (set_physical_fields (mems s m) next true) as (F1 & F2 & F3 & F4 & F5 & F6).
    ctl6; rewrite ?F1, ?F2, ?F3, ?F4, ?F5; std.
    all: try solve [ intros Hv _; apply E2; [exact Hv|]; apply busy_of_ctl; rewrite Hc; reflexivity ].
    all: try solve [ rewrite Hr; discriminate ].
    all: try solve [ intros Hp; destruct (Hnp Hp) ].
  - (* LUpdRead *)
    destruct (upd (mems s m)) eqn:Eu; try discriminate.
    destruct (valid (mems s m) && negb (locked (mems s m))) eqn:Ev; [|discriminate].
    destruct (phys (mems s m)) as [p|] eqn:Ep; [|inj; exact I].
    pose proof (serving_of_phys _ _ _ I Ep) as Hserv.
    assert (Hgen : forall n, Ctl (set_mem s m (with_upd (mems s m) (URead n)))).
    { intros n. unfold set_mem. ctl6; std.
    all: try solve [ intros Hv _; apply E2; [exact Hv|]; apply busy_of_ctl, idle_ctl_of_serving, Hserv ].
    all: try solve [ rewrite (in_campaign_of_serving _ Hserv); discriminate ].
    all: try solve [ intros _; congruence ]. }
    destruct (guard <? now - p); [inj; apply Hgen|].
    destruct (_ <? logical (mems s m)); inj; [apply Hgen|exact I].
  - (* LUpdDecide *)
    destruct (upd (mems s m)) as [|next| |] eqn:Eu; try discriminate.
    destruct (save_busy (mems s m)); [discriminate|].
    assert (Hnc : in_campaign (ctl (mems s m)) = false) by (apply not_in_campaign_of_upd; [exact I|rewrite Eu; reflexivity]).
    assert (Hgen : forall u, idle_upd u = false -> Ctl (set_mem s m (with_upd (refreshed (mems s m) (W s)) u))).
    { intros u Hu. unfold set_mem. ctl6; std.
    all: try solve [ intros Hv _; apply E2; [exact Hv|]; apply busy_of_upd; rewrite Eu; reflexivity ].
    all: try solve [ rewrite Hnc; discriminate ]. }
    destruct (need_save (refreshed (mems s m) (W s)) next); inj; apply Hgen; reflexivity.
  - (* LUpdSave *)
    destruct (upd (mems s m)) as [| |next|] eqn:Eu; try discriminate.
    set (t := next + interval s) in H.
    destruct (save_txn s m o t) as [s1 acked] eqn:Et.
    destruct (save_txn_shape s m o t) as [w Hw]. rewrite Et in Hw; cbn in Hw. subst s1.
    assert (Hnc : in_campaign (ctl (mems s m)) = false) by (apply not_in_campaign_of_upd; [exact I|rewrite Eu; reflexivity]).
    destruct acked; inj; unfold set_mem; cbn; ctl6; std.
    all: try solve [ intros _ _; apply (save_txn_acked s m o t); rewrite Et; reflexivity ].
    all: try solve [ rewrite Hnc; discriminate ].
    all: try solve [ intros Hv _; apply E2; [exact Hv|]; apply busy_of_upd; rewrite Eu; reflexivity ].
    all: try solve [ rewrite Hnc; discriminate ].
  - (* LUpdSet *)
    destruct (upd (mems s m)) as [| | |next] eqn:Eu; try discriminate.
    destruct (locked (mems s m)) eqn:El; [discriminate|]. inj. unfold set_mem.
    assert (Hnc : in_campaign (ctl (mems s m)) = false) by (apply not_in_campaign_of_upd; [exact I|rewrite Eu; reflexivity]).
    destruct (set_physical_fields (mems s m) next false) as (F1 & F2 & F3 & F4 & F5 & F6).
    ctl6; rewrite ?F1, ?F2, ?F3, ?F4, ?F5; std.
    all: try solve [ intros Hv _; apply E2; [exact Hv|]; apply busy_of_upd; rewrite Eu; reflexivity ].
    all: try solve [ intros Hsv; specialize (NONE _ Hsv); unfold set_physical; rewrite NONE; exact NONE ].
    all: try solve [ rewrite Hnc; discriminate ].
    all: try solve [ unfold locked in El; destruct (ur (mems s m)); discriminate ].
  - (* LURBegin *)
    destruct (ur (mems s m)) eqn:Er; try discriminate.
    destruct (valid (mems s m)) eqn:Ev; [|inj; exact I].
    destruct (phys (mems s m)) as [p|] eqn:Ep; [|inj; exact I].
    pose proof (serving_of_phys _ _ _ I Ep) as Hserv.
    destruct (Z.shiftr ts 18 - ms p <? 0); [inj; exact I|].
    destruct ((Z.shiftr ts 18 - ms p =? 0) && _); [inj; exact I|].
    destruct (gap_ms s <=? _); inj; [exact I|].
    unfold set_mem. ctl6; std.
    all: try solve [ intros _ _; apply E2; [exact Ev|]; apply busy_of_ctl, idle_ctl_of_serving, Hserv ].
    all: try solve [ rewrite (in_campaign_of_serving _ Hserv); discriminate ].
    all: try solve [ intros _; congruence ].
  - (* LURDecide *)
    destruct (ur (mems s m)) as [|p l0| |] eqn:Er; try discriminate.
    destruct (save_busy (mems s m)); [discriminate|].
    assert (Hnc : in_campaign (ctl (mems s m)) = false) by (apply not_in_campaign_of_ur; [exact I|rewrite Er; reflexivity]).
    assert (Hp : phys (mems s m) <> None) by (apply UR; rewrite Er; reflexivity).
    assert (Hgen : forall u, idle_ur u = false -> Ctl (set_mem s m (with_ur (refreshed (mems s m) (W s)) u))).
    { intros u Hu. unfold set_mem. ctl6; std.
    all: try solve [ intros Hv _; apply E2; [exact Hv|]; apply busy_of_ur; rewrite Er; reflexivity ].
    all: try solve [ rewrite Hnc; discriminate ]. }
    destruct (need_save (refreshed (mems s m) (W s)) p); inj; apply Hgen; reflexivity.
  - (* LURSave *)
    destruct (ur (mems s m)) as [| |p l0|] eqn:Er; try discriminate.
    set (t := p + interval s) in H.
    destruct (save_txn s m o t) as [s1 acked] eqn:Et.
    destruct (save_txn_shape s m o t) as [w Hw]. rewrite Et in Hw; cbn in Hw. subst s1.
    assert (Hnc : in_campaign (ctl (mems s m)) = false) by (apply not_in_campaign_of_ur; [exact I|rewrite Er; reflexivity]).
    assert (Hp : phys (mems s m) <> None) by (apply UR; rewrite Er; reflexivity).
    destruct acked; inj; unfold set_mem; cbn; ctl6; std.
    all: try solve [ intros _ _; apply (save_txn_acked s m o t); rewrite Et; reflexivity ].
    all: try solve [ rewrite Hnc; discriminate ].
    all: try solve [ intros Hv _; apply E2; [exact Hv|]; apply busy_of_ur; rewrite Er; reflexivity ].
    all: try solve [ rewrite Hnc; discriminate ].
  - (* LUREnd *)
    destruct (ur (mems s m)) as [| | |p l0] eqn:Er; try discriminate. inj. unfold set_mem.
    assert (Hnc : in_campaign (ctl (mems s m)) = false) by (apply not_in_campaign_of_ur; [exact I|rewrite Er; reflexivity]).
    assert (Hp : phys (mems s m) <> None) by (apply UR; rewrite Er; reflexivity).
    destruct (phys (mems s m)) as [p0|] eqn:Ep; [|contradiction].
    pose proof (serving_of_phys _ _ _ I Ep) as Hserv.
    ctl6; std.
    all: try solve [ intros Hv _; apply E2; [exact Hv|]; apply busy_of_ur; rewrite Er; reflexivity ].
    all: try solve [ rewrite Hserv; discriminate ].
    all: try solve [ rewrite Hnc; discriminate ].
  - (* LGen *)
    destruct (phys (mems s m)) as [p|] eqn:Ep; [|discriminate].
    destruct (negb (locked (mems s m)) && (0 <? count)) eqn:Ec; [|discriminate]. inj.
    pose proof (serving_of_phys _ _ _ I Ep) as Hserv.
    pose proof (in_campaign_of_serving _ Hserv) as Hnc.
    constructor; cbn; unfold upd_f; intros m'.
    + unfold busy, has_pending; cbn; unfold upd_f.
      destruct (Nat.eqb_spec m' m); subst; cbn.
      * intros Hv _. apply E2; [exact Hv|]. apply busy_of_ctl, idle_ctl_of_serving, Hserv.
      * destruct (Nat.eqb_spec m m'); [congruence|]. cbn. apply E2.
    + destruct (Nat.eqb_spec m' m); subst; cbn; [rewrite Hserv; discriminate|apply NONE].
    + destruct (Nat.eqb_spec m' m); subst; cbn; [rewrite Hnc; discriminate|apply FL].
    + destruct (Nat.eqb_spec m' m); subst; cbn; [apply SYN|apply SYN].
    + destruct (Nat.eqb_spec m' m); subst; cbn; [discriminate|apply UR].
    + unfold has_pending; cbn. destruct (Nat.eqb_spec m' m); subst; cbn; [intros _; exact Hnc|].
      destruct (Nat.eqb_spec m m'); [congruence|]. cbn. apply PEND.
  - (* LRespond: statuses only leave Pending *)
    destruct (nth_error (recs s) i) as [r|] eqn:En; [|discriminate].
    destruct (Nat.eqb (gm r) m && is_pending r) eqn:Ec; [|discriminate]. inj.
    assert (Hmono : forall st m', st <> Pending ->
              has_pending (State (W s) (owner s) (mems s) (set_nth (recs s) i st) (clock s) (interval s) (gap_ms s)) m' = true ->
              has_pending s m' = true).
    { intros st m' Hst. unfold has_pending; cbn. clear En Ec. revert i.
      induction (recs s) as [|r0 t IH]; intros i; destruct i; cbn; auto.
      - destruct st; try contradiction; cbn; rewrite andb_false_r; cbn; intros ->; apply orb_true_r.
      - intros Hx. apply orb_true_iff in Hx as [Hx|Hx]; [rewrite Hx; reflexivity|]. rewrite (IH _ Hx). apply orb_true_r. }
    set (st := if max_logical <=? gL r then Dropped else if valid (mems s m) then Granted (clock s) else Dropped).
    assert (Hst : st <> Pending) by (subst st; destruct (max_logical <=? gL r); [discriminate|destruct (valid (mems s m)); discriminate]).
    constructor; cbn; auto.
    + intros m' Hv Hb. apply E2; [exact Hv|]. unfold busy in *. cbn in Hb.
      apply orb_true_iff in Hb as [Hb|Hb]; [rewrite Hb; reflexivity|].
      rewrite (Hmono _ _ Hst Hb). apply orb_true_r.
    + intros m' Hp. apply PEND. eapply Hmono; eauto.
  - (* LReset *)
    destruct (locked (mems s m)) eqn:El; [discriminate|]. inj. unfold set_mem.
    assert (Hr : ur (mems s m) = RIdle) by (unfold locked in El; destruct (ur (mems s m)); try discriminate; reflexivity).
    ctl6; std.
    all: try solve [ intros Hv Hb; apply E2; [exact Hv|]; exact Hb ].
    all: try solve [ rewrite Hr; discriminate ].
  - (* LTermEnd *)
    destruct (locked (mems s m)) eqn:El; [discriminate|].
    assert (Hr : ur (mems s m) = RIdle) by (unfold locked in El; destruct (ur (mems s m)); try discriminate; reflexivity).
    destruct (ctl (mems s m)) eqn:Ec; try discriminate; inj; unfold set_mem; ctl6; std.
    all: try solve [ intros Hv Hb; apply E2; [exact Hv|]; unfold busy; unfold busy_of in Hb; cbn in Hb; rewrite Ec; cbn; try reflexivity; exact Hb ].
    all: try solve [ intros Hs; specialize (SYN _ Hs); congruence ].
    all: try solve [ rewrite Hr; discriminate ].
  - (* LUpdAbort *)
    destruct (upd (mems s m)) as [|next| |] eqn:Eu; try discriminate.
    destruct (save_busy (mems s m)); [discriminate|]. destruct (unsure (mems s m)); [|discriminate]. inj. unfold set_mem.
    assert (Hnc : in_campaign (ctl (mems s m)) = false) by (apply not_in_campaign_of_upd; [exact I|rewrite Eu; reflexivity]).
    ctl6; std.
    all: try solve [ intros Hv _; apply E2; [exact Hv|]; apply busy_of_upd; rewrite Eu; reflexivity ].
    all: try solve [ rewrite Hnc; discriminate ].
  - (* LURAbort *)
    destruct (ur (mems s m)) as [|p l0| |] eqn:Er; try discriminate.
    destruct (save_busy (mems s m)); [discriminate|]. destruct (unsure (mems s m)); [|discriminate]. inj. unfold set_mem.
    assert (Hnc : in_campaign (ctl (mems s m)) = false) by (apply not_in_campaign_of_ur; [exact I|rewrite Er; reflexivity]).
    ctl6; std.
    all: try solve [ intros Hv _; apply E2; [exact Hv|]; apply busy_of_ur; rewrite Er; reflexivity ].
    all: try solve [ rewrite Hnc; discriminate ].
Qed.
