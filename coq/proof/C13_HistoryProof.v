(* C13 — proofs over histories of model/C13_Rules.v (repaired code):
   invariants of every configuration and patch (sorted maps, keys, valid contents),
   retrying a failed update converges [retry_converges],
   a restarted RuleManager serves what is served [accepted_update_reload_equal]. *)
From Coq Require Import String Permutation Sorting.Sorted.
From PDV Require Import lib.Base lib.C12_Order lib.C13_Map gen.Gen_C13 model.C13_Rules
  proof.C13_RulesProof proof.C13_UpdateProof.
Local Open Scope list_scope.

(* ---------- H1: the orders of the two maps ---------- *)
Lemma good_pair : good pair_cmp.
Proof.
  unfold pair_cmp.
  apply (good_lex (fun a b : id * id => key_cmp (fst a) (fst b)) (fun a b => key_cmp (snd a) (snd b))).
  - apply (good_pull (@fst id id) key_cmp good_key).
  - apply (good_pull (@snd id id) key_cmp good_key).
Qed.
Lemma pair_cmp_eq a b : pair_cmp a b = Eq -> a = b.
Proof. intros H. apply pair_eqb_eq. unfold pair_eqb. rewrite H. reflexivity. Qed.

Notation psorted := (asorted pair_cmp).
Notation gsorted := (asorted key_cmp).

Lemma gsorted_ksorted {V} (m : list (id * V)) : gsorted m <-> ksorted m.
Proof. split; intros H; exact H. Qed.

(* ---------- H2: adjustRule ---------- *)
Definition role_ok (r : rule) : bool :=
  match r_role r with
  | BadRole => false
  | Leader => negb (r_count r <=? 0)%Z && negb (r_count r >? 1)%Z
  | _ => negb (r_count r <=? 0)%Z
  end.
Definition content_ok (r : rule) : bool :=
  r_wellformed r && negb (negb (is_nil (r_end r)) && negb (key_gtb (r_end r) (r_start r)))
  && negb (is_nil (r_gid r) || is_nil (r_id r)) && role_ok r.

Lemma adjust_rule_none_spec r : adjust_rule r None = if content_ok r then Some r else None.
Proof.
  unfold adjust_rule, content_ok, role_ok. destruct r as [gid rid idx ov st en ro cnt ver wf grp]. cbn.
  destruct wf; cbn; [|reflexivity].
  destruct (negb (is_nil en) && negb (key_gtb en st)); cbn; [reflexivity|].
  destruct (is_nil gid || is_nil rid); cbn; [reflexivity|].
  destruct ro; cbn; try reflexivity; destruct (cnt <=? 0)%Z; cbn; try reflexivity.
  destruct (cnt >? 1)%Z; reflexivity.
Qed.

Lemma content_ok_set_gid_same r g :
  r_wellformed (set_gid r g) = r_wellformed r /\ r_end (set_gid r g) = r_end r /\ r_start (set_gid r g) = r_start r.
Proof. destruct r; cbn; auto. Qed.

Lemma adjust_rule_some_spec r g :
  adjust_rule r (Some g) =
  if is_nil g then adjust_rule r None
  else if is_nil (r_gid r) then adjust_rule (set_gid r g) None
  else if key_eqb g (r_gid r) then adjust_rule r None else None.
Proof.
  unfold adjust_rule. destruct (content_ok_set_gid_same r g) as (E1 & E2 & E3). rewrite E1, E2, E3.
  destruct (negb (r_wellformed r)); [destruct (is_nil g); [reflexivity|]; destruct (is_nil (r_gid r)); [reflexivity|]; destruct (key_eqb g (r_gid r)); reflexivity|].
  destruct (negb (is_nil (r_end r)) && negb (key_gtb (r_end r) (r_start r)));
    [destruct (is_nil g); [reflexivity|]; destruct (is_nil (r_gid r)); [reflexivity|]; destruct (key_eqb g (r_gid r)); reflexivity|].
  destruct (is_nil g); [reflexivity|]. destruct (is_nil (r_gid r)) eqn:Eg; [reflexivity|].
  destruct (key_eqb g (r_gid r)); [rewrite ?Eg; reflexivity|reflexivity].
Qed.

Definition valid (r : rule) : Prop := adjust_rule r None = Some r.

Lemma valid_iff r : valid r <-> content_ok r = true.
Proof.
  unfold valid. rewrite adjust_rule_none_spec. destruct (content_ok r); split; intros H; try reflexivity; discriminate.
Qed.

Lemma adjust_rule_none r r' : adjust_rule r None = Some r' -> r' = r /\ valid r.
Proof.
  intros H. pose proof H as H'. rewrite adjust_rule_none_spec in H.
  destruct (content_ok r) eqn:E; [|discriminate]. inversion H; subst. split; [reflexivity|exact H'].
Qed.

Lemma adjust_rule_valid r b r' : adjust_rule r b = Some r' -> valid r'.
Proof.
  destruct b as [g|]; [|intros H; destruct (adjust_rule_none r r' H) as [-> V]; exact V].
  rewrite adjust_rule_some_spec.
  destruct (is_nil g); [intros H; destruct (adjust_rule_none r r' H) as [-> V]; exact V|].
  destruct (is_nil (r_gid r)); [intros H; destruct (adjust_rule_none _ r' H) as [-> V]; exact V|].
  destruct (key_eqb g (r_gid r)); [intros H; destruct (adjust_rule_none r r' H) as [-> V]; exact V|discriminate].
Qed.

Lemma valid_set_group r g : valid r -> valid (set_group r g).
Proof. rewrite !valid_iff. destruct r; cbn. exact (fun H => H). Qed.

Lemma valid_facts r : valid r -> r_wellformed r = true /\ (r_end r = [] \/ key_lt (r_start r) (r_end r)).
Proof.
  rewrite valid_iff. unfold content_ok. intros H.
  apply andb_true_iff in H as [H _]. apply andb_true_iff in H as [H _]. apply andb_true_iff in H as [H1 H2].
  split; [exact H1|]. destruct (r_end r) as [|b e]; [left; reflexivity|right].
  cbn in H2. apply negb_true_iff, negb_false_iff in H2. apply key_gtb_lt. exact H2.
Qed.

Lemma rkey_set_group r g : rkey (set_group r g) = rkey r.
Proof. destruct r; reflexivity. Qed.

Fixpoint all_valid (rs : list rule) : Prop := match rs with [] => True | r :: rest => valid r /\ all_valid rest end.
Lemma adjust_all_valid rs b rs' : adjust_all rs b = Some rs' -> all_valid rs'.
Proof.
  revert rs'. induction rs as [|r rest IH]; intros rs' H; cbn in H; [inversion H; exact I|].
  destruct (adjust_rule r b) as [r1|] eqn:E; [|discriminate].
  destruct (adjust_all rest b) as [l|]; [|discriminate]. inversion H; subst. split; [eapply adjust_rule_valid; exact E|apply IH; reflexivity].
Qed.

(* ---------- H3: patches ---------- *)
Record patch_ok (p : patch) : Prop := {
  po_rsorted : psorted (m_rules p);
  po_rules : forall k r, In (k, Some r) (m_rules p) -> k = rkey r /\ valid r;
  po_gsorted : gsorted (m_groups p);
  po_groups : forall k g, In (k, g) (m_groups p) -> k = g_id g
}.

Lemma empty_patch_ok : patch_ok empty_patch.
Proof. constructor; cbn; try constructor; intros; contradiction. Qed.

Lemma p_set_rule_ok r p : valid r -> patch_ok p -> patch_ok (p_set_rule r p).
Proof.
  intros V [A B C D]. constructor; cbn; [apply (aset_sorted pair_cmp good_pair pair_cmp_eq); exact A| |exact C|exact D].
  intros k r0 H. apply (aset_In pair_cmp) in H as [H|H]; [inversion H; subst; auto|apply B; exact H].
Qed.
Lemma p_delete_rule_ok g i p : patch_ok p -> patch_ok (p_delete_rule g i p).
Proof.
  intros [A B C D]. constructor; cbn; [apply (aset_sorted pair_cmp good_pair pair_cmp_eq); exact A| |exact C|exact D].
  intros k r0 H. apply (aset_In pair_cmp) in H as [H|H]; [discriminate|apply B; exact H].
Qed.
Lemma p_set_group_ok g p : patch_ok p -> patch_ok (p_set_group g p).
Proof.
  intros [A B C D]. constructor; cbn; [exact A|exact B|apply (aset_sorted key_cmp good_key key_cmp_eq); exact C|].
  intros k g0 H. apply (aset_In key_cmp) in H as [H|H]; [inversion H; reflexivity|apply D; exact H].
Qed.
Lemma p_delete_group_ok gid p : patch_ok p -> patch_ok (p_delete_group gid p).
Proof. intros H. unfold p_delete_group. apply p_set_group_ok; exact H. Qed.

Lemma fold_set_rules_ok rs : forall p, all_valid rs -> patch_ok p -> patch_ok (fold_left (fun p r => p_set_rule r p) rs p).
Proof.
  induction rs as [|r rest IH]; intros p V H; [exact H|]. destruct V as [V1 V2]. cbn. apply IH; [exact V2|apply p_set_rule_ok; assumption].
Qed.

Lemma fold_cond_delete_rule_ok {A} (f : A -> bool) (g : A -> id) (i : A -> id) l : forall p,
  patch_ok p -> patch_ok (fold_left (fun p x => if f x then p_delete_rule (g x) (i x) p else p) l p).
Proof.
  induction l as [|x rest IH]; intros p H; [exact H|]. cbn. apply IH. destruct (f x); [apply p_delete_rule_ok|]; exact H.
Qed.
Lemma fold_cond_delete_group_ok {A} (f : A -> bool) (g : A -> id) l : forall p,
  patch_ok p -> patch_ok (fold_left (fun p x => if f x then p_delete_group (g x) p else p) l p).
Proof.
  induction l as [|x rest IH]; intros p H; [exact H|]. cbn. apply IH. destruct (f x); [apply p_delete_group_ok|]; exact H.
Qed.

Lemma bundle_patch_ok b p p' : patch_ok p -> bundle_patch b p = Some p' -> patch_ok p'.
Proof.
  intros H E. unfold bundle_patch in E. destruct (adjust_all (b_rules b) (Some (b_id b))) as [rs|] eqn:Ea; [|discriminate].
  inversion E; subst. apply fold_set_rules_ok; [eapply adjust_all_valid; exact Ea|apply p_set_group_ok; exact H].
Qed.

Lemma make_patch_ok c u p : make_patch c u = Some p -> patch_ok p.
Proof.
  induction u as [r|g i|rs|ops|g|gid|b|bs ov|gid|um u' IHu]; cbn [make_patch]; intros H;
    [| | | | | | | | |destruct (existsb _ (added_rules u')); [discriminate|apply IHu; exact H]].
  - destruct (adjust_rule r None) as [r'|] eqn:E; [|discriminate]. inversion H; subst.
    apply p_set_rule_ok; [eapply adjust_rule_valid; exact E|apply empty_patch_ok].
  - inversion H; subst. apply p_delete_rule_ok, empty_patch_ok.
  - destruct (adjust_all rs None) as [rs'|] eqn:E; [|discriminate]. inversion H; subst.
    apply fold_set_rules_ok; [eapply adjust_all_valid; exact E|apply empty_patch_ok].
  - destruct (adjust_all _ None); [|discriminate]. inversion H; subst. clear H.
    generalize empty_patch_ok. generalize empty_patch.
    induction ops as [|o rest IH]; intros p0 H0; [exact H0|]. cbn [fold_left]. apply IH.
    destruct o as [r|g i pre].
    + destruct (adjust_rule r None) as [r'|] eqn:E; [|exact H0]. apply p_set_rule_ok; [eapply adjust_rule_valid; exact E|exact H0].
    + destruct pre; [|apply p_delete_rule_ok; exact H0].
      apply (fold_cond_delete_rule_ok (fun kr : (id * id) * rule => key_eqb (r_gid (snd kr)) g && is_prefix i (r_id (snd kr)))
               (fun kr => r_gid (snd kr)) (fun kr => r_id (snd kr))). exact H0.
  - destruct (gid_ok (g_id g)); [|discriminate]. inversion H; subst. apply p_set_group_ok, empty_patch_ok.
  - inversion H; subst. apply p_delete_group_ok, empty_patch_ok.
  - destruct (negb (gid_ok (b_id b))); [discriminate|]. eapply bundle_patch_ok; [|exact H].
    destruct (gget (b_id b) (c_groups c)); [|apply empty_patch_ok].
    apply (fold_cond_delete_rule_ok (fun kr : (id * id) * rule => key_eqb (fst (fst kr)) (b_id b)) (fun kr => fst (fst kr)) (fun kr => snd (fst kr))).
    apply empty_patch_ok.
  - destruct (negb (forallb (fun b => gid_ok (b_id b)) bs)); [discriminate|]. revert H.
    match goal with |- fold_left _ bs (Some ?x) = _ -> _ => set (p1 := x) end.
    assert (H1 : patch_ok p1).
    { subst p1.
      apply (fold_cond_delete_group_ok (fun kg : id * group => ov || existsb (fun b => key_eqb (b_id b) (fst kg)) bs) (fun kg => fst kg)).
      apply (fold_cond_delete_rule_ok (fun kr : (id * id) * rule => ov || existsb (fun b => key_eqb (b_id b) (fst (fst kr))) bs)
               (fun kr => fst (fst kr)) (fun kr => snd (fst kr))).
      apply empty_patch_ok. }
    clearbody p1. revert p1 H1. induction bs as [|b rest IH]; intros p1 H1 H; [inversion H; subst; exact H1|].
    cbn [fold_left] in H. destruct (bundle_patch b p1) as [p2|] eqn:E.
    + apply (IH p2); [eapply bundle_patch_ok; eauto|exact H].
    + exfalso. clear -H. induction rest as [|b' r' IH']; cbn in H; [discriminate|auto].
  - inversion H; subst.
    apply (fold_cond_delete_group_ok (fun kg : id * group => key_eqb (fst kg) gid) (fun kg => fst kg)).
    apply (fold_cond_delete_rule_ok (fun kr : (id * id) * rule => key_eqb (fst (fst kr)) gid) (fun kr => fst (fst kr)) (fun kr => snd (fst kr))).
    apply empty_patch_ok.
Qed.

(* ---------- H4: configurations ---------- *)
Record conf_ok (c : config) : Prop := {
  co_rsorted : psorted (c_rules c);
  co_rules : forall k r, In (k, r) (c_rules c) -> k = rkey r /\ valid r;
  co_gsorted : gsorted (c_groups c);
  co_groups : forall k g, In (k, g) (c_groups c) -> k = g_id g
}.

Lemma patch_adjust_ok c p : conf_ok c -> patch_ok p ->
  conf_ok (fst (patch_adjust c p)) /\ patch_ok (snd (patch_adjust c p)).
Proof.
  intros [A B C D] [E F G0 H]. unfold patch_adjust. cbn [fst snd]. split; constructor; cbn [c_rules c_groups m_rules m_groups]; try assumption.
  - assert (X : map (fun kr : (id * id) * rule => match mget pair_cmp (fst kr) (m_rules p) with
                                                   | Some _ => kr
                                                   | None => (fst kr, set_group (snd kr) (Some (p_get_group c p (r_gid (snd kr)))))
                                                   end) (c_rules c)
                = map (fun kr => (fst kr, (fun kr' : (id * id) * rule =>
                                             match mget pair_cmp (fst kr') (m_rules p) with
                                             | Some _ => snd kr'
                                             | None => set_group (snd kr') (Some (p_get_group c p (r_gid (snd kr'))))
                                             end) kr)) (c_rules c)).
    { apply map_ext. intros [k r]. cbn. destruct (mget pair_cmp k (m_rules p)); reflexivity. }
    rewrite X. clear X. induction A as [|x rest S IH Fa]; cbn; [constructor|]. constructor; [apply IH; intros; apply B; right; assumption|].
    rewrite Forall_forall in *. intros y Hy. apply in_map_iff in Hy as [z [<- Hz]]. cbn. apply Fa; exact Hz.
  - intros k r Hin. apply in_map_iff in Hin as [[k0 r0] [Ek Hin0]]. cbn [fst snd] in Ek.
    destruct (B k0 r0 Hin0) as [K V].
    destruct (mget pair_cmp k0 (m_rules p)); injection Ek as <- <-; [auto|].
    rewrite rkey_set_group. split; [exact K|apply valid_set_group; exact V].
  - apply (map_vals_asorted pair_cmp). exact E.
  - intros k r Hin. apply in_map_iff in Hin as [[k0 [r0|]] [Ek Hin0]]; cbn in Ek; [|discriminate].
    injection Ek as <- <-.
    destruct (F k0 r0 Hin0) as [K V]. rewrite rkey_set_group. split; [exact K|apply valid_set_group; exact V].
Qed.

Lemma patch_adjust_patch_ok c p : patch_ok p -> patch_ok (snd (patch_adjust c p)).
Proof.
  intros [E F G0 H]. unfold patch_adjust. cbn [snd]. constructor; cbn [m_rules m_groups]; try assumption.
  - apply (map_vals_asorted pair_cmp). exact E.
  - intros k r Hin. apply in_map_iff in Hin as [[k0 [r0|]] [Ek Hin0]]; cbn in Ek; [|discriminate].
    injection Ek as <- <-.
    destruct (F k0 r0 Hin0) as [K V]. rewrite rkey_set_group. split; [exact K|apply valid_set_group; exact V].
Qed.

Lemma patch_trim_ok c p : patch_ok p -> patch_ok (patch_trim c p).
Proof.
  intros [E F G0 H]. unfold patch_trim. constructor; cbn [m_rules m_groups].
  - apply filter_asorted; exact E.
  - intros k r Hin. apply filter_In in Hin as [Hin _]. apply F; exact Hin.
  - apply filter_asorted; exact G0.
  - intros k g Hin. apply filter_In in Hin as [Hin _]. apply H; exact Hin.
Qed.

Definition commit_rule_step (m : rmap) (kr : (id * id) * option rule) : rmap :=
  match snd kr with None => mdel pair_cmp (fst kr) m | Some r => mset pair_cmp (fst kr) r m end.

Lemma commit_rules_In L : forall (m : rmap) k r,
  In (k, r) (fold_left commit_rule_step L m) -> In (k, r) m \/ In (k, Some r) L.
Proof.
  induction L as [|[k0 [r0|]] L IH]; intros m k r H; cbn [fold_left] in H; [left; exact H| |].
  - apply IH in H as [H|H]; [|right; right; exact H]. unfold commit_rule_step in H. cbn [snd fst] in H.
    apply (aset_In pair_cmp) in H as [H|H]; [inversion H; subst; right; left; reflexivity|left; exact H].
  - apply IH in H as [H|H]; [|right; right; exact H]. unfold commit_rule_step in H. cbn [snd fst] in H.
    left. eapply (adel_sub pair_cmp); exact H.
Qed.

Lemma commit_rules_sorted L : forall m : rmap, psorted m -> psorted (fold_left commit_rule_step L m).
Proof.
  induction L as [|[k0 [r0|]] L IH]; intros m S; [exact S| |]; cbn [fold_left]; apply IH; unfold commit_rule_step; cbn [snd fst].
  - apply (aset_sorted pair_cmp good_pair pair_cmp_eq); exact S.
  - apply (adel_sorted pair_cmp); exact S.
Qed.

Lemma commit_groups_In L : forall (m : gmap) k g,
  In (k, g) (fold_left (fun m (kg : id * group) => mset key_cmp (fst kg) (snd kg) m) L m) -> In (k, g) m \/ In (k, g) L.
Proof.
  induction L as [|[k0 g0] L IH]; intros m k g H; cbn [fold_left] in H; [left; exact H|].
  apply IH in H as [H|H]; [|right; right; exact H]. cbn [fst snd] in H.
  apply (aset_In key_cmp) in H as [H|H]; [right; left; symmetry; exact H|left; exact H].
Qed.
Lemma commit_groups_sorted L : forall m : gmap, gsorted m ->
  gsorted (fold_left (fun m (kg : id * group) => mset key_cmp (fst kg) (snd kg) m) L m).
Proof.
  induction L as [|[k0 g0] L IH]; intros m S; [exact S|]. cbn [fold_left]. apply IH.
  apply (aset_sorted key_cmp good_key key_cmp_eq); exact S.
Qed.

Lemma fold_add_default_ok l : forall gs,
  gsorted gs -> (forall k g, In (k, g) gs -> k = g_id g) ->
  gsorted (fold_left add_default l gs) /\ (forall k g, In (k, g) (fold_left add_default l gs) -> k = g_id g).
Proof.
  induction l as [|kr rest IH]; intros gs S K; [split; assumption|]. cbn [fold_left]. apply IH.
  - unfold add_default. destruct (gget _ gs); [exact S|apply (aset_sorted key_cmp good_key key_cmp_eq); exact S].
  - intros k g H. unfold add_default in H. destruct (gget _ gs); [apply K; exact H|].
    apply (aset_In key_cmp) in H as [H|H]; [inversion H; reflexivity|apply K; exact H].
Qed.

Lemma config_adjust_ok c : conf_ok c -> conf_ok (config_adjust c).
Proof.
  intros [A B C D]. rewrite config_adjust_unfold. cbv zeta.
  destruct (fold_add_default_ok (c_rules c) (filter (fun kg => negb (is_default (snd kg))) (c_groups c))) as [G1 G2].
  { apply filter_asorted; exact C. }
  { intros k g H. apply filter_In in H as [H _]. apply D; exact H. }
  constructor; cbn [c_rules c_groups]; [| |exact G1|exact G2].
  - apply (map_vals_asorted pair_cmp (fun kr => kr)) in A.
    clear -A. set (g1 := fold_left _ _ _). clearbody g1.
    induction (c_rules c) as [|x rest IH]; cbn; [constructor|]. cbn in A. inversion A as [|? ? S Fa]; subst.
    constructor; [apply IH; exact S|]. rewrite Forall_forall in *. intros y Hy. apply in_map_iff in Hy as [z [<- Hz]]. cbn.
    apply (Fa (fst z, snd z)). apply in_map_iff. exists z. split; [reflexivity|exact Hz].
  - intros k r Hin. apply in_map_iff in Hin as [[k0 r0] [Ek Hin0]]. cbn [fst snd] in Ek. injection Ek as <- <-.
    destruct (B k0 r0 Hin0) as [K V]. rewrite rkey_set_group. split; [exact K|apply valid_set_group; exact V].
Qed.

Lemma patch_commit_ok c p : conf_ok c -> patch_ok p -> conf_ok (patch_commit c p).
Proof.
  intros [A B C D] [E F G0 H]. unfold patch_commit. apply config_adjust_ok.
  constructor; cbn [c_rules c_groups].
  - apply (commit_rules_sorted (m_rules p)). exact A.
  - intros k r Hin. apply (commit_rules_In (m_rules p)) in Hin as [Hin|Hin]; [apply B|apply F]; exact Hin.
  - apply commit_groups_sorted. exact C.
  - intros k g Hin. apply commit_groups_In in Hin as [Hin|Hin]; [apply D|apply H]; exact Hin.
Qed.

Lemma try_commit_conf_ok m s p order f m' s' e ok :
  conf_ok (m_conf m) -> patch_ok p -> try_commit m s p order f = (m', s', e, ok) -> conf_ok (m_conf m').
Proof.
  intros Hc Hp H. unfold try_commit in H.
  destruct (patch_adjust_ok (m_conf m) p Hc Hp) as [C1 P1].
  destruct (patch_adjust (m_conf m) p) as [c1 p1]. cbn [fst snd] in *.
  destruct (build_rule_list (patch_view c1 p1)) as [be|rl].
  - inversion H; subst. apply config_adjust_ok; exact C1.
  - destruct (save_patch (patch_trim c1 p1) order f s) as [[s1 failed] ok1].
    destruct failed; inversion H; subst; cbn [m_conf]; [apply config_adjust_ok; exact C1|].
    apply patch_commit_ok; [exact C1|apply patch_trim_ok; exact P1].
Qed.

(* ---------- H6: the storage as a pair of sorted maps; retrying a failed update ---------- *)
Definition ssorted (s : storage) : Prop := psorted (s_rules s) /\ gsorted (s_groups s).

Definition rule_writes (L : list ((id * id) * option rule)) : list ((id * id) * option sval) :=
  map (fun kr => (fst kr, option_map sv (snd kr))) L.
Definition group_writes (L : gmap) : list (id * option group) :=
  map (fun kg => (fst kg, if is_default (snd kg) then None else Some (snd kg))) L.

Lemma apply_rule_write_spec kr s :
  apply_rule_write kr s = Storage (awrite pair_cmp (s_rules s) (fst kr, option_map sv (snd kr))) (s_groups s).
Proof. unfold apply_rule_write, awrite. destruct kr as [k [r|]]; reflexivity. Qed.
Lemma apply_group_write_spec kg s :
  apply_group_write kg s = Storage (s_rules s) (awrite key_cmp (s_groups s) (fst kg, if is_default (snd kg) then None else Some (snd kg))).
Proof. unfold apply_group_write, awrite. destruct kg as [k g]. cbn [fst snd]. destruct (is_default g); reflexivity. Qed.

Lemma fold_rule_writes L : forall s,
  fold_left (fun s kr => apply_rule_write kr s) L s =
  Storage (fold_left (awrite pair_cmp) (rule_writes L) (s_rules s)) (s_groups s).
Proof.
  induction L as [|kr L IH]; intros s; cbn [fold_left rule_writes map]; [destruct s; reflexivity|].
  rewrite IH, apply_rule_write_spec. reflexivity.
Qed.
Lemma fold_group_writes L : forall s,
  fold_left (fun s kg => apply_group_write kg s) L s =
  Storage (s_rules s) (fold_left (awrite key_cmp) (group_writes L) (s_groups s)).
Proof.
  induction L as [|kg L IH]; intros s; cbn [fold_left group_writes map]; [destruct s; reflexivity|].
  rewrite IH, apply_group_write_spec. reflexivity.
Qed.

Lemma save_all_spec p s :
  save_all p s = Storage (fold_left (awrite pair_cmp) (rule_writes (m_rules p)) (s_rules s))
                         (fold_left (awrite key_cmp) (group_writes (m_groups p)) (s_groups s)).
Proof. unfold save_all. rewrite fold_group_writes, fold_rule_writes. reflexivity. Qed.

Lemma apply_rule_write_sorted kr s : ssorted s -> ssorted (apply_rule_write kr s).
Proof.
  intros [A B]. rewrite apply_rule_write_spec. split; [|exact B]. cbn. apply (awrite_sorted pair_cmp good_pair pair_cmp_eq); exact A.
Qed.
Lemma apply_group_write_sorted kg s : ssorted s -> ssorted (apply_group_write kg s).
Proof.
  intros [A B]. rewrite apply_group_write_spec. split; [exact A|]. cbn. apply (awrite_sorted key_cmp good_key key_cmp_eq); exact B.
Qed.

Lemma save_all_sorted p s : ssorted s -> ssorted (save_all p s).
Proof.
  intros [A B]. rewrite save_all_spec. split; cbn.
  - apply (fold_awrite_sorted pair_cmp good_pair pair_cmp_eq); exact A.
  - apply (fold_awrite_sorted key_cmp good_key key_cmp_eq); exact B.
Qed.

(* a partial save only touches keys of the patch *)
Definition untouched_outside (p : patch) (s s' : storage) : Prop :=
  (forall k, mget pair_cmp k (m_rules p) = None -> mget pair_cmp k (s_rules s') = mget pair_cmp k (s_rules s)) /\
  (forall k, mget key_cmp k (m_groups p) = None -> mget key_cmp k (s_groups s') = mget key_cmp k (s_groups s)).

Lemma keqb_false_of_get {K V} (cmp : K -> K -> comparison) (G : good cmp) (E : forall a b, cmp a b = Eq -> a = b)
      (m : list (K * V)) k k' v : aget cmp k' m = Some v -> aget cmp k m = None -> keqb cmp k k' = false.
Proof.
  intros H1 H2. destruct (keqb cmp k k') eqn:Ek; [|reflexivity].
  apply (keqb_eq cmp G E) in Ek. subst. congruence.
Qed.

Lemma save_writes_effect p order : forall n f s seen,
  ssorted s ->
  ssorted (fst (fst (save_writes p order n f s seen))) /\
  untouched_outside p s (fst (fst (save_writes p order n f s seen))).
Proof.
  induction order as [|w rest IH]; intros n f s seen Ss; cbn [save_writes]; [split; [exact Ss|split; intros; reflexivity]|].
  destruct (existsb (wref_eqb w) seen); [split; [exact Ss|split; intros; reflexivity]|].
  assert (Hstep : forall ap : storage -> storage,
            (ssorted (ap s) /\ untouched_outside p s (ap s)) ->
            ssorted (fst (fst (match f with
                               | Some (k, FailBefore) => if Nat.eqb k n then (s, true, is_nil rest) else save_writes p rest (S n) f (ap s) (w :: seen)
                               | Some (k, FailAfter) => if Nat.eqb k n then (ap s, true, is_nil rest) else save_writes p rest (S n) f (ap s) (w :: seen)
                               | None => save_writes p rest (S n) f (ap s) (w :: seen)
                               end))) /\
            untouched_outside p s (fst (fst (match f with
                               | Some (k, FailBefore) => if Nat.eqb k n then (s, true, is_nil rest) else save_writes p rest (S n) f (ap s) (w :: seen)
                               | Some (k, FailAfter) => if Nat.eqb k n then (ap s, true, is_nil rest) else save_writes p rest (S n) f (ap s) (w :: seen)
                               | None => save_writes p rest (S n) f (ap s) (w :: seen)
                               end)))).
  { intros ap [S1 [U1 U2]].
    assert (Hrec : ssorted (fst (fst (save_writes p rest (S n) f (ap s) (w :: seen)))) /\
                   untouched_outside p s (fst (fst (save_writes p rest (S n) f (ap s) (w :: seen))))).
    { destruct (IH (S n) f (ap s) (w :: seen) S1) as [R1 [R2 R3]]. split; [exact R1|].
      split; intros k Hk; [rewrite (R2 k Hk); apply U1; exact Hk|rewrite (R3 k Hk); apply U2; exact Hk]. }
    destruct f as [[k [|]]|]; [| |exact Hrec].
    - destruct (Nat.eqb k n); [cbn; split; [exact Ss|split; intros; reflexivity]|exact Hrec].
    - destruct (Nat.eqb k n); [cbn; split; [exact S1|split; assumption]|exact Hrec]. }
  destruct w as [g i|g].
  - destruct (mget pair_cmp (g, i) (m_rules p)) as [v|] eqn:Eg; cbn [option_map]; [|split; [exact Ss|split; intros; reflexivity]].
    apply Hstep. split; [apply apply_rule_write_sorted; exact Ss|].
    rewrite apply_rule_write_spec. split; cbn [s_rules s_groups fst snd]; [|intros; reflexivity].
    intros k Hk. destruct Ss as [SA SB]. rewrite (aget_awrite pair_cmp pair_cmp_eq) by exact SA. cbn [fst snd].
    rewrite (keqb_false_of_get pair_cmp good_pair pair_cmp_eq _ _ _ _ Eg Hk). reflexivity.
  - destruct (mget key_cmp g (m_groups p)) as [v|] eqn:Eg; cbn [option_map]; [|split; [exact Ss|split; intros; reflexivity]].
    apply Hstep. split; [apply apply_group_write_sorted; exact Ss|].
    rewrite apply_group_write_spec. split; cbn [s_rules s_groups fst snd]; [intros; reflexivity|].
    intros k Hk. destruct Ss as [SA SB]. rewrite (aget_awrite key_cmp key_cmp_eq) by exact SB. cbn [fst snd].
    rewrite (keqb_false_of_get key_cmp good_key key_cmp_eq _ _ _ _ Eg Hk). reflexivity.
Qed.

(* the complete save absorbs whatever a partial save of the same patch left behind *)
Lemma save_all_absorbs p s s1 :
  patch_ok p -> ssorted s -> ssorted s1 -> untouched_outside p s s1 -> save_all p s1 = save_all p s.
Proof.
  intros [PA _ PC _] [SA SB] [S1A S1B] [U1 U2]. rewrite !save_all_spec. f_equal.
  - apply (asorted_ext pair_cmp good_pair pair_cmp_eq);
      try (apply (fold_awrite_sorted pair_cmp good_pair pair_cmp_eq); assumption).
    intros k. assert (SL : psorted (rule_writes (m_rules p))) by (apply (map_vals_asorted pair_cmp); exact PA).
    rewrite !(aget_fold_awrite pair_cmp good_pair pair_cmp_eq) by assumption.
    unfold rule_writes. rewrite (aget_map_vals pair_cmp).
    destruct (aget pair_cmp k (m_rules p)) eqn:E; cbn [option_map]; [reflexivity|apply U1; exact E].
  - apply (asorted_ext key_cmp good_key key_cmp_eq);
      try (apply (fold_awrite_sorted key_cmp good_key key_cmp_eq); assumption).
    intros k. assert (SL : gsorted (group_writes (m_groups p))).
    { apply (map_vals_asorted key_cmp (fun g : group => if is_default g then None else Some g)); exact PC. }
    rewrite !(aget_fold_awrite key_cmp good_key key_cmp_eq) by assumption.
    unfold group_writes. rewrite (aget_map_vals key_cmp (fun g : group => if is_default g then None else Some g)).
    destruct (aget key_cmp k (m_groups p)) eqn:E; cbn [option_map]; [reflexivity|apply U2; exact E].
Qed.

(* every reachable storage is a pair of sorted maps *)
Lemma fold_rule_put_sorted l : forall s, ssorted s -> ssorted (fold_left (fun s (r : rule) => apply_rule_write (rkey r, Some r) s) l s).
Proof. induction l as [|r l IH]; intros s Ss; [exact Ss|]. cbn [fold_left]. apply IH. apply apply_rule_write_sorted; exact Ss. Qed.
Lemma fold_rule_del_sorted l : forall s, ssorted s -> ssorted (fold_left (fun s (k : id * id) => apply_rule_write (k, None) s) l s).
Proof. induction l as [|r l IH]; intros s Ss; [exact Ss|]. cbn [fold_left]. apply IH. apply apply_rule_write_sorted; exact Ss. Qed.

Lemma load_repairs_sorted s : ssorted s -> ssorted (snd (load_repairs s)).
Proof.
  intros S. unfold load_repairs. cbn [snd]. apply fold_rule_del_sorted. apply fold_rule_put_sorted. exact S.
Qed.

Lemma initialize_sorted s mr : ssorted s -> ssorted (snd (initialize s mr)).
Proof.
  intros S. unfold initialize. pose proof (load_repairs_sorted s S) as S2.
  destruct (load_repairs s) as [acc s2]. cbn [snd] in S2.
  destruct (la_rules acc) as [|x rs].
  - destruct (build_rule_list _); cbn [snd]; apply apply_rule_write_sorted; exact S2.
  - destruct (build_rule_list _); cbn [snd]; exact S2.
Qed.

Lemma try_commit_sorted m s p order f m' s' e ok :
  ssorted s -> try_commit m s p order f = (m', s', e, ok) -> ssorted s'.
Proof.
  intros S H. unfold try_commit in H. destruct (patch_adjust (m_conf m) p) as [c1 p1].
  destruct (build_rule_list (patch_view c1 p1)); [inversion H; subst; exact S|].
  unfold save_patch in H.
  pose proof (save_writes_effect (patch_trim c1 p1) order 1%nat f s [] S) as [W _].
  destruct (save_writes (patch_trim c1 p1) order 1 f s []) as [[sa failed] ok1]. cbn [fst] in W.
  destruct failed; inversion H; subst; [exact W|apply save_all_sorted; exact S].
Qed.

Lemma step_sorted st o : ssorted (st_store st) -> ssorted (st_store (fst (step st o))).
Proof.
  intros S. destruct o as [mr|u f w|u w|ig|mr|k v|k]; cbn [step].
  - pose proof (initialize_sorted (st_store st) mr S) as I.
    destruct (initialize (st_store st) mr) as [[m|e] s']; cbn in *; exact I.
  - unfold step_update. destruct (st_live st) as [m|]; [|exact S]. destruct (make_patch (m_conf m) u) as [p|]; [|exact S].
    destruct (try_commit m (st_store st) p w f) as [[[m' s'] e] ok] eqn:Et. cbn. eapply try_commit_sorted; eauto.
  - unfold step_update. destruct (st_live st) as [m|]; [|exact S]. destruct (make_patch (m_conf m) u) as [p|]; [|exact S].
    destruct (try_commit m (st_store st) p w None) as [[[m' s'] e] ok] eqn:Et. cbn. eapply try_commit_sorted; eauto.
  - cbn [fst st_store]. destruct ig; [apply load_repairs_sorted; exact S|exact S].
  - pose proof (initialize_sorted (st_store st) mr S) as I.
    destruct (initialize (st_store st) mr) as [[m|e] s']; cbn in *; exact I.
  - cbn. destruct S as [A B]. split; cbn; [apply (aset_sorted pair_cmp good_pair pair_cmp_eq); exact A|exact B].
  - cbn. destruct S as [A B]. split; cbn; [apply (adel_sorted pair_cmp); exact A|exact B].
Qed.

Theorem reachable_sorted ops : ssorted (st_store (run_state step init_state ops)).
Proof.
  assert (G : forall ops st, ssorted (st_store st) -> ssorted (st_store (run_state step st ops))).
  { clear. induction ops as [|o rest IH]; intros st H; [exact H|]. cbn [run_state]. apply IH. apply step_sorted; exact H. }
  apply G. split; constructor.
Qed.

(* retrying the update that just failed with a storage error: the retry ends in exactly the state the
   update would have produced had its first attempt not failed — in every reachable state, whichever
   write failed and whether or not it was applied *)
Theorem retry_converges_pf ops u f w1 w2 w3 st1 o1 st2 o2 st3 o3 :
  let st := run_state step init_state ops in
  step st (OUpdate u (Some f) w1) = (st1, o1) -> o_res o1 = RErr EStorage ->
  step st1 (ORetry u w2) = (st2, o2) -> o_res o2 = ROk ->
  step st (OUpdate u None w3) = (st3, o3) -> o_res o3 = ROk ->
  st2 = st3.
Proof.
  intros st. pose proof (reachable_canonical ops) as Hc. pose proof (reachable_sorted ops) as Hs. fold st in Hc, Hs.
  cbn [step]. unfold step_update, live_canonical in *.
  destruct (st_live st) as [m|] eqn:El; [|intros H1 R1; inversion H1; subst; discriminate].
  destruct (make_patch (m_conf m) u) as [p|] eqn:Ep; [|intros H1 R1; inversion H1; subst; cbn in R1; destruct (is_nil w1); discriminate].
  pose proof (make_patch_ok _ _ _ Ep) as Pok.
  destruct (try_commit m (st_store st) p w1 (Some f)) as [[[m1 s1] e1] ok1] eqn:E1.
  intros H1 R1. inversion H1; subst st1 o1. cbn [o_res observe] in R1.
  destruct ok1; [|discriminate]. destruct e1 as [e1|]; [|discriminate]. inversion R1; subst e1.
  destruct (failed_update_changes_nothing m (st_store st) p w1 (Some f) m1 s1 EStorage true Hc E1) as [-> _].
  cbn [st_live st_store]. rewrite Ep.
  destruct (try_commit m s1 p w2 None) as [[[m2 s2] e2] ok2] eqn:E2.
  intros H2 R2. inversion H2; subst st2 o2. cbn [o_res observe] in R2.
  destruct ok2; [|discriminate]. destruct e2 as [e2|]; [discriminate|].
  destruct (try_commit m (st_store st) p w3 None) as [[[m3 s3] e3] ok3] eqn:E3.
  intros H3 R3. inversion H3; subst st3 o3. cbn [o_res observe] in R3.
  destruct ok3; [|discriminate]. destruct e3 as [e3|]; [discriminate|].
  (* the three commits share adjust / build / trim; only the storage they start from differs *)
  unfold try_commit in E1, E2, E3.
  destruct (patch_adjust (m_conf m) p) as [c1 p1] eqn:Ea.
  assert (P2 : patch_ok (patch_trim c1 p1)).
  { apply patch_trim_ok. pose proof (patch_adjust_patch_ok (m_conf m) p Pok) as X. rewrite Ea in X. exact X. }
  destruct (build_rule_list (patch_view c1 p1)) as [be|rl]; [inversion E1|].
  unfold save_patch in E1, E2, E3.
  pose proof (save_writes_effect (patch_trim c1 p1) w1 1%nat (Some f) (st_store st) [] Hs) as [W1 U1].
  destruct (save_writes (patch_trim c1 p1) w1 1 (Some f) (st_store st) []) as [[sa1 failed1] k1]. cbn [fst] in W1, U1.
  destruct failed1; [|inversion E1]. inversion E1; subst s1.
  destruct (save_writes (patch_trim c1 p1) w2 1 None sa1 []) as [[sa2 failed2] k2].
  destruct failed2; [inversion E2|]. inversion E2; subst m2 s2.
  destruct (save_writes (patch_trim c1 p1) w3 1 None (st_store st) []) as [[sa3 failed3] k3].
  destruct failed3; [inversion E3|]. inversion E3; subst m3 s3.
  rewrite (save_all_absorbs (patch_trim c1 p1) (st_store st) sa1 P2 Hs W1 U1). reflexivity.
Qed.

(* ---------- H7: an index of a rule set; it determines every observer; buildRuleList finds it ---------- *)
Definition indexes (rules : list rule) (rl : list range) : Prop :=
  Forall (range_ok rules) rl /\ StronglySorted key_lt (map rg_start rl) /\
  (forall k, In k (map rg_start rl) <-> boundary rules k) /\ boundary rules [].

Lemma build_indexes rules rl : wf_rules rules -> build_rule_list rules = inr rl -> indexes rules rl.
Proof.
  intros Hwf H. destruct (build_ok rules rl Hwf H) as (A & B & C).
  split; [exact A|]. split; [exact B|]. split; [exact C|eapply build_first_boundary_empty; exact H].
Qed.

Lemma indexes_same_answers rules rl1 rl2 :
  indexes rules rl1 -> indexes rules rl2 ->
  (forall k, get_rules_by_key rl1 k = get_rules_by_key rl2 k) /\
  (forall s e, get_rules_for_apply_region rl1 s e = get_rules_for_apply_region rl2 s e) /\
  (forall s e, get_split_keys rl1 s e = get_split_keys rl2 s e).
Proof.
  intros (O1 & S1 & K1 & _) (O2 & S2 & K2 & _).
  assert (BK : forall k, get_rules_by_key rl1 k = get_rules_by_key rl2 k).
  { intros k. destruct (rules_by_key_exact_pf rules rl1 O1 S1 K1 k) as [X1 Y1].
    destruct (rules_by_key_exact_pf rules rl2 O2 S2 K2 k) as [X2 Y2].
    apply (sorted_unique compare_rule good_compare_rule); [exact X1|exact X2|]. intros y. rewrite Y1, Y2. tauto. }
  split; [exact BK|]. split.
  - intros s e. pose proof (apply_region_exact_pf rules rl1 O1 S1 K1 s e) as A1.
    pose proof (apply_region_exact_pf rules rl2 O2 S2 K2 s e) as A2.
    destruct (get_rules_for_apply_region rl1 s e) as [r1|]; destruct (get_rules_for_apply_region rl2 s e) as [r2|].
    + destruct A1 as (-> & _). destruct A2 as (-> & _). rewrite BK. reflexivity.
    + exfalso. destruct A1 as (_ & N1 & _ & X1). destruct A2 as [A2|A2]; [rewrite BK in N1; contradiction|contradiction].
    + exfalso. destruct A2 as (_ & N2 & _ & X2). destruct A1 as [A1|A1]; [rewrite <- BK in N2; contradiction|contradiction].
    + reflexivity.
  - intros s e. destruct (split_keys_exact_pf rules rl1 O1 S1 K1 s e) as [X1 Y1].
    destruct (split_keys_exact_pf rules rl2 O2 S2 K2 s e) as [X2 Y2].
    apply (sorted_unique key_cmp good_key); [exact X1|exact X2|]. intros y. rewrite Y1, Y2. tauto.
Qed.

Lemma indexes_same_dump c rules rl1 rl2 :
  indexes rules rl1 -> indexes rules rl2 -> dump_of (Manager c rl1) = dump_of (Manager c rl2).
Proof.
  intros I1 I2. destruct (indexes_same_answers rules rl1 rl2 I1 I2) as (A & B & C).
  unfold dump_of. cbn [m_conf m_list]. f_equal.
  - apply map_ext. intros k. rewrite A. reflexivity.
  - apply map_ext. intros se. rewrite B. reflexivity.
  - apply map_ext. intros se. apply C.
Qed.

Section SweepTotal.
  Variables (rules : list rule) (pts : list point) (rl0 : list range).
  Hypothesis Hwf : wf_rules rules.
  Hypothesis Hmem : forall p, In p pts <-> In p (points_of rules).
  Hypothesis Hnd : NoDup pts.
  Hypothesis Hsorted : StronglySorted (fun a b => key_le (p_key a) (p_key b)) pts.
  Hypothesis Hidx : indexes rules rl0.

  Lemma sweep_total R : forall L, L ++ R = pts -> exists rl, sweep R (run_points L []) = inr rl.
  Proof.
    induction R as [|p rest IH]; intros L E; [exists []; reflexivity|].
    assert (E' : (L ++ [p]) ++ rest = pts) by (rewrite <- app_assoc; exact E).
    assert (Erun : apply_point p (run_points L []) = run_points (L ++ [p]) []).
    { unfold run_points. rewrite fold_left_app. reflexivity. }
    cbn [sweep]. rewrite Erun. destruct (IH (L ++ [p]) E') as [rl' Hrl'].
    set (emit := match rest with [] => true | q :: _ => negb (key_eqb (p_key p) (p_key q)) end).
    destruct emit eqn:Eemit; [|exists rl'; exact Hrl'].
    (* an emission point: the slice is the range of the given index that starts at this key *)
    assert (HLp : forall q, In q (L ++ [p]) -> key_le (p_key q) (p_key p)).
    { intros q Hq. apply in_app_or in Hq as [Hq|[->|[]]]; [|apply key_le_refl].
      rewrite <- E in Hsorted.
      apply (ssorted_app_rel (fun a b : point => key_le (p_key a) (p_key b)) L (p :: rest) Hsorted q p Hq). left; reflexivity. }
    assert (Hrest : forall q, In q rest -> key_lt (p_key p) (p_key q)).
    { assert (Srest : StronglySorted (fun a b : point => key_le (p_key a) (p_key b)) (p :: rest)).
      { rewrite <- E in Hsorted. eapply ssorted_app_r; exact Hsorted. }
      destruct rest as [|q0 rest']; [intros ? []|]. subst emit. apply negb_true_iff in Eemit.
      inversion Srest as [|? ? S' F' [Ea Eb]]. rewrite Forall_forall in F'.
      assert (Hpq : key_lt (p_key p) (p_key q0)).
      { destruct (key_le_cases _ _ (F' q0 (or_introl eq_refl))) as [Heq|Hlt]; [|exact Hlt].
        apply key_eqb_eq in Heq. congruence. }
      intros z [->|Hz]; [exact Hpq|].
      inversion S' as [|? ? _ F'' [Ec' Ed']]. rewrite Forall_forall in F''.
      eapply key_lt_le_trans; [exact Hpq|apply F''; exact Hz]. }
    pose proof (prefix_inv_holds rules pts Hwf Hmem Hnd Hsorted (L ++ [p]) rest E') as [_ I2 _].
    pose proof (cut_mem rules pts Hwf Hmem Hnd Hsorted (L ++ [p]) rest (p_key p) E' HLp Hrest) as I3.
    destruct Hidx as (O0 & S0 & K0 & _).
    assert (Hb : boundary rules (p_key p)).
    { apply (boundary_iff_point rules pts Hmem). exists p. split; [rewrite <- E; apply in_or_app; right; left; reflexivity|reflexivity]. }
    apply K0 in Hb. apply in_map_iff in Hb as [g [Eg Hg]].
    rewrite Forall_forall in O0. destruct (O0 g Hg) as (Gs & Gm & Gne & Ga & Gc).
    assert (Esr : run_points (L ++ [p]) [] = rg_rules g).
    { apply (sorted_unique compare_rule good_compare_rule); [exact I2|exact Gs|].
      intros y. rewrite I3, Gm, Eg. tauto. }
    assert (Hc : check_apply_rules (prepare_rules_for_apply (run_points (L ++ [p]) [])) = None).
    { rewrite Esr, <- Ga. exact Gc. }
    destruct (run_points (L ++ [p]) []) as [|x xs] eqn:Esr2; [exfalso; apply Gne; symmetry; exact Esr|].
    rewrite Hc, Hrl'. eexists. reflexivity.
  Qed.
End SweepTotal.

Lemma build_succeeds rules rl0 : wf_rules rules -> indexes rules rl0 -> exists rl, build_rule_list rules = inr rl.
Proof.
  intros Hwf Hidx. destruct (sort_points_facts rules (wf_nodup _ Hwf)) as (A & B & C).
  unfold build_rule_list.
  destruct Hidx as (O0 & S0 & K0 & B0).
  assert (Hq : exists q, In q (sort_points (points_of rules)) /\ p_key q = []).
  { apply (boundary_iff_point rules _ A). exact B0. }
  destruct Hq as [q [Hq Kq]].
  destruct (points_of rules) as [|p0 ps] eqn:E.
  { exfalso. rewrite <- (A q) in *. cbn in Hq. exact Hq. }
  rewrite <- E in *. cbv zeta.
  destruct (sort_points (points_of rules)) as [|p sp] eqn:Es; [destruct Hq|].
  assert (Kp : p_key p = []).
  { destruct Hq as [->|Hq]; [exact Kq|].
    inversion C as [|? ? _ F]; subst. rewrite Forall_forall in F. specialize (F q Hq). rewrite Kq in F.
    destruct (key_le_cases _ _ F) as [H|H]; [exact H|].
    exfalso. pose proof (nil_least (p_key p)) as N. unfold key_le in N. unfold key_lt in H.
    rewrite (g_anti _ good_key (p_key p) []), H in N. cbn in N. congruence. }
  rewrite Kp. cbn [is_nil]. rewrite <- Es in *.
  apply (sweep_total rules (sort_points (points_of rules)) rl0 Hwf A B C (conj O0 (conj S0 (conj K0 B0))) _ []). reflexivity.
Qed.

(* ---------- H8: Initialize reads a mirrored storage back ---------- *)
Lemma config_adjust_filter_groups R G :
  config_adjust (Config R (filter (fun kg => negb (is_default (snd kg))) G)) = config_adjust (Config R G).
Proof. rewrite !config_adjust_unfold. cbn [c_rules c_groups]. rewrite filter_nd_twice. reflexivity. Qed.

Lemma ssorted_app_l {A} (R : A -> A -> Prop) l1 : forall l2, StronglySorted R (l1 ++ l2) -> StronglySorted R l1.
Proof.
  induction l1 as [|x r IH]; intros l2 H; [constructor|]. cbn in H. inversion H as [|? ? S F]; subst.
  constructor; [eapply IH; exact S|]. rewrite Forall_forall in *. intros y Hy. apply F. apply in_or_app. left; exact Hy.
Qed.

Lemma load_rules_mirror todo : forall done acc,
  psorted (done ++ todo) ->
  (forall k r, In (k, r) todo -> k = rkey r /\ valid r) ->
  la_rules acc = strip_rules done -> la_save acc = [] -> la_delete acc = [] ->
  let acc' := fold_left (fun acc (kv : (id * id) * sval) =>
    match snd kv with
    | SVGarbage => LoadAcc (la_rules acc) (la_save acc) (la_delete acc ++ [fst kv])
    | SVRule r0 =>
        match adjust_rule r0 None with
        | None => LoadAcc (la_rules acc) (la_save acc) (la_delete acc ++ [fst kv])
        | Some r =>
            match rget (rkey r) (la_rules acc) with
            | Some _ => LoadAcc (la_rules acc) (la_save acc) (la_delete acc ++ [fst kv])
            | None =>
                if pair_eqb (fst kv) (rkey r)
                then LoadAcc (mset pair_cmp (rkey r) r (la_rules acc)) (la_save acc) (la_delete acc)
                else LoadAcc (mset pair_cmp (rkey r) r (la_rules acc)) (la_save acc ++ [r]) (la_delete acc ++ [fst kv])
            end
        end
    end) (map_vals sv todo) acc in
  la_rules acc' = strip_rules (done ++ todo) /\ la_save acc' = [] /\ la_delete acc' = [].
Proof.
  induction todo as [|[k r] rest IH]; intros done acc S V E1 E2 E3; cbn [map_vals map fold_left].
  - rewrite app_nil_r. auto.
  - cbn [snd fst sv]. destruct (V k r (or_introl eq_refl)) as [Kr Vr].
    pose proof (valid_set_group r None Vr) as Vs. unfold valid in Vs. rewrite Vs.
    assert (Hlt : forall x, In x (strip_rules done) -> klt pair_cmp (fst x) k).
    { intros x Hx. unfold strip_rules in Hx. apply in_map_iff in Hx as [[k0 r0] [<- Hx]]. cbn [fst].
      apply (ssorted_app_rel (fun a b : (id * id) * rule => klt pair_cmp (fst a) (fst b)) done ((k, r) :: rest) S (k0, r0) (k, r) Hx).
      left; reflexivity. }
    rewrite rkey_set_group, <- Kr. unfold rget. rewrite E1.
    rewrite (aget_gt_all pair_cmp good_pair k (strip_rules done) Hlt).
    rewrite (proj2 (pair_eqb_eq k k) eq_refl).
    rewrite (aset_gt_all pair_cmp good_pair k (set_group r None) (strip_rules done) Hlt).
    specialize (IH (done ++ [(k, r)])
                  (LoadAcc (strip_rules done ++ [(k, set_group r None)]) (la_save acc) (la_delete acc))).
    rewrite <- app_assoc in IH. cbn [app] in IH. apply IH; cbn [la_rules la_save la_delete]; try assumption.
    + intros k' r' H'. apply V. right; exact H'.
    + unfold strip_rules. rewrite map_app. reflexivity.
Qed.

Lemma initialize_mirror c s mr :
  conf_ok c -> canonical c -> mirrors c s -> c_rules c <> [] ->
  initialize s mr =
  (match build_rule_list (map snd (c_rules c)) with inl _ => inr EBuild | inr rl => inl (Manager c rl) end, s).
Proof.
  intros [A B C D] Hcan [M1 M2 M3] Hne. unfold initialize, load_repairs.
  assert (L : la_rules (load_rules s) = strip_rules (c_rules c) /\ la_save (load_rules s) = [] /\ la_delete (load_rules s) = []).
  { unfold load_rules. rewrite M1. apply (load_rules_mirror (c_rules c) [] (LoadAcc [] [] [])); cbn; auto. }
  destruct L as (L1 & L2 & L3). rewrite L1, L2, L3. cbn [fold_left filter].
  destruct (strip_rules (c_rules c)) as [|x xs] eqn:Es.
  { exfalso. destruct (c_rules c); [congruence|discriminate]. }
  rewrite <- Es. rewrite M2.
  assert (Ec : config_adjust (Config (strip_rules (c_rules c)) (filter nd (c_groups c))) = c).
  { unfold nd. rewrite config_adjust_filter_groups, <- config_adjust_via_strip. exact Hcan. }
  rewrite Ec. destruct (build_rule_list (map snd (c_rules c))); reflexivity.
Qed.

(* ---------- H9: the index built from the patch view is an index of the committed configuration ---------- *)
Lemma indexes_ext rules rules' rl : (forall y, In y rules <-> In y rules') -> indexes rules rl -> indexes rules' rl.
Proof.
  intros E (O & S & K & B).
  assert (BE : forall k, boundary rules k <-> boundary rules' k).
  { intros k. unfold boundary. split; intros [y [Hy H]]; exists y; (split; [apply E; exact Hy|exact H]). }
  split; [|split; [exact S|split; [intros k; rewrite K; apply BE|apply BE; exact B]]].
  rewrite Forall_forall in *. intros g Hg. destruct (O g Hg) as (G1 & G2 & G3). split; [exact G1|]. split; [|exact G3].
  intros y. rewrite G2, E. tauto.
Qed.

Lemma group_eqb_eq a b : group_eqb a b = true -> a = b.
Proof.
  unfold group_eqb. intros H. apply andb_true_iff in H as [H H3]. apply andb_true_iff in H as [H1 H2].
  apply key_eqb_eq in H1. apply Z.eqb_eq in H2. apply Bool.eqb_prop in H3. destruct a, b; cbn in *; congruence.
Qed.
Lemma default_group_eq g gid : is_default g = true -> g_id g = gid -> g = default_group gid.
Proof.
  unfold is_default, default_group. intros H E. apply andb_true_iff in H as [H1 H2]. apply Z.eqb_eq in H1.
  apply negb_true_iff in H2. destruct g; cbn in *; congruence.
Qed.

Lemma role_eqb_eq a b : role_eqb a b = true -> a = b.
Proof. destruct a, b; cbn; intros; try discriminate; reflexivity. Qed.
Lemma rule_json_eqb_strip a b : rule_json_eqb a b = true -> r_wellformed a = r_wellformed b -> strip a = strip b.
Proof.
  unfold rule_json_eqb. intros H W.
  repeat (apply andb_true_iff in H as [H ?]).
  repeat match goal with
         | X : key_eqb _ _ = true |- _ => apply key_eqb_eq in X
         | X : (_ =? _)%Z = true |- _ => apply Z.eqb_eq in X
         | X : Bool.eqb _ _ = true |- _ => apply Bool.eqb_prop in X
         | X : role_eqb _ _ = true |- _ => apply role_eqb_eq in X
         end.
  destruct a, b; cbn in *; subst; reflexivity.
Qed.

Lemma psorted_nodup_keys {V} (m : list ((id * id) * V)) : psorted m -> NoDup (map fst m).
Proof.
  induction 1 as [|x r S IH F]; cbn; [constructor|]. constructor; [|exact IH].
  rewrite Forall_forall in F. intros Hin. apply in_map_iff in Hin as [y [E Hy]]. specialize (F y Hy).
  unfold klt in F. rewrite E, (g_refl _ good_pair) in F. discriminate.
Qed.

Lemma aget_fold_mset_groups L : forall (m : gmap) k, gsorted L -> gsorted m ->
  mget key_cmp k (fold_left (fun m (kg : id * group) => mset key_cmp (fst kg) (snd kg) m) L m) =
  match mget key_cmp k L with Some g => Some g | None => mget key_cmp k m end.
Proof.
  induction L as [|[k0 g0] L IH]; intros m k SL Sm; [reflexivity|].
  inversion SL as [|? ? SL' F]; subst. rewrite Forall_forall in F. cbn [fold_left fst snd].
  rewrite IH by (try exact SL'; apply (aset_sorted key_cmp good_key key_cmp_eq); exact Sm).
  rewrite (aget_aset key_cmp key_cmp_eq) by exact Sm. cbn [aget]. unfold keqb.
  destruct (key_cmp k k0) eqn:E.
  - apply key_cmp_eq in E. subst k0. rewrite (aget_lt_all key_cmp k L F). reflexivity.
  - destruct (aget key_cmp k L); reflexivity.
  - destruct (aget key_cmp k L); reflexivity.
Qed.

Lemma aget_fold_add_default l : forall gs gid, gsorted gs ->
  mget key_cmp gid (fold_left add_default l gs) =
  match mget key_cmp gid gs with
  | Some g => Some g
  | None => if existsb (fun kr : (id * id) * rule => key_eqb gid (r_gid (snd kr))) l then Some (default_group gid) else None
  end.
Proof.
  induction l as [|kr rest IH]; intros gs gid S; cbn [fold_left existsb]; [destruct (mget key_cmp gid gs); reflexivity|].
  rewrite IH.
  2:{ unfold add_default. destruct (gget _ gs); [exact S|apply (aset_sorted key_cmp good_key key_cmp_eq); exact S]. }
  unfold add_default, gget. destruct (aget key_cmp (r_gid (snd kr)) gs) as [g0|] eqn:E0.
  - destruct (aget key_cmp gid gs) eqn:E1; [reflexivity|].
    destruct (key_eqb gid (r_gid (snd kr))) eqn:Ek; [|reflexivity]. apply key_eqb_eq in Ek. subst. congruence.
  - rewrite (aget_aset key_cmp key_cmp_eq) by exact S. unfold keqb, key_eqb.
    destruct (key_cmp gid (r_gid (snd kr))) eqn:Ek.
    + apply key_cmp_eq in Ek. subst gid. rewrite E0. reflexivity.
    + destruct (aget key_cmp gid gs); reflexivity.
    + destruct (aget key_cmp gid gs); reflexivity.
Qed.

Lemma view_In c1 p1 y :
  In y (patch_view c1 p1) <->
  (exists k, In (k, Some y) (m_rules p1)) \/ (exists k, In (k, y) (c_rules c1) /\ mget pair_cmp k (m_rules p1) = None).
Proof.
  unfold patch_view. rewrite in_app_iff, !in_flat_map. split.
  - intros [[[k [r|]] [H1 H2]]|[[k r] [H1 H2]]]; cbn in H2.
    + destruct H2 as [<-|[]]. left. exists k. exact H1.
    + destruct H2.
    + cbn [fst snd] in H2. destruct (mget pair_cmp k (m_rules p1)) eqn:E; [destruct H2|]. destruct H2 as [<-|[]].
      right. exists k. split; [exact H1|exact E].
  - intros [[k H]|[k [H1 H2]]].
    + left. exists (k, Some y). split; [exact H|left; reflexivity].
    + right. exists (k, y). split; [exact H1|]. cbn [fst snd]. rewrite H2. left; reflexivity.
Qed.

Lemma set_group_same r : set_group r (r_group r) = r.
Proof. destruct r; reflexivity. Qed.

Section Commit.
  Variables (c : config) (p : patch).
  Hypothesis Hc : conf_ok c.
  Hypothesis Hp : patch_ok p.
  Let c1 := fst (patch_adjust c p).
  Let p1 := snd (patch_adjust c p).
  Let p2 := patch_trim c1 p1.
  Let pgg := p_get_group c p.
  Let rp := fun r : rule => set_group r (Some (pgg (r_gid r))).
  Let R' := fold_left commit_rule_step (m_rules p2) (c_rules c1).
  Let G' := fold_left (fun m (kg : id * group) => mset key_cmp (fst kg) (snd kg) m) (m_groups p2) (c_groups c1).
  Let g1' := fold_left add_default R' (filter (fun kg => negb (is_default (snd kg))) G').

  Lemma Hc1 : conf_ok c1. Proof. apply patch_adjust_ok; assumption. Qed.
  Lemma Hp1 : patch_ok p1. Proof. apply patch_adjust_patch_ok; assumption. Qed.
  Lemma Hp2 : patch_ok p2. Proof. apply patch_trim_ok. apply Hp1. Qed.

  Lemma c1_groups : c_groups c1 = c_groups c. Proof. reflexivity. Qed.
  Lemma p1_groups : m_groups p1 = m_groups p. Proof. reflexivity. Qed.
  Lemma p1_rules : m_rules p1 = map (fun kr => (fst kr, option_map rp (snd kr))) (m_rules p). Proof. reflexivity. Qed.
  Lemma c1_rules : c_rules c1 = map (fun kr : (id * id) * rule => match mget pair_cmp (fst kr) (m_rules p) with
                                                                     | Some _ => kr
                                                                     | None => (fst kr, rp (snd kr))
                                                                     end) (c_rules c).
  Proof. reflexivity. Qed.

  Lemma p1_get k : mget pair_cmp k (m_rules p1) = option_map (option_map rp) (mget pair_cmp k (m_rules p)).
  Proof. rewrite p1_rules. apply (aget_map_vals pair_cmp (option_map rp)). Qed.

  Lemma r_gid_rp r : r_gid (rp r) = r_gid r. Proof. unfold rp. apply r_gid_set_group. Qed.

  Lemma Q3 k r : In (k, Some r) (m_rules p1) -> r_group r = Some (pgg (r_gid r)).
  Proof.
    rewrite p1_rules. intros H. apply in_map_iff in H as [[k0 [r0|]] [E _]]; cbn in E; [|discriminate].
    injection E as _ <-. rewrite r_gid_rp. unfold rp. destruct r0; reflexivity.
  Qed.
  Lemma Q4 k r : In (k, r) (c_rules c1) -> mget pair_cmp k (m_rules p1) = None -> r_group r = Some (pgg (r_gid r)).
  Proof.
    rewrite c1_rules, p1_get. intros H N. apply in_map_iff in H as [[k0 r0] [E _]]. cbn [fst snd] in E.
    destruct (mget pair_cmp k0 (m_rules p)) eqn:E0.
    - injection E as <- <-. rewrite E0 in N. discriminate.
    - injection E as <- <-. rewrite r_gid_rp. unfold rp. destruct r0; reflexivity.
  Qed.

  Lemma R'_sorted : psorted R'.
  Proof. apply commit_rules_sorted. apply (co_rsorted _ Hc1). Qed.

  Lemma R'_get k : mget pair_cmp k R' = match mget pair_cmp k (m_rules p2) with Some w => w | None => mget pair_cmp k (c_rules c1) end.
  Proof.
    unfold R'. change commit_rule_step with (@awrite (id * id) pair_cmp rule).
    apply (aget_fold_awrite pair_cmp good_pair pair_cmp_eq); [apply (po_rsorted _ Hp2)|apply (co_rsorted _ Hc1)].
  Qed.

  Lemma p2_get k : mget pair_cmp k (m_rules p2) =
    match mget pair_cmp k (m_rules p1) with
    | Some v => if negb (opt_rule_json_eqb v (rget k (c_rules c1))) then Some v else None
    | None => None
    end.
  Proof.
    unfold p2, patch_trim. cbn [m_rules].
    rewrite (aget_filter pair_cmp good_pair pair_cmp_eq) by apply (po_rsorted _ Hp1). reflexivity.
  Qed.

  Lemma p2_group_get k : mget key_cmp k (m_groups p2) =
    match mget key_cmp k (m_groups p) with
    | Some g => if negb (group_eqb g (c_get_group c1 k)) then Some g else None
    | None => None
    end.
  Proof.
    unfold p2, patch_trim. cbn [m_groups]. rewrite p1_groups.
    rewrite (aget_filter key_cmp good_key key_cmp_eq) by apply (po_gsorted _ Hp). reflexivity.
  Qed.

  (* adjust() of the committed configuration gives every rule the group patch.adjust() gave it *)
  Lemma group_eq k r : In (k, r) R' -> gget (r_gid r) g1' = Some (pgg (r_gid r)).
  Proof.
    intros Hin. set (gid := r_gid r).
    assert (SG' : gsorted G') by (apply commit_groups_sorted; apply (co_gsorted _ Hc1)).
    unfold gget, g1'. rewrite aget_fold_add_default by (apply filter_asorted; exact SG').
    rewrite (aget_filter key_cmp good_key key_cmp_eq) by exact SG'.
    assert (Ex : existsb (fun kr : (id * id) * rule => key_eqb gid (r_gid (snd kr))) R' = true).
    { apply existsb_exists. exists (k, r). split; [exact Hin|]. apply key_eqb_eq. reflexivity. }
    rewrite Ex. unfold G'. rewrite aget_fold_mset_groups by (try apply (po_gsorted _ Hp2); apply (co_gsorted _ Hc1)).
    rewrite p2_group_get, c1_groups.
    unfold pgg, p_get_group, gget, c_get_group. rewrite c1_groups. unfold gget. cbn [snd].
    destruct (mget key_cmp gid (m_groups p)) as [g|] eqn:Eg.
    - assert (Kg : g_id g = gid).
      { symmetry. apply (po_groups _ Hp). apply (aget_In key_cmp key_cmp_eq). exact Eg. }
      destruct (group_eqb g match mget key_cmp gid (c_groups c) with Some g0 => g0 | None => default_group gid end) eqn:Eq; cbn [negb].
      + apply group_eqb_eq in Eq.
        destruct (mget key_cmp gid (c_groups c)) as [g0|] eqn:E0.
        * subst g0. destruct (is_default g) eqn:D; cbn [negb]; [|reflexivity].
          f_equal. symmetry. apply default_group_eq; assumption.
        * rewrite Eq. reflexivity.
      + destruct (is_default g) eqn:D; cbn [negb]; [|reflexivity].
        f_equal. symmetry. apply default_group_eq; assumption.
    - destruct (mget key_cmp gid (c_groups c)) as [g0|] eqn:E0; [|reflexivity].
      assert (Kg : g_id g0 = gid).
      { symmetry. apply (co_groups _ Hc). apply (aget_In key_cmp key_cmp_eq). exact E0. }
      destruct (is_default g0) eqn:D; cbn [negb]; [|reflexivity].
      f_equal. symmetry. apply default_group_eq; assumption.
  Qed.

  Lemma committed_rules :
    c_rules (patch_commit c1 p2) = map (fun kr => (fst kr, set_group (snd kr) (gget (r_gid (snd kr)) g1'))) R'.
  Proof. unfold patch_commit. rewrite config_adjust_unfold. reflexivity. Qed.

  Lemma set_group_own r g : r_group r = g -> set_group r g = r.
  Proof. intros <-. apply set_group_same. Qed.

  Lemma trimmed_same k r1 r :
    In (k, Some r1) (m_rules p1) -> In (k, r) (c_rules c1) -> rule_json_eqb r1 r = true ->
    set_group r (Some (pgg (r_gid r))) = r1.
  Proof.
    intros H1 H2 J.
    destruct (po_rules _ Hp1 k r1 H1) as [_ V1]. destruct (co_rules _ Hc1 k r H2) as [_ V2].
    destruct (valid_facts r1 V1) as [W1 _]. destruct (valid_facts r V2) as [W2 _].
    pose proof (rule_json_eqb_strip r1 r J (eq_trans W1 (eq_sym W2))) as Es.
    pose proof (Q3 k r1 H1) as P1.
    assert (Eg : r_gid r1 = r_gid r).
    { rewrite <- (r_gid_set_group r1 None), <- (r_gid_set_group r None). unfold strip in Es. rewrite Es. reflexivity. }
    rewrite <- Eg, <- P1. rewrite <- (set_group_strip r), <- Es, set_group_strip. apply set_group_same.
  Qed.

  Theorem committed_eq_view y :
    In y (map snd (c_rules (patch_commit c1 p2))) <-> In y (patch_view c1 p1).
  Proof.
    rewrite committed_rules, view_In, map_map. cbn [snd]. rewrite in_map_iff. split.
    - intros [[k r] [Ey Hin]]. cbn [snd] in Ey. rewrite (group_eq k r Hin) in Ey.
      pose proof (In_aget pair_cmp good_pair k r R' R'_sorted Hin) as Hget. rewrite R'_get, p2_get in Hget.
      destruct (mget pair_cmp k (m_rules p1)) as [v|] eqn:E1.
      + destruct (negb (opt_rule_json_eqb v (rget k (c_rules c1)))) eqn:Ek.
        * subst v. left. exists k.
          assert (H1 : In (k, Some r) (m_rules p1)) by (apply (aget_In pair_cmp pair_cmp_eq); exact E1).
          rewrite <- Ey, (set_group_own r _ (Q3 k r H1)). exact H1.
        * apply negb_false_iff in Ek. unfold rget in Ek. rewrite Hget in Ek.
          destruct v as [r1|]; cbn in Ek; [|discriminate]. left. exists k.
          assert (H1 : In (k, Some r1) (m_rules p1)) by (apply (aget_In pair_cmp pair_cmp_eq); exact E1).
          assert (H2 : In (k, r) (c_rules c1)) by (apply (aget_In pair_cmp pair_cmp_eq); exact Hget).
          rewrite <- Ey, (trimmed_same k r1 r H1 H2 Ek). exact H1.
      + right. exists k.
        assert (H2 : In (k, r) (c_rules c1)) by (apply (aget_In pair_cmp pair_cmp_eq); exact Hget).
        rewrite <- Ey, (set_group_own r _ (Q4 k r H2 E1)). split; [exact H2|exact E1].
    - intros [[k H1]|[k [H2 N]]].
      + pose proof (In_aget pair_cmp good_pair k (Some y) (m_rules p1) (po_rsorted _ Hp1) H1) as E1.
        destruct (negb (opt_rule_json_eqb (Some y) (rget k (c_rules c1)))) eqn:Ek.
        * assert (Hget : mget pair_cmp k R' = Some y) by (rewrite R'_get, p2_get, E1, Ek; reflexivity).
          apply (aget_In pair_cmp pair_cmp_eq) in Hget.
          exists (k, y). split; [|exact Hget]. cbn [snd]. rewrite (group_eq k y Hget). apply set_group_own. apply (Q3 k y H1).
        * apply negb_false_iff in Ek. unfold rget in Ek.
          destruct (mget pair_cmp k (c_rules c1)) as [r|] eqn:Er; cbn in Ek; [|discriminate].
          assert (Hget : mget pair_cmp k R' = Some r).
          { rewrite R'_get, p2_get, E1. unfold rget. rewrite Er. cbn [opt_rule_json_eqb]. rewrite Ek. cbn [negb]. reflexivity. }
          apply (aget_In pair_cmp pair_cmp_eq) in Hget. apply (aget_In pair_cmp pair_cmp_eq) in Er.
          exists (k, r). split; [|exact Hget]. cbn [snd]. rewrite (group_eq k r Hget). apply (trimmed_same k y r H1 Er Ek).
      + pose proof (In_aget pair_cmp good_pair k y (c_rules c1) (co_rsorted _ Hc1) H2) as Er.
        assert (Hget : mget pair_cmp k R' = Some y) by (rewrite R'_get, p2_get, N; exact Er).
        apply (aget_In pair_cmp pair_cmp_eq) in Hget.
        exists (k, y). split; [|exact Hget]. cbn [snd]. rewrite (group_eq k y Hget). apply set_group_own. apply (Q4 k y H2 N).
  Qed.
End Commit.

(* ---------- H10: well-formedness of the rule sets the manager indexes ---------- *)
Lemma nodup_flat {X} (m : list ((id * id) * X)) (sel : (id * id) * X -> list rule) :
  psorted m -> (forall kr, In kr m -> forall r, In r (sel kr) -> rkey r = fst kr) -> (forall kr, (length (sel kr) <= 1)%nat) ->
  NoDup (map rkey (flat_map sel m)) /\ (forall r, In r (flat_map sel m) -> In (rkey r) (map fst m)).
Proof.
  intros S K L. induction S as [|x rest S IH F]; cbn [flat_map]; [split; [constructor|intros r []]|].
  destruct IH as [IH1 IH2]; [intros kr Hkr; apply K; right; exact Hkr|]. rewrite Forall_forall in F. split.
  - rewrite map_app. apply NoDup_app_intro; [|exact IH1|].
    + specialize (L x). destruct (sel x) as [|r [|r' t]]; cbn in *; [constructor|repeat constructor; intros []|lia].
    + intros k Hk1 Hk2. apply in_map_iff in Hk1 as [r1 [E1 H1]]. apply in_map_iff in Hk2 as [r2 [E2 H2]].
      apply IH2 in H2. rewrite E2, <- E1, (K x (or_introl eq_refl) r1 H1) in H2. apply in_map_iff in H2 as [y [Ey Hy]].
      specialize (F y Hy). unfold klt in F. rewrite Ey, (g_refl _ good_pair) in F. discriminate.
  - intros r Hr. apply in_app_or in Hr as [Hr|Hr]; cbn [map]; [left; symmetry; apply (K x (or_introl eq_refl)); exact Hr|right; apply IH2; exact Hr].
Qed.

Lemma view_wf c p : conf_ok c -> patch_ok p ->
  wf_rules (patch_view (fst (patch_adjust c p)) (snd (patch_adjust c p))).
Proof.
  intros Hc Hp. pose proof (Hc1 c p Hc Hp) as C1. pose proof (Hp1 c p Hp) as P1.
  set (c1 := fst (patch_adjust c p)) in *. set (p1 := snd (patch_adjust c p)) in *.
  constructor.
  - unfold patch_view. rewrite map_app.
    destruct (nodup_flat (m_rules p1) (fun kr => match snd kr with Some r => [r] | None => [] end) (po_rsorted _ P1)) as [N1 M1].
    { intros [k [r0|]] Hin r H; cbn in H; [destruct H as [<-|[]]|destruct H]. cbn. symmetry. apply (po_rules _ P1 k r0 Hin). }
    { intros [k [r0|]]; cbn; lia. }
    destruct (nodup_flat (c_rules c1) (fun kr => match mget pair_cmp (fst kr) (m_rules p1) with Some _ => [] | None => [snd kr] end)
                (co_rsorted _ C1)) as [N2 M2].
    { intros [k r0] Hin r H. cbn [fst snd] in H. destruct (mget pair_cmp k (m_rules p1)); [destruct H|]. destruct H as [<-|[]].
      cbn. symmetry. apply (co_rules _ C1 k r0 Hin). }
    { intros [k r0]. cbn [fst snd]. destruct (mget pair_cmp k (m_rules p1)); cbn; lia. }
    apply NoDup_app_intro; [exact N1|exact N2|].
    intros k Hk1 Hk2. apply in_map_iff in Hk1 as [r1 [E1 H1]]. apply in_map_iff in Hk2 as [r2 [E2 H2]].
    apply in_flat_map in H1 as [[k1 [r1'|]] [Hin1 Hs1]]; cbn in Hs1; [|destruct Hs1]. destruct Hs1 as [<-|[]].
    apply in_flat_map in H2 as [[k2 r2'] [Hin2 Hs2]]. cbn [fst snd] in Hs2.
    destruct (mget pair_cmp k2 (m_rules p1)) eqn:N; [destruct Hs2|]. destruct Hs2 as [<-|[]].
    destruct (po_rules _ P1 k1 r1' Hin1) as [K1 _]. destruct (co_rules _ C1 k2 r2' Hin2) as [K2 _].
    assert (Ek : k1 = k2) by congruence. rewrite <- Ek in N.
    rewrite (In_aget pair_cmp good_pair k1 (Some r1') (m_rules p1) (po_rsorted _ P1) Hin1) in N. discriminate.
  - intros r Hr. apply view_In in Hr as [[k H]|[k [H _]]].
    + destruct (po_rules _ P1 k r H) as [_ V]. apply (valid_facts r V).
    + destruct (co_rules _ C1 k r H) as [_ V]. apply (valid_facts r V).
Qed.

Lemma conf_rules_wf c : conf_ok c -> wf_rules (map snd (c_rules c)).
Proof.
  intros [A B C D]. constructor.
  - assert (E : map rkey (map snd (c_rules c)) = map fst (c_rules c)).
    { rewrite map_map. apply map_ext_in. intros [k r] Hin. cbn. symmetry. apply (B k r Hin). }
    rewrite E. apply psorted_nodup_keys. exact A.
  - intros r Hr. apply in_map_iff in Hr as [[k r0] [<- Hin]]. cbn. destruct (B k r0 Hin) as [_ V]. apply (valid_facts r0 V).
Qed.

(* ---------- H11: the invariant of fault-free histories, and what a restarted PD loads ---------- *)
Theorem accepted_update_indexes m s p order m' s' ok :
  conf_ok (m_conf m) -> patch_ok p ->
  try_commit m s p order None = (m', s', None, ok) ->
  indexes (map snd (c_rules (m_conf m'))) (m_list m').
Proof.
  intros Hc Hp H. unfold try_commit in H.
  pose proof (view_wf (m_conf m) p Hc Hp) as W.
  pose proof (committed_eq_view (m_conf m) p Hc Hp) as Eq.
  destruct (patch_adjust (m_conf m) p) as [c1 p1]. cbn [fst snd] in *.
  destruct (build_rule_list (patch_view c1 p1)) as [be|rl] eqn:B; [inversion H|].
  destruct (save_patch (patch_trim c1 p1) order None s) as [[s1 failed] ok1].
  destruct failed; inversion H; subst. cbn [m_conf m_list].
  apply (indexes_ext (patch_view c1 p1)); [intros y; symmetry; apply Eq|].
  apply build_indexes; assumption.
Qed.

Record hist_ok (m : manager) (s : storage) : Prop := {
  ho_conf : conf_ok (m_conf m);
  ho_canon : canonical (m_conf m);
  ho_mirror : mirrors (m_conf m) s;
  ho_index : indexes (map snd (c_rules (m_conf m))) (m_list m)
}.
Definition st_hist_ok (st : state) : Prop :=
  match st_live st with Some m => hist_ok m (st_store st) | None => True end.

Lemma step_update_hist_ok st u w : st_hist_ok st -> st_hist_ok (fst (step_update st u None w)).
Proof.
  unfold st_hist_ok, step_update. intros Hst.
  destruct (st_live st) as [m|] eqn:El; [|cbn; rewrite El; exact I].
  destruct (make_patch (m_conf m) u) as [p|] eqn:Ep; [|cbn; rewrite El; exact Hst].
  pose proof (make_patch_ok _ _ _ Ep) as Pok. destruct Hst as [H1 H2 H3 H4].
  destruct (try_commit m (st_store st) p w None) as [[[m' s'] e] ok] eqn:Et. cbn [fst st_live st_store].
  destruct e as [e|].
  - destruct (failed_update_changes_nothing m (st_store st) p w None m' s' e ok H2 Et) as [-> Hs].
    assert (e = EBuild).
    { unfold try_commit in Et. destruct (patch_adjust (m_conf m) p) as [c1 p1].
      destruct (build_rule_list (patch_view c1 p1)); [inversion Et; reflexivity|].
      unfold save_patch in Et.
      pose proof (save_writes_no_fault (patch_trim c1 p1) w 1%nat (st_store st) []) as NF.
      destruct (save_writes (patch_trim c1 p1) w 1 None (st_store st) []) as [[? failed] ?]. cbn in NF. subst failed.
      inversion Et. }
    rewrite (Hs H). constructor; assumption.
  - constructor.
    + eapply try_commit_conf_ok; eauto.
    + eapply try_commit_canonical; eauto.
    + eapply accepted_update_mirrors; eauto.
    + eapply accepted_update_indexes; eauto.
Qed.

Lemma default_rule_valid mr : (1 <= mr)%Z -> valid (default_rule mr).
Proof.
  intros H. apply valid_iff. unfold content_ok, role_ok, default_rule. cbn.
  destruct (mr <=? 0)%Z eqn:E; [apply Z.leb_le in E; lia|reflexivity].
Qed.

Lemma initialize_empty_hist_ok mr m s' : initialize (Storage [] []) mr = (inl m, s') -> hist_ok m s'.
Proof.
  intros H. pose proof (initialize_empty_mirrors mr m s' H) as M. pose proof (initialize_canonical _ _ _ _ H) as Cn.
  unfold initialize, load_repairs in H. cbn [load_rules s_rules fold_left filter la_rules la_save la_delete s_groups] in H.
  destruct (build_rule_list _) as [e|rl] eqn:B; inversion H; subst. clear H. cbn [m_conf m_list] in *.
  assert (Hmr : (1 <= mr)%Z).
  { destruct (Z.leb_spec 1 mr) as [L|L]; [exact L|exfalso].
    revert B. unfold build_rule_list. cbn.
    assert (E : (mr <? 1)%Z = true) by (apply Z.ltb_lt; lia).
    unfold check_apply_rules. cbn. rewrite ?Z.add_0_l, E. discriminate. }
  assert (Ck : conf_ok (config_adjust (Config [(rkey (default_rule mr), default_rule mr)] []))).
  { apply config_adjust_ok. constructor; cbn [c_rules c_groups].
    - repeat constructor.
    - intros k r [E|[]]. inversion E; subst. split; [reflexivity|apply default_rule_valid; exact Hmr].
    - constructor.
    - intros k g []. }
  constructor; [exact Ck|exact Cn|exact M|].
  apply build_indexes; [apply conf_rules_wf; exact Ck|exact B].
Qed.

Theorem fault_free_history_ok mr ups :
  forallb fault_free_update ups = true -> st_hist_ok (run_state step init_state (ORestart mr :: ups)).
Proof.
  intros Hff. cbn [run_state].
  assert (E0 : fst (step init_state (ORestart mr)) =
               match initialize (Storage [] []) mr with
               | (inl m, s') => State (Some m) s'
               | (inr _, s') => State None s'
               end).
  { unfold step. cbn [st_store init_state]. destruct (initialize (Storage [] []) mr) as [[m|e] s']; reflexivity. }
  rewrite E0. clear E0.
  assert (G : forall ups st, forallb fault_free_update ups = true -> st_hist_ok st -> st_hist_ok (run_state step st ups)).
  { clear. induction ups as [|o rest IH]; intros st Hff Hst; [exact Hst|].
    cbn in Hff. apply andb_true_iff in Hff as [Ho Hrest]. cbn [run_state]. apply IH; [exact Hrest|].
    destruct o as [| u f w | u w | | | |]; try discriminate.
    - destruct f; [discriminate|]. apply step_update_hist_ok; exact Hst.
    - apply step_update_hist_ok; exact Hst. }
  apply G; [exact Hff|].
  destruct (initialize (Storage [] []) mr) as [[m0|e] s0] eqn:Ei; unfold st_hist_ok; cbn [st_live st_store]; [|exact I].
  eapply initialize_empty_hist_ok; exact Ei.
Qed.

(* a PD restarted on the storage serves exactly what is being served *)
Theorem hist_ok_reload m s : hist_ok m s -> reload_dump s = Some (dump_of m).
Proof.
  intros [H1 H2 H3 H4]. unfold reload_dump.
  assert (Hne : c_rules (m_conf m) <> []).
  { destruct H4 as (_ & _ & _ & [y [Hy _]]). intros E. rewrite E in Hy. destruct Hy. }
  rewrite (initialize_mirror (m_conf m) s 3 H1 H2 H3 Hne). cbn [fst].
  pose proof (conf_rules_wf _ H1) as W.
  destruct (build_succeeds _ _ W H4) as [rl B]. rewrite B.
  f_equal. destruct m as [c rl0]. cbn [m_conf m_list] in *.
  apply (indexes_same_dump c (map snd (c_rules c))); [apply build_indexes; assumption|exact H4].
Qed.

Theorem accepted_update_reload_equal_pf mr ups :
  forallb fault_free_update ups = true ->
  let st := run_state step init_state (ORestart mr :: ups) in
  forall m, st_live st = Some m -> reload_dump (st_store st) = Some (dump_of m).
Proof.
  intros Hff st m El. pose proof (fault_free_history_ok mr ups Hff) as H. fold st in H.
  unfold st_hist_ok in H. rewrite El in H. apply hist_ok_reload; exact H.
Qed.

(* the store set only ever makes RuleManager refuse a client's rule: an update that is accepted under some store
   set builds the patch it would build without the check; loading (`initialize`) has no store set at all *)
Theorem store_check_only_refuses c um u p : make_patch c (UWithStores um u) = Some p -> make_patch c u = Some p.
Proof. cbn [make_patch]. destruct (existsb _ (added_rules u)); [discriminate|exact (fun H => H)]. Qed.
