(* C10 - every piece of source text, call chain, filter list and skeleton the translator regenerates from /repo (gen/Gen_C10.v),
   pinned to the value the model in model/C10_*.v was written against.  Log / metrics statements are dropped and function-local
   variable names are canonical (v1, v2, ...) in these values, so adding a log line or renaming a local does not touch them; any
   other edit of an anchored function breaks exactly one lemma here and the check then searches for a failing input. *)
From PDV Require Import lib.Skel lib.C10_Cluster gen.Gen_C10.
Local Open Scope string_scope.

Lemma pin_state_kinds : Gen_C10.state_kinds =
  ["leaderSource"; "regionSource"; "leaderTarget"; "regionTarget"; "scatterRegionTarget"].
Proof. reflexivity. Qed.

Lemma pin_src_excludedFilter_Target : Gen_C10.src_excludedFilter_Target =
  "{ _, v1 := f.targets[store.GetID()] return !v1 }".
Proof. reflexivity. Qed.

Lemma pin_src_storageThresholdFilter_Target : Gen_C10.src_storageThresholdFilter_Target =
  "{ return !store.IsLowSpace(opt.GetLowSpaceRatio()) }".
Proof. reflexivity. Qed.

Lemma pin_src_specialUseFilter_Target : Gen_C10.src_specialUseFilter_Target =
  "{ return !f.constraint.MatchStore(store) }".
Proof. reflexivity. Qed.

Lemma pin_src_isolationFilter_Target : Gen_C10.src_isolationFilter_Target =
  "{ if len(f.constraintSet) <= 0 { return true } for _, v1 := range f.constraintSet { v2 := true for v3, v4 := range v1 { v2 = store.GetLabelValue(f.locationLabels[v3]) == v4 && v2 } if len(v1) > 0 && v2 { return false } } return true }".
Proof. reflexivity. Qed.

Lemma pin_src_distinctScoreFilter_Target : Gen_C10.src_distinctScoreFilter_Target =
  "{ v1 := core.DistinctScore(f.labels, f.stores, store) switch f.policy { case locationSafeguard: return v1 >= f.safeScore case locationImprove: return v1 > f.safeScore default: return false } }".
Proof. reflexivity. Qed.

Lemma pin_src_labelConstraintFilter_Target : Gen_C10.src_labelConstraintFilter_Target =
  "{ return placement.MatchLabelConstraints(store, f.constraints) }".
Proof. reflexivity. Qed.

Lemma pin_src_engineFilter_Target : Gen_C10.src_engineFilter_Target =
  "{ return f.constraint.MatchStore(store) }".
Proof. reflexivity. Qed.

Lemma pin_src_ordinaryEngineFilter_Target : Gen_C10.src_ordinaryEngineFilter_Target =
  "{ return f.constraint.MatchStore(store) }".
Proof. reflexivity. Qed.

Lemma pin_src_NewIsolationFilter : Gen_C10.src_NewIsolationFilter =
  "{ v1 := &isolationFilter{ scope: scope, locationLabels: locationLabels, constraintSet: make([][]string, 0), } // Get which idx this isolationLevel at according to locationLabels var v2 int for v3, v4 := range locationLabels { if v4 == isolationLevel { v2 = v3 break } } for _, v5 := range regionStores { var v6 []string for v7 := 0; v7 <= v2; v7++ { v6 = append(v6, v5.GetLabelValue(locationLabels[v7])) } v1.constraintSet = append(v1.constraintSet, v6) } return v1 }".
Proof. reflexivity. Qed.

Lemma pin_src_newDistinctScoreFilter : Gen_C10.src_newDistinctScoreFilter =
  "{ v1 := make([]*core.StoreInfo, 0, len(stores)-1) for _, v2 := range stores { if v2.GetID() == source.GetID() { continue } v1 = append(v1, v2) } return &distinctScoreFilter{ scope: scope, labels: labels, stores: v1, safeScore: core.DistinctScore(labels, v1, source), policy: policy, srcStore: source.GetID(), } }".
Proof. reflexivity. Qed.

Lemma pin_src_NewSpecialUseFilter : Gen_C10.src_NewSpecialUseFilter =
  "{ var v1 []string for _, v2 := range allSpecialUses { if slice.NoneOf(allowUses, func(v3 int) bool { return allowUses[v3] == v2 }) { v1 = append(v1, v2) } } return &specialUseFilter{ scope: scope, constraint: placement.LabelConstraint{Key: SpecialUseKey, Op: ""in"", Values: v1}, } }".
Proof. reflexivity. Qed.

Lemma pin_src_DistinctScore : Gen_C10.src_DistinctScore =
  "{ var v1 float64 for _, v2 := range stores { if v2.GetID() == other.GetID() { continue } if v3 := v2.CompareLocation(other, labels); v3 != -1 { v1 += math.Pow(replicaBaseScore, float64(len(labels)-v3-1)) } } return v1 }".
Proof. reflexivity. Qed.

Lemma pin_src_CompareLocation : Gen_C10.src_CompareLocation =
  "{ for v1, v2 := range labels { v3, v4 := s.GetLabelValue(v2), other.GetLabelValue(v2) if v3 != """" && v4 != """" && !strings.EqualFold(v3, v4) { return v1 } } return -1 }".
Proof. reflexivity. Qed.

Lemma pin_src_GetLabelValue : Gen_C10.src_GetLabelValue =
  "{ for _, v1 := range s.GetLabels() { if strings.EqualFold(v1.GetKey(), key) { return v1.GetValue() } } return """" }".
Proof. reflexivity. Qed.

Lemma pin_sel_add_filters : Gen_C10.sel_add_filters =
  ["filter.NewExcludedFilter(s.checkerName, nil, s.region.GetStoreIds())"; "filter.NewStorageThresholdFilter(s.checkerName)"; "filter.NewSpecialUseFilter(s.checkerName)"; "&filter.StoreStateFilter{ActionScope: s.checkerName, MoveRegion: true, AllowTemporaryStates: true}"].
Proof. reflexivity. Qed.

Lemma pin_sel_add_chain : Gen_C10.sel_add_chain =
  ["NewCandidates(s.cluster.GetStores())"; "FilterTarget(s.cluster.GetOpts(), v1...)"; "Sort(v2)"; "Reverse()"; "Top(v2)"; "Sort(filter.RegionScoreComparer(s.cluster.GetOpts()))"; "FilterTarget(s.cluster.GetOpts(), v3)"; "PickFirst()"].
Proof. reflexivity. Qed.

Lemma pin_skel_SelectStoreToAdd : Gen_C10.skel_SelectStoreToAdd =
  [IfE "len(s.locationLabels) > 0 && s.isolationLevel != """"" [Call "NewIsolationFilter"] []; Call "IsolationComparer"; Call "NewCandidates"; Call "FilterTarget"; Call "Sort"; Call "Reverse"; Call "Top"; Call "Sort"; Call "FilterTarget"; Call "PickFirst"; IfE "v4 == nil" [Ret] []; Ret].
Proof. reflexivity. Qed.

Lemma pin_skel_SelectStoreToFix : Gen_C10.skel_SelectStoreToFix =
  [Call "swapStoreToFirst"; Call "SelectStoreToAdd"; Ret].
Proof. reflexivity. Qed.

Lemma pin_skel_SelectStoreToImprove : Gen_C10.skel_SelectStoreToImprove =
  [Call "swapStoreToFirst"; Call "NewLocationImprover"; IfE "len(s.locationLabels) > 0 && s.isolationLevel != """"" [Call "NewIsolationFilter"] []; Call "SelectStoreToAdd"; Ret].
Proof. reflexivity. Qed.

Lemma pin_skel_SelectStoreToRemove : Gen_C10.skel_SelectStoreToRemove =
  [Call "IsolationComparer"; Call "NewCandidates"; Call "FilterSource"; Call "Sort"; Call "Top"; Call "Sort"; Call "Reverse"; Call "PickFirst"; IfE "v2 == nil" [Ret] []; Ret].
Proof. reflexivity. Qed.

Lemma pin_sel_remove_chain : Gen_C10.sel_remove_chain =
  ["NewCandidates(coLocationStores)"; "FilterSource(s.cluster.GetOpts(), &filter.StoreStateFilter{ActionScope: replicaCheckerName, MoveRegion: true})"; "Sort(v1)"; "Top(v1)"; "Sort(filter.RegionScoreComparer(s.cluster.GetOpts()))"; "Reverse()"; "PickFirst()"].
Proof. reflexivity. Qed.

Lemma pin_ret_SelectStoreToFix : Gen_C10.ret_SelectStoreToFix =
  ["SelectStoreToAdd(coLocationStores[1:])"].
Proof. reflexivity. Qed.

Lemma pin_ret_SelectStoreToImprove : Gen_C10.ret_SelectStoreToImprove =
  ["SelectStoreToAdd(coLocationStores[1:], v1...)"].
Proof. reflexivity. Qed.

Lemma pin_sel_improve_filters : Gen_C10.sel_improve_filters =
  ["filter.NewLocationImprover(s.checkerName, s.locationLabels, coLocationStores, s.cluster.GetStore(old))"].
Proof. reflexivity. Qed.

Lemma pin_replica_check_order : Gen_C10.replica_check_order =
  ["checkDownPeer"; "checkOfflinePeer"; "checkMakeUpReplica"; "checkRemoveExtraReplica"; "checkLocationReplacement"].
Proof. reflexivity. Qed.

Lemma pin_skel_replica_Check : Gen_C10.skel_replica_Check =
  [Call "checkDownPeer"; IfE "v1 != nil" [Ret] []; Call "checkOfflinePeer"; IfE "v2 != nil" [Ret] []; Call "checkMakeUpReplica"; IfE "v3 != nil" [Ret] []; Call "checkRemoveExtraReplica"; IfE "v4 != nil" [Ret] []; Call "checkLocationReplacement"; IfE "v5 != nil" [Ret] []; Ret].
Proof. reflexivity. Qed.

Lemma pin_skel_replica_checkDownPeer : Gen_C10.skel_replica_checkDownPeer =
  [Call "IsRemoveDownReplicaEnabled"; IfE "!r.opts.IsRemoveDownReplicaEnabled()" [Ret] []; Call "GetDownPeers"; ForE [IfE "v4 == nil" [Ret] []; Call "fixPeer"; Ret]; Ret].
Proof. reflexivity. Qed.

Lemma pin_skel_replica_checkOfflinePeer : Gen_C10.skel_replica_checkOfflinePeer =
  [Call "IsReplaceOfflineReplicaEnabled"; IfE "!r.opts.IsReplaceOfflineReplicaEnabled()" [Ret] []; Call "GetLearners"; IfE "len(region.GetLearners()) != 0" [Ret] []; ForE [IfE "v3 == nil" [Ret] []; Call "IsUp"; Call "fixPeer"; Ret]; Ret].
Proof. reflexivity. Qed.

Lemma pin_skel_replica_checkMakeUpReplica : Gen_C10.skel_replica_checkMakeUpReplica =
  [Call "IsMakeUpReplicaEnabled"; IfE "!r.opts.IsMakeUpReplicaEnabled()" [Ret] []; IfE "len(region.GetPeers()) >= r.opts.GetMaxReplicas()" [Ret] []; Call "GetRegionStores"; Call "SelectStoreToAdd"; IfE "v2 == 0" [Ret] []; Call "CreateAddPeerOperator"; IfE "v5 != nil" [Ret] []; Ret].
Proof. reflexivity. Qed.

Lemma pin_skel_replica_checkRemoveExtraReplica : Gen_C10.skel_replica_checkRemoveExtraReplica =
  [Call "IsRemoveExtraReplicaEnabled"; IfE "!r.opts.IsRemoveExtraReplicaEnabled()" [Ret] []; IfE "len(region.GetVoters()) <= r.opts.GetMaxReplicas()" [Ret] []; Call "GetRegionStores"; Call "SelectStoreToRemove"; IfE "v2 == 0" [Ret] []; Call "CreateRemovePeerOperator"; IfE "v4 != nil" [Ret] []; Ret].
Proof. reflexivity. Qed.

Lemma pin_skel_replica_checkLocationReplacement : Gen_C10.skel_replica_checkLocationReplacement =
  [Call "IsLocationReplacementEnabled"; IfE "!r.opts.IsLocationReplacementEnabled()" [Ret] []; Call "GetRegionStores"; Call "SelectStoreToRemove"; IfE "v3 == 0" [Ret] []; Call "SelectStoreToImprove"; IfE "v4 == 0" [Ret] []; Call "CreateMovePeerOperator"; IfE "v7 != nil" [Ret] []; Ret].
Proof. reflexivity. Qed.

Lemma pin_skel_replica_fixPeer : Gen_C10.skel_replica_fixPeer =
  [IfE "len(region.GetVoters()) > r.opts.GetMaxReplicas()" [Call "CreateRemovePeerOperator"; IfE "v3 != nil" [Ret] []; Ret] []; Call "GetRegionStores"; Call "SelectStoreToFix"; IfE "v6 == 0" [Ret] []; Call "CreateMovePeerOperator"; IfE "v11 != nil" [Ret] []; Ret].
Proof. reflexivity. Qed.

Lemma pin_skel_rule_Check : Gen_C10.skel_rule_Check =
  [Call "FitRegion"; IfE "len(v1.RuleFits) == 0" [Call "fixRange"; Ret] []; Call "fixOrphanPeers"; IfE "v3 == nil && v2 != nil" [Ret] []; ForE [Call "fixRulePeer"; IfE "v5 != nil" [Ret] []]; Ret].
Proof. reflexivity. Qed.

Lemma pin_skel_rule_fixRulePeer : Gen_C10.skel_rule_fixRulePeer =
  [IfE "len(rf.Peers) < rf.Rule.Count" [Call "addRulePeer"; Ret] []; ForE [Call "isDownPeer"; IfE "c.isDownPeer(region, v1)" [Call "replaceUnexpectRulePeer"; Ret] []; Call "isOfflinePeer"; IfE "c.isOfflinePeer(v1)" [Call "replaceUnexpectRulePeer"; Ret] []]; ForE [Call "fixLooseMatchPeer"; IfE "v4 != nil" [Ret] []; IfE "v3 != nil" [Ret] []]; Call "fixBetterLocation"; Ret].
Proof. reflexivity. Qed.

Lemma pin_skel_rule_addRulePeer : Gen_C10.skel_rule_addRulePeer =
  [Call "getRuleFitStores"; Call "SelectStoreToAdd"; IfE "v2 == 0" [Ret] []; Call "CreateAddPeerOperator"; IfE "v5 != nil" [Ret] []; Ret].
Proof. reflexivity. Qed.

Lemma pin_skel_rule_fixBetterLocation : Gen_C10.skel_rule_fixBetterLocation =
  [IfE "len(rf.Rule.LocationLabels) == 0 || rf.Rule.Count <= 1" [Ret] []; Call "getRuleFitStores"; Call "SelectStoreToRemove"; IfE "v3 == 0" [Ret] []; Call "SelectStoreToImprove"; IfE "v4 == 0" [Ret] []; Call "CreateMovePeerOperator"; Ret].
Proof. reflexivity. Qed.

Lemma pin_skel_rule_fixOrphanPeers : Gen_C10.skel_rule_fixOrphanPeers =
  [IfE "len(fit.OrphanPeers) == 0" [Ret] []; ForE [Call "IsSatisfied"; IfE "!v1.IsSatisfied()" [Ret] []]; Call "CreateRemovePeerOperator"; Ret].
Proof. reflexivity. Qed.

Lemma pin_skel_rule_isOfflinePeer : Gen_C10.skel_rule_isOfflinePeer =
  [IfE "v1 == nil" [Ret] []; Ret].
Proof. reflexivity. Qed.

Lemma pin_skel_rule_strategy : Gen_C10.skel_rule_strategy =
  [Call "NewLabelConstaintFilter"; Ret].
Proof. reflexivity. Qed.

Lemma pin_skel_rule_fixLooseMatchPeer : Gen_C10.skel_rule_fixLooseMatchPeer =
  [IfE "region.GetLeader() == nil" [Ret] []; IfE "core.IsLearner(peer) && rf.Rule.Role != placement.Learner" [Call "CreatePromoteLearnerOperator"; Ret] []; IfE "region.GetLeader().GetId() != peer.GetId() && rf.Rule.Role == placement.Leader" [Call "allowLeader"; IfE "c.allowLeader(fit, peer)" [Call "CreateTransferLeaderOperator"; Ret] []; Ret] []; IfE "region.GetLeader().GetId() == peer.GetId() && rf.Rule.Role == placement.Follower" [ForE [Call "allowLeader"; IfE "c.allowLeader(fit, v1)" [Call "CreateTransferLeaderOperator"; Ret] []]; Ret] []; Ret].
Proof. reflexivity. Qed.

Lemma pin_src_RuleFit_IsSatisfied : Gen_C10.src_RuleFit_IsSatisfied =
  "{ return len(f.Peers) == f.Rule.Count && len(f.PeersWithDifferentRole) == 0 }".
Proof. reflexivity. Qed.

Lemma pin_src_MatchStore : Gen_C10.src_MatchStore =
  "{ switch c.Op { case In: v1 := store.GetLabelValue(c.Key) return v1 != """" && slice.AnyOf(c.Values, func(v2 int) bool { return c.Values[v2] == v1 }) case NotIn: v3 := store.GetLabelValue(c.Key) return v3 == """" || slice.NoneOf(c.Values, func(v4 int) bool { return c.Values[v4] == v3 }) case Exists: return store.GetLabelValue(c.Key) != """" case NotExists: return store.GetLabelValue(c.Key) == """" } return false }".
Proof. reflexivity. Qed.

Lemma pin_src_MatchLabelConstraints : Gen_C10.src_MatchLabelConstraints =
  "{ if store == nil { return false } for _, v1 := range store.GetLabels() { if isExclusiveLabel(v1.GetKey()) && slice.NoneOf(constraints, func(v2 int) bool { return constraints[v2].Key == v1.GetKey() }) { return false } } return slice.AllOf(constraints, func(v3 int) bool { return constraints[v3].MatchStore(store) }) }".
Proof. reflexivity. Qed.

Lemma pin_src_isExclusiveLabel : Gen_C10.src_isExclusiveLabel =
  "{ return strings.HasPrefix(key, ""$"") || slice.AnyOf(legacyExclusiveLabels, func(v1 int) bool { return key == legacyExclusiveLabels[v1] }) }".
Proof. reflexivity. Qed.

Lemma pin_chain_CreateAddPeerOperator : Gen_C10.chain_CreateAddPeerOperator =
  ["NewBuilder(desc, cluster, region)"; "AddPeer(peer)"; "Build(kind)"].
Proof. reflexivity. Qed.

Lemma pin_chain_CreateRemovePeerOperator : Gen_C10.chain_CreateRemovePeerOperator =
  ["NewBuilder(desc, cluster, region)"; "RemovePeer(storeID)"; "Build(kind)"].
Proof. reflexivity. Qed.

Lemma pin_chain_CreateMovePeerOperator : Gen_C10.chain_CreateMovePeerOperator =
  ["NewBuilder(desc, cluster, region)"; "RemovePeer(oldStore)"; "AddPeer(peer)"; "Build(kind)"].
Proof. reflexivity. Qed.

Lemma pin_chain_CreateReplaceLeaderPeerOperator : Gen_C10.chain_CreateReplaceLeaderPeerOperator =
  ["NewBuilder(desc, cluster, region)"; "RemovePeer(oldStore)"; "AddPeer(peer)"; "SetLeader(leader.GetStoreId())"; "Build(kind)"].
Proof. reflexivity. Qed.

Lemma pin_skel_CheckRegion : Gen_C10.skel_CheckRegion =
  [Call "Check"; IfE "v2 != nil" [Ret] []; Call "IsPlacementRulesEnabled"; IfE "c.opts.IsPlacementRulesEnabled()" [Call "Check"; IfE "v3 != nil" [Call "OperatorCount"; Call "GetReplicaScheduleLimit"; IfE "v1.OperatorCount(operator.OpReplica) < c.opts.GetReplicaScheduleLimit()" [Ret] []] []] [Call "Check"; IfE "v4 != nil" [Ret] []; Call "Check"; IfE "v5 != nil" [Call "OperatorCount"; Call "GetReplicaScheduleLimit"; IfE "v1.OperatorCount(operator.OpReplica) < c.opts.GetReplicaScheduleLimit()" [Ret] []] []]; IfE "c.mergeChecker != nil" [Call "OperatorCount"; Call "GetMergeScheduleLimit"; IfE "!v6" [] [Call "Check"; IfE "v7 != nil" [Ret] []]] []; Ret].
Proof. reflexivity. Qed.

(* PersistOptions.CheckLabelProperty: two nested loops, `return true` on the first (entry, label) pair with equal key and value,
   `false` after both loops = lib/C10_Cluster.check_label_property (existsb over entries of existsb over labels) *)
Lemma pin_src_CheckLabelProperty : Gen_C10.src_CheckLabelProperty =
  "{ v1 := o.labelProperty.Load().(LabelPropertyConfig) for _, v2 := range v1[typ] { for _, v3 := range labels { if v3.Key == v2.Key && v3.Value == v2.Value { return true } } } return false }".
Proof. reflexivity. Qed.

(* RuleChecker.strategy: the isolation level handed to the ReplicaStrategy is the rule's own, and for the default rule pd/default
   with none of its own the configured replication.isolation-level (repair 55be6a2).  The case files print a rule with exactly that
   effective level (harness gen10.coqRule computes it from the case specification, not from the code under check). *)
Lemma pin_src_rule_strategy : Gen_C10.src_rule_strategy =
  "{ v1 := rule.IsolationLevel if v1 == """" && rule.GroupID == ""pd"" && rule.ID == ""default"" { v1 = c.cluster.GetOpts().GetIsolationLevel() } return &ReplicaStrategy{ checkerName: c.name, cluster: c.cluster, v1: v1, locationLabels: rule.LocationLabels, region: region, extraFilters: []filter.Filter{filter.NewLabelConstaintFilter(c.name, rule.LabelConstraints)}, } }".
Proof. reflexivity. Qed.
