(* C15 — LoadMinServiceGCSafePoint at the granularity of its single storage operations (model: scan_x / load_min_x /
   svc_update_x): REST deletes between any two of them, a failing LoadRange, a failing or half-failing repair save, failing
   Removes (whose error the code ignores), a failing (re)creation of gc_worker's entry; and the same for the whole
   UpdateServiceGCSafePoint.  Whatever happens: the cluster safe point is untouched, the store stays well-formed,
   gc_worker's never-expiring entry stays, and an answered minimum is a lower bound of every live registration.
   (What is lost under a failing Remove is only "nothing expired is left": the entry stays until a later call.) *)
From Coq Require Import String.
From PDV Require Import lib.Base lib.Skel lib.C15_Guard gen.Gen_C15 model.C15_Gc proof.C15_GcProof proof.C15_GcInterleave.
Local Open Scope Z_scope.

(* ---------- nothing interferes: the fine-grained model is the plain one ---------- *)
Lemma scan_x_quiet now : forall es st has mn,
  scan_x (fun _ => quiet_step) now es st has mn
  = (fst (fst (scan now es st has mn)), Some (snd (fst (scan now es st has mn)), snd (scan now es st has mn))).
Proof.
  induction es as [|[k e] r IH]; intros st has mn; [reflexivity|].
  rewrite scan_cons. cbn [scan_x quiet_step pre_dels rep_o rem_o rest_dels]. cbv zeta.
  unfold repair.
  destruct (is_gcw (e_text e) && negb (e_exp e =? maxI64));
    match goal with |- context [if ?c then scan_x _ _ _ _ _ _ else _] => destruct c end; apply IH.
Qed.

Lemma load_min_x_quiet now st : load_min_x quiet_env now st = (fst (load_min now st), Some (snd (load_min now st))).
Proof.
  unfold load_min_x, load_min. cbn [lr_o quiet_env at_key init_o].
  destruct (svcs st) as [|x r] eqn:E; [reflexivity|].
  rewrite scan_x_quiet. destruct (scan now (x :: r) st false None) as [[st1 has] mn]. cbn [fst snd].
  destruct mn as [m|]; [destruct has|]; reflexivity.
Qed.

Lemma svc_update_x_quiet st i ttl sp now d o :
  svc_update_x st i ttl sp now quiet_env d o = svc_update_il st i ttl sp now d o.
Proof.
  unfold svc_update_x, svc_update_il.
  destruct (if ttl <=? 0 then remove_service i st else Some st) as [st0|]; [|reflexivity].
  rewrite load_min_x_quiet. destruct (load_min now st0) as [st1 mn]. reflexivity.
Qed.

(* ---------- the accumulators of the loop do not depend on what happens to the store ---------- *)
Lemma scan_x_acc env now : forall es st has mn st' has' mn',
  scan_x env now es st has mn = (st', Some (has', mn')) ->
  forall st0, snd (fst (scan now es st0 has mn)) = has' /\ snd (scan now es st0 has mn) = mn'.
Proof.
  induction es as [|[k e] r IH]; intros st has mn st' has' mn' H st0.
  - cbn in H. inversion H; subst. auto.
  - rewrite scan_cons. cbn [scan_x] in H. cbv zeta in H. unfold repair.
    destruct (is_gcw (e_text e) && negb (e_exp e =? maxI64)) eqn:Ef.
    + destruct (rep_o (env k)); try (inversion H; fail).
      match goal with |- context [if ?c then scan _ _ _ _ _ else _] => destruct c eqn:Ec end;
        cbn [e_exp] in *; try rewrite Ec in H; eapply IH; exact H.
    + match goal with |- context [if ?c then scan _ _ _ _ _ else _] => destruct c eqn:Ec end;
        try rewrite Ec in H; eapply IH; exact H.
Qed.

(* ---------- what the store can look like on the way ---------- *)
(* every entry is an entry of the snapshot S0, possibly repaired: nothing new appears *)
Definition derived (S0 : list (Z * entry)) (st : store) : Prop :=
  forall k e, sv_get k (svcs st) = Some e -> exists e0, sv_get k S0 = Some e0 /\ (e = e0 \/ e = repair e0).

Lemma rest_dels_get0 d : forall st, sv_get 0 (svcs (rest_dels d st)) = sv_get 0 (svcs st).
Proof.
  induction d as [|x r IH]; intros st; cbn [rest_dels]; [reflexivity|]. rewrite IH.
  destruct (Z.eqb_spec x 0); [reflexivity|]. cbn. apply get_del_other. congruence.
Qed.

Lemma derived_dels S0 d st : derived S0 st -> derived S0 (rest_dels d st).
Proof. intros H k e Hg. apply rest_dels_sub in Hg. apply H; exact Hg. Qed.

Lemma derived_remove S0 k st : derived S0 st -> derived S0 (st_remove k st).
Proof.
  intros H x e Hg. destruct k as [|n|]; cbn in Hg; try (apply H; exact Hg).
  destruct (Z.eq_dec x n) as [->|Hne]; [rewrite get_del_same in Hg; discriminate|].
  rewrite get_del_other in Hg by exact Hne. apply H; exact Hg.
Qed.

Section ScanX.
  Variables (env : Z -> lm_step) (now : Z) (S0 : list (Z * entry)).
  Hypothesis HwfS0 : wf_svcs S0.

  Lemma scan_x_inv : forall es st has mn,
    (forall k e, In (k, e) es -> sv_get k S0 = Some e) ->
    wf_svcs (svcs st) -> derived S0 st ->
    let res := scan_x env now es st has mn in
    wf_svcs (svcs (fst res)) /\ derived S0 (fst res) /\ gc (fst res) = gc st.
  Proof.
    induction es as [|[k e] r IH]; intros st has mn Hes Hwf Hd; cbv zeta; [cbn; auto|].
    cbn [scan_x]. cbv zeta.
    assert (Hr : forall k' e', In (k', e') r -> sv_get k' S0 = Some e') by (intros; apply Hes; right; assumption).
    assert (He : sv_get k S0 = Some e) by (apply Hes; left; reflexivity).
    pose proof (rest_dels_wf (pre_dels (env k)) st Hwf) as Hwf0.
    pose proof (derived_dels S0 (pre_dels (env k)) st Hd) as Hd0.
    pose proof (rest_dels_gc (pre_dels (env k)) st) as Hg0.
    set (st0 := rest_dels (pre_dels (env k)) st) in *.
    assert (Hgo : forall st1 h m, wf_svcs (svcs st1) -> derived S0 st1 -> gc st1 = gc st ->
              forall e1, let res := (if e_exp e1 <? now
                         then scan_x env now r (match rem_o (env k) with ErrNotApplied => st1 | _ => st_remove (KSvc k) st1 end) h m
                         else scan_x env now r st1 h (if e_sp e1 <? min_sp m then Some e1 else m)) in
              wf_svcs (svcs (fst res)) /\ derived S0 (fst res) /\ gc (fst res) = gc st).
    { intros st1 h m Hw1 Hd1 Hg1 e1. cbv zeta. destruct (e_exp e1 <? now).
      - assert (Hx : wf_svcs (svcs (match rem_o (env k) with ErrNotApplied => st1 | _ => st_remove (KSvc k) st1 end))
                    /\ derived S0 (match rem_o (env k) with ErrNotApplied => st1 | _ => st_remove (KSvc k) st1 end)
                    /\ gc (match rem_o (env k) with ErrNotApplied => st1 | _ => st_remove (KSvc k) st1 end) = gc st).
        { destruct (rem_o (env k)); (split; [|split]); auto; try (apply wf_remove; exact Hw1); try (apply derived_remove; exact Hd1); cbn; exact Hg1. }
        destruct Hx as (Hx1 & Hx2 & Hx3). destruct (IH _ h m Hr Hx1 Hx2) as (A & B & C). split; [exact A|split; [exact B|congruence]].
      - destruct (IH st1 h (if e_sp e1 <? min_sp m then Some e1 else m) Hr Hw1 Hd1) as (A & B & C). split; [exact A|split; [exact B|congruence]]. }
    destruct (is_gcw (e_text e) && negb (e_exp e =? maxI64)) eqn:Ef.
    - (* the repair save of a finite gc_worker entry *)
      assert (Hk : k = 0).
      { apply andb_true_iff in Ef as [Ef _]. apply is_gcw_true in Ef. destruct HwfS0 as [_ Hw]. apply (Hw _ _ He). exact Ef. }
      subst k.
      assert (Hsave : wf_svcs (svcs (st_save (KSvc 0) (Entry (e_text e) maxI64 (e_sp e)) st0))
                      /\ derived S0 (st_save (KSvc 0) (Entry (e_text e) maxI64 (e_sp e)) st0)
                      /\ gc (st_save (KSvc 0) (Entry (e_text e) maxI64 (e_sp e)) st0) = gc st).
      { split; [|split; [|cbn; congruence]].
        - apply wf_save; [exact Hwf0 | cbn; destruct HwfS0 as [_ Hw]; apply (Hw _ _ He) | intros n Hn _; inversion Hn; reflexivity].
        - intros x e' Hg. rewrite get_save in Hg. destruct (Z.eqb_spec x 0) as [->|Hne]; [|apply Hd0; exact Hg].
          inversion Hg; subst. exists e. split; [exact He|]. right. unfold repair. rewrite Ef. reflexivity. }
      destruct Hsave as (S1 & S2 & S3).
      destruct (rep_o (env 0)); cbn [fst]; [apply Hgo; assumption | split; [exact Hwf0|split; [exact Hd0|congruence]] | split; [exact S1|split; [exact S2|exact S3]]].
    - apply Hgo; auto.
  Qed.

  (* gc_worker's never-expiring entry is not touched by the loop *)
  Lemma scan_x_keeps_gcw g : e_text g = TGcw -> e_exp g = maxI64 -> now <= maxI64 ->
    forall es st has mn,
    (forall k e, In (k, e) es -> sv_get k S0 = Some e) -> sv_get 0 S0 = Some g ->
    sv_get 0 (svcs st) = Some g ->
    sv_get 0 (svcs (fst (scan_x env now es st has mn))) = Some g.
  Proof.
    intros Hgt Hge Hnow. induction es as [|[k e] r IH]; intros st has mn Hes H0 Hst; [exact Hst|].
    cbn [scan_x]. cbv zeta.
    assert (Hr : forall k' e', In (k', e') r -> sv_get k' S0 = Some e') by (intros; apply Hes; right; assumption).
    assert (He : sv_get k S0 = Some e) by (apply Hes; left; reflexivity).
    assert (Hst0 : sv_get 0 (svcs (rest_dels (pre_dels (env k)) st)) = Some g) by (rewrite rest_dels_get0; exact Hst).
    set (st0 := rest_dels (pre_dels (env k)) st) in *.
    assert (Hnofix : is_gcw (e_text e) && negb (e_exp e =? maxI64) = false).
    { destruct (is_gcw (e_text e)) eqn:Eg; [|reflexivity]. apply is_gcw_true in Eg.
      destruct HwfS0 as [_ Hw]. destruct (Hw _ _ He) as [Hk _]. specialize (Hk Eg). subst k.
      rewrite H0 in He. inversion He; subst. rewrite Hge, Z.eqb_refl. reflexivity. }
    rewrite Hnofix.
    destruct (e_exp e <? now) eqn:Eexp; [|apply IH; assumption].
    apply IH; [exact Hr | exact H0 |].
    assert (Hk0 : k <> 0).
    { intros ->. rewrite H0 in He. inversion He; subst. apply Z.ltb_lt in Eexp. lia. }
    destruct (rem_o (env k)); [| exact Hst0 |]; cbn; rewrite get_del_other by congruence; exact Hst0.
  Qed.
End ScanX.

(* a lower bound of everything live *)
Definition lower_bound (now m : Z) (st : store) : Prop :=
  forall k e, sv_get k (svcs st) = Some e -> now <= e_exp e -> m <= e_sp e.

Lemma init_gcw_x_post o v st now :
  wf_svcs (svcs st) -> 0 <= v -> now <= maxI64 -> gcw_ok (svcs st) -> lower_bound now v st ->
  let res := init_gcw_x o v st in
  wf_svcs (svcs (fst res)) /\ gcw_ok (svcs (fst res)) /\ gc (fst res) = gc st
  /\ forall m, snd res = Some m -> lower_bound now (e_sp m) (fst res) /\ 0 <= e_sp m.
Proof.
  intros Hwf Hv Hnow Hg Hlb. cbv zeta.
  assert (Hput : wf_svcs (svcs (fst (init_gcw v st))) /\ gcw_ok (svcs (fst (init_gcw v st)))
                 /\ lower_bound now v (fst (init_gcw v st))).
  { unfold lower_bound. cbn. split; [|split].
    - apply (wf_save (KSvc 0) (Entry TGcw maxI64 v) st Hwf Hv). intros n Hn _. inversion Hn; reflexivity.
    - exists (Entry TGcw maxI64 v). rewrite get_put_same. auto.
    - intros k e H Hl. destruct (Z.eq_dec k 0) as [->|Hne].
      + rewrite get_put_same in H. inversion H; subst. cbn. lia.
      + rewrite get_put_other in H by exact Hne. eapply Hlb; eauto. }
  destruct Hput as (P1 & P2 & P3).
  destruct o; cbn [init_gcw_x fst snd].
  - split; [exact P1|split; [exact P2|split; [reflexivity|]]]. intros m Hm. inversion Hm; subst. cbn [snd init_gcw e_sp]. split; [exact P3|exact Hv].
  - split; [exact Hwf|split; [exact Hg|split; [reflexivity|]]]. intros m Hm; discriminate.
  - split; [exact P1|split; [exact P2|split; [reflexivity|]]]. intros m Hm; discriminate.
Qed.

Lemma load_min_x_post x now st :
  wf_svcs (svcs st) -> gcw_ok (svcs st) -> now <= maxI64 ->
  let res := load_min_x x now st in
  wf_svcs (svcs (fst res)) /\ gcw_ok (svcs (fst res)) /\ gc (fst res) = gc st
  /\ forall m, snd res = Some m -> lower_bound now (e_sp m) (fst res) /\ 0 <= e_sp m.
Proof.
  intros Hwf Hg Hnow. cbv zeta. unfold load_min_x.
  destruct (lr_o x); try (cbn [fst snd]; split; [exact Hwf|split; [exact Hg|split; [reflexivity|intros m Hm; discriminate]]]).
  destruct Hg as (g & Hg0 & Hgt & Hge).
  destruct (svcs st) as [|y r] eqn:Ees; [cbn in Hg0; discriminate|]. rewrite <- Ees in *.
  pose proof Hwf as [Hs Hw].
  assert (Hin : forall k e, In (k, e) (svcs st) -> sv_get k (svcs st) = Some e) by (intros; apply sorted_in_get; assumption).
  assert (Hd0 : derived (svcs st) st) by (intros k e H; exists e; auto).
  destruct (scan_x_inv (at_key x) now (svcs st) Hwf (svcs st) st false None Hin Hwf Hd0) as (W1 & D1 & G1).
  pose proof (scan_x_keeps_gcw (at_key x) now (svcs st) Hwf g Hgt Hge Hnow (svcs st) st false None Hin Hg0 Hg0) as K1.
  destruct (scan_x (at_key x) now (svcs st) st false None) as [st1 [[has mn]|]] eqn:Escan; cbn [fst snd] in *.
  2:{ split; [exact W1|split; [exists g; auto|split; [exact G1|intros m Hm; discriminate]]]. }
  assert (Hgok1 : gcw_ok (svcs st1)) by (exists g; auto).
  destruct (scan_x_acc _ _ _ _ _ _ _ _ _ Escan st) as [Ehas Emn].
  destruct (scan now (svcs st) st false None) as [[stp hasp] mnp] eqn:Ep. cbn [fst snd] in Ehas, Emn. subst hasp mnp.
  destruct (scan_acc now _ _ _ _ _ _ _ Ep) as (Hhas & _ & Hall & Hwit).
  assert (Hlb : lower_bound now (min_sp mn) st1).
  { intros k e He Hl. destruct (D1 _ _ He) as (e0 & He0 & Hor).
    assert (Heff : eff now e0 = Some (repair e0) -> min_sp mn <= e_sp e).
    { intros Hf. pose proof (Hall _ _ _ (get_in _ _ _ He0) Hf) as Hle. destruct Hor as [->| ->]; [rewrite repair_sp in Hle|]; exact Hle. }
    apply Heff. unfold eff.
    destruct (is_gcw (e_text e0)) eqn:Eg0.
    - rewrite (repair_gcw_exp _ Eg0). destruct (Z.ltb_spec maxI64 now); [lia|reflexivity].
    - rewrite (repair_not_gcw _ Eg0) in *. destruct Hor as [->| ->]; destruct (Z.ltb_spec (e_exp e0) now); try reflexivity; lia. }
  assert (Hpos : forall m0, mn = Some m0 -> 0 <= e_sp m0).
  { intros m0 ->. destruct Hwit as [Hd|(k & e & e1 & Hi & Heff & Hd)]; [discriminate|]. inversion Hd; subst.
    apply eff_live in Heff as [_ ->]. rewrite repair_sp. apply (sorted_in_get _ Hs) in Hi. apply (Hw _ _ Hi). }
  assert (Hhas_true : has = true).
  { rewrite Hhas. cbn [orb]. apply existsb_exists. exists (0, g). split; [apply get_in; exact Hg0|]. cbn. rewrite Hgt. reflexivity. }
  clear Hhas. subst has. destruct mn as [m0|].
  - cbn [fst snd]. split; [exact W1|split; [exact Hgok1|split; [exact G1|]]].
    intros m Hm; inversion Hm; subst; split; [exact Hlb | apply Hpos; reflexivity].
  - assert (Hlb0 : lower_bound now 0 st1) by (intros k e He _; apply (proj2 W1 _ _ He)).
    destruct (init_gcw_x_post (init_o x) 0 st1 now W1 (Z.le_refl 0) Hnow Hgok1 Hlb0) as (A & B & C & D).
    split; [exact A|split; [exact B|split; [congruence|exact D]]].
Qed.

(* ---------- the whole UpdateServiceGCSafePoint ---------- *)
Definition sound (now m : Z) (st : store) : Prop :=
  wf_svcs (svcs st) /\ lower_bound now m st /\ gcw_ok (svcs st).

Lemma sound_of_good now m st : good now m st -> sound now m st.
Proof. intros (H1 & H2 & H3). split; [exact H1|split; [|exact H3]]. intros k e Hg _. apply (H2 _ _ Hg). Qed.

Lemma sound_dels now m d st : sound now m st -> sound now m (rest_dels d st).
Proof.
  intros (H1 & H2 & H3). split; [apply rest_dels_wf; exact H1|split; [|apply rest_dels_gcw; exact H3]].
  intros k e Hg Hl. apply rest_dels_sub in Hg. eapply H2; eauto.
Qed.

Lemma sound_save now m i e st :
  sound now m st -> is_clean i = true -> e_text e = text_of i -> m <= e_sp e -> 0 <= e_sp e ->
  (e_text e = TGcw -> e_exp e = maxI64) -> sound now m (st_save (key_of i) e st).
Proof.
  intros (Hwf & Hall & Hg) Hc Ht Hm Hp Hinf.
  split; [apply wf_save; [exact Hwf|exact Hp|]; intros n Hk Hx; rewrite Ht in Hx; eapply key_text_ok; eauto|].
  split.
  - intros k e' H Hl. rewrite get_save in H. destruct (key_of i) as [|n|]; try (eapply Hall; eauto; fail).
    destruct (Z.eqb_spec k n); [inversion H; subst; exact Hm | eapply Hall; eauto].
  - destruct Hg as (g & Hg0 & Hg1 & Hg2). unfold gcw_ok. rewrite get_save.
    destruct i as [| |z k]; cbn [key_of text_of] in *.
    + exists e. rewrite Z.eqb_refl. auto.
    + exists g. auto.
    + destruct k as [|n|]; try (exists g; auto; fail).
      cbn in Hc. apply andb_true_iff in Hc as [Hz Hnz]. apply Z.eqb_eq in Hz. apply negb_true_iff, Z.eqb_neq in Hnz. subst n.
      destruct (Z.eqb_spec 0 z); [congruence|]. exists g. auto.
Qed.

Lemma gcw_after_remove i st st0 : remove_service i st = Some st0 -> gcw_ok (svcs st) -> gcw_ok (svcs st0).
Proof.
  intros H Hg. apply remove_service_spec in H as (-> & Hc & Hnt).
  destruct i as [| |z k]; cbn in *; [congruence|exact Hg|].
  destruct k as [|n|]; cbn; try exact Hg.
  apply andb_true_iff in Hc as [Hz Hnz]. apply Z.eqb_eq in Hz. apply negb_true_iff, Z.eqb_neq in Hnz. subst n.
  destruct Hg as (g & Hg0 & Hg1). exists g. rewrite get_del_other by congruence. auto.
Qed.

Lemma svc_update_x_post st i ttl sp now x d o :
  wf_svcs (svcs st) -> gcw_ok (svcs st) -> 0 <= sp -> now <= maxI64 ->
  let res := svc_update_x st i ttl sp now x d o in
  wf_svcs (svcs (fst res)) /\ gcw_ok (svcs (fst res)) /\ gc (fst res) = gc st
  /\ forall r, snd res = Some r -> lower_bound now (r_sp r) (fst res).
Proof.
  intros Hwf Hg Hsp Hnow. cbv zeta. unfold svc_update_x. fold (exp_of now ttl).
  destruct (if ttl <=? 0 then remove_service i st else Some st) as [st0|] eqn:E0.
  2:{ cbn [fst snd]. split; [exact Hwf|split; [exact Hg|split; [reflexivity|intros r Hr; discriminate]]]. }
  assert (Hg0 : gcw_ok (svcs st0) /\ gc st0 = gc st).
  { destruct (ttl <=? 0); [|inversion E0; subst; auto]. split; [eapply gcw_after_remove; eauto | eapply remove_service_gc; eauto]. }
  destruct Hg0 as [Hg0 Hgc0].
  destruct (load_min_x_post x now st0 (wf_step0 _ _ _ _ Hwf E0) Hg0 Hnow) as (W1 & K1 & G1 & L1).
  destruct (load_min_x x now st0) as [st1 [mn|]]; cbn [fst snd] in *.
  2:{ split; [exact W1|split; [exact K1|split; [congruence|intros r Hr; discriminate]]]. }
  destruct (L1 mn eq_refl) as [Hlb Hpos].
  assert (S1 : sound now (e_sp mn) st1) by (split; [exact W1|split; [exact Hlb|exact K1]]).
  assert (Hout : forall m y, sound now m y -> gc y = gc st -> forall rr, r_sp rr = m ->
            wf_svcs (svcs y) /\ gcw_ok (svcs y) /\ gc y = gc st /\ (forall r, Some rr = Some r -> lower_bound now (r_sp r) y)).
  { intros m y (A & B & C) Hgy rr Hrr. split; [exact A|split; [exact C|split; [exact Hgy|]]]. intros r Hr. inversion Hr; subst. exact B. }
  assert (Hnone : forall m y, sound now m y -> gc y = gc st ->
            wf_svcs (svcs y) /\ gcw_ok (svcs y) /\ gc y = gc st /\ (forall r, @None resp = Some r -> lower_bound now (r_sp r) y)).
  { intros m y (A & B & C) Hgy. split; [exact A|split; [exact C|split; [exact Hgy|intros r Hr; discriminate]]]. }
  destruct ((0 <? ttl) && (e_sp mn <=? sp)) eqn:Eg.
  2:{ cbn [fst snd]. apply (Hout _ _ S1); [congruence|reflexivity]. }
  apply andb_true_iff in Eg as [Et El]. apply Z.ltb_lt in Et. apply Z.leb_le in El.
  destruct (save_service i _ st1) as [stx|] eqn:Es.
  2:{ cbn [fst snd]. apply (Hnone _ _ S1). congruence. }
  apply save_service_spec in Es as (_ & Hinf & Hok). cbn [e_text e_exp] in Hinf.
  pose proof (sound_dels now (e_sp mn) d st1 S1) as S1'.
  assert (S2 : sound now (e_sp mn) (st_save (key_of i) (Entry (text_of i) (exp_of now ttl) sp) (rest_dels d st1))).
  { apply sound_save; cbn [e_text e_exp e_sp]; auto. }
  assert (Gd : gc (rest_dels d st1) = gc st) by (rewrite rest_dels_gc; congruence).
  assert (Gs : gc (st_save (key_of i) (Entry (text_of i) (exp_of now ttl) sp) (rest_dels d st1)) = gc st).
  { rewrite st_save_gc by (apply id_ok_not_gc; exact Hok). exact Gd. }
  destruct o; cbn [fst snd].
  - destruct (text_eqb (text_of i) (e_text mn)).
    + match goal with |- context [load_min now (st_save ?a ?b ?c)] => destruct (load_min now (st_save a b c)) as [st3 mn'] eqn:E3 end.
      cbn [fst snd].
      pose proof (sound_of_good _ _ _ (good_load_min now _ st3 mn' (proj1 S2) Hnow E3)) as S3.
      apply (Hout _ _ S3); [|reflexivity].
      pose proof (load_min_gc now (st_save (key_of i) (Entry (text_of i) (exp_of now ttl) sp) (rest_dels d st1))) as H3.
      rewrite E3 in H3. cbn [fst] in H3. congruence.
    + cbn [fst snd]. apply (Hout _ _ S2); [exact Gs|reflexivity].
  - apply (Hnone _ _ S1'). exact Gd.
  - apply (Hnone _ _ S2). exact Gs.
Qed.
