(* Structural obligations tying model/C01_Tso.v to server/tso as it is now (gen/Gen_C01.v is regenerated on every run). *)
From Coq Require Import ZArith.
From PDV Require Import lib.Skel gen.Gen_C01.

(* setTSOPhysical(next, force): under tsoMux; zero memory is only touched when force; moves forward only (ms precision), logical := 0  [model: set_physical] *)
Lemma skel_setTSOPhysical_ok : skel_setTSOPhysical =
  [Lock "t.tsoMux"; DeferUnlock "t.tsoMux"; IfE "t.tsoMux.physical == typeutil.ZeroTime && !force" [Ret] []; IfE "typeutil.SubTSOPhysicalByWallClock(next, t.tsoMux.physical) > 0" [Assign "t.tsoMux.physical" "= next"; Assign "t.tsoMux.logical" "= 0"] []].
Proof. reflexivity. Qed.

(* getTSO: read lock *)
Lemma skel_getTSO_ok : skel_getTSO =
  [RLock "t.tsoMux"; DeferRUnlock "t.tsoMux"; IfE "t.tsoMux.physical == typeutil.ZeroTime" [Ret] []; Ret].
Proof. reflexivity. Qed.

(* generateTSO: one locked block: zero memory -> nothing; logical += count; returns the new logical  [model: LGen] *)
Lemma skel_generateTSO_ok : skel_generateTSO =
  [Lock "t.tsoMux"; DeferUnlock "t.tsoMux"; IfE "t.tsoMux.physical == typeutil.ZeroTime" [Ret] []; Assign "physical" "= t.tsoMux.physical.UnixNano() / int64(time.Millisecond)"; Assign "t.tsoMux.logical" "+= count"; Assign "logical" "= t.tsoMux.logical"; IfE "suffixBits > 0 && t.suffix >= 0" [Call "differentiateLogical"; Assign "logical" "= t.differentiateLogical(logical, suffixBits)"] []; Ret].
Proof. reflexivity. Qed.

(* saveTimestamp: LeaderTxn put; lastSavedTime stored only after a succeeded commit  [model: save_txn + with_saved] *)
Lemma skel_saveTimestamp_ok : skel_saveTimestamp =
  [Call "LeaderTxn"; Call "Commit"; IfE "err != nil" [Assign "t.saveUncertain" "= true"; Ret] []; IfE "!resp.Succeeded" [Ret] []; Call "Store"; Assign "t.saveUncertain" "= false"; Ret].
Proof. reflexivity. Qed.
(* the repair of the save uncertainty: the own window is read back, lastSavedTime only moves up, the mark is cleared *)
Lemma skel_refreshLastSavedTime_ok : skel_refreshLastSavedTime =
  [IfE "!t.saveUncertain" [Ret] []; Call "GetValue"; IfE "err != nil" [Ret] []; IfE "len(value) != 0" [Call "ParseTimestamp"; IfE "err != nil" [Ret] []; Call "Load"; Call "SubRealTimeByWallClock"; IfE "!ok || typeutil.SubRealTimeByWallClock(stored, last) > 0" [Call "Store"] []] []; Assign "t.saveUncertain" "= false"; Ret].
Proof. reflexivity. Qed.

(* SyncTimestamp: saveMu held over load and save; memory set with force afterwards  [model: LSyncLoad / LSyncSave / LSyncSet] *)
Lemma skel_SyncTimestamp_ok : skel_SyncTimestamp =
  [Lock "t.saveMu"; Call "loadTimestamp"; IfE "err != nil" [Unlock "t.saveMu"; Ret] []; Assign "next" ":= time.Now()"; DeferE [Assign "next" "= next.Add(time.Hour)"]; DeferE [Assign "next" "= next.Add(-time.Hour)"]; Call "SubRealTimeByWallClock"; IfE "typeutil.SubRealTimeByWallClock(next, last) < UpdateTimestampGuard" [Assign "next" "= last.Add(UpdateTimestampGuard)"] []; Assign "save" ":= next.Add(t.saveInterval)"; Call "saveTimestamp(leadership, save)"; Unlock "t.saveMu"; IfE "err != nil" [Ret] []; Call "setTSOPhysical(next, true)"; Ret].
Proof. reflexivity. Qed.

(* resetUserTimestamp: tsoMux held throughout; Check; smaller / equal-not-greater / too-far rejected; saveMu around decide+save; memory written last  [model: LURBegin / LURDecide / LURSave / LUREnd] *)
Lemma skel_resetUserTimestamp_ok : skel_resetUserTimestamp =
  [Lock "t.tsoMux"; DeferUnlock "t.tsoMux"; Call "Check"; IfE "!leadership.Check()" [Ret] []; IfE "physicalDifference < 0" [IfE "ignoreSmaller" [Ret] []; Ret] []; IfE "physicalDifference == 0 && logicalDifference <= 0" [IfE "ignoreSmaller" [Ret] []; Ret] []; IfE "physicalDifference >= t.maxResetTSGap().Milliseconds()" [Ret] []; Lock "t.saveMu"; Call "refreshLastSavedTime"; IfE "err != nil" [Unlock "t.saveMu"; Ret] []; Call "Load"; Call "SubRealTimeByWallClock"; IfE "typeutil.SubRealTimeByWallClock(t.lastSavedTime.Load().(time.Time), nextPhysical) <= UpdateTimestampGuard" [Assign "save" ":= nextPhysical.Add(t.saveInterval)"; Call "saveTimestamp(leadership, save)"; IfE "err != nil" [Unlock "t.saveMu"; Ret] []] []; Unlock "t.saveMu"; Assign "t.tsoMux.physical" "= nextPhysical"; Assign "t.tsoMux.logical" "= int64(nextLogical)"; Ret].
Proof. reflexivity. Qed.

(* UpdateTimestamp: snapshot; zero memory -> return; next; saveMu around decide+save; setTSOPhysical without force  [model: LUpdRead / LUpdDecide / LUpdSave / LUpdSet] *)
Lemma skel_UpdateTimestamp_ok : skel_UpdateTimestamp =
  [Call "getTSO"; IfE "prevPhysical == typeutil.ZeroTime" [Ret] []; Call "SubRealTimeByWallClock"; IfE "jetLag > UpdateTimestampGuard" [Assign "next" "= now"] [IfE "prevLogical > maxLogical/2" [Assign "next" "= prevPhysical.Add(time.Millisecond)"] [Ret]]; Lock "t.saveMu"; Call "refreshLastSavedTime"; IfE "err != nil" [Unlock "t.saveMu"; Ret] []; Call "Load"; Call "SubRealTimeByWallClock"; IfE "typeutil.SubRealTimeByWallClock(t.lastSavedTime.Load().(time.Time), next) <= UpdateTimestampGuard" [Assign "save" ":= next.Add(t.saveInterval)"; Call "saveTimestamp(leadership, save)"; IfE "err != nil" [Unlock "t.saveMu"; Ret] []] []; Unlock "t.saveMu"; Call "setTSOPhysical(next, false)"; Ret].
Proof. reflexivity. Qed.

(* getTS: retry loop; Check when memory is zero; generate; overflow -> retry; second Check before answering  [model: LGen / LRespond] *)
Lemma skel_getTS_ok : skel_getTS =
  [IfE "count == 0" [Ret] []; ForE [Call "getTSO"; IfE "currentPhysical == typeutil.ZeroTime" [Call "Check"; IfE "leadership.Check()" [Cont] []; Ret] []; Call "generateTSO"; IfE "resp.GetPhysical() == 0" [Ret] []; IfE "resp.GetLogical() >= maxLogical" [Cont] []; Call "Check"; IfE "!leadership.Check()" [Ret] []; Ret]; Ret].
Proof. reflexivity. Qed.

(* ResetTimestamp: zero memory under tsoMux  [model: LReset] *)
Lemma skel_ResetTimestamp_ok : skel_ResetTimestamp =
  [Lock "t.tsoMux"; DeferUnlock "t.tsoMux"; Assign "t.tsoMux.physical" "= typeutil.ZeroTime"; Assign "t.tsoMux.logical" "= 0"].
Proof. reflexivity. Qed.

(* updateAllocator: Check() before UpdateTSO; a failed update resets the allocator group  [model: LUpdRead requires valid] *)
(* loadTimestamp: the persisted windows are read with ONE unlimited prefix read of the root path (no paging whose
   continuation could lose keys) and the maximum over the keys ending in "timestamp" is returned *)
Lemma skel_loadTimestamp_ok : skel_loadTimestamp =
  [Call "EtcdKVGet(t.client, t.rootPath, clientv3.WithPrefix())"; IfE "err != nil" [Ret] []; Assign "maxTSWindow" ":= typeutil.ZeroTime"; ForE [Call "HasSuffix"; IfE "!strings.HasSuffix(key, timestampKey)" [Cont] []; Call "ParseTimestamp"; IfE "err != nil" [Cont] []; Call "SubRealTimeByWallClock"; IfE "typeutil.SubRealTimeByWallClock(tsWindow, maxTSWindow) > 0" [Assign "maxTSWindow" "= tsWindow"] []]; Ret].
Proof. reflexivity. Qed.

Lemma skel_EtcdKVGet_ok : skel_EtcdKVGet =
  [Call "Get(ctx, key, opts)"; IfE "err != nil" [Ret] []; Ret].
Proof. reflexivity. Qed.

(* the time differences of the oracle are differences of WALL-CLOCK readings (UnixNano), never time.Time.Sub (which silently
   uses the monotonic readings two values may carry): the model's clock inputs are wall-clock values *)
Lemma time_differences_ok :
  src_SubRealTimeByWallClock = "{ return time.Duration(after.UnixNano() - before.UnixNano()) }" /\
  src_SubTSOPhysicalByWallClock = "{ return after.UnixNano()/int64(time.Millisecond) - before.UnixNano()/int64(time.Millisecond) }".
Proof. split; reflexivity. Qed.

(* where an allocator's window lives - the persisted layout members of different releases must agree on: the key
   "timestamp" below the allocator's path, which is the root path for the Global allocator and <root>/<dc-location> for a
   Local one; a Local allocator is initialised by SyncTimestamp alone (no other source of a starting point) *)
Lemma window_layout_ok :
  src_getTimestampPath = "{ return path.Join(t.rootPath, timestampKey) }" /\
  src_getAllocatorPath = "{ if dcLocation == GlobalDCLocation { return am.rootPath } return path.Join(am.rootPath, dcLocation) }" /\
  skel_lta_Initialize = [Assign "lta.timestampOracle.suffix" "= suffix"; Call "SyncTimestamp"; Ret].
Proof. repeat split; reflexivity. Qed.

(* the window key is named by the oracle alone (its path helper and the prefix scan of loadTimestamp) *)
Lemma timestamp_key_sites_ok :
  timestamp_key_sites = ["server/tso/tso.go:<top>"; "server/tso/tso.go:getTimestampPath"; "server/tso/tso.go:loadTimestamp"].
Proof. reflexivity. Qed.

Lemma skel_updateAllocator_ok : skel_updateAllocator =
  [SwitchE [[Call "Reset"; Ret]; []]; Call "Check"; IfE "!ag.leadership.Check()" [Ret] []; Call "UpdateTSO"; IfE "err != nil" [Call "ResetAllocatorGroup"; Ret] []].
Proof. reflexivity. Qed.

(* allocatorUpdater: only initialised allocators with leadership; waits for all updates before the next tick (one UpdateTimestamp at a time per allocator) *)
Lemma skel_allocatorUpdater_ok : skel_allocatorUpdater =
  [Call "FilterUninitialized"; Call "FilterUnavailableLeadership"; Call "getAllocatorGroups"; ForE [GoE [Call "updateAllocator"]]; Call "Wait"].
Proof. reflexivity. Qed.

(* ResetAllocatorGroup: allocator.Reset then leadership.Reset *)
Lemma skel_ResetAllocatorGroup_ok : skel_ResetAllocatorGroup =
  [Lock "am.mu"; DeferUnlock "am.mu"; IfE "exist" [Call "Reset"; Call "Reset"] []].
Proof. reflexivity. Qed.

(* Initialize = SyncTimestamp *)
Lemma skel_gta_Initialize_ok : skel_gta_Initialize =
  [Call "SyncTimestamp"; Ret].
Proof. reflexivity. Qed.

(* UpdateTSO = UpdateTimestamp *)
Lemma skel_gta_UpdateTSO_ok : skel_gta_UpdateTSO =
  [Call "UpdateTimestamp"; Ret].
Proof. reflexivity. Qed.

(* SetTSO = resetUserTimestamp *)
Lemma skel_gta_SetTSO_ok : skel_gta_SetTSO =
  [Call "resetUserTimestamp"; Ret].
Proof. reflexivity. Qed.

(* Reset = ResetTimestamp *)
Lemma skel_gta_Reset_ok : skel_gta_Reset =
  [Call "ResetTimestamp"].
Proof. reflexivity. Qed.

(* campaignLeader (E3): campaign; keep-alive; the dc-locations are read from etcd BEFORE the Global allocator is initialised,
   i.e. before it serves (C05's JLeaderMove: the new leader's check precedes its first Global answer); Initialize; memory
   reset deferred to the end of the term; EnableLeader; periodic checker; leader loop *)
Lemma skel_campaignLeader_ok : skel_campaignLeader =
  [Call "CampaignLeader"; IfE "" [Ret] []; DeferE [DeferE [Call "ResetLeader"]]; GoE [Call "KeepLeader"]; IfE "" [Ret] []; Call "RefreshClusterDCLocations"; IfE "" [Ret] []; Call "Initialize"; IfE "" [Ret] []; DeferE [Call "ResetAllocatorGroup"]; IfE "" [Ret] []; IfE "" [Ret] []; IfE "" [Ret] []; IfE "" [Ret] []; Call "Rebase"; IfE "" [Ret] []; Call "EnableLeader"; GoE [Call "ClusterDCLocationChecker"]; DeferE [DeferE [Call "ResetLeader"]]; ForE [SwitchE [[Call "IsLeader"; IfE "" [Ret] []; IfE "" [Ret] []]; [Ret]]]].
Proof. reflexivity. Qed.

(* constants: the guard is exactly one millisecond (the proofs need guard >= 1 ms), the default save
   interval is larger than the guard (hypothesis `guard < iv` of the theorems for the default config),
   18 logical bits *)
Lemma consts_ok :
  (UpdateTimestampGuard = 1000000 /\ maxLogical = 2 ^ 18 /\ physicalShiftBits = 18 /\ logicalBits = 2 ^ 18 - 1 /\
   UpdateTimestampGuard < defaultTSOSaveInterval /\ 0 < maxRetryCount)%Z.
Proof. repeat split; reflexivity. Qed.

Lemma compose_src_ok : src_ComposeTS = "{ return uint64(physical)<<18 | uint64(logical)&0x3FFFF }".
Proof. reflexivity. Qed.

(* the RPC layer (server/grpc_service.go Tso): one answer per request received, in the order received; a local request is
   answered by the allocator manager with exactly the count it was asked for, and that count is what the response says it
   stands for (the model's grant record carries one count: the n values a client derives are the n the allocator advanced
   by); a forwarded request is sent on a forward stream that belongs to this client stream alone (created inside the
   handler, re-created when the forwarded host changes) and answered by the next message of that stream - so the pairing of
   requests and answers is that of the member the stream is forwarded to *)
Lemma skel_handler_Tso_ok : skel_handler_Tso =
  [Assign "forwardStream" "var zero"; Assign "lastForwardedHost" "var zero"; ForE [Call "Recv"; Assign "request" ":= stream.Recv()"; IfE "err == io.EOF" [Ret] []; IfE "err != nil" [Ret] []; Call "isLocalRequest"; IfE "!s.isLocalRequest(forwardedHost)" [IfE "forwardStream == nil || lastForwardedHost != forwardedHost" [Call "getDelegateClient"; IfE "err != nil" [Ret] []; Call "createTsoForwardStream"; Assign "forwardStream" "= s.createTsoForwardStream(client)"; IfE "err != nil" [Ret] []; Assign "lastForwardedHost" "= forwardedHost"] []; Call "Send"; IfE "err != nil" [Ret] []; Call "Recv"; Assign "resp" ":= forwardStream.Recv()"; IfE "err != nil" [Ret] []; Call "Send"; IfE "err != nil" [Ret] []; Cont] []; Call "IsClosed"; IfE "s.IsClosed()" [Ret] []; IfE "request.GetHeader().GetClusterId() != s.clusterID" [Ret] []; Call "GetCount"; Assign "count" ":= request.GetCount()"; Call "HandleTSORequest(request.GetDcLocation(), count)"; Assign "ts" ":= s.tsoAllocatorManager.HandleTSORequest(request.GetDcLocation(), count)"; IfE "err != nil" [Ret] []; Assign "response" ":= &pdpb.TsoResponse{ Header: s.header(), Timestamp: &ts, Count: count, }"; Call "Send"; IfE "err != nil" [Ret] []]].
Proof. reflexivity. Qed.

Lemma src_createTsoForwardStream_ok : src_createTsoForwardStream =
  "{ done := make(chan struct{}) ctx, cancel := context.WithCancel(s.ctx) go checkStream(ctx, cancel, done) forwardStream, err := pdpb.NewPDClient(client).Tso(ctx) done <- struct{}{} return forwardStream, cancel, err }".
Proof. reflexivity. Qed.

(* the client library's arithmetic (proof/C01_Suffix.v client_value): addLogical is  l + c << b ; processTSORequests asks for as
   many timestamps as callers wait in the batch, refuses an answer for another count, computes the first value from THAT count
   and hands  first + k << b  to caller k *)
Lemma src_client_addLogical_ok : src_client_addLogical = "{ return logical + count<<suffixBits }".
Proof. reflexivity. Qed.

Lemma skel_client_processTSORequests_ok : skel_client_processTSORequests =
  [Assign "count" ":= int64(len(requests))"; Assign "req" ":= &pdpb.TsoRequest{ Header: c.requestHeader(), Count: uint32(count), DcLocation: dcLocation, }"; Call "Send"; IfE "err != nil" [Call "finishTSORequest(requests, 0, 0, 0, err)"; Ret] []; Call "Recv"; IfE "err != nil" [Call "finishTSORequest(requests, 0, 0, 0, err)"; Ret] []; Call "GetCount"; IfE "resp.GetCount() != uint32(count)" [Call "finishTSORequest(requests, 0, 0, 0, err)"; Ret] []; Assign "physical" ":= resp.GetTimestamp().GetPhysical()"; Assign "logical" ":= resp.GetTimestamp().GetLogical()"; Assign "suffixBits" ":= resp.GetTimestamp().GetSuffixBits()"; Call "addLogical(logical, -count + 1, suffixBits)"; Assign "firstLogical" ":= addLogical(logical, -count+1, suffixBits)"; Call "compareAndSwapTS(dcLocation, physical, firstLogical, suffixBits, count)"; Call "finishTSORequest(requests, physical, firstLogical, suffixBits, nil)"; Ret].
Proof. reflexivity. Qed.

Lemma src_client_finishTSORequest_ok : src_client_finishTSORequest =
  "{ for i := 0; i < len(requests); i++ { if span := opentracing.SpanFromContext(requests[i].requestCtx); span != nil { span.Finish() } requests[i].physical, requests[i].logical = physical, addLogical(firstLogical, int64(i), suffixBits) requests[i].done <- err } }".
Proof. reflexivity. Qed.

