(* C09 — controller-level invariants of model/C09_OpCtl.v, for every event and hence every history:
     one operator per region, statuses move only along the matrix, an operator enters the running set
     only with the epoch of the cached region, an operator that leaves the running set is ended. *)
From Coq Require Import String.
From PDV Require Import lib.Base gen.Gen_C08 gen.Gen_C09 model.C08_Steps model.C09_OpCtl proof.C09_StatusProof.
Local Open Scope Z_scope.

(* ---------- association lists ---------- *)
Lemma alist_get_In {A} (l : list (Z * A)) k v : alist_get l k = Some v -> In (k, v) l.
Proof.
  unfold alist_get. destruct (find (fun e => fst e =? k) l) as [e|] eqn:E; [|discriminate].
  intros H; inversion H; subst. apply find_some in E as [E1 E2]. apply Z.eqb_eq in E2.
  destruct e as [k' v']; cbn in *; subst; exact E1.
Qed.

Lemma alist_del_In {A} (l : list (Z * A)) k x : In x (alist_del l k) -> In x l /\ fst x <> k.
Proof.
  unfold alist_del. intros H. apply filter_In in H as [H1 H2]. split; [exact H1|].
  apply negb_true_iff, Z.eqb_neq in H2. exact H2.
Qed.

Lemma alist_del_keys {A} (l : list (Z * A)) k : NoDup (map fst l) -> NoDup (map fst (alist_del l k)).
Proof.
  unfold alist_del. induction l as [|x r IH]; cbn; intros H; [constructor|].
  inversion H as [|? ? Hn Hd]; subst. destruct (negb (fst x =? k)); cbn; [|auto].
  constructor; [|auto]. intros C. apply Hn. apply in_map_iff in C as (y & Hy & Hin).
  apply filter_In in Hin as [Hin _]. apply in_map_iff. exists y. auto.
Qed.

Lemma alist_set_In {A} (l : list (Z * A)) k v x : In x (alist_set l k v) -> x = (k, v) \/ In x l.
Proof. unfold alist_set. intros [H|H]; [left; auto|right; apply alist_del_In in H; tauto]. Qed.

Lemma alist_set_keys {A} (l : list (Z * A)) k v : NoDup (map fst l) -> NoDup (map fst (alist_set l k v)).
Proof.
  intros H. unfold alist_set. cbn. constructor; [|apply alist_del_keys; exact H].
  intros C. apply in_map_iff in C as (y & Hy & Hin). apply alist_del_In in Hin as [_ Hne]. congruence.
Qed.

(* ---------- the operator table ---------- *)
Lemma get_op_id c id o : get_op c id = Some o -> o_id o = id.
Proof. unfold get_op. intros H. apply find_some in H as [_ H]. apply Z.eqb_eq in H. exact H. Qed.

Lemma find_put l o' id :
  find (fun o => o_id o =? id) (put_op l o') =
  option_map (fun x => if o_id x =? o_id o' then o' else x) (find (fun o => o_id o =? id) l).
Proof.
  unfold put_op. induction l as [|x r IH]; cbn [map find option_map]; [reflexivity|].
  destruct (o_id x =? o_id o') eqn:E.
  - assert (E' : o_id x = o_id o') by (apply Z.eqb_eq; exact E).
    replace (o_id o' =? id) with (o_id x =? id) by (rewrite E'; reflexivity).
    destruct (o_id x =? id) eqn:E2; cbn [option_map]; [rewrite E; reflexivity|exact IH].
  - destruct (o_id x =? id) eqn:E2; cbn [option_map]; [rewrite E; reflexivity|exact IH].
Qed.

Definition RInv (c : ctl) : Prop := NoDup (map fst (running c)).

Definition ops_fwd (c c' : ctl) : Prop :=
  forall id x, get_op c id = Some x -> exists x', get_op c' id = Some x' /\ rel x x'.
Definition ops_bwd (c c' : ctl) : Prop :=
  forall id x', get_op c' id = Some x' -> exists x, get_op c id = Some x /\ rel x x'.

(* the operator carries exactly the epoch of the region PD has cached *)
Definition epoch_ok (c : ctl) (rid id : Z) : Prop :=
  exists o r, get_op c id = Some o /\ o_rid o = rid /\ alist_get (cache c) rid = Some r
              /\ conf_ver r = o_cv o /\ rng r = o_ver o.

Definition adm (c c' : ctl) : Prop :=
  forall rid id, In (rid, id) (running c') -> In (rid, id) (running c) \/ epoch_ok c rid id.

(* every record is truthful: it names an existing operator of that region together with the end status that
   operator has (GetOperatorStatus of a region without running operator reports exactly this) *)
Definition Rec (c : ctl) : Prop :=
  forall rid id st, alist_get (records c) rid = Some (id, st) ->
    exists o, get_op c id = Some o /\ o_st o = st /\ is_end_status st = true /\ o_rid o = rid.

Record Frame (c c' : ctl) : Prop := {
  fr_cache : cache c' = cache c;
  fr_truth : truth c' = truth c;
  fr_maxw : max_waiting c' = max_waiting c;
  fr_fwd : ops_fwd c c';
  fr_bwd : ops_bwd c c';
  fr_rinv : RInv c -> RInv c';
  fr_adm : adm c c';
  fr_rec : Rec c -> Rec c';
  fr_keep : forall rid, alist_get (records c) rid <> None -> alist_get (records c') rid <> None
}.

Lemma Frame_refl c : Frame c c.
Proof.
  constructor; auto; unfold ops_fwd, ops_bwd, adm; intros; eauto using rel_refl.
Qed.

Lemma epoch_ok_fwd c c' rid id : Frame c c' -> epoch_ok c rid id -> epoch_ok c' rid id.
Proof.
  intros F (o & r & Ho & Hr & Hc & E1 & E2). destruct (fr_fwd _ _ F _ _ Ho) as (o' & Ho' & R).
  destruct R as (_ & R2 & R3 & R4 & _). exists o', r. rewrite (fr_cache _ _ F). repeat split; congruence.
Qed.

Lemma epoch_ok_bwd c c' rid id : Frame c c' -> epoch_ok c' rid id -> epoch_ok c rid id.
Proof.
  intros F (o' & r & Ho & Hr & Hc & E1 & E2). destruct (fr_bwd _ _ F _ _ Ho) as (o & Ho' & R).
  destruct R as (_ & R2 & R3 & R4 & _). exists o, r. rewrite <- (fr_cache _ _ F). repeat split; congruence.
Qed.

Lemma Frame_trans a b c : Frame a b -> Frame b c -> Frame a c.
Proof.
  intros F G. constructor.
  - rewrite (fr_cache _ _ G). apply (fr_cache _ _ F).
  - rewrite (fr_truth _ _ G). apply (fr_truth _ _ F).
  - rewrite (fr_maxw _ _ G). apply (fr_maxw _ _ F).
  - intros id x Hx. destruct (fr_fwd _ _ F _ _ Hx) as (y & Hy & R1). destruct (fr_fwd _ _ G _ _ Hy) as (z & Hz & R2).
    exists z. split; [exact Hz|eapply rel_trans; eauto].
  - intros id z Hz. destruct (fr_bwd _ _ G _ _ Hz) as (y & Hy & R2). destruct (fr_bwd _ _ F _ _ Hy) as (x & Hx & R1).
    exists x. split; [exact Hx|eapply rel_trans; eauto].
  - intros H. apply (fr_rinv _ _ G), (fr_rinv _ _ F), H.
  - intros rid id H. destruct (fr_adm _ _ G _ _ H) as [H1|H1].
    + apply (fr_adm _ _ F _ _ H1).
    + right. eapply epoch_ok_bwd; eauto.
  - intros H. apply (fr_rec _ _ G), (fr_rec _ _ F), H.
  - intros rid H. apply (fr_keep _ _ G), (fr_keep _ _ F), H.
Qed.

(* updates that leave the operator table alone *)
Lemma frame_same_ops c c' :
  cache c' = cache c -> truth c' = truth c -> max_waiting c' = max_waiting c -> ops c' = ops c -> records c' = records c ->
  (RInv c -> RInv c') -> adm c c' -> Frame c c'.
Proof.
  intros H1 H2 H3 H4 H7 H5 H6. constructor; auto.
  - intros id x Hx. exists x. unfold get_op in *. rewrite H4. auto using rel_refl.
  - intros id x Hx. exists x. unfold get_op in *. rewrite <- H4. auto using rel_refl.
  - intros R rid id st Hr. rewrite H7 in Hr. destruct (R _ _ _ Hr) as (o & Ho & Hrest). exists o. unfold get_op in *. rewrite H4. auto.
  - intros rid H. rewrite H7. exact H.
Qed.

Lemma adm_same c c' : running c' = running c -> adm c c'.
Proof. intros H rid id Hin. left. rewrite <- H. exact Hin. Qed.

Lemma get_set_op c o' id :
  get_op (set_op c o') id = option_map (fun x => if o_id x =? o_id o' then o' else x) (get_op c id).
Proof. unfold get_op, set_op, set_ops, upd; cbn [ops]. apply find_put. Qed.

Lemma get_set_op_same c o o' : get_op c (o_id o') = Some o -> get_op (set_op c o') (o_id o') = Some o'.
Proof.
  intros H. rewrite get_set_op, H. cbn. pose proof (get_op_id _ _ _ H) as I. rewrite I, Z.eqb_refl. reflexivity.
Qed.

Lemma frame_set_op c o o' : get_op c (o_id o') = Some o -> rel o o' -> Frame c (set_op c o').
Proof.
  intros Ho R.
  assert (G : forall id, get_op (set_op c o') id = option_map (fun x => if o_id x =? o_id o' then o' else x) (get_op c id)).
  { intros id. unfold get_op, set_op, set_ops, upd; cbn. apply find_put. }
  constructor; try reflexivity.
  - intros id x Hx. rewrite G, Hx. cbn. eexists; split; [reflexivity|].
    destruct (o_id x =? o_id o') eqn:E; [|apply rel_refl].
    apply Z.eqb_eq in E. pose proof (get_op_id _ _ _ Hx) as I. rewrite <- I, E, Ho in Hx. inversion Hx; subst. exact R.
  - intros id x' Hx'. rewrite G in Hx'. destruct (get_op c id) as [x|] eqn:Hx; [|discriminate].
    cbn in Hx'. inversion Hx'; subst. exists x. split; [reflexivity|].
    destruct (o_id x =? o_id o') eqn:E; [|apply rel_refl].
    apply Z.eqb_eq in E. pose proof (get_op_id _ _ _ Hx) as I. rewrite <- I, E, Ho in Hx. inversion Hx; subst. exact R.
  - auto.
  - apply adm_same. reflexivity.
  - intros Rc rid id st Hr. change (records (set_op c o')) with (records c) in Hr.
    destruct (Rc _ _ _ Hr) as (x & Hx & Hst & Hend & Hrid).
    rewrite G, Hx. cbn [option_map]. eexists. split; [reflexivity|].
    destruct (o_id x =? o_id o') eqn:E; [|auto].
    apply Z.eqb_eq in E. pose proof (get_op_id _ _ _ Hx) as I. rewrite <- I, E, Ho in Hx. inversion Hx; subst x.
    destruct R as (_ & R2 & _ & _ & _ & _ & _ & _ & R9).
    assert (Hend' : is_end_status (o_st o) = true) by (rewrite Hst; exact Hend).
    pose proof (reach_from_end _ _ Hend' R9) as Est.
    split; [congruence|]. split; [exact Hend|congruence].
  - intros rid H. exact H.
Qed.

Lemma frame_send c ms : Frame c (send c ms).
Proof. apply frame_same_ops; auto. apply adm_same; reflexivity. Qed.

Lemma frame_set_wcount c d n : Frame c (set_wcount c d n).
Proof. apply frame_same_ops; auto. apply adm_same; reflexivity. Qed.

Lemma frame_running_del c k : Frame c (set_running c (alist_del (running c) k)).
Proof.
  apply frame_same_ops; auto.
  - unfold RInv, set_running, upd; cbn [running]. apply alist_del_keys.
  - intros rid id H. cbn in H. apply alist_del_In in H. tauto.
Qed.

Lemma frame_running_set c rid id : epoch_ok c rid id -> Frame c (set_running c (alist_set (running c) rid id)).
Proof.
  intros E. apply frame_same_ops; auto.
  - unfold RInv, set_running, upd; cbn [running]. apply alist_set_keys.
  - intros rid' id' H. cbn in H. apply alist_set_In in H as [H|H]; [inversion H; subst; right; exact E|left; exact H].
Qed.

(* ---------- the controller's functions ---------- *)
Lemma frame_op_update c id o o' : get_op c id = Some o -> rel o o' -> Frame c (set_op c o').
Proof.
  intros Ho R. apply frame_set_op with (o := o); [|exact R].
  destruct R as (R1 & _). rewrite R1, (get_op_id _ _ _ Ho). exact Ho.
Qed.

Lemma alist_get_set {A} (l : list (Z * A)) k v k' : alist_get (alist_set l k v) k' = if k =? k' then Some v else alist_get l k'.
Proof.
  unfold alist_get, alist_set. cbn [find fst]. destruct (k =? k') eqn:E; [reflexivity|].
  unfold alist_del. induction l as [|x r IH]; cbn [filter find]; [reflexivity|].
  destruct (fst x =? k) eqn:E2; cbn [negb].
  - apply Z.eqb_eq in E2. rewrite E2, E. exact IH.
  - cbn [find]. destruct (fst x =? k'); [reflexivity|exact IH].
Qed.

Lemma not_end_cancel s : is_end_status s = false -> valid_trans s CANCELED = true.
Proof. destruct s; vm_compute; intros H; try reflexivity; discriminate. Qed.

Lemma op_to_end_cancel o : is_end_status (o_st (fst (op_to o CANCELED))) = true.
Proof.
  destruct (is_end_status (o_st o)) eqn:E.
  - destruct (op_to_status o CANCELED) as [H|[_ H]]; rewrite H; [exact E|reflexivity].
  - unfold op_to. rewrite (not_end_cancel _ E). reflexivity.
Qed.

(* writing the record of an ended operator *)
Lemma frame_record c o : get_op c (o_id o) = Some o -> is_end_status (o_st o) = true ->
  Frame c (upd c (truth c) (cache c) (ops c) (running c) (waiting c) (wcount c)
               (alist_set (records c) (o_rid o) (o_id o, o_st o)) (inbox c)).
Proof.
  intros Ho He. constructor; try reflexivity.
  - intros id x Hx. exists x. split; [exact Hx|apply rel_refl].
  - intros id x Hx. exists x. split; [exact Hx|apply rel_refl].
  - auto.
  - apply adm_same. reflexivity.
  - intros Rc rid id st Hr. cbn [records upd] in Hr. rewrite alist_get_set in Hr.
    destruct (o_rid o =? rid) eqn:E.
    + apply Z.eqb_eq in E. inversion Hr; subst id st. exists o. repeat split; auto.
    + destruct (Rc _ _ _ Hr) as (x & Hx & Hrest). exists x. split; [exact Hx|exact Hrest].
  - intros rid H. cbn [records upd]. rewrite alist_get_set. destruct (o_rid o =? rid); [discriminate|exact H].
Qed.

Lemma frame_bury c id : Frame c (bury c id).
Proof.
  unfold bury. destruct (get_op c id) as [o|] eqn:Ho; [|apply Frame_refl].
  set (o' := if op_is_end o then o else fst (op_to o CANCELED)).
  assert (R : rel o o') by (unfold o'; destruct (op_is_end o); [apply rel_refl|apply rel_op_to]).
  assert (He : is_end_status (o_st o') = true) by (unfold o'; destruct (op_is_end o) eqn:E; [exact E|apply op_to_end_cancel]).
  assert (Hid : o_id o' = id) by (destruct R as (R1 & _); rewrite R1; eapply get_op_id; eauto).
  eapply Frame_trans.
  - apply frame_set_op with (o := o); [rewrite Hid; exact Ho|exact R].
  - apply (frame_record (set_op c o') o'); [|exact He]. apply get_set_op_same with (o := o). rewrite Hid. exact Ho.
Qed.

Lemma frame_cancel c id : Frame c (cancel c id).
Proof.
  unfold cancel. destruct (get_op c id) as [o|] eqn:Ho; [|apply Frame_refl].
  apply frame_op_update with (id := id) (o := o); [exact Ho|apply rel_op_to].
Qed.

Lemma frame_remove_locked c o : Frame c (fst (remove_locked c o)).
Proof.
  unfold remove_locked. destruct (alist_get (running c) (o_rid o)) as [id|]; [|apply Frame_refl].
  destruct (id =? o_id o); cbn [fst]; [apply frame_running_del|apply Frame_refl].
Qed.

Lemma frame_check_add_fold ids : forall c b,
  Frame c (fst (fold_left (fun '(c', ok) id =>
                 match get_op c' id with
                 | Some o => let '(o', ex) := check_expired o in (set_op c' o', ok && negb ex)
                 | None => (c', ok)
                 end) ids (c, b))).
Proof.
  induction ids as [|id r IH]; intros c b; cbn [fold_left fst]; [apply Frame_refl|].
  destruct (get_op c id) as [o|] eqn:Ho; [|apply IH].
  pose proof (rel_check_expired o) as R. destruct (check_expired o) as [o' ex]. cbn [fst] in R.
  eapply Frame_trans; [|apply IH]. apply frame_op_update with (id := id) (o := o); auto.
Qed.

Lemma frame_check_add c ids : Frame c (fst (check_add c ids)).
Proof.
  unfold check_add. destruct (negb (forallb (check_add_one c) _)); cbn [fst]; [apply Frame_refl|apply frame_check_add_fold].
Qed.

Lemma check_add_one_epoch c o : get_op c (o_id o) = Some o -> check_add_one c o = true -> epoch_ok c (o_rid o) (o_id o).
Proof.
  unfold check_add_one. intros Ho H. destruct (alist_get (cache c) (o_rid o)) as [r|] eqn:Hr; [|discriminate].
  destruct (Gen_C09.epoch_mismatch_GetVersion (rng r) (o_ver o) || Gen_C09.epoch_mismatch_GetConfVer (conf_ver r) (o_cv o)) eqn:E; [discriminate|].
  apply orb_false_iff in E as [E1 E2].
  unfold Gen_C09.epoch_mismatch_GetVersion in E1. unfold Gen_C09.epoch_mismatch_GetConfVer in E2.
  apply negb_false_iff in E1, E2. apply Z.eqb_eq in E1, E2.
  exists o, r. repeat split; auto.
Qed.

Lemma check_add_true c ids c' :
  check_add c ids = (c', true) ->
  forall id o, In id ids -> get_op c id = Some o -> check_add_one c o = true.
Proof.
  unfold check_add. intros H id o Hin Ho.
  destruct (forallb (check_add_one c) (flat_map (fun id0 => match get_op c id0 with Some o0 => [o0] | None => [] end) ids)) eqn:E; cbn [negb] in H;
    [|discriminate].
  rewrite forallb_forall in E. apply E. apply in_flat_map. exists id. split; [exact Hin|]. rewrite Ho. left; reflexivity.
Qed.

Lemma frame_add_locked c id o :
  get_op c id = Some o -> epoch_ok c (o_rid o) id -> Frame c (fst (add_locked c id)).
Proof.
  intros Ho E. unfold add_locked. rewrite Ho.
  set (c1 := match alist_get (running c) (o_rid o) with
             | Some oldid => match get_op c oldid with
                             | Some old => bury (set_op (fst (remove_locked c old)) (fst (op_to old REPLACED))) oldid
                             | None => c end
             | None => c end).
  assert (F1 : Frame c c1).
  { unfold c1. destruct (alist_get (running c) (o_rid o)) as [oldid|]; [|apply Frame_refl].
    destruct (get_op c oldid) as [old|] eqn:Hold; [|apply Frame_refl].
    eapply Frame_trans; [|apply frame_bury].
    eapply Frame_trans; [apply frame_remove_locked|].
    destruct (fr_fwd _ _ (frame_remove_locked c old) _ _ Hold) as (old' & Hold' & R).
    apply frame_op_update with (id := oldid) (o := old'); [exact Hold'|].
    (* remove_locked does not touch the table: old' = old *)
    assert (old' = old) as ->.
    { revert Hold'. unfold remove_locked. destruct (alist_get (running c) (o_rid old)) as [i|]; [destruct (i =? o_id old)|];
        cbn [fst]; unfold get_op, set_running, upd; cbn; intros Hx; unfold get_op in Hold; congruence. }
    apply rel_op_to. }
  fold c1.
  destruct (fr_fwd _ _ F1 _ _ Ho) as (o' & Ho' & R').
  rewrite Ho'.
  pose proof (rel_op_to o' STARTED) as Rs. destruct (op_to o' STARTED) as [o1 started].
  cbn [fst] in Rs. destruct started; cbn [negb]; [|exact F1].
  set (c2 := set_running (set_op c1 o1) (alist_set (running c1) (o_rid o) id)).
  assert (Fa : Frame c1 (set_op c1 o1)).
  { apply frame_op_update with (id := id) (o := o'); [exact Ho'|exact Rs]. }
  assert (F2 : Frame c c2).
  { eapply Frame_trans; [exact F1|]. unfold c2.
    eapply Frame_trans; [exact Fa|].
    replace (running c1) with (running (set_op c1 o1)) by reflexivity.
    apply frame_running_set. eapply epoch_ok_fwd; [exact Fa|]. eapply epoch_ok_fwd; [exact F1|exact E]. }
  destruct (alist_get (cache c2) (o_rid o)) as [r|]; cbn [fst]; [|exact F2].
  pose proof (rel_op_check o1 r) as Rc. destruct (op_check o1 r) as [o2 st]. cbn [fst] in Rc.
  assert (F3 : Frame c2 (set_op c2 o2)).
  { apply frame_op_update with (id := id) (o := o1); [|exact Rc].
    destruct (fr_fwd _ _ Fa _ _ Ho') as (x & Hx & _).
    assert (x = o1) as <-.
    { revert Hx. unfold get_op, set_op, set_ops, upd; cbn. rewrite find_put. fold (get_op c1 id). rewrite Ho'. cbn.
      destruct Rs as (Rs1 & _). rewrite Rs1, Z.eqb_refl. congruence. }
    exact Hx. }
  destruct st as [s|]; cbn [fst].
  - eapply Frame_trans; [exact F2|]. eapply Frame_trans; [exact F3|apply frame_send].
  - eapply Frame_trans; [exact F2|exact F3].
Qed.

Definition admissible (c : ctl) (id : Z) : Prop :=
  forall o, get_op c id = Some o -> epoch_ok c (o_rid o) id.

Lemma admissible_fwd c c' id : Frame c c' -> admissible c id -> admissible c' id.
Proof.
  intros F A o' Ho'. destruct (fr_bwd _ _ F _ _ Ho') as (o & Ho & R).
  destruct R as (_ & R2 & _). rewrite R2. eapply epoch_ok_fwd; eauto.
Qed.

Lemma frame_add_locked' c id : admissible c id -> Frame c (fst (add_locked c id)).
Proof.
  intros A. destruct (get_op c id) as [o|] eqn:Ho.
  - eapply frame_add_locked; eauto.
  - unfold add_locked. rewrite Ho. apply Frame_refl.
Qed.

Lemma frame_add_all_locked ids : forall c, (forall id, In id ids -> admissible c id) -> Frame c (fst (add_all_locked c ids)).
Proof.
  induction ids as [|id r IH]; intros c A; cbn [add_all_locked fst]; [apply Frame_refl|].
  pose proof (frame_add_locked' c id (A id (or_introl eq_refl))) as F.
  destruct (add_locked c id) as [c' ok]. cbn [fst] in F. destruct ok; cbn [fst]; [|exact F].
  eapply Frame_trans; [exact F|]. apply IH. intros i Hi. eapply admissible_fwd; [exact F|]. apply A. right; exact Hi.
Qed.

Lemma frame_bury_cancel_fold ids : forall c, Frame c (fold_left (fun c' id => bury (cancel c' id) id) ids c).
Proof.
  induction ids as [|id r IH]; intros c; cbn [fold_left]; [apply Frame_refl|].
  eapply Frame_trans; [|apply IH]. eapply Frame_trans; [apply frame_cancel|apply frame_bury].
Qed.

Lemma check_add_admissible c ids c' :
  check_add c ids = (c', true) -> forall id, In id ids -> admissible c' id.
Proof.
  intros H id Hin. pose proof (frame_check_add c ids) as F. rewrite H in F. cbn [fst] in F.
  eapply admissible_fwd; [exact F|]. intros o Ho.
  pose proof (check_add_true _ _ _ H id o Hin Ho) as T.
  pose proof (get_op_id _ _ _ Ho) as I. subst id. apply check_add_one_epoch; [exact Ho|exact T].
Qed.

Lemma frame_add_operator c ids : Frame c (fst (add_operator c ids)).
Proof.
  unfold add_operator. pose proof (frame_check_add c ids) as F.
  destruct (check_add c ids) as [c1 ok] eqn:E. cbn [fst] in F. destruct ok; cbn [negb fst].
  - eapply Frame_trans; [exact F|]. apply frame_add_all_locked. intros id Hin. eapply check_add_admissible; eauto.
  - eapply Frame_trans; [exact F|apply frame_bury_cancel_fold].
Qed.

Lemma frame_waiting_upd c w : Frame c (upd c (truth c) (cache c) (ops c) (running c) w (wcount c) (records c) (inbox c)).
Proof. apply frame_same_ops; auto. apply adm_same; reflexivity. Qed.

Lemma frame_promote_loop fuel : forall c, Frame c (promote_loop fuel c).
Proof.
  induction fuel as [|f IH]; intros c; cbn [promote_loop]; [apply Frame_refl|].
  destruct (waiting c) as [|id rest]; [apply Frame_refl|].
  set (c0 := upd c (truth c) (cache c) (ops c) (running c) rest (wcount c) (records c) (inbox c)).
  assert (F0 : Frame c c0) by apply frame_waiting_upd.
  pose proof (frame_check_add c0 [id]) as F1.
  destruct (check_add c0 [id]) as [c1 ok] eqn:E. cbn [fst] in F1.
  set (d := match get_op c0 id with Some o => o_desc o | None => 0 end).
  set (c2 := set_wcount c1 d (wcount_of c1 d - 1)).
  assert (F2 : Frame c1 c2) by apply frame_set_wcount.
  destruct ok.
  - eapply Frame_trans; [exact F0|]. eapply Frame_trans; [exact F1|]. eapply Frame_trans; [exact F2|].
    apply frame_add_locked'. eapply admissible_fwd; [exact F2|]. eapply check_add_admissible; [exact E|left; reflexivity].
  - eapply Frame_trans; [exact F0|]. eapply Frame_trans; [exact F1|]. eapply Frame_trans; [exact F2|].
    eapply Frame_trans; [|apply IH]. eapply Frame_trans; [apply frame_cancel|apply frame_bury].
Qed.

Lemma frame_promote c : Frame c (promote c).
Proof. apply frame_promote_loop. Qed.

Lemma frame_add_waiting_loop ids : forall c n, Frame c (fst (fst (add_waiting_loop c ids n))).
Proof.
  induction ids as [|id r IH]; intros c n; cbn [add_waiting_loop fst]; [apply Frame_refl|].
  destruct (get_op c id) as [o|]; [|apply Frame_refl].
  pose proof (frame_check_add c [id]) as F1. destruct (check_add c [id]) as [c1 ok]. cbn [fst] in F1.
  destruct ok; cbn [negb fst].
  - eapply Frame_trans; [exact F1|]. eapply Frame_trans; [|apply IH].
    eapply Frame_trans; [apply frame_waiting_upd|apply frame_set_wcount].
  - eapply Frame_trans; [exact F1|]. eapply Frame_trans; [apply frame_cancel|apply frame_bury].
Qed.

Lemma frame_add_waiting c ids : Frame c (fst (add_waiting c ids)).
Proof.
  unfold add_waiting. pose proof (frame_add_waiting_loop ids c 0) as F.
  destruct (add_waiting_loop c ids 0) as [[c1 n] complete]. cbn [fst] in *.
  destruct complete; [|exact F]. eapply Frame_trans; [exact F|apply frame_promote].
Qed.

Lemma frame_remove_operator c id : Frame c (fst (remove_operator c id)).
Proof.
  unfold remove_operator. destruct (get_op c id) as [o|]; [|apply Frame_refl].
  pose proof (frame_remove_locked c o) as F. destruct (remove_locked c o) as [c1 removed]. cbn [fst] in F.
  destruct removed; cbn [fst]; [|exact F].
  eapply Frame_trans; [exact F|]. eapply Frame_trans; [apply frame_cancel|apply frame_bury].
Qed.

Lemma frame_remove_promote c id :
  Frame c (fst (let '(c', removed) := remove_operator c id in if removed then (promote c', true) else (c', false))).
Proof.
  pose proof (frame_remove_operator c id) as F. destruct (remove_operator c id) as [c' removed]. cbn [fst] in F.
  destruct removed; cbn [fst]; [|exact F]. eapply Frame_trans; [exact F|apply frame_promote].
Qed.

Lemma frame_check_stale c o s r : Frame c (fst (check_stale c o s r)).
Proof.
  unfold check_stale.
  set (first := if is_some (check_safety r s)
                then let '(c', removed) := remove_operator c (o_id o) in if removed then (promote c', true) else (c', false)
                else (c, false)).
  assert (F1 : Frame c (fst first)).
  { unfold first. destruct (is_some (check_safety r s)); [apply frame_remove_promote|apply Frame_refl]. }
  destruct first as [c1 done1]. cbn [fst] in F1. destruct done1; cbn [fst]; [exact F1|].
  destruct (Gen_C09.stale_cmp_gt _ _); cbn [fst]; [|exact F1].
  eapply Frame_trans; [exact F1|apply frame_remove_promote].
Qed.

Lemma frame_dispatch c rid r hb : Frame c (dispatch c rid r hb).
Proof.
  unfold dispatch. destruct (alist_get (running c) rid) as [id|]; [|apply Frame_refl].
  destruct (get_op c id) as [o0|] eqn:Ho; [|apply Frame_refl].
  pose proof (rel_op_check o0 r) as R. destruct (op_check o0 r) as [o st]. cbn [fst] in R.
  assert (F1 : Frame c (set_op c o)) by (apply frame_op_update with (id := id) (o := o0); auto).
  assert (Fd : Frame (set_op c o) (let '(c2, removed) := remove_locked (set_op c o) o in
                                     if removed then promote (bury (cancel c2 id) id) else c2)).
  { pose proof (frame_remove_locked (set_op c o) o) as F. destruct (remove_locked (set_op c o) o) as [c2 removed]. cbn [fst] in F.
    destruct removed; [|exact F]. eapply Frame_trans; [exact F|].
    eapply Frame_trans; [apply frame_cancel|]. eapply Frame_trans; [apply frame_bury|apply frame_promote]. }
  assert (Fr : Frame (set_op c o) (let '(c2, removed) := remove_operator (set_op c o) id in if removed then promote c2 else c2)).
  { pose proof (frame_remove_operator (set_op c o) id) as F. destruct (remove_operator (set_op c o) id) as [c2 removed]. cbn [fst] in F.
    destruct removed; [|exact F]. eapply Frame_trans; [exact F|apply frame_promote]. }
  destruct (o_st o); try (eapply Frame_trans; [exact F1|exact Fd]); try (eapply Frame_trans; [exact F1|exact Fr]).
  destruct st as [s|]; [|exact F1].
  set (p := if hb then check_stale (set_op c o) o s r else (set_op c o, false)).
  assert (Fp : Frame (set_op c o) (fst p)).
  { unfold p. destruct hb; [apply frame_check_stale|apply Frame_refl]. }
  destruct p as [c2 handled]. cbn [fst] in Fp. destruct handled.
  - eapply Frame_trans; [exact F1|exact Fp].
  - eapply Frame_trans; [exact F1|]. eapply Frame_trans; [exact Fp|apply frame_send].
Qed.

(* ---------- every event ---------- *)
Definition step_ok (c c' : ctl) : Prop :=
  ops_fwd c c' /\ (RInv c -> RInv c') /\
  (forall rid id, In (rid, id) (running c') -> In (rid, id) (running c) \/ epoch_ok c' rid id).

Lemma step_ok_frame c c' : Frame c c' -> step_ok c c'.
Proof.
  intros F. split; [apply (fr_fwd _ _ F)|]. split; [apply (fr_rinv _ _ F)|].
  intros rid id H. destruct (fr_adm _ _ F _ _ H) as [H1|H1]; [left; exact H1|right; eapply epoch_ok_fwd; eauto].
Qed.

Lemma step_ok_same c c' : ops c' = ops c -> running c' = running c -> step_ok c c'.
Proof.
  intros H1 H2. split; [|split].
  - intros id x Hx. exists x. unfold get_op in *. rewrite H1. auto using rel_refl.
  - unfold RInv. rewrite H2. auto.
  - intros rid id H. left. rewrite <- H2. exact H.
Qed.

(* a frame relative to a state that differs from c only in the regions *)
Lemma step_ok_regions c c1 c' : ops c1 = ops c -> running c1 = running c -> Frame c1 c' -> step_ok c c'.
Proof.
  intros H1 H2 F. destruct (step_ok_frame _ _ F) as (A & B & C). split; [|split].
  - intros id x Hx. apply A. unfold get_op in *. rewrite H1. exact Hx.
  - unfold RInv in *. rewrite <- H2. exact B.
  - intros rid id H. rewrite <- H2. apply C. exact H.
Qed.

Lemma get_op_app c o id x :
  find (fun y => o_id y =? id) (ops c) = Some x -> find (fun y => o_id y =? id) (ops c ++ [o]) = Some x.
Proof.
  induction (ops c) as [|y r IH]; cbn; [discriminate|]. destruct (o_id y =? id); auto.
Qed.

Lemma frame_influence_one c id : Frame c (influence_one c id).
Proof.
  unfold influence_one. destruct (get_op c id) as [o|] eqn:Ho; [|apply Frame_refl].
  pose proof (rel_check_timeout o) as R1. destruct (check_timeout o) as [o1 t]. cbn [fst] in R1.
  apply frame_op_update with (id := id) (o := o); [exact Ho|].
  destruct t; [exact R1|]. eapply rel_trans; [exact R1|apply rel_check_success].
Qed.

Lemma frame_influence c : Frame c (influence c).
Proof.
  unfold influence. generalize (map snd (running c)) as ids. intros ids. revert c.
  induction ids as [|id r IH]; intros c; cbn [fold_left]; [apply Frame_refl|].
  eapply Frame_trans; [apply frame_influence_one|apply IH].
Qed.

Lemma frame_poll_gone c rid : Frame c (poll_gone c rid).
Proof.
  unfold poll_gone. destruct (alist_get (cache c) rid); [apply Frame_refl|].
  destruct (alist_get (running c) rid) as [id|]; [|apply Frame_refl].
  destruct (get_op c id) as [o|]; [|apply Frame_refl].
  eapply Frame_trans; [apply frame_remove_locked|]. eapply Frame_trans; [apply frame_cancel|apply frame_bury].
Qed.

Lemma ctl_step_ok c e : step_ok c (fst (ctl_step c e)).
Proof.
  destruct e; cbn [ctl_step].
  - (* ECreate *)
    cbn [fst]. destruct (is_some (get_op c id)); [apply step_ok_same; reflexivity|].
    split; [|split].
    + intros i x Hx. exists x. split; [|apply rel_refl]. unfold get_op, set_ops, upd in *; cbn. apply get_op_app. exact Hx.
    + auto.
    + intros r i H. left. exact H.
  - pose proof (frame_add_operator c ids) as F. destruct (add_operator c ids) as [c' ok]. cbn [fst] in *. apply step_ok_frame, F.
  - pose proof (frame_add_waiting c ids) as F. destruct (add_waiting c ids) as [c' n]. cbn [fst] in *. apply step_ok_frame, F.
  - cbn [fst]. apply step_ok_frame, frame_promote.
  - (* EHeartbeat *)
    destruct (alist_get (truth c) rid) as [r|]; cbn [fst]; [|apply step_ok_same; reflexivity].
    eapply step_ok_regions; [| |apply frame_dispatch]; reflexivity.
  - destruct (alist_get (cache c) rid) as [r|]; cbn [fst]; [|apply step_ok_same; reflexivity].
    apply step_ok_frame, frame_dispatch.
  - pose proof (frame_remove_operator c id) as F. destruct (remove_operator c id) as [c' ok]. cbn [fst] in *. apply step_ok_frame, F.
  - (* EDeliver *)
    destruct (first_for rid (inbox c)) as [m|]; [|apply step_ok_same; reflexivity].
    destruct (alist_get (truth c) rid) as [r|]; [|apply step_ok_same; reflexivity].
    destruct (deliver r m) as [r' d]. cbn [fst]. apply step_ok_same; reflexivity.
  - cbn [fst]. apply step_ok_same; reflexivity.
  - destruct (alist_get (truth c) rid) as [r|]; [|apply step_ok_same; reflexivity].
    destruct (apply_cmd r c0); cbn [fst]; apply step_ok_same; reflexivity.
  - cbn [fst]. destruct (get_op c id) as [o|] eqn:Ho; [|apply step_ok_same; reflexivity].
    apply step_ok_frame. apply frame_op_update with (id := id) (o := o); [exact Ho|apply rel_with_flags].
  - cbn [fst]. destruct (get_op c id) as [o|] eqn:Ho; [|apply step_ok_same; reflexivity].
    apply step_ok_frame. apply frame_op_update with (id := id) (o := o); [exact Ho|apply rel_with_flags].
  - cbn [fst]. apply step_ok_same; reflexivity.
  - destruct (get_op c id) as [o|] eqn:Ho; cbn [fst]; [|apply step_ok_same; reflexivity].
    apply step_ok_frame. apply frame_op_update with (id := id) (o := o); [exact Ho|apply rel_poke_op].
  - cbn [fst]. apply step_ok_frame, frame_influence.
  - cbn [fst]. apply step_ok_same; reflexivity.
  - cbn [fst]. apply step_ok_frame, frame_poll_gone.
  - cbn [fst]. apply step_ok_same; reflexivity.
  - cbn [fst]. apply step_ok_same; reflexivity.
  - cbn [fst]. apply step_ok_same; reflexivity.
  - cbn [fst]. apply step_ok_same; reflexivity.
  - cbn [fst]. apply step_ok_same; reflexivity.
Qed.

(* ---------- the statements ---------- *)
Lemma one_op_per_region_step c e : RInv c -> RInv (fst (ctl_step c e)).
Proof. apply (ctl_step_ok c e). Qed.

Lemma one_op_per_region_pf maxw es : RInv (run_state ctl_step (init maxw) es).
Proof.
  assert (G : forall es c, RInv c -> RInv (run_state ctl_step c es)).
  { induction es0 as [|e r IH]; intros c H; cbn [run_state]; [exact H|]. apply IH, one_op_per_region_step, H. }
  apply G. unfold RInv, init; cbn. constructor.
Qed.

Lemma status_step_pf c e id x :
  get_op c id = Some x -> exists x', get_op (fst (ctl_step c e)) id = Some x' /\ rel x x'.
Proof. apply (ctl_step_ok c e). Qed.

Lemma status_paths_pf es : forall c id x,
  get_op c id = Some x -> exists x', get_op (run_state ctl_step c es) id = Some x' /\ rel x x'.
Proof.
  induction es as [|e r IH]; intros c id x Hx; cbn [run_state]; [exists x; auto using rel_refl|].
  destruct (status_step_pf c e id x Hx) as (y & Hy & R1). destruct (IH _ _ _ Hy) as (z & Hz & R2).
  exists z. split; [exact Hz|eapply rel_trans; eauto].
Qed.

Lemma admitted_epoch_equal_pf c e rid id :
  In (rid, id) (running (fst (ctl_step c e))) ->
  In (rid, id) (running c) \/ epoch_ok (fst (ctl_step c e)) rid id.
Proof. apply (ctl_step_ok c e). Qed.

(* ---------- records ---------- *)
Lemma Rec_same c c' : ops c' = ops c -> records c' = records c -> Rec c -> Rec c'.
Proof.
  intros H1 H2 R rid id st Hr. rewrite H2 in Hr. destruct (R _ _ _ Hr) as (o & Ho & Hrest). exists o. unfold get_op in *. rewrite H1. auto.
Qed.

Lemma ctl_step_rec c e : Rec c -> Rec (fst (ctl_step c e)).
Proof.
  intros R. destruct e; cbn [ctl_step].
  - cbn [fst]. destruct (is_some (get_op c id)); [exact R|].
    intros r i st Hr. destruct (R _ _ _ Hr) as (o & Ho & Hrest). exists o. split; [|exact Hrest].
    unfold get_op, set_ops, upd in *; cbn. apply get_op_app. exact Ho.
  - pose proof (frame_add_operator c ids) as F. destruct (add_operator c ids) as [c' ok]. cbn [fst] in *. apply (fr_rec _ _ F R).
  - pose proof (frame_add_waiting c ids) as F. destruct (add_waiting c ids) as [c' n]. cbn [fst] in *. apply (fr_rec _ _ F R).
  - cbn [fst]. apply (fr_rec _ _ (frame_promote c) R).
  - destruct (alist_get (truth c) rid) as [r|]; cbn [fst]; [|exact R].
    apply (fr_rec _ _ (frame_dispatch _ rid r true)). eapply Rec_same; [| |exact R]; reflexivity.
  - destruct (alist_get (cache c) rid) as [r|]; cbn [fst]; [|exact R]. apply (fr_rec _ _ (frame_dispatch c rid r false) R).
  - pose proof (frame_remove_operator c id) as F. destruct (remove_operator c id) as [c' ok]. cbn [fst] in *. apply (fr_rec _ _ F R).
  - destruct (first_for rid (inbox c)) as [m|]; [|exact R]. destruct (alist_get (truth c) rid) as [r|]; [|exact R].
    destruct (deliver r m) as [r' d]. cbn [fst]. eapply Rec_same; [| |exact R]; reflexivity.
  - cbn [fst]. eapply Rec_same; [| |exact R]; reflexivity.
  - destruct (alist_get (truth c) rid) as [r|]; [|exact R]. destruct (apply_cmd r c0); cbn [fst]; [eapply Rec_same; [| |exact R]; reflexivity|exact R].
  - cbn [fst]. destruct (get_op c id) as [o|] eqn:Ho; [|exact R].
    apply (fr_rec _ _ (frame_op_update c id o _ Ho (rel_with_flags o true (o_slow o))) R).
  - cbn [fst]. destruct (get_op c id) as [o|] eqn:Ho; [|exact R].
    apply (fr_rec _ _ (frame_op_update c id o _ Ho (rel_with_flags o (o_old o) true)) R).
  - cbn [fst]. eapply Rec_same; [| |exact R]; reflexivity.
  - destruct (get_op c id) as [o|] eqn:Ho; cbn [fst]; [|exact R].
    apply (fr_rec _ _ (frame_op_update c id o _ Ho (rel_poke_op c o k)) R).
  - cbn [fst]. apply (fr_rec _ _ (frame_influence c) R).
  - cbn [fst]. eapply Rec_same; [| |exact R]; reflexivity.
  - cbn [fst]. apply (fr_rec _ _ (frame_poll_gone c rid) R).
  - cbn [fst]. eapply Rec_same; [| |exact R]; reflexivity.
  - cbn [fst]. eapply Rec_same; [| |exact R]; reflexivity.
  - cbn [fst]. exact R.
  - cbn [fst]. exact R.
  - cbn [fst]. exact R.
Qed.

Lemma records_truthful_pf maxw es : Rec (run_state ctl_step (init maxw) es).
Proof.
  assert (G : forall es c, Rec c -> Rec (run_state ctl_step c es)).
  { induction es0 as [|e r IH]; intros c H; cbn [run_state]; [exact H|]. apply IH, ctl_step_rec, H. }
  apply G. intros rid id st H. discriminate.
Qed.
