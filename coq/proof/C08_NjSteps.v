(* C08 — the non-joint build path, one exec* call at a time: the simulation relation between the builder's
   state (currentPeers, currentLeader, the four pending maps, the steps emitted so far) and the region reached
   by executing those steps, and the per-store invariant that ties the pending maps to the target. *)
From Coq Require Import String Sorting.Sorted Sorting.Permutation.
From PDV Require Import lib.Base gen.Gen_C08 model.C08_Steps model.C08_Builder
     proof.C08_ListFacts proof.C08_PmapFacts proof.C08_SimPhases proof.C08_NjPhases proof.C08_StepSpec.
Local Open Scope list_scope.
Local Open Scope Z_scope.

Lemma peer_eta' p : Peer (pstore p) (pid p) (prole p) = p.
Proof. destruct p; reflexivity. Qed.

Lemma pm_del_sorted' m st : PSorted m -> PSorted (pm_del m st).
Proof.
  unfold PSorted, pm_del. induction 1 as [|p r Hs IH Hall]; cbn [filter]; [constructor|].
  destruct (negb (on_store st p)); [|exact IH]. constructor; [exact IH|].
  rewrite Forall_forall in *. intros x Hx. apply filter_In in Hx as [Hx _]. apply Hall. exact Hx.
Qed.

Lemma pm_get_store m st p : pm_get m st = Some p -> pstore p = st.
Proof. intros H. apply (lk_Some _ _ _ H). Qed.

(* ---------- what the five maps say about one store ---------- *)
Definition look (b : bstate) (st : Z) : option peer * option peer * option peer * option peer * option peer :=
  (pm_get (b_cur b) st, pm_get (b_add b) st, pm_get (b_remove b) st, pm_get (b_promote b) st, pm_get (b_demote b) st).

(* the role the store will hold once everything pending is done *)
Definition fin5 (l : option peer * option peer * option peer * option peer * option peer) : option role :=
  let '(c, a, r, p, d) := l in
  match a with Some x => Some (prole x) | None =>
  match r with Some _ => None | None =>
  match p with Some _ => Some Voter | None =>
  match d with Some _ => Some Learner | None => option_map prole c end end end end.

Definition PIat (T : pmap) (l : option peer * option peer * option peer * option peer * option peer) (st : Z) : Prop :=
  let '(c, a, r, p, d) := l in
  (forall n, p = Some n -> exists o, c = Some o /\ prole o = Learner /\ n = Peer st (pid o) Voter)
  /\ (forall n, d = Some n -> exists o, c = Some o /\ prole o = Voter /\ n = Peer st (pid o) Learner)
  /\ (forall x, r = Some x -> c = Some x /\ p = None /\ d = None)
  /\ (forall x, a = Some x -> pstore x = st /\ st <> 0 /\ (prole x = Voter \/ prole x = Learner) /\ p = None /\ d = None
                              /\ (c = None \/ (r <> None /\ prole x = Learner)))
  /\ fin5 l = option_map prole (pm_get T st)
  /\ (forall o, c = Some o -> st <> 0 /\ pstore o = st /\ (prole o = Voter \/ prole o = Learner)).

Record PInv (T : pmap) (b : bstate) : Prop := {
  pi_cur_s : PSorted (b_cur b);
  pi_add_s : PSorted (b_add b);
  pi_rem_s : PSorted (b_remove b);
  pi_pro_s : PSorted (b_promote b);
  pi_dem_s : PSorted (b_demote b);
  pi_at : forall st, PIat T (look b st) st
}.

(* ---------- the simulation ---------- *)
Record Sim (g : goal) (r0 : region) (b : bstate) (r : region) : Prop := {
  sim_pc : forall rest, plan_check g r0 (b_steps b ++ rest) = plan_check g r rest;
  sim_inv : Inv g r;
  sim_nj : NJ (peers r);
  sim_cur : forall st, lk (peers r) st = pm_get (b_cur b) st;
  sim_leader : leader r = b_cur_leader b;
  sim_ids : NoDup (map pid (peers r) ++ map pid (b_add b))
}.

Lemma sim_step g r0 b r b' r' ss :
  Sim g r0 b r -> b_steps b' = b_steps b ++ ss ->
  (forall rest, plan_check g r (ss ++ rest) = plan_check g r' rest) ->
  forall rest, plan_check g r0 (b_steps b' ++ rest) = plan_check g r' rest.
Proof. intros S E H rest. rewrite E, <- app_assoc, (sim_pc _ _ _ _ S). apply H. Qed.

(* ---------- lookups after the exec* calls ---------- *)
Lemma get_set m p st : pm_get (pm_set m p) st = if st =? pstore p then Some p else pm_get m st.
Proof. rewrite pm_get_set, (Z.eqb_sym (pstore p) st). reflexivity. Qed.

Lemma get_del m s st : PSorted m -> pm_get (pm_del m s) st = if st =? s then None else pm_get m st.
Proof. intros H. apply pm_get_del. apply PSorted_ND. exact H. Qed.

(* ---------- peer ids ---------- *)
Lemma perm_del (m : pmap) a : ND m -> In a m -> Permutation m (a :: pm_del m (pstore a)).
Proof.
  unfold ND, pm_del. induction m as [|q r IH]; intros Hnd Hin; [contradiction|].
  cbn [map] in Hnd. inversion Hnd as [|x0 l0 Hn Hd]; subst x0 l0. cbn [filter].
  destruct Hin as [->|Hin].
  - unfold on_store at 1. rewrite Z.eqb_refl. cbn [negb].
    change (filter (fun q => negb (on_store (pstore a) q)) r) with (remove_store r (pstore a)).
    rewrite remove_absent by exact Hn. apply Permutation_refl.
  - destruct (on_store (pstore a) q) eqn:E.
    + apply on_store_true in E. exfalso. apply Hn. rewrite E. apply in_map. exact Hin.
    + cbn [negb]. eapply Permutation_trans; [apply perm_skip; apply IH; assumption|apply perm_swap].
Qed.

Lemma ids_move (l : list peer) (m : pmap) a x :
  ND m -> In a m -> pid x = pid a ->
  NoDup (map pid l ++ map pid m) -> NoDup (map pid (l ++ [x]) ++ map pid (pm_del m (pstore a))).
Proof.
  intros Hnd Hin Hid H. eapply Permutation_NoDup; [|exact H].
  rewrite map_app. cbn [map]. rewrite <- app_assoc. apply Permutation_app_head.
  cbn [app]. rewrite Hid. change (pid a :: map pid (pm_del m (pstore a))) with (map pid (a :: pm_del m (pstore a))).
  apply Permutation_map. apply perm_del; assumption.
Qed.

Lemma map_pid_replace ps st old p :
  ND ps -> lk ps st = Some old -> pid p = pid old -> map pid (replace_peer ps st p) = map pid ps.
Proof.
  intros Hnd Hl Hid. unfold replace_peer. rewrite map_map. apply map_ext_in. intros q Hq.
  destruct (on_store st q) eqn:E; [|reflexivity]. apply on_store_true in E.
  pose proof (lk_In _ _ Hnd Hq) as L. rewrite E, Hl in L. inversion L; subst. exact Hid.
Qed.

Lemma nodup_app_sub {A} (l l' m : list A) : (forall x, In x l' -> In x l) -> NoDup l' -> NoDup (l ++ m) -> NoDup (l' ++ m).
Proof.
  intros Hsub Hl' H. induction l' as [|x r IH]; cbn [app].
  - induction l as [|y l IHl]; [exact H|]. apply IHl; [intros ? []|]. cbn [app] in H. inversion H; assumption.
  - inversion Hl' as [|x0 l0 Hn Hd]; subst x0 l0. constructor.
    + intros C. apply in_app_or in C as [C|C]; [contradiction|].
      assert (Hx : In x l) by (apply Hsub; left; reflexivity).
      clear - H Hx C. induction l as [|y l IHl]; [contradiction|]. cbn [app] in H. inversion H as [|y0 l0 Hn' Hd']; subst y0 l0.
      destruct Hx as [->|Hx]; [apply Hn'; apply in_or_app; right; exact C|apply IHl; assumption].
    + apply IH; [intros y Hy; apply Hsub; right; exact Hy|exact Hd].
Qed.

Lemma nodup_map_filter {A B} (f : A -> B) g (l : list A) : NoDup (map f l) -> NoDup (map f (filter g l)).
Proof.
  induction l as [|x r IH]; intros H; cbn [filter map]; [constructor|].
  cbn [map] in H. inversion H as [|x0 l0 Hn Hd]; subst x0 l0. destruct (g x); cbn [map]; [|apply IH; exact Hd].
  constructor; [|apply IH; exact Hd]. intros C. apply Hn. apply in_map_iff in C as (y & Hy & Hin).
  apply filter_In in Hin as [Hin _]. apply in_map_iff. eauto.
Qed.

Lemma nodup_app_l {A} (l m : list A) : NoDup (l ++ m) -> NoDup l.
Proof.
  induction l as [|x r IH]; intros H; [constructor|]. cbn [app] in H. inversion H as [|x0 l0 Hn Hd]; subst x0 l0.
  constructor; [intros C; apply Hn; apply in_or_app; left; exact C|apply IH; exact Hd].
Qed.

(* ---------- the exec* calls ---------- *)
Section Steps.
  Variables (T : pmap) (g : goal) (r0 : region).

  Lemma PInv_same b b' :
    b_cur b' = b_cur b -> b_add b' = b_add b -> b_remove b' = b_remove b -> b_promote b' = b_promote b -> b_demote b' = b_demote b ->
    PInv T b -> PInv T b'.
  Proof.
    intros E1 E2 E3 E4 E5 [A B C D E F]. constructor; try congruence.
    intros st. unfold look. rewrite E1, E2, E3, E4, E5. apply F.
  Qed.

  Lemma step_transfer b r to q :
    Sim g r0 b r -> PInv T b -> pm_get (b_cur b) to = Some q -> prole q = Voter -> to <> b_cur_leader b ->
    Sim g r0 (exec_transfer b to) (set_leader r to) /\ PInv T (exec_transfer b to).
  Proof.
    intros S P Hq Hro Hne. split; [|eapply PInv_same; [..|exact P]; reflexivity].
    destruct S as [S1 S2 S3 S4 S5 S6].
    assert (Hlk : lk (peers r) to = Some q) by (rewrite S4; exact Hq).
    assert (Hl : leader r <> to) by (rewrite S5; auto).
    destruct (pc_transfer g r (b_cur_leader b) to [] q S2 Hlk (or_introl Hro) Hl) as [_ I'].
    constructor; try assumption.
    - intros rest. cbn [b_steps exec_transfer upd_exec]. rewrite <- app_assoc, S1. cbn [app].
      destruct (pc_transfer g r (b_cur_leader b) to rest q S2 Hlk (or_introl Hro) Hl) as [E _]. exact E.
    - reflexivity.
  Qed.

  Lemma lk_snoc ps x s : lk (ps ++ [x]) s = match lk ps s with Some q => Some q | None => if pstore x =? s then Some x else None end.
  Proof. rewrite lk_app. destruct (lk ps s); [reflexivity|]. unfold lk; cbn. unfold on_store. reflexivity. Qed.

  Lemma step_add b r a :
    Sim g r0 b r -> PInv T b -> pm_get (b_add b) (pstore a) = Some a -> pm_get (b_cur b) (pstore a) = None ->
    exists r', Sim g r0 (exec_add b a) r' /\ PInv T (exec_add b a)
               /\ voters_new (peers r') = voters_new (peers r) + b2z (negb (is_learner a)) /\ leader r' = leader r.
  Proof.
    intros S P Ha Hc. destruct S as [S1 S2 S3 S4 S5 S6]. destruct P as [P1 P2 P3 P4 P5 P6].
    set (st := pstore a) in *. set (id := pid a).
    pose proof (P6 st) as Q. unfold look, PIat in Q. rewrite Hc, Ha in Q.
    destruct Q as (Qp & Qd & Qr & Qa & Qf & Qc).
    destruct (Qa a eq_refl) as (_ & Hnz & Hro & Hp0 & Hd0 & _).
    assert (Hr0 : pm_get (b_remove b) st = None).
    { destruct (pm_get (b_remove b) st) as [x|] eqn:E; [|reflexivity]. destruct (Qr x eq_refl) as (C & _). discriminate. }
    assert (Hlk : lk (peers r) st = None) by (rewrite S4; exact Hc).
    assert (Hin : In a (b_add b)) by (apply (lk_Some _ _ _ Ha)).
    (* phase 1: the learner *)
    destruct (pc_add_learner g r (b_light b) st id [] S2 S3 Hlk) as (_ & I1 & N1).
    set (r1 := set_peers r (peers r ++ [Peer st id Learner]) 1) in *.
    assert (Hlk1 : forall s, lk (peers r1) s = if s =? st then Some (Peer st id Learner) else lk (peers r) s).
    { intros s. unfold r1; cbn [peers set_peers]. rewrite lk_snoc. cbn [pstore]. rewrite (Z.eqb_sym st s).
      destruct (s =? st) eqn:E; [apply Z.eqb_eq in E; subst s; rewrite Hlk; reflexivity|destruct (lk (peers r) s); reflexivity]. }
    assert (Hv1 : voters_new (peers r1) = voters_new (peers r)).
    { unfold r1, voters_new; cbn [peers set_peers]. rewrite countb_app. unfold countb at 2; cbn. lia. }
    assert (Hids1 : NoDup (map pid (peers r1) ++ map pid (pm_del (b_add b) st))).
    { unfold r1; cbn [peers set_peers]. apply ids_move; [apply PSorted_ND; exact P2|exact Hin|reflexivity|exact S6]. }
    assert (Hsorted : PSorted (pm_set (b_cur b) a) /\ PSorted (pm_del (b_add b) st)) by (split; [apply pm_set_sorted|apply pm_del_sorted']; assumption).
    (* the invariant of the pending maps *)
    assert (PI' : PInv T (exec_add b a)).
    { constructor; cbn [exec_add upd_exec b_cur b_add b_remove b_promote b_demote]; try tauto.
      intros s. unfold look. cbn [exec_add upd_exec b_cur b_add b_remove b_promote b_demote].
      rewrite get_set, (get_del _ _ _ P2). fold st. destruct (s =? st) eqn:E.
      - apply Z.eqb_eq in E. subst s. rewrite Hr0, Hp0, Hd0. unfold PIat.
        split; [|split; [|split; [|split; [|split]]]]; try (intros ? C; discriminate C).
        + rewrite <- Qf. reflexivity.
        + intros o C. inversion C; subst o. repeat split; auto.
      - apply (P6 s). }
    destruct (is_learner a) eqn:El.
    - (* a learner: one step *)
      assert (Ea : a = Peer st id Learner).
      { rewrite <- (peer_eta' a). fold st id. f_equal. apply is_learner_role. exact El. }
      exists r1. split; [|split; [exact PI'|split; [rewrite Hv1; cbn; lia|reflexivity]]].
      constructor; [ | exact I1 | exact N1 | | exact S5 | exact Hids1].
      + intros rest. cbn [b_steps exec_add upd_exec]. rewrite El. rewrite <- app_assoc, S1. cbn [app].
        destruct (pc_add_learner g r (b_light b) st id rest S2 S3 Hlk) as (E & _).
        unfold add_step in E. fold st id. exact E.
      + intros s. cbn [exec_add upd_exec b_cur]. rewrite get_set, Hlk1. fold st. rewrite <- Ea.
        destruct (s =? st); [reflexivity|apply S4].
    - (* a voter: learner first, then promoted *)
      assert (Ea : a = Peer st id Voter).
      { rewrite <- (peer_eta' a). fold st id. f_equal. destruct Hro as [R|R]; [exact R|]. apply is_learner_role in R. congruence. }
      assert (Hl1 : lk (peers r1) st = Some (Peer st id Learner)) by (rewrite Hlk1, Z.eqb_refl; reflexivity).
      destruct (pc_promote g r1 st id [] I1 N1 Hl1) as (_ & I2 & N2 & V2).
      set (r2 := set_peers r1 (replace_peer (peers r1) st (Peer st id Voter)) 1) in *.
      exists r2. split; [|split; [exact PI'|split; [rewrite V2, Hv1; cbn; lia|reflexivity]]].
      constructor; [ | exact I2 | exact N2 | | exact S5 | ].
      + intros rest. cbn [b_steps exec_add upd_exec]. rewrite El. rewrite <- app_assoc, S1. cbn [app].
        destruct (pc_add_learner g r (b_light b) st id (PromoteLearner st id :: rest) S2 S3 Hlk) as (E & _).
        unfold add_step in E. fold st id. rewrite E. fold r1.
        destruct (pc_promote g r1 st id rest I1 N1 Hl1) as (E2 & _). exact E2.
      + intros s. cbn [exec_add upd_exec b_cur]. rewrite get_set. fold st. unfold r2; cbn [peers set_peers].
        rewrite lk_replace by reflexivity. rewrite Hl1, <- Ea. destruct (s =? st) eqn:E; [reflexivity|].
        rewrite Hlk1, E. apply S4.
      + cbn [exec_add upd_exec b_add]. unfold r2; cbn [peers set_peers].
        rewrite (map_pid_replace _ _ (Peer st id Learner)); [exact Hids1|apply (inv_nd _ _ I1)|exact Hl1|reflexivity].
  Qed.

  Lemma leader_nonzero b r : Sim g r0 b r -> PInv T b -> leader r <> 0.
  Proof.
    intros S P. destruct (inv_leader _ _ (sim_inv _ _ _ _ S)) as (p & Hp & _). rewrite (sim_cur _ _ _ _ S) in Hp.
    pose proof (pi_at _ _ P (leader r)) as Q. unfold look, PIat in Q. rewrite Hp in Q.
    destruct Q as (_ & _ & _ & _ & _ & Qc). destruct (Qc p eq_refl) as (N & _). exact N.
  Qed.

  Lemma step_promote b r n :
    Sim g r0 b r -> PInv T b -> pm_get (b_promote b) (pstore n) = Some n ->
    exists r', Sim g r0 (exec_promote b n) r' /\ PInv T (exec_promote b n)
               /\ voters_new (peers r') = voters_new (peers r) + 1 /\ leader r' = leader r.
  Proof.
    intros S P Hn. destruct S as [S1 S2 S3 S4 S5 S6]. destruct P as [P1 P2 P3 P4 P5 P6].
    set (st := pstore n) in *.
    pose proof (P6 st) as Q. unfold look, PIat in Q. rewrite Hn in Q.
    destruct Q as (Qp & Qd & Qr & Qa & Qf & Qc).
    destruct (Qp n eq_refl) as (o & Ho & Hro & En). rewrite Ho in *.
    destruct (Qc o eq_refl) as (Hnz & Hso & _).
    assert (Ha0 : pm_get (b_add b) st = None).
    { destruct (pm_get (b_add b) st) as [x|] eqn:E; [|reflexivity]. destruct (Qa x eq_refl) as (_ & _ & _ & C & _). discriminate. }
    assert (Hr0 : pm_get (b_remove b) st = None).
    { destruct (pm_get (b_remove b) st) as [x|] eqn:E; [|reflexivity]. destruct (Qr x eq_refl) as (_ & C & _). discriminate. }
    assert (Hd0 : pm_get (b_demote b) st = None).
    { destruct (pm_get (b_demote b) st) as [x|] eqn:E; [|reflexivity]. destruct (Qd x eq_refl) as (o' & Ho' & Hro' & _).
      inversion Ho'; subst o'. congruence. }
    set (id := pid o) in *.
    assert (Eo : o = Peer st id Learner) by (rewrite <- (peer_eta' o); fold id; rewrite Hso, Hro; reflexivity).
    assert (Hlk : lk (peers r) st = Some (Peer st id Learner)) by (rewrite S4, Ho, Eo; reflexivity).
    assert (Hidn : pid n = id) by (rewrite En; reflexivity).
    destruct (pc_promote g r st id [] S2 S3 Hlk) as (_ & I' & N' & V').
    set (r' := set_peers r (replace_peer (peers r) st (Peer st id Voter)) 1) in *.
    exists r'. split; [|split; [|split; [exact V'|reflexivity]]].
    - constructor; [ | exact I' | exact N' | | exact S5 | ].
      + intros rest. cbn [b_steps exec_promote upd_exec]. rewrite <- app_assoc, S1. cbn [app]. fold st. rewrite Hidn.
        destruct (pc_promote g r st id rest S2 S3 Hlk) as (E & _). exact E.
      + intros s. cbn [exec_promote upd_exec b_cur]. rewrite get_set. fold st. unfold r'; cbn [peers set_peers].
        rewrite lk_replace by reflexivity. rewrite Hlk, En. fold id. destruct (s =? st); [reflexivity|apply S4].
      + cbn [exec_promote upd_exec b_add]. unfold r'; cbn [peers set_peers].
        rewrite (map_pid_replace _ _ (Peer st id Learner)); [exact S6|apply (inv_nd _ _ S2)|exact Hlk|reflexivity].
    - constructor; cbn [exec_promote upd_exec b_cur b_add b_remove b_promote b_demote]; try assumption;
        [apply pm_set_sorted; exact P1|apply pm_del_sorted'; exact P4|].
      intros s. unfold look. cbn [exec_promote upd_exec b_cur b_add b_remove b_promote b_demote].
      rewrite get_set, (get_del _ _ _ P4). fold st. destruct (s =? st) eqn:E.
      + apply Z.eqb_eq in E. subst s. rewrite Ha0, Hr0, Hd0. rewrite Ha0, Hr0 in Qf. unfold PIat.
        split; [|split; [|split; [|split; [|split]]]]; try (intros ? C; discriminate C).
        * rewrite <- Qf. cbn. rewrite En. reflexivity.
        * intros o' C. inversion C; subst o'. rewrite En. cbn. repeat split; auto.
      + apply (P6 s).
  Qed.

  Lemma step_demote b r n :
    Sim g r0 b r -> PInv T b -> pm_get (b_demote b) (pstore n) = Some n -> leader r <> pstore n ->
    g_min_voters g + 1 <= voters_new (peers r) ->
    exists r', Sim g r0 (exec_demote b n) r' /\ PInv T (exec_demote b n)
               /\ voters_new (peers r') = voters_new (peers r) - 1 /\ leader r' = leader r.
  Proof.
    intros S P Hn Hne Hmin. pose proof (leader_nonzero b r S P) as Hl0.
    destruct S as [S1 S2 S3 S4 S5 S6]. destruct P as [P1 P2 P3 P4 P5 P6].
    set (st := pstore n) in *.
    pose proof (P6 st) as Q. unfold look, PIat in Q. rewrite Hn in Q.
    destruct Q as (Qp & Qd & Qr & Qa & Qf & Qc).
    destruct (Qd n eq_refl) as (o & Ho & Hro & En). rewrite Ho in *.
    destruct (Qc o eq_refl) as (Hnz & Hso & _).
    assert (Ha0 : pm_get (b_add b) st = None).
    { destruct (pm_get (b_add b) st) as [x|] eqn:E; [|reflexivity]. destruct (Qa x eq_refl) as (_ & _ & _ & _ & C & _). discriminate. }
    assert (Hr0 : pm_get (b_remove b) st = None).
    { destruct (pm_get (b_remove b) st) as [x|] eqn:E; [|reflexivity]. destruct (Qr x eq_refl) as (_ & _ & C). discriminate. }
    assert (Hp0 : pm_get (b_promote b) st = None).
    { destruct (pm_get (b_promote b) st) as [x|] eqn:E; [|reflexivity]. destruct (Qp x eq_refl) as (o' & Ho' & Hro' & _).
      inversion Ho'; subst o'. congruence. }
    set (id := pid o) in *.
    assert (Eo : o = Peer st id Voter) by (rewrite <- (peer_eta' o); fold id; rewrite Hso, Hro; reflexivity).
    assert (Hlk : lk (peers r) st = Some (Peer st id Voter)) by (rewrite S4, Ho, Eo; reflexivity).
    assert (Hidn : pid n = id) by (rewrite En; reflexivity).
    assert (Hids : NoDup (map pid (peers r))) by (apply (nodup_app_l _ _ S6)).
    destruct (pc_demote g r st id [] S2 S3 Hids Hl0 Hlk Hne Hmin) as (_ & I' & N' & V').
    set (r' := set_peers r (replace_peer (peers r) st (Peer st id Learner)) 1) in *.
    exists r'. split; [|split; [|split; [exact V'|reflexivity]]].
    - constructor; [ | exact I' | exact N' | | exact S5 | ].
      + intros rest. cbn [b_steps exec_demote upd_exec]. rewrite <- app_assoc, S1. cbn [app]. fold st. rewrite Hidn.
        destruct (pc_demote g r st id rest S2 S3 Hids Hl0 Hlk Hne Hmin) as (E & _). exact E.
      + intros s. cbn [exec_demote upd_exec b_cur]. rewrite get_set. fold st. unfold r'; cbn [peers set_peers].
        rewrite lk_replace by reflexivity. rewrite Hlk, En. fold id. destruct (s =? st); [reflexivity|apply S4].
      + cbn [exec_demote upd_exec b_add]. unfold r'; cbn [peers set_peers].
        rewrite (map_pid_replace _ _ (Peer st id Voter)); [exact S6|apply (inv_nd _ _ S2)|exact Hlk|reflexivity].
    - constructor; cbn [exec_demote upd_exec b_cur b_add b_remove b_promote b_demote]; try assumption;
        [apply pm_set_sorted; exact P1|apply pm_del_sorted'; exact P5|].
      intros s. unfold look. cbn [exec_demote upd_exec b_cur b_add b_remove b_promote b_demote].
      rewrite get_set, (get_del _ _ _ P5). fold st. destruct (s =? st) eqn:E.
      + apply Z.eqb_eq in E. subst s. rewrite Ha0, Hr0, Hp0. rewrite Ha0, Hr0, Hp0 in Qf. unfold PIat.
        split; [|split; [|split; [|split; [|split]]]]; try (intros ? C; discriminate C).
        * rewrite <- Qf. cbn. rewrite En. reflexivity.
        * intros o' C. inversion C; subst o'. rewrite En. cbn. repeat split; auto.
      + apply (P6 s).
  Qed.

  Lemma step_remove b r x :
    Sim g r0 b r -> PInv T b -> pm_get (b_remove b) (pstore x) = Some x -> leader r <> pstore x ->
    g_min_voters g + b2z (new_voter x) <= voters_new (peers r) ->
    exists r', Sim g r0 (exec_remove b x) r' /\ PInv T (exec_remove b x)
               /\ voters_new (peers r') = voters_new (peers r) - b2z (new_voter x) /\ leader r' = leader r.
  Proof.
    intros S P Hx Hne Hmin.
    destruct S as [S1 S2 S3 S4 S5 S6]. destruct P as [P1 P2 P3 P4 P5 P6].
    set (st := pstore x) in *.
    pose proof (P6 st) as Q. unfold look, PIat in Q. rewrite Hx in Q.
    destruct Q as (Qp & Qd & Qr & Qa & Qf & Qc).
    destruct (Qr x eq_refl) as (Hc & Hp0 & Hd0). rewrite Hc, Hp0, Hd0 in *.
    set (id := pid x). set (ro := prole x).
    assert (Ex : x = Peer st id ro) by (rewrite <- (peer_eta' x); reflexivity).
    assert (Hlk : lk (peers r) st = Some (Peer st id ro)) by (rewrite S4, Hc, <- Ex; reflexivity).
    assert (Hmin' : g_min_voters g + b2z (new_voter (Peer st id ro)) <= voters_new (peers r)) by (rewrite <- Ex; exact Hmin).
    destruct (pc_remove g r st id ro [] S2 S3 Hlk Hne Hmin') as (_ & I' & N' & V').
    set (r' := set_peers r (remove_store (peers r) st) 1) in *.
    exists r'. split; [|split; [|split; [rewrite V', <- Ex; reflexivity|reflexivity]]].
    - constructor; [ | exact I' | exact N' | | exact S5 | ].
      + intros rest. cbn [b_steps exec_remove upd_exec]. rewrite <- app_assoc, S1. cbn [app]. fold st id.
        destruct (pc_remove g r st id ro rest S2 S3 Hlk Hne Hmin') as (E & _). exact E.
      + intros s. cbn [exec_remove upd_exec b_cur]. rewrite (get_del _ _ _ P1). fold st. unfold r'; cbn [peers set_peers].
        rewrite lk_remove_store by (apply (inv_nd _ _ S2)). destruct (s =? st); [reflexivity|apply S4].
      + cbn [exec_remove upd_exec b_add]. unfold r'; cbn [peers set_peers].
        eapply nodup_app_sub; [| |exact S6].
        * intros y Hy. apply in_map_iff in Hy as (q & <- & Hq). unfold remove_store in Hq. apply filter_In in Hq as [Hq _]. apply in_map. exact Hq.
        * unfold remove_store. apply nodup_map_filter. apply (nodup_app_l _ _ S6).
    - constructor; cbn [exec_remove upd_exec b_cur b_add b_remove b_promote b_demote]; try assumption;
        [apply pm_del_sorted'; exact P1|apply pm_del_sorted'; exact P3|].
      intros s. unfold look. cbn [exec_remove upd_exec b_cur b_add b_remove b_promote b_demote].
      rewrite (get_del _ _ _ P1), (get_del _ _ _ P3). fold st. destruct (s =? st) eqn:E.
      + apply Z.eqb_eq in E. subst s. rewrite Hp0, Hd0. unfold PIat.
        split; [|split; [|split; [|split; [|split]]]]; try (intros ? C; discriminate C).
        * intros a Ea. destruct (Qa a Ea) as (A1 & A2 & A3 & A4 & A5 & _). repeat split; auto.
        * rewrite <- Qf. cbn. destruct (pm_get (b_add b) st); reflexivity.
      + apply (P6 s).
  Qed.
End Steps.
