(* C05 proofs: ordering of Global and Local timestamps under the (serialized) Global TSO protocol,
   differentiation, suffix bits, suffix assignment. *)
From Coq Require Import ZArith List Bool Lia.
From PDV Require Import lib.Base gen.Gen_C05 model.C05_TsoGlobal.
Import ListNotations.
Local Open Scope Z_scope.
Arguments Nat.ltb : simpl never.
Arguments Z.shiftl : simpl never.

Definition tlt (a b : ts) : Prop := fst a < fst b \/ (fst a = fst b /\ snd a < snd b).
Definition tle (a b : ts) : Prop := fst a < fst b \/ (fst a = fst b /\ snd a <= snd b).

Lemma ts_ltb_spec a b : ts_ltb a b = true <-> tlt a b.
Proof. unfold ts_ltb, tlt. rewrite orb_true_iff, andb_true_iff, !Z.ltb_lt, Z.eqb_eq. tauto. Qed.
Lemma ts_leb_spec a b : ts_leb a b = true <-> tle a b.
Proof. unfold ts_leb, tle. rewrite orb_true_iff, andb_true_iff, Z.ltb_lt, Z.leb_le, Z.eqb_eq. tauto. Qed.
Lemma ts_ltb_false a b : ts_ltb a b = false <-> tle b a.
Proof.
  destruct (ts_ltb a b) eqn:E.
  - apply ts_ltb_spec in E. unfold tlt, tle in *. split; [discriminate|lia].
  - split; [intros _|reflexivity]. assert (H : ~ tlt a b) by (intros H; apply ts_ltb_spec in H; congruence).
    unfold tlt, tle in *. lia.
Qed.
Lemma ts_leb_false a b : ts_leb a b = false <-> tlt b a.
Proof.
  destruct (ts_leb a b) eqn:E.
  - apply ts_leb_spec in E. unfold tlt, tle in *. split; [discriminate|lia].
  - split; [intros _|reflexivity]. assert (H : ~ tle a b) by (intros H; apply ts_leb_spec in H; congruence).
    unfold tlt, tle in *. lia.
Qed.
Lemma ts_eqb_spec a b : ts_eqb a b = true <-> a = b.
Proof.
  unfold ts_eqb. rewrite andb_true_iff, !Z.eqb_eq. destruct a, b; cbn. split; [intros [-> ->]; reflexivity|intros H; inversion H; auto].
Qed.

Ltac ord := unfold tlt, tle in *; cbn [fst snd] in *; lia.

Lemma tle_refl a : tle a a. Proof. ord. Qed.
Lemma tle_trans a b c : tle a b -> tle b c -> tle a c. Proof. ord. Qed.
Lemma tlt_le_trans a b c : tlt a b -> tle b c -> tlt a c. Proof. ord. Qed.
Lemma tle_lt_trans a b c : tle a b -> tlt b c -> tlt a c. Proof. ord. Qed.
Lemma tlt_tle a b : tlt a b -> tle a b. Proof. ord. Qed.

Lemma ts_max_ge_l a b : tle a (ts_max a b).
Proof. unfold ts_max. destruct (ts_ltb a b) eqn:E; [apply ts_ltb_spec in E; ord|apply tle_refl]. Qed.
Lemma ts_max_ge_r a b : tle b (ts_max a b).
Proof. unfold ts_max. destruct (ts_ltb a b) eqn:E; [apply tle_refl|apply ts_ltb_false in E; exact E]. Qed.
Lemma tick_ge m p : tle m (tick m p).
Proof. unfold tick. destruct (fst m <? p) eqn:E; [apply Z.ltb_lt in E; ord|apply tle_refl]. Qed.
Lemma write_ge_m m v : tle m (write_ts m v).
Proof. unfold write_ts. destruct (ts_leb v m) eqn:E; [apply tle_refl|apply ts_leb_false in E; ord]. Qed.
Lemma write_ge_v m v : tle v (write_ts m v).
Proof. unfold write_ts. destruct (ts_leb v m) eqn:E; [apply ts_leb_spec in E; exact E|apply tle_refl]. Qed.

Definition val (g : grant) : ts := (gP g, gL g).
Definition first (g : grant) : ts := (gP g, gL g - gcount g + 1).
Definition rfirst (r : greq) : ts := (fst (maxts r), snd (maxts r) - cnt r + 1).
Definition efirst (r : greq) : ts := (fst (est r), snd (est r) - cnt r + 1).

Definition early_le (s : state) (r : greq) (v : ts) : Prop :=
  forall l d, In l (grants s) -> gwho l = WLocal d -> (gte l < gbegin r)%nat -> tle (val l) v.
Definition early_lt (s : state) (r : greq) (v : ts) : Prop :=
  forall l d, In l (grants s) -> gwho l = WLocal d -> (gte l < gbegin r)%nat -> tlt (val l) v.
Definition globals_lt (s : state) (v : ts) : Prop :=
  forall g, In g (grants s) -> gwho g = WGlobal -> tlt (val g) v.
Definition all_locals_ge (s : state) (v : ts) : Prop := forall d, (d < nloc s)%nat -> tle v (lmem s d).

Definition phase_inv (s : state) (r : greq) : Prop :=
  match ph r with
  | PCheck pass todo acc =>
      (pass < 2)%nat /\
      (exists done, locals s = done ++ todo /\
         (done <> [] -> exists a, acc = Some a) /\
         (forall d l a, In d done -> In l (grants s) -> gwho l = WLocal d -> (gte l < gbegin r)%nat -> acc = Some a -> tle (val l) a) /\
         (pass = 1%nat -> maxts r = est r -> forall d a, In d done -> acc = Some a -> tle (est r) a)) /\
      (pass = 1%nat -> early_le s r (maxts r)) /\
      (pass = 1%nat -> tlt (est r) (maxts r) \/ (maxts r = est r /\ all_locals_ge s (est r))) /\
      (pass = 0%nat -> maxts r = est r) /\
      globals_lt s (efirst r)
  | PCheckW pass todo =>
      (pass < 2)%nat /\
      (exists done, locals s = done ++ todo /\
         (tlt (est r) (maxts r) \/ (pass = 0%nat /\ maxts r = est r /\ forall d, In d done -> tle (est r) (lmem s d)))) /\
      early_le s r (maxts r) /\
      globals_lt s (efirst r)
  | PSet pass todo =>
      (pass < 2)%nat /\
      (exists done, locals s = done ++ todo /\ forall d, In d done -> tle (maxts r) (lmem s d)) /\
      (pass = 1%nat -> all_locals_ge s (maxts r)) /\
      early_lt s r (rfirst r) /\ globals_lt s (rfirst r)
  | PPersist =>
      all_locals_ge s (maxts r) /\ early_lt s r (rfirst r) /\ globals_lt s (rfirst r)
  | PDone =>
      all_locals_ge s (maxts r) /\ tle (maxts r) (gmem s) /\ early_lt s r (rfirst r) /\ globals_lt s (rfirst r)
  end.

Record Inv (s : state) : Prop := {
  v_loc  : forall l d, In l (grants s) -> gwho l = WLocal d ->
             (d < nloc s)%nat /\ tle (val l) (lmem s d) /\ 0 < gcount l;
  v_glob : forall g, In g (grants s) -> gwho g = WGlobal ->
             tle (val g) (gmem s) /\ all_locals_ge s (val g) /\ 0 < gcount g;
  v_c1   : forall g l d, In g (grants s) -> In l (grants s) -> gwho g = WGlobal -> gwho l = WLocal d ->
             (gte l < gtb g)%nat -> tlt (val l) (first g);
  v_c2   : forall g l d, In g (grants s) -> In l (grants s) -> gwho g = WGlobal -> gwho l = WLocal d ->
             (gte g < gtb l)%nat -> tlt (val g) (first l);
  v_c3   : forall g1 g2, In g1 (grants s) -> In g2 (grants s) -> gwho g1 = WGlobal -> gwho g2 = WGlobal ->
             (gte g1 < gtb g2)%nat -> tlt (val g1) (first g2);
  v_clk  : forall g, In g (grants s) -> (gtb g <= gte g)%nat /\ (gte g < clock s)%nat;
  v_req  : forall r, req s = Some r ->
             0 < cnt r /\ (gbegin r < clock s)%nat /\ tle (est r) (maxts r) /\ tle (efirst r) (est r) /\ phase_inv s r
}.

Lemma passes_two : sync_passes = 2%nat. Proof. reflexivity. Qed.

Ltac inj :=
  repeat match goal with
  | H : Some _ = Some _ |- _ => inversion H; subst; clear H
  | H : None = Some _ |- _ => discriminate H
  | H : Some _ = None |- _ => discriminate H
  end.

Lemma in_locals s d : In d (locals s) <-> (d < nloc s)%nat.
Proof. unfold locals. rewrite in_seq. lia. Qed.

(* frame: memories only grow, new grants are local and not early *)
Lemma phase_inv_mono s s' r :
  phase_inv s r -> nloc s' = nloc s ->
  (forall d, tle (lmem s d) (lmem s' d)) -> tle (gmem s) (gmem s') ->
  (forall g, In g (grants s') -> In g (grants s) \/ (exists d, gwho g = WLocal d /\ ~ (gte g < gbegin r)%nat)) ->
  phase_inv s' r.
Proof.
  intros H Hn Hl Hg Hgr. unfold phase_inv in *.
  assert (Hloc : locals s' = locals s) by (unfold locals; rewrite Hn; reflexivity).
  assert (Hall : forall v, all_locals_ge s v -> all_locals_ge s' v).
  { intros v Hv d Hd. rewrite Hn in Hd. eapply tle_trans; [apply Hv; exact Hd|apply Hl]. }
  assert (Hel : forall v, early_le s r v -> early_le s' r v).
  { intros v Hv l d Hin Hw He. destruct (Hgr _ Hin) as [Ho|(d' & _ & Hne)]; [eapply Hv; eauto|contradiction]. }
  assert (Helt : forall v, early_lt s r v -> early_lt s' r v).
  { intros v Hv l d Hin Hw He. destruct (Hgr _ Hin) as [Ho|(d' & _ & Hne)]; [eapply Hv; eauto|contradiction]. }
  assert (Hgl : forall v, globals_lt s v -> globals_lt s' v).
  { intros v Hv g Hin Hw. destruct (Hgr _ Hin) as [Ho|(d' & Hw' & _)]; [eapply Hv; eauto|congruence]. }
  destruct (ph r) as [pass todo acc|pass todo|pass todo| |].
  - destruct H as (Hp & (done & Hd & Ha & Hb & Hc) & He & Hf & Hz & Hgl0). rewrite Hloc.
    split; [exact Hp|]. split; [|split; [|split; [|split; [exact Hz|]]]].
    + exists done. repeat split; auto.
      intros d l a Hdn Hin Hw Hearly Hacc. destruct (Hgr _ Hin) as [Ho|(d' & _ & Hne)]; [eapply Hb; eauto|contradiction].
    + intros E. apply Hel, He, E.
    + intros E. destruct (Hf E) as [Hx|[Hx Hy]]; [left; exact Hx|right; split; [exact Hx|apply Hall, Hy]].
    + apply Hgl, Hgl0.
  - destruct H as (Hp & (done & Hd & Hdis) & He & Hgl0). rewrite Hloc.
    split; [exact Hp|]. split; [|split; [apply Hel, He|apply Hgl, Hgl0]].
    exists done. split; [exact Hd|]. destruct Hdis as [Hx|(Hx & Hy & Hz)]; [left; exact Hx|right; repeat split; auto].
    intros d Hdn. eapply tle_trans; [apply Hz; exact Hdn|apply Hl].
  - destruct H as (Hp & (done & Hd & Hdn) & Ha & He & Hgl0). rewrite Hloc.
    split; [exact Hp|]. split; [|split; [|split; [apply Helt, He|apply Hgl, Hgl0]]].
    + exists done. split; [exact Hd|]. intros d Hin. eapply tle_trans; [apply Hdn; exact Hin|apply Hl].
    + intros E. apply Hall, Ha, E.
  - destruct H as (Ha & He & Hgl0). repeat split; [apply Hall, Ha|apply Helt, He|apply Hgl, Hgl0].
  - destruct H as (Ha & Hm & He & Hgl0). repeat split; [apply Hall, Ha|eapply tle_trans; eauto|apply Helt, He|apply Hgl, Hgl0].
Qed.

(* frame for the whole invariant: memories grow, at most one new local grant stamped with the current clock *)
Lemma inv_mono s gm lm newg :
  Inv s ->
  tle (gmem s) gm -> (forall d, tle (lmem s d) (lm d)) ->
  (forall l, In l newg -> exists d, gwho l = WLocal d /\ (d < nloc s)%nat /\ tle (val l) (lm d) /\ 0 < gcount l /\
                           gtb l = clock s /\ gte l = clock s /\
                           (forall g, In g (grants s) -> gwho g = WGlobal -> tlt (val g) (first l))) ->
  (length newg <= 1)%nat ->
  Inv (State (nloc s) (bits s) gm lm (req s) (newg ++ grants s) (S (clock s))).
Proof.
  intros [VL VG C1 C2 C3 CK RQ] Hg Hl Hnew Hlen.
  assert (Hin : forall g, In g (newg ++ grants s) -> In g newg \/ In g (grants s)) by (intros g; apply in_app_or).
  constructor; cbn.
  - intros l d Hi Hw. destruct (Hin _ Hi) as [Hn|Ho].
    + destruct (Hnew _ Hn) as (d' & Hw' & Hd & Hv & Hc & _). rewrite Hw in Hw'. inversion Hw'; subst d'. auto.
    + destruct (VL _ _ Ho Hw) as (Hd & Hv & Hc). repeat split; auto. eapply tle_trans; eauto.
  - intros g Hi Hw. destruct (Hin _ Hi) as [Hn|Ho].
    + destruct (Hnew _ Hn) as (d' & Hw' & _). congruence.
    + destruct (VG _ Ho Hw) as (Hv & Ha & Hc). repeat split; auto; [eapply tle_trans; eauto|].
      intros d Hd. eapply tle_trans; [apply Ha; exact Hd|apply Hl].
  - intros g l d Hig Hil Hwg Hwl Ht.
    destruct (Hin _ Hig) as [Hn|Hog]; [destruct (Hnew _ Hn) as (d' & Hw' & _); congruence|].
    destruct (Hin _ Hil) as [Hn|Hol]; [|eapply C1; eauto].
    destruct (Hnew _ Hn) as (d' & _ & _ & _ & _ & _ & Hte & _). destruct (CK _ Hog). lia.
  - intros g l d Hig Hil Hwg Hwl Ht.
    destruct (Hin _ Hig) as [Hn|Hog]; [destruct (Hnew _ Hn) as (d' & Hw' & _); congruence|].
    destruct (Hin _ Hil) as [Hn|Hol]; [|eapply C2; eauto].
    destruct (Hnew _ Hn) as (d' & _ & _ & _ & _ & _ & _ & Hfl). apply Hfl; auto.
  - intros g1 g2 H1 H2 Hw1 Hw2 Ht.
    destruct (Hin _ H1) as [Hn|Ho1]; [destruct (Hnew _ Hn) as (d' & Hw' & _); congruence|].
    destruct (Hin _ H2) as [Hn|Ho2]; [destruct (Hnew _ Hn) as (d' & Hw' & _); congruence|].
    eapply C3; eauto.
  - intros g Hi. destruct (Hin _ Hi) as [Hn|Ho].
    + destruct (Hnew _ Hn) as (d' & _ & _ & _ & _ & Htb & Hte & _). lia.
    + destruct (CK _ Ho). lia.
  - intros r Hr. destruct (RQ _ Hr) as (Hc & Hb & He & Hef & Hp).
    split; [exact Hc|]. split; [lia|]. split; [exact He|]. split; [exact Hef|].
    eapply (phase_inv_mono s); eauto; cbn; auto.
    intros g Hi. destruct (Hin _ Hi) as [Hn|Ho]; [right|left; exact Ho].
    destruct (Hnew _ Hn) as (d' & Hw' & _ & _ & _ & _ & Hte & _). exists d'. split; [exact Hw'|lia].
Qed.

Lemma state_eta_req s r :
  set_req s r = State (nloc s) (bits s) (gmem s) (lmem s) r (grants s) (clock s).
Proof. reflexivity. Qed.

(* a step that only changes the request (and bumps the clock) *)
Lemma inv_set_req s r' :
  Inv s ->
  (0 < cnt r' /\ (gbegin r' < S (clock s))%nat /\ tle (est r') (maxts r') /\ tle (efirst r') (est r') /\
   phase_inv (State (nloc s) (bits s) (gmem s) (lmem s) (Some r') (grants s) (S (clock s))) r') ->
  Inv (State (nloc s) (bits s) (gmem s) (lmem s) (Some r') (grants s) (S (clock s))).
Proof.
  intros [VL VG C1 C2 C3 CK RQ] H. constructor; cbn; auto.
  - intros g Hi. destruct (CK _ Hi). lia.
  - intros r Hr. inj. exact H.
Qed.

(* phase_inv only looks at nloc, memories, grants: not at the request field or the clock *)
Lemma phase_inv_irrel s s' r :
  nloc s' = nloc s -> gmem s' = gmem s -> lmem s' = lmem s -> grants s' = grants s ->
  phase_inv s r -> phase_inv s' r.
Proof.
  intros H1 H2 H3 H4 H. eapply (phase_inv_mono s); eauto.
  - intros d. rewrite H3. apply tle_refl.
  - rewrite H2. apply tle_refl.
  - intros g Hi. left. rewrite <- H4. exact Hi.
Qed.

Lemma locals_nonempty s : nloc s <> 0%nat -> locals s <> [].
Proof. unfold locals. destruct (nloc s); [congruence|cbn; discriminate]. Qed.

Theorem inv_step s l s' : Inv s -> nloc s <> 0%nat -> step s l = Some s' -> Inv s'.
Proof.
  intros I Hnz H. unfold step in H. destruct (step0 s l) as [s1|] eqn:H0; [|discriminate]. inj.
  pose proof I as [VL VG C1 C2 C3 CK RQ].
  destruct l; cbn in H0.
  - (* LLocalGen *)
    destruct ((d <? nloc s)%nat && (0 <? c)) eqn:Ec; [|discriminate]. inj. cbn.
    apply andb_true_iff in Ec as [Ed Ecp]. apply Nat.ltb_lt in Ed. apply Z.ltb_lt in Ecp.
    set (m := lmem s d).
    apply (inv_mono s (gmem s) (upd_f (lmem s) d (fst m, snd m + c))
                    [Grant (WLocal d) (fst m) (snd m + c) c (clock s) (clock s)]);
      [exact I | apply tle_refl | | | cbn; lia].
    + intros d'. unfold upd_f. destruct (Nat.eqb_spec d' d); [subst; subst m; ord|apply tle_refl].
    + intros l [<-|[]]. exists d. cbn. unfold upd_f. rewrite Nat.eqb_refl.
      split; [reflexivity|]. split; [exact Ed|]. split; [apply tle_refl|]. split; [exact Ecp|]. split; [reflexivity|]. split; [reflexivity|].
      intros g Hi Hw. destruct (VG _ Hi Hw) as (_ & Ha & _). specialize (Ha _ Ed). unfold first, val in *. cbn. subst m. ord.
  - (* LLocalTick *)
    destruct (d <? nloc s)%nat eqn:Ed; [|discriminate]. inj. cbn.
    apply (inv_mono s (gmem s) (upd_f (lmem s) d (tick (lmem s d) p)) []);
      [exact I | apply tle_refl | | intros l [] | cbn; lia].
    intros d'. unfold upd_f. destruct (Nat.eqb_spec d' d); [subst; apply tick_ge|apply tle_refl].
  - (* LGlobalTick *)
    inj. cbn. apply (inv_mono s (tick (gmem s) p) (lmem s) []);
      [exact I | apply tick_ge | intros d'; apply tle_refl | intros l [] | cbn; lia].
  - (* LGBegin *)
    destruct (req s) eqn:Er; [discriminate|].
    destruct ((0 <? c) && (0 <=? delta) && negb (nloc s =? 0)%nat) eqn:Ec; [|discriminate].
    apply andb_true_iff in Ec as [Ec _]. apply andb_true_iff in Ec as [Ecp Edl]. apply Z.ltb_lt in Ecp. apply Z.leb_le in Edl.
    set (g1 := (fst (gmem s), snd (gmem s) + c)) in *.
    assert (Hg1 : tle (gmem s) g1) by (subst g1; ord).
    assert (I1 : Inv (State (nloc s) (bits s) g1 (lmem s) None (grants s) (S (clock s)))).
    { pose proof (inv_mono s g1 (lmem s) [] I Hg1 (fun d => tle_refl _)) as Hm. cbn in Hm. rewrite Er in Hm.
      apply Hm; [intros l []|lia]. }
    match type of H0 with context [if ?b then _ else _] => destruct b eqn:Eov end; inj; cbn; [exact I1|].
    set (e := (fst g1 + delta, snd g1)).
    destruct I1 as [VL1 VG1 C11 C21 C31 CK1 _].
    constructor; cbn; auto.
    intros r Hr. inj. cbn.
    split; [exact Ecp|]. split; [lia|]. split; [apply tle_refl|]. split; [subst e; unfold efirst; cbn; ord|].
    unfold phase_inv; cbn. refine (conj _ (conj _ (conj _ (conj _ (conj _ _))))).
      * lia.
      * exists []. split; [reflexivity|]. split; [intros E; congruence|]. split; [intros d l a []|intros _ _ d a []].
      * intros E; discriminate E.
      * intros E; discriminate E.
      * intros _; reflexivity.
      * intros g Hi Hw. destruct (VG _ Hi Hw) as (Hv & _). unfold efirst; cbn. subst e g1; cbn. ord.
  - (* LGRead *)
    destruct (req s) as [r|] eqn:Er; [|discriminate].
    destruct (ph r) as [pass [|d todo] acc| | | |] eqn:Ep; try discriminate. inj.
    destruct (RQ _ eq_refl) as (Hc & Hb & He & Hef & Hp). unfold phase_inv in Hp. rewrite Ep in Hp.
    destruct Hp as (Hpass & (done & Hd & Ha & Hbb & Hcc) & Hel & Hf & Hz & Hgl).
    set (v := lmem s d). set (acc1 := match acc with Some a => Some (ts_max a v) | None => Some v end).
    assert (Hdin : (d < nloc s)%nat) by (apply in_locals; rewrite Hd; apply in_or_app; right; left; reflexivity).
    cbn. apply inv_set_req; [exact I|]. cbn. split; [exact Hc|]. split; [lia|]. split; [exact He|]. split; [exact Hef|].
    unfold phase_inv; cbn. split; [exact Hpass|]. split; [|split; [|split; [|split]]]; auto.
    exists (done ++ [d]). rewrite <- app_assoc. cbn. split; [exact Hd|]. split; [|split].
    + intros _. subst acc1. destruct acc; eauto.
    + intros d' l a Hin Hil Hw Hearly Hacc. apply in_app_or in Hin as [Hin|[<-|[]]].
      * destruct (Ha ltac:(intros E; rewrite E in Hin; exact Hin)) as (a0 & ->). subst acc1. inj.
        eapply tle_trans; [eapply Hbb; eauto|apply ts_max_ge_l].
      * destruct (VL _ _ Hil Hw) as (_ & Hv & _). subst acc1. destruct acc; inj; [eapply tle_trans; [exact Hv|apply ts_max_ge_r]|exact Hv].
    + intros E Hme d' a Hin Hacc. apply in_app_or in Hin as [Hin|[<-|[]]].
      * destruct (Ha ltac:(intros E'; rewrite E' in Hin; exact Hin)) as (a0 & ->). subst acc1. inj.
        eapply tle_trans; [eapply Hcc; eauto|apply ts_max_ge_l].
      * destruct (Hf E) as [Hx|[_ Hy]]; [rewrite Hme in Hx; ord|].
        specialize (Hy _ Hdin). subst acc1. destruct acc; inj; [eapply tle_trans; [exact Hy|apply ts_max_ge_r]|exact Hy].
  - (* LGDecide *)
    destruct (req s) as [r|] eqn:Er; [|discriminate].
    destruct (ph r) as [pass [|d todo] [m|]| | | |] eqn:Ep; try discriminate.
    destruct (RQ _ eq_refl) as (Hc & Hb & He & Hef & Hp). unfold phase_inv in Hp. rewrite Ep in Hp.
    destruct Hp as (Hpass & (done & Hd & Ha & Hbb & Hcc) & Hel & Hf & Hz & Hgl).
    rewrite app_nil_r in Hd.
    assert (Hearly : early_le s r m).
    { intros l d Hil Hw Hear. destruct (VL _ _ Hil Hw) as (Hdn & _). eapply Hbb; eauto. rewrite <- Hd. apply in_locals. exact Hdn. }
    assert (Hdone : done <> []) by (rewrite <- Hd; apply locals_nonempty; exact Hnz).
    destruct (ts_leb (maxts r) m) eqn:Ele; inj; cbn; apply inv_set_req; try exact I; cbn.
    + apply ts_leb_spec in Ele.
      set (m1 := if ts_eqb m (maxts r) then (fst m, snd m + 1) else m).
      assert (Hm1 : tle m m1) by (subst m1; destruct (ts_eqb m (maxts r)); ord).
      assert (Hlt : tlt (est r) m1).
      { subst m1. destruct (ts_eqb m (maxts r)) eqn:Eq; [apply ts_eqb_spec in Eq; subst m; ord|].
        assert (Hne : m <> maxts r) by (intros E; apply ts_eqb_spec in E; congruence).
        assert (Hne2 : ~ (fst m = fst (maxts r) /\ snd m = snd (maxts r))).
        { intros [E1 E2]. apply Hne. destruct m, (maxts r); cbn in *; congruence. }
        ord. }
      split; [exact Hc|]. split; [lia|]. split; [apply tlt_tle; exact Hlt|]. split; [exact Hef|].
      unfold phase_inv; cbn. split; [exact Hpass|]. split; [|split].
      * exists (locals s). rewrite app_nil_r. split; [reflexivity|]. left. exact Hlt.
      * intros l d Hil Hw Hear. eapply tle_trans; [eapply Hearly; eauto|exact Hm1].
      * exact Hgl.
    + apply ts_leb_false in Ele.
      split; [exact Hc|]. split; [lia|]. split; [exact He|]. split; [exact Hef|].
      unfold phase_inv; cbn. split; [exact Hpass|]. split; [|split].
      * exists []. split; [reflexivity|].
        destruct pass as [|[|pp]]; [| |lia].
        -- right. repeat split; auto. intros d [].
        -- left. destruct (Hf eq_refl) as [Hx|[Hx Hy]]; [exact Hx|].
           exfalso. assert (Hin0 : In 0%nat (locals s)) by (apply in_locals; lia).
           specialize (Hcc eq_refl Hx 0%nat m Hin0 eq_refl). rewrite Hx in Ele. ord.
      * intros l d Hil Hw Hear. eapply tle_trans; [eapply Hearly; eauto|ord].
      * exact Hgl.
  - (* LGWrite *)
    destruct (req s) as [r|] eqn:Er; [|discriminate].
    destruct (RQ _ eq_refl) as (Hc & Hb & He & Hef & Hp). unfold phase_inv in Hp.
    assert (Hframe : forall d r', cnt r' = cnt r -> est r' = est r -> maxts r' = maxts r -> gbegin r' = gbegin r ->
              (d < nloc s)%nat ->
              phase_inv (State (nloc s) (bits s) (gmem s) (upd_f (lmem s) d (write_ts (lmem s d) (maxts r))) (Some r') (grants s) (S (clock s))) r' ->
              Inv (State (nloc s) (bits s) (gmem s) (upd_f (lmem s) d (write_ts (lmem s d) (maxts r))) (Some r') (grants s) (S (clock s)))).
    { intros d r' E1 E2 E3 E4 Hd Hph.
      pose proof (inv_mono s (gmem s) (upd_f (lmem s) d (write_ts (lmem s d) (maxts r))) [] I (tle_refl _)) as Hm.
      cbn in Hm. rewrite Er in Hm.
      assert (Hgrow : forall d0, tle (lmem s d0) (upd_f (lmem s) d (write_ts (lmem s d) (maxts r)) d0)).
      { intros d0. unfold upd_f. destruct (Nat.eqb_spec d0 d); [subst; apply write_ge_m|apply tle_refl]. }
      specialize (Hm Hgrow ltac:(intros l []) ltac:(lia)).
      destruct Hm as [VL1 VG1 C11 C21 C31 CK1 _]. constructor; cbn; auto.
      intros r0 Hr0. inj. unfold efirst. rewrite E1, E2, E3, E4. split; [exact Hc|]. split; [lia|]. split; [exact He|]. split; [exact Hef|]. exact Hph. }
    destruct (ph r) as [| pass [|d todo] | pass [|d todo] | |] eqn:Ep; try discriminate; inj; cbn.
    + (* write after a check that found every local smaller *)
      destruct Hp as (Hpass & (done & Hd & Hdis) & Hel & Hgl).
      assert (Hdin : (d < nloc s)%nat) by (apply in_locals; rewrite Hd; apply in_or_app; right; left; reflexivity).
      apply Hframe; auto. unfold phase_inv; cbn. split; [exact Hpass|]. split; [|split].
      * exists (done ++ [d]). rewrite <- app_assoc. split; [exact Hd|].
        destruct Hdis as [Hx|(Hx & Hy & Hz)]; [left; exact Hx|right; repeat split; auto].
        intros d' Hin. unfold upd_f. apply in_app_or in Hin as [Hin|[<-|[]]].
        -- destruct (Nat.eqb_spec d' d); [subst; rewrite <- Hy; apply write_ge_v|apply Hz; exact Hin].
        -- rewrite Nat.eqb_refl. rewrite <- Hy. apply write_ge_v.
      * intros l d' Hil Hw Hear. eapply Hel; eauto.
      * exact Hgl.
    + (* unconditional write *)
      destruct Hp as (Hpass & (done & Hd & Hdn) & Hall & Hel & Hgl).
      assert (Hdin : (d < nloc s)%nat) by (apply in_locals; rewrite Hd; apply in_or_app; right; left; reflexivity).
      apply Hframe; auto. unfold phase_inv; cbn. split; [exact Hpass|]. split; [|split; [|split]].
      * exists (done ++ [d]). rewrite <- app_assoc. split; [exact Hd|].
        intros d' Hin. unfold upd_f. apply in_app_or in Hin as [Hin|[<-|[]]].
        -- destruct (Nat.eqb_spec d' d); [subst; apply write_ge_v|apply Hdn; exact Hin].
        -- rewrite Nat.eqb_refl. apply write_ge_v.
      * intros E d' Hd'. cbn in *. unfold upd_f. destruct (Nat.eqb_spec d' d); [subst; apply write_ge_v|apply Hall; auto].
      * intros l d' Hil Hw Hear. eapply Hel; eauto.
      * exact Hgl.
  - (* LGNextPass *)
    destruct (req s) as [r|] eqn:Er; [|discriminate].
    destruct (RQ _ eq_refl) as (Hc & Hb & He & Hef & Hp). unfold phase_inv in Hp.
    destruct (ph r) as [| pass [|d todo] | pass [|d todo] | |] eqn:Ep; try discriminate.
    + (* after a check pass *)
      destruct Hp as (Hpass & (done & Hd & Hdis) & Hel & Hgl). rewrite app_nil_r in Hd.
      destruct pass as [|[|pp]]; [change (Nat.ltb 1 (Pos.to_nat 2)) with true in H0|change (Nat.ltb 2 (Pos.to_nat 2)) with false in H0|lia];
        cbn in H0; inj; cbn; apply inv_set_req; try exact I; cbn.
      * split; [exact Hc|]. split; [lia|]. split; [exact He|]. split; [exact Hef|].
        unfold phase_inv; cbn. refine (conj _ (conj _ (conj _ (conj _ (conj _ _))))).
        -- lia.
        -- exists []. split; [reflexivity|]. split; [intros E; congruence|]. split; [intros d l a []|intros _ _ d a []].
        -- intros _. exact Hel.
        -- intros _. destruct Hdis as [Hx|(_ & Hy & Hz)]; [left; exact Hx|right; split; [exact Hy|]].
           intros d Hdl. apply Hz. apply in_locals. exact Hdl.
        -- intros E; discriminate E.
        -- exact Hgl.
      * (* the check rounds are over: the collected maximum is above the estimate, fall back to it *)
        assert (Hlt : tlt (est r) (maxts r)) by (destruct Hdis as [Hx|(Hx & _)]; [exact Hx|discriminate Hx]).
        unfold after_check. apply ts_ltb_spec in Hlt as Hb1. rewrite Hb1.
        set (e1 := (fst (maxts r), snd (maxts r) + cnt r)).
        set (e2 := if overflow s (snd e1) then (fst e1 + 1, cnt r) else e1).
        assert (Hfirst : tlt (maxts r) (fst e2, snd e2 - cnt r + 1)).
        { subst e2 e1. destruct (overflow s _); cbn; ord. }
        cbn. split; [exact Hc|]. split; [lia|]. split; [apply tle_refl|]. split; [unfold efirst; cbn; ord|].
        unfold phase_inv; cbn. refine (conj _ (conj _ (conj _ (conj _ _)))).
        -- lia.
        -- exists []. split; [reflexivity|]. intros d [].
        -- intros E; discriminate E.
        -- intros l d Hil Hw Hear. unfold rfirst; cbn. eapply tle_lt_trans; [eapply Hel; eauto|exact Hfirst].
        -- intros g Hi Hw. unfold rfirst; cbn. eapply tlt_le_trans; [apply Hgl; auto|].
           eapply tle_trans; [exact Hef|]. eapply tle_trans; [exact He|]. apply tlt_tle. exact Hfirst.
    + (* after a write pass *)
      destruct Hp as (Hpass & (done & Hd & Hdn) & Hall & Hel & Hgl). rewrite app_nil_r in Hd.
      assert (Hallnow : all_locals_ge s (maxts r)).
      { intros d Hdl. apply Hdn. rewrite <- Hd. apply in_locals. exact Hdl. }
      destruct pass as [|[|pp]]; [change (Nat.ltb 1 (Pos.to_nat 2)) with true in H0|change (Nat.ltb 2 (Pos.to_nat 2)) with false in H0|lia];
        cbn in H0; inj; cbn; apply inv_set_req; try exact I; cbn.
      * split; [exact Hc|]. split; [lia|]. split; [exact He|]. split; [exact Hef|].
        unfold phase_inv; cbn. refine (conj _ (conj _ (conj _ (conj _ _)))).
        -- lia.
        -- exists []. split; [reflexivity|]. intros d [].
        -- intros _. exact Hallnow.
        -- exact Hel.
        -- exact Hgl.
      * split; [exact Hc|]. split; [lia|]. split; [exact He|]. split; [exact Hef|].
        unfold phase_inv; cbn. split; [exact Hallnow|]. split; [exact Hel|exact Hgl].
  - (* LGPersist *)
    destruct (req s) as [r|] eqn:Er; [|discriminate].
    destruct (RQ _ eq_refl) as (Hc & Hb & He & Hef & Hp). unfold phase_inv in Hp.
    destruct (ph r) eqn:Ep; try discriminate. inj. cbn.
    destruct Hp as (Hall & Hel & Hgl).
    set (g1 := if ts_ltb (gmem s) (maxts r) then maxts r else gmem s).
    assert (Hg1 : tle (gmem s) g1 /\ tle (maxts r) g1).
    { subst g1. destruct (ts_ltb (gmem s) (maxts r)) eqn:E; [apply ts_ltb_spec in E|apply ts_ltb_false in E]; split; ord. }
    pose proof (inv_mono s g1 (lmem s) [] I (proj1 Hg1) (fun d => tle_refl _) ltac:(intros l []) ltac:(cbn; lia)) as Hm.
    cbn in Hm. rewrite Er in Hm. destruct Hm as [VL1 VG1 C11 C21 C31 CK1 _]. constructor; cbn; auto.
    intros r0 Hr0. inj. unfold efirst; cbn. split; [exact Hc|]. split; [lia|]. split; [exact He|]. split; [exact Hef|].
    unfold phase_inv; cbn. split; [exact Hall|]. split; [exact (proj2 Hg1)|]. split; [exact Hel|exact Hgl].
  - (* LGRespond *)
    destruct (req s) as [r|] eqn:Er; [|discriminate].
    destruct (RQ _ eq_refl) as (Hc & Hb & He & Hef & Hp). unfold phase_inv in Hp.
    destruct (ph r) eqn:Ep; try discriminate. inj. cbn.
    destruct Hp as (Hall & Hgm & Hel & Hgl).
    set (g0 := Grant WGlobal (fst (maxts r)) (snd (maxts r)) (cnt r) (gbegin r) (clock s)).
    assert (Hval : val g0 = maxts r) by (unfold val; cbn; destruct (maxts r); reflexivity).
    assert (Hfst : first g0 = rfirst r) by reflexivity.
    constructor; cbn.
    + intros l d [<-|Hi] Hw; [discriminate Hw|]. apply VL; auto.
    + intros g [<-|Hi] Hw; [|apply VG; auto]. rewrite Hval. repeat split; auto.
    + intros g l d [<-|Hig] [<-|Hil] Hwg Hwl Ht; try discriminate.
      * rewrite Hfst. eapply Hel; eauto.
      * eapply C1; eauto.
    + intros g l d [<-|Hig] [<-|Hil] Hwg Hwl Ht; try discriminate.
      * cbn in Ht. destruct (CK _ Hil). lia.
      * eapply C2; eauto.
    + intros g1 g2 [<-|H1] [<-|H2] Hw1 Hw2 Ht.
      * cbn in Ht. lia.
      * cbn in Ht. destruct (CK _ H2). lia.
      * rewrite Hfst. apply Hgl; auto.
      * eapply C3; eauto.
    + intros g [<-|Hi]; [cbn; lia|]. destruct (CK _ Hi). lia.
    + intros r0 Hr0. discriminate Hr0.
Qed.

Lemma nloc_step s l s' : step s l = Some s' -> nloc s' = nloc s.
Proof.
  unfold step. destruct (step0 s l) as [s1|] eqn:H0; [|discriminate]. intros H; inj. cbn.
  destruct l; cbn in H0;
  repeat match type of H0 with
  | context [match ?x with _ => _ end] => destruct x; try discriminate
  end; inj; reflexivity.
Qed.

Lemma inv_init n b g0 l0 : Inv (init n b g0 l0).
Proof. constructor; cbn; intros; try contradiction; try discriminate. Qed.

Definition InvN (s : state) : Prop := Inv s /\ nloc s <> 0%nat.

Theorem inv_exec n b g0 l0 ls : n <> 0%nat -> Inv (exec step (init n b g0 l0) ls).
Proof.
  intros Hn. apply (invariant_exec step InvN).
  - intros s l s' [I Hz] H. split; [eapply inv_step; eauto|rewrite (nloc_step _ _ _ H); exact Hz].
  - split; [apply inv_init|exact Hn].
Qed.

(* ---------------- differentiation ---------------- *)
Lemma shiftl_mul r b : 0 <= b -> Z.shiftl r b = r * 2 ^ b.
Proof. intros. apply Z.shiftl_mul_pow2. assumption. Qed.

Lemma differentiate_injective r1 r2 b s1 s2 :
  0 <= b -> 0 <= s1 < 2 ^ b -> 0 <= s2 < 2 ^ b ->
  differentiate r1 b s1 = differentiate r2 b s2 -> r1 = r2 /\ s1 = s2.
Proof.
  unfold differentiate. intros Hb H1 H2. rewrite !shiftl_mul by assumption.
  assert (Hp : 0 < 2 ^ b) by (apply Z.pow_pos_nonneg; lia). intros E.
  apply (Z.div_mod_unique (2 ^ b)); [left; exact H1|left; exact H2|lia].
Qed.

Lemma differentiate_monotone r1 r2 b s1 s2 :
  0 <= b -> 0 <= s1 < 2 ^ b -> 0 <= s2 < 2 ^ b -> r1 < r2 -> differentiate r1 b s1 < differentiate r2 b s2.
Proof.
  unfold differentiate. intros Hb H1 H2 Hlt. rewrite !shiftl_mul by assumption.
  assert (Hp : 0 < 2 ^ b) by (apply Z.pow_pos_nonneg; lia). nia.
Qed.

Lemma client_batch_value raw count b sfx i :
  0 <= b -> add_logical (add_logical (differentiate raw b sfx) (- count + 1) b) i b = differentiate (raw - count + 1 + i) b sfx.
Proof. intros Hb. unfold add_logical, differentiate. rewrite !shiftl_mul by assumption. ring. Qed.

(* raw lexicographic order carries over to the returned (physical, differentiated logical) pairs *)
Lemma raw_lt_diff p1 r1 p2 r2 b s1 s2 :
  0 <= b -> 0 <= s1 < 2 ^ b -> 0 <= s2 < 2 ^ b -> tlt (p1, r1) (p2, r2) ->
  tlt (p1, differentiate r1 b s1) (p2, differentiate r2 b s2).
Proof.
  intros Hb H1 H2 [H|[H Hr]]; cbn in *; [left; exact H|right; split; [exact H|]].
  cbn. apply differentiate_monotone; assumption.
Qed.

(* CalSuffixBits(maxSuffix) = ceil(log2(maxSuffix + 1)) covers every suffix in use, and suffix 0 of the Global allocator *)
Lemma bits_cover max_suffix sfx : 0 <= sfx <= max_suffix -> sfx < 2 ^ cal_suffix_bits max_suffix.
Proof.
  intros H. unfold cal_suffix_bits.
  destruct (Z.eq_dec max_suffix 0) as [->|Hne]; [cbn; lia|].
  pose proof (Z.log2_up_spec (max_suffix + 1) ltac:(lia)) as [_ Hup]. lia.
Qed.

(* ---------------- suffix assignment ---------------- *)
Definition sfx_ok (st : sfx_store) : Prop :=
  NoDup (map fst st) /\ NoDup (map snd st) /\ (forall p, In p st -> 1 <= snd p <= sfx_max st).

Definition fmax (l : sfx_store) (a : Z) : Z := fold_left (fun a (p : nat * Z) => Z.max a (snd p)) l a.

Lemma fmax_ge_acc l : forall a, a <= fmax l a.
Proof. unfold fmax. induction l as [|q t IH]; intros a; cbn; [lia|]. eapply Z.le_trans; [|apply IH]. lia. Qed.

Lemma fmax_ge_in l : forall a p, In p l -> snd p <= fmax l a.
Proof.
  unfold fmax. induction l as [|q t IH]; intros a p; cbn; [tauto|]. intros [<-|H]; [|apply IH; exact H].
  eapply Z.le_trans; [|apply (fmax_ge_acc t)]. lia.
Qed.

Lemma fmax_all_le l : forall a, (forall p, In p l -> snd p <= a) -> fmax l a = a.
Proof.
  unfold fmax. induction l as [|q t IH]; intros a Ha; cbn; [reflexivity|].
  rewrite Z.max_l by (apply Ha; left; reflexivity). apply IH. intros p Hp. apply Ha. right. exact Hp.
Qed.

Lemma sfx_max_ge st : forall p, In p st -> snd p <= sfx_max st.
Proof. intros p Hp. apply (fmax_ge_in st 0 p Hp). Qed.

Lemma sfx_max_nonneg st : 0 <= sfx_max st.
Proof. apply (fmax_ge_acc st 0). Qed.

Lemma sfx_lookup_in st dc v : sfx_lookup st dc = Some v -> In (dc, v) st.
Proof.
  unfold sfx_lookup. destruct (find _ st) as [p|] eqn:E; [|discriminate]. intros H; inj.
  apply find_some in E as [Hin Heq]. apply Nat.eqb_eq in Heq. destruct p; cbn in *; subst; exact Hin.
Qed.

Lemma sfx_lookup_none st dc : sfx_lookup st dc = None -> ~ In dc (map fst st).
Proof.
  unfold sfx_lookup. destruct (find _ st) as [p|] eqn:E; [discriminate|]. intros _ Hin.
  apply in_map_iff in Hin as (p & Hp & Hin). eapply find_none in E; eauto. cbn in E. rewrite Hp, Nat.eqb_refl in E. discriminate.
Qed.

Lemma sfx_assign_ok st dc : sfx_ok st -> sfx_ok (fst (sfx_assign st dc)).
Proof.
  intros (H1 & H2 & H3). unfold sfx_assign. destruct (sfx_lookup st dc) eqn:E; cbn; [split; [exact H1|split; [exact H2|exact H3]]|].
  pose proof (sfx_max_nonneg st) as Hnn.
  assert (Hmax : sfx_max ((dc, sfx_max st + 1) :: st) = sfx_max st + 1).
  { unfold sfx_max at 1. cbn. rewrite Z.max_r by lia.
    apply (fmax_all_le st). intros q Hq. pose proof (sfx_max_ge st q Hq). lia. }
  split; [|split].
  - cbn. constructor; [apply sfx_lookup_none; exact E|exact H1].
  - cbn. constructor; [|exact H2]. intros Hin. apply in_map_iff in Hin as (q & Hq & Hin). pose proof (sfx_max_ge st q Hin). lia.
  - intros q Hq. rewrite Hmax. destruct Hq as [<-|Hq]; cbn; [lia|]. destruct (H3 _ Hq). lia.
Qed.

(* once assigned a suffix stays, and an existing dc gets its stored suffix back *)
Lemma sfx_assign_stable st dc dc' v :
  sfx_lookup st dc' = Some v -> sfx_lookup (fst (sfx_assign st dc)) dc' = Some v.
Proof.
  intros H. unfold sfx_assign. destruct (sfx_lookup st dc) eqn:E; cbn; [exact H|].
  unfold sfx_lookup. cbn. destruct (Nat.eqb_spec dc dc'); [subst; congruence|exact H].
Qed.

Lemma sfx_assign_returns st dc : sfx_lookup (fst (sfx_assign st dc)) dc = Some (snd (sfx_assign st dc)).
Proof.
  unfold sfx_assign. destruct (sfx_lookup st dc) eqn:E; cbn; [exact E|].
  unfold sfx_lookup. cbn. rewrite Nat.eqb_refl. reflexivity.
Qed.

Lemma sfx_ok_injective st dc1 dc2 v : sfx_ok st -> sfx_lookup st dc1 = Some v -> sfx_lookup st dc2 = Some v -> dc1 = dc2.
Proof.
  intros (H1 & H2 & _) E1 E2. apply sfx_lookup_in in E1, E2.
  assert (G : forall l, NoDup (map snd l) -> In (dc1, v) l -> In (dc2, v) l -> dc1 = dc2).
  { induction l as [|q t IH]; cbn; [tauto|]. intros Hnd [->|Ha] [Hb|Hb].
    - congruence.
    - inversion Hnd as [|? ? Hni _]; subst. exfalso. apply Hni. cbn. apply in_map_iff. exists (dc2, v). auto.
    - inversion Hnd as [|? ? Hni _]; subst. exfalso. apply Hni. cbn. apply in_map_iff. exists (dc1, v). auto.
    - inversion Hnd; subst. apply IH; auto. }
  eapply G; eauto.
Qed.
