(* C16 - structural obligations on the code as it is now (regenerated gen/Gen_C16.v).  The model in
   model/C16_Syncer.v was written against exactly these skeletons; a change of any assignment to
   head/tail/index/flushCount, of a window comparison, of the batching loop (which accumulators are
   appended / truncated, the continue condition, which slice feeds which response field) or of the
   follower's pairing expressions breaks a `reflexivity` here. *)
From PDV Require Import lib.Skel gen.Gen_C16.
From Coq Require Import ZArith.

Lemma c_defaultFlushCount_ok : defaultFlushCount = 100%Z. Proof. reflexivity. Qed.
Lemma c_maxSyncRegionBatchSize_ok : maxSyncRegionBatchSize = 100%Z. Proof. reflexivity. Qed.
Lemma c_defaultHistoryBufferSize_ok : defaultHistoryBufferSize = 10000%Z. Proof. reflexivity. Qed.
(* An incremental answer carries up to a whole history window in ONE message, and the follower's gRPC client refuses
   messages above msgSize (MaxCallRecvMsgSize in establish): the window must fit. 800 bytes per record (region meta with
   its peers and keys, the leader peer, the four flow counters) is the budget this check pins; the driver sends a full
   window of ~300-byte records through the real transport in every run. *)
Definition record_budget : Z := 800%Z.
Lemma history_window_fits_receive_limit : (defaultHistoryBufferSize * record_budget <= msgSize)%Z.
Proof. discriminate. Qed.
(* the follower's buffer cannot be smaller than a full-sync batch *)
Lemma batch_fits_history : (maxSyncRegionBatchSize <= defaultHistoryBufferSize)%Z. Proof. discriminate. Qed.

Lemma skel_hb_Record_ok : skel_hb_Record =
  [Lock "v0"; DeferUnlock "v0"; Assign "v0.tail" "= (v0.tail + 1) % v0.size"; IfE "v0.tail == v0.head" [Assign "v0.head" "= (v0.head + 1) % v0.size"] []; Assign "v0.index" "++"; Assign "v0.flushCount" "--"; IfE "v0.flushCount <= 0" [Call "persist"; Assign "v0.flushCount" "= defaultFlushCount"] []].
Proof. reflexivity. Qed.

Lemma skel_hb_RecordsFrom_ok : skel_hb_RecordsFrom =
  [RLock "v0"; DeferRUnlock "v0"; Call "nextIndex"; Call "firstIndex"; IfE "v1 < v0.nextIndex() && v1 >= v0.firstIndex()" [Call "firstIndex"; Assign "v2" "= (v0.head + int(v1-v0.firstIndex())) % v0.size"] [Ret]; Call "distanceToTail"; Assign "v3" ":= make([]*core.RegionInfo, 0, v0.distanceToTail(v2))"; Assign "v4" ":= v2"; ForE [Assign "v3" "= append(v3, v0.records[v4])"; Assign "v4" "= (v4 + 1) % v0.size"]; Ret].
Proof. reflexivity. Qed.

Lemma skel_hb_ResetWithIndex_ok : skel_hb_ResetWithIndex =
  [Lock "v0"; DeferUnlock "v0"; Assign "v0.index" "= v1"; Assign "v0.head" "= 0"; Assign "v0.tail" "= 0"; Assign "v0.flushCount" "= defaultFlushCount"; Call "persist"].
Proof. reflexivity. Qed.

Lemma skel_hb_GetNextIndex_ok : skel_hb_GetNextIndex =
  [RLock "v0"; DeferRUnlock "v0"; Ret].
Proof. reflexivity. Qed.

Lemma skel_hb_reload_ok : skel_hb_reload =
  [Call "Load"; Assign "v1" ":= v0.kv.Load(historyKey)"; Assign "v2" ":= v0.kv.Load(historyKey)"; IfE "v1 != """"" [Call "ParseUint"; Assign "v0.index" "= strconv.ParseUint(v1, 10, 64)"; Assign "v2" "= strconv.ParseUint(v1, 10, 64)"] []].
Proof. reflexivity. Qed.

Lemma skel_hb_persist_ok : skel_hb_persist =
  [Call "nextIndex"; Call "FormatUint"; Call "Save"; Assign "v1" ":= v0.kv.Save(historyKey, strconv.FormatUint(v0.nextIndex(), 10))"].
Proof. reflexivity. Qed.

Lemma skel_hb_distanceToTail_ok : skel_hb_distanceToTail =
  [IfE "v0.tail < v1" [Ret] []; Ret].
Proof. reflexivity. Qed.

Lemma skel_hb_firstIndex_ok : skel_hb_firstIndex =
  [Call "len"; Ret].
Proof. reflexivity. Qed.

Lemma skel_hb_nextIndex_ok : skel_hb_nextIndex =
  [Ret].
Proof. reflexivity. Qed.

Lemma skel_hb_len_ok : skel_hb_len =
  [Call "distanceToTail"; Ret].
Proof. reflexivity. Qed.

Lemma skel_newHistoryBuffer_ok : skel_newHistoryBuffer =
  [Assign "v0" "++"; IfE "v0 < 2" [Assign "v0" "= 2"] []; Assign "v2" ":= make([]*core.RegionInfo, v0)"; Assign "v3" ":= &historyBuffer{ v2: v2, v0: v0, v1: v1, flushCount: defaultFlushCount, }"; Call "reload"; Ret].
Proof. reflexivity. Qed.

Lemma ret_hb_distanceToTail_ok : ret_hb_distanceToTail =
  ["v0.tail + v0.size - v1"; "v0.tail - v1"].
Proof. reflexivity. Qed.

Lemma ret_hb_firstIndex_ok : ret_hb_firstIndex =
  ["v0.index - uint64(v0.len())"].
Proof. reflexivity. Qed.

Lemma records_from_loop_ok : records_from_loop =
  ["v4 := v2"; "v4 != v0.tail"; "v4 = (v4 + 1) % v0.size"; "v3 = append(v3, v0.records[v4])"].
Proof. reflexivity. Qed.

Lemma skel_syncHistoryRegion_ok : skel_syncHistoryRegion =
  [Assign "v3" ":= v1.GetStartIndex()"; Assign "v4" ":= v1.GetMember().GetName()"; Call "RecordsFrom"; Assign "v5" ":= v0.history.RecordsFrom(v3)"; IfE "len(v5) == 0" [Call "GetNextIndex"; IfE "v0.history.GetNextIndex() == v3" [Ret] []; IfE "v3 == 0" [Call "GetRegions"; Assign "v6" ":= v0.server.GetRegions()"; Assign "v7" ":= 0"; Assign "v8" ":= time.Now()"; Assign "v9" ":= make([]*metapb.Region, 0, maxSyncRegionBatchSize)"; Assign "v10" ":= make([]*pdpb.RegionStat, 0, maxSyncRegionBatchSize)"; Assign "v11" ":= make([]*metapb.Peer, 0, maxSyncRegionBatchSize)"; ForE [Assign "v9" "= append(v9, v13.GetMeta())"; Assign "v10" "= append(v10, v13.GetStat())"; Assign "v14" ":= &metapb.Peer{}"; IfE "v13.GetLeader() != nil" [Assign "v14" "= v13.GetLeader()"] []; Assign "v11" "= append(v11, v14)"; Assign "v15" ":= &pdpb.SyncRegionResponse{ Header: &pdpb.ResponseHeader{ClusterId: v0.server.ClusterID()}, Regions: v9, StartIndex: uint64(v7), RegionStats: v10, RegionLeaders: v11, }"; Assign "v7" "+= len(v9)"; Call "Send"; Assign "v16" ":= v2.Send(v15)"; Assign "v9" "= v9[:0]"; Assign "v10" "= v10[:0]"; Assign "v11" "= v11[:0]"]; Ret] []; Ret] []; Assign "v17" ":= make([]*metapb.Region, len(v5))"; Assign "v18" ":= make([]*pdpb.RegionStat, len(v5))"; Assign "v19" ":= make([]*metapb.Peer, len(v5))"; ForE [Assign "v22" ":= &metapb.Peer{}"; IfE "v21.GetLeader() != nil" [Assign "v22" "= v21.GetLeader()"] []]; Assign "v23" ":= &pdpb.SyncRegionResponse{ Header: &pdpb.ResponseHeader{ClusterId: v0.server.ClusterID()}, Regions: v17, StartIndex: v3, RegionStats: v18, RegionLeaders: v19, }"; Call "Send"; Ret].
Proof. reflexivity. Qed.

Lemma skel_RunServer_ok : skel_RunServer =
  [Assign "v6" ":= time.NewTicker(syncerKeepAliveInterval)"; ForE [SwitchE [[Ret]; [Assign "v7" ":= <-v1"; Assign "v3" "= append(v3, v7.GetMeta())"; Assign "v8" ":= append(v4, v7.GetStat())"; Assign "v9" ":= append(v5, v7.GetLeader())"; Call "GetNextIndex"; Assign "v10" ":= v0.history.GetNextIndex()"; Call "Record"; Assign "v11" ":= len(v1)"; Assign "v12" ":= 0"; ForE [Assign "v13" ":= <-v1"; Assign "v3" "= append(v3, v13.GetMeta())"; Assign "v8" "= append(v8, v13.GetStat())"; Assign "v9" "= append(v9, v13.GetLeader())"; Call "Record"; Assign "v12" "++"]; Assign "v14" ":= &pdpb.SyncRegionResponse{ Header: &pdpb.ResponseHeader{ClusterId: v0.server.ClusterID()}, Regions: v3, StartIndex: v10, RegionStats: v8, RegionLeaders: v9, }"; Call "broadcast"]; [Call "GetNextIndex"; Assign "v15" ":= &pdpb.SyncRegionResponse{ Header: &pdpb.ResponseHeader{ClusterId: v0.server.ClusterID()}, StartIndex: v0.history.GetNextIndex(), }"; Call "broadcast"]]; Assign "v3" "= v3[:0]"]].
Proof. reflexivity. Qed.

Lemma skel_Sync_ok : skel_Sync =
  [ForE [Assign "v2" ":= v1.Recv()"; Assign "v3" ":= v1.Recv()"; IfE "v3 == io.EOF" [Ret] []; IfE "v3 != nil" [Ret] []; Assign "v4" ":= v2.GetHeader().GetClusterId()"; IfE "v4 != v0.server.ClusterID()" [Ret] []; Call "syncHistoryRegion"; Assign "v3" "= v0.syncHistoryRegion(v2, v1)"; IfE "v3 != nil" [Ret] []; Call "bindStream"]].
Proof. reflexivity. Qed.

Lemma full_sync_appended_ok : full_sync_appended =
  ["Regions"; "RegionStats"; "RegionLeaders"].
Proof. reflexivity. Qed.

Lemma full_sync_truncated_ok : full_sync_truncated =
  ["Regions"; "RegionStats"; "RegionLeaders"].
Proof. reflexivity. Qed.

Lemma full_sync_fields_ok : full_sync_fields =
  ["Regions = v9"; "StartIndex = uint64(v7)"; "RegionStats = v10"; "RegionLeaders = v11"].
Proof. reflexivity. Qed.

Lemma full_sync_continue_cond_ok : full_sync_continue_cond =
  ["len(v9) < maxSyncRegionBatchSize && v12 < len(v6)-1"].
Proof. reflexivity. Qed.

Lemma full_sync_range_ok : full_sync_range =
  ["v12"; "v13"; "v6"].
Proof. reflexivity. Qed.

Lemma skel_StartSyncWithLeader_ok : skel_StartSyncWithLeader =
  [RLock "v0.mu"; Assign "v2" ":= v0.mu.closed"; RUnlock "v0.mu"; GoE [DeferE [Ret]; Call "LoadRegionsOnce"; Assign "v3" ":= v0.server.GetStorage().LoadRegionsOnce(func(v4 *core.RegionInfo) []*core.RegionInfo { return v0.server.GetBasicCluster().CheckAndPutLoadedRegion(v4, v0.server.GetStorage().SaveRegion) })"; ForE [SwitchE [[Ret]; []]; Assign "v5" "= v0.establish(v1)"; Assign "v3" "= v0.establish(v1)"]; ForE [SwitchE [[Ret]; []]; Assign "v6" ":= v0.syncRegion(v5)"; Assign "v7" ":= v0.syncRegion(v5)"; IfE "v7 != nil" [Assign "v8" ":= status.FromError(v7)"; Assign "v9" ":= status.FromError(v7)"; IfE "v9" [IfE "v8.Code() == codes.Canceled" [Ret] []] []] []; ForE [Call "Recv"; Assign "v10" ":= v6.Recv()"; Assign "v11" ":= v6.Recv()"; IfE "v11 != nil" [Assign "v11" "= v6.CloseSend()"] []; Call "GetNextIndex"; Call "GetStartIndex"; IfE "v0.history.GetNextIndex() != v10.GetStartIndex()" [Call "GetStartIndex"; Call "ResetWithIndex"] []; Call "GetRegionStats"; Assign "v12" ":= v10.GetRegionStats()"; Call "GetRegions"; Assign "v13" ":= v10.GetRegions()"; Call "GetRegionLeaders"; Assign "v14" ":= v10.GetRegionLeaders()"; Assign "v15" ":= len(v12) == len(v13)"; ForE [IfE "len(v14) > v16 && v14[v16].Id != 0" [Assign "v19" "= v14[v16]"] []; IfE "v15" [Call "NewRegionInfo"; Assign "v18" "= core.NewRegionInfo(v17, v19, core.SetWrittenBytes(v12[v16].BytesWritten), core.SetWrittenKeys(v12[v16].KeysWritten), core.SetReadBytes(v12[v16].BytesRead), core.SetReadKeys(v12[v16].KeysRead), )"] [Call "NewRegionInfo"; Assign "v18" "= core.NewRegionInfo(v17, v19)"]; Call "CheckAndPutRegion"; Call "SaveRegion"; Assign "v11" "= v0.server.GetStorage().SaveRegion(v17)"; IfE "v11 == nil" [Call "Record"] []]]]]].
Proof. reflexivity. Qed.


(* S7 (fixed by 4d83d3b): every accumulator the loop appends to is truncated after a batch has been sent *)
Lemma full_sync_all_truncated :
  forall x, In x full_sync_appended -> In x full_sync_truncated.
Proof. intros x H. cbn in *. tauto. Qed.
