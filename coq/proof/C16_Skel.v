(* C16 - structural obligations on the code as it is now (regenerated gen/Gen_C16.v).  The model in
   model/C16_Syncer.v was written against exactly these skeletons; a change of any assignment to
   head/tail/index/flushCount, of a window comparison, of the batching loop (which accumulators are
   appended / truncated, the continue condition, which slice feeds which response field) or of the
   follower's pairing expressions breaks a `reflexivity` here. *)
From PDV Require Import lib.Skel gen.Gen_C16.
From Coq Require Import ZArith.

Lemma c_defaultFlushCount_ok : defaultFlushCount = 100%Z. Proof. reflexivity. Qed.
Lemma c_maxSyncRegionBatchSize_ok : maxSyncRegionBatchSize = 100%Z. Proof. reflexivity. Qed.
Lemma c_defaultHistoryBufferSize_ok : defaultHistoryBufferSize = 10000%Z. Proof. reflexivity. Qed.
(* the follower's buffer cannot be smaller than a full-sync batch *)
Lemma batch_fits_history : (maxSyncRegionBatchSize <= defaultHistoryBufferSize)%Z. Proof. discriminate. Qed.

Lemma skel_hb_Record_ok : skel_hb_Record =
  [Lock "h"; DeferUnlock "h"; Assign "h.tail" "= (h.tail + 1) % h.size"; IfE "h.tail == h.head" [Assign "h.head" "= (h.head + 1) % h.size"] []; Assign "h.index" "++"; Assign "h.flushCount" "--"; IfE "h.flushCount <= 0" [Call "persist"; Assign "h.flushCount" "= defaultFlushCount"] []].
Proof. reflexivity. Qed.

Lemma skel_hb_RecordsFrom_ok : skel_hb_RecordsFrom =
  [RLock "h"; DeferRUnlock "h"; Call "nextIndex"; Call "firstIndex"; IfE "index < h.nextIndex() && index >= h.firstIndex()" [Call "firstIndex"; Assign "pos" "= (h.head + int(index-h.firstIndex())) % h.size"] [Ret]; Call "distanceToTail"; Assign "records" ":= make([]*core.RegionInfo, 0, h.distanceToTail(pos))"; Assign "i" ":= pos"; ForE [Assign "records" "= append(records, h.records[i])"; Assign "i" "= (i + 1) % h.size"]; Ret].
Proof. reflexivity. Qed.

Lemma skel_hb_ResetWithIndex_ok : skel_hb_ResetWithIndex =
  [Lock "h"; DeferUnlock "h"; Assign "h.index" "= index"; Assign "h.head" "= 0"; Assign "h.tail" "= 0"; Assign "h.flushCount" "= defaultFlushCount"; Call "persist"].
Proof. reflexivity. Qed.

Lemma skel_hb_GetNextIndex_ok : skel_hb_GetNextIndex =
  [RLock "h"; DeferRUnlock "h"; Ret].
Proof. reflexivity. Qed.

Lemma skel_hb_reload_ok : skel_hb_reload =
  [Call "Load"; IfE "v != """"" [Call "ParseUint"; Assign "h.index" "= strconv.ParseUint(v, 10, 64)"] []; Call "firstIndex"].
Proof. reflexivity. Qed.

Lemma skel_hb_persist_ok : skel_hb_persist =
  [Call "firstIndex"; Call "nextIndex"; Call "nextIndex"; Call "FormatUint"; Call "Save"; IfE "err != nil" [Call "nextIndex"] []].
Proof. reflexivity. Qed.

Lemma skel_hb_distanceToTail_ok : skel_hb_distanceToTail =
  [IfE "h.tail < pos" [Ret] []; Ret].
Proof. reflexivity. Qed.

Lemma skel_hb_firstIndex_ok : skel_hb_firstIndex =
  [Call "len"; Ret].
Proof. reflexivity. Qed.

Lemma skel_hb_nextIndex_ok : skel_hb_nextIndex =
  [Ret].
Proof. reflexivity. Qed.

Lemma skel_hb_len_ok : skel_hb_len =
  [Call "distanceToTail"; Ret].
Proof. reflexivity. Qed.

Lemma skel_newHistoryBuffer_ok : skel_newHistoryBuffer =
  [Assign "size" "++"; IfE "size < 2" [Assign "size" "= 2"] []; Assign "records" ":= make([]*core.RegionInfo, size)"; Call "reload"; Ret].
Proof. reflexivity. Qed.

Lemma ret_hb_distanceToTail_ok : ret_hb_distanceToTail =
  ["h.tail + h.size - pos"; "h.tail - pos"].
Proof. reflexivity. Qed.

Lemma ret_hb_firstIndex_ok : ret_hb_firstIndex =
  ["h.index - uint64(h.len())"].
Proof. reflexivity. Qed.

Lemma records_from_loop_ok : records_from_loop =
  ["i := pos"; "i != h.tail"; "i = (i + 1) % h.size"; "records = append(records, h.records[i])"].
Proof. reflexivity. Qed.

Lemma skel_syncHistoryRegion_ok : skel_syncHistoryRegion =
  [Assign "startIndex" ":= request.GetStartIndex()"; Call "RecordsFrom"; Assign "records" ":= s.history.RecordsFrom(startIndex)"; IfE "len(records) == 0" [Call "GetNextIndex"; IfE "s.history.GetNextIndex() == startIndex" [Ret] []; IfE "startIndex == 0" [Call "GetRegions"; Assign "regions" ":= s.server.GetRegions()"; Assign "lastIndex" ":= 0"; Assign "metas" ":= make([]*metapb.Region, 0, maxSyncRegionBatchSize)"; Assign "stats" ":= make([]*pdpb.RegionStat, 0, maxSyncRegionBatchSize)"; Assign "leaders" ":= make([]*metapb.Peer, 0, maxSyncRegionBatchSize)"; ForE [Assign "metas" "= append(metas, r.GetMeta())"; Assign "stats" "= append(stats, r.GetStat())"; Assign "leader" ":= &metapb.Peer{}"; IfE "r.GetLeader() != nil" [Assign "leader" "= r.GetLeader()"] []; Assign "leaders" "= append(leaders, leader)"; Assign "lastIndex" "+= len(metas)"; Call "Send"; Assign "metas" "= metas[:0]"; Assign "stats" "= stats[:0]"; Assign "leaders" "= leaders[:0]"]; Ret] []; Ret] []; Call "GetNextIndex"; Assign "regions" ":= make([]*metapb.Region, len(records))"; Assign "stats" ":= make([]*pdpb.RegionStat, len(records))"; Assign "leaders" ":= make([]*metapb.Peer, len(records))"; ForE [Assign "leader" ":= &metapb.Peer{}"; IfE "r.GetLeader() != nil" [Assign "leader" "= r.GetLeader()"] []]; Call "Send"; Ret].
Proof. reflexivity. Qed.

Lemma skel_RunServer_ok : skel_RunServer =
  [ForE [SwitchE [[Ret]; [Assign "requests" "= append(requests, first.GetMeta())"; Assign "stats" ":= append(stats, first.GetStat())"; Assign "leaders" ":= append(leaders, first.GetLeader())"; Call "GetNextIndex"; Assign "startIndex" ":= s.history.GetNextIndex()"; Call "Record"; ForE [Assign "requests" "= append(requests, region.GetMeta())"; Assign "stats" "= append(stats, region.GetStat())"; Assign "leaders" "= append(leaders, region.GetLeader())"; Call "Record"]; Assign "regions" ":= &pdpb.SyncRegionResponse{ Header: &pdpb.ResponseHeader{ClusterId: s.server.ClusterID()}, Regions: requests, StartIndex: startIndex, RegionStats: stats, RegionLeaders: leaders, }"; Call "broadcast"]; [Call "GetNextIndex"; Call "broadcast"]]; Assign "requests" "= requests[:0]"]].
Proof. reflexivity. Qed.

Lemma skel_Sync_ok : skel_Sync =
  [ForE [IfE "err == io.EOF" [Ret] []; IfE "err != nil" [Ret] []; IfE "clusterID != s.server.ClusterID()" [Ret] []; Call "syncHistoryRegion"; IfE "err != nil" [Ret] []; Call "bindStream"]].
Proof. reflexivity. Qed.

Lemma full_sync_appended_ok : full_sync_appended =
  ["metas"; "stats"; "leaders"].
Proof. reflexivity. Qed.

Lemma full_sync_truncated_ok : full_sync_truncated =
  ["metas"; "stats"; "leaders"].
Proof. reflexivity. Qed.

Lemma full_sync_fields_ok : full_sync_fields =
  ["Regions = metas"; "StartIndex = uint64(lastIndex)"; "RegionStats = stats"; "RegionLeaders = leaders"].
Proof. reflexivity. Qed.

Lemma full_sync_continue_cond_ok : full_sync_continue_cond =
  ["len(metas) < maxSyncRegionBatchSize && syncedIndex < len(regions)-1"].
Proof. reflexivity. Qed.

Lemma full_sync_range_ok : full_sync_range =
  ["syncedIndex"; "r"; "regions"].
Proof. reflexivity. Qed.

Lemma skel_StartSyncWithLeader_ok : skel_StartSyncWithLeader =
  [RLock "s.mu"; RUnlock "s.mu"; GoE [Call "LoadRegionsOnce"; Assign "err" ":= s.server.GetStorage().LoadRegionsOnce(s.server.GetBasicCluster().CheckAndPutRegion)"; ForE [SwitchE [[Ret]; []]; Assign "err" "= s.establish(addr)"]; ForE [SwitchE [[Ret]; []]; Assign "err" ":= s.syncRegion(conn)"; IfE "err != nil" [IfE "ok" [IfE "ev.Code() == codes.Canceled" [Ret] []] []] []; Call "GetNextIndex"; ForE [Call "Recv"; Assign "err" ":= stream.Recv()"; IfE "err != nil" [Assign "err" "= stream.CloseSend()"] []; Call "GetNextIndex"; Call "GetStartIndex"; IfE "s.history.GetNextIndex() != resp.GetStartIndex()" [Call "GetNextIndex"; Call "GetStartIndex"; Call "GetRegions"; Call "GetStartIndex"; Call "ResetWithIndex"] []; Call "GetRegionStats"; Assign "stats" ":= resp.GetRegionStats()"; Call "GetRegions"; Assign "regions" ":= resp.GetRegions()"; Call "GetRegionLeaders"; Assign "regionLeaders" ":= resp.GetRegionLeaders()"; Assign "hasStats" ":= len(stats) == len(regions)"; ForE [IfE "len(regionLeaders) > i && regionLeaders[i].Id != 0" [Assign "regionLeader" "= regionLeaders[i]"] []; IfE "hasStats" [Call "NewRegionInfo"; Assign "region" "= core.NewRegionInfo(r, regionLeader, core.SetWrittenBytes(stats[i].BytesWritten), core.SetWrittenKeys(stats[i].KeysWritten), core.SetReadBytes(stats[i].BytesRead), core.SetReadKeys(stats[i].KeysRead), )"] [Call "NewRegionInfo"; Assign "region" "= core.NewRegionInfo(r, regionLeader)"]; Call "CheckAndPutRegion"; Call "SaveRegion"; Assign "err" "= s.server.GetStorage().SaveRegion(r)"; IfE "err == nil" [Call "Record"] []]]]]].
Proof. reflexivity. Qed.


(* S7 (fixed by 4d83d3b): every accumulator the loop appends to is truncated after a batch has been sent *)
Lemma full_sync_all_truncated :
  forall x, In x full_sync_appended -> In x full_sync_truncated.
Proof. intros x H. cbn in *. tauto. Qed.
