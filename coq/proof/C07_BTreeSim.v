(* C07 — the Gallina B-tree (model/C07_BTree.v, a transcription of pkg/btree) refines the ordered-list
   specification L0 (model/C07_BTreeSpec.v): whole trees, every operation, any degree >= 2, any strict weak order.

   tinv t  = the representation invariant: the root is balanced (all leaves at depth h), every node but the root has
             between degree-1 and 2*degree-1 items, an internal node with k items has k+1 children, `indices[i]` is the
             number of items in children 0..i plus i (binv), the in-order walk is strictly sorted, `length` is its length.
   tabs t  = the abstraction: the in-order walk. *)
From Coq Require Import List ZArith Bool Lia.
From PDV Require Import lib.Base model.C07_BTreeSpec model.C07_BTree proof.C07_BTreeOrder proof.C07_BTreeRefine.
Import ListNotations.

Section Tree.
  Context {A : Type} (ltb : A -> A -> bool).
  Hypothesis lt_irrefl : forall a, ltb a a = false.
  Hypothesis lt_trans : forall a b c, ltb a b = true -> ltb b c = true -> ltb a c = true.
  Hypothesis lt_negtrans : forall a b c, ltb a b = false -> ltb b c = false -> ltb a c = false.

  Definition root_inv (lo hi : nat) (len : Z) (r : node A) : Prop :=
    exists h, binv lo hi h r /\ sorted ltb (flatten r) /\ (length (n_its r) <= hi)%nat /\
              (h <> 0%nat -> n_its r <> []) /\ len = Z.of_nat (length (flatten r)).

  Definition tinv (t : btree A) : Prop :=
    (2 <= bt_degree t)%nat /\
    match bt_root t with
    | None => bt_length t = 0%Z
    | Some r => root_inv (min_items t) (max_items t) (bt_length t) r
    end.

  Definition tabs (t : btree A) : list A := match bt_root t with None => [] | Some r => flatten r end.

  Definition l0_rem (typ : to_remove) (L : list A) : list A * option A :=
    match typ with
    | RemoveItem x => l0_delete ltb x L
    | RemoveMin => l0_delete_min L
    | RemoveMax => l0_delete_max L
    end.

  Lemma tinv_new d : (2 <= d)%nat -> tinv (bt_new d).
  Proof. intros H. split; [exact H|reflexivity]. Qed.

  Lemma degree_facts d : (2 <= d)%nat -> (1 <= d - 1)%nat /\ (d * 2 - 1 = 2 * (d - 1) + 1)%nat.
  Proof. lia. Qed.

  Lemma tinv_length t : tinv t -> bt_length t = Z.of_nat (length (tabs t)).
  Proof.
    intros [_ H]. unfold tabs. destruct (bt_root t) as [r|]; [|exact H]. destruct H as (h & _ & _ & _ & _ & E). exact E.
  Qed.

  (* ReplaceOrInsert *)
  Theorem replace_or_insert_spec t x : tinv t ->
    exists t' out, replace_or_insert ltb t x = Some (t', out) /\ tinv t' /\ bt_degree t' = bt_degree t /\
                   l0_insert ltb x (tabs t) = (tabs t', out).
  Proof.
    intros [D R]. destruct (degree_facts _ D) as [LO HI].
    unfold replace_or_insert, tabs, min_items, max_items in *. destruct (bt_root t) as [r|] eqn:ER.
    - destruct R as (h & B & Hs & Hlen & Hne & EL).
      assert (STEP : forall h1 r1, binv (bt_degree t - 1) (bt_degree t * 2 - 1) h1 r1 -> flatten r1 = flatten r ->
                 (length (n_its r1) < bt_degree t * 2 - 1)%nat -> (h1 <> 0%nat -> n_its r1 <> []) ->
                 exists t' out,
                   match insert ltb (S (height r1)) r1 x (bt_degree t * 2 - 1) with
                   | Some (r2, out) => Some (BT (bt_degree t) match out with
                                                              | Some _ => bt_length t
                                                              | None => (bt_length t + 1)%Z
                                                              end (Some r2), out)
                   | None => None
                   end = Some (t', out) /\ tinv t' /\ bt_degree t' = bt_degree t /\
                   l0_insert ltb x (flatten r) = (match bt_root t' with Some r' => flatten r' | None => [] end, out)).
      { intros h1 r1 B1 EF Hl1 Hne1. rewrite <- EF in Hs.
        destruct (insert_spec ltb lt_irrefl lt_trans lt_negtrans _ _ LO HI x h1 r1 (S (height r1)) B1 Hs) as (n' & out & E & B' & EI & Hb);
          [rewrite (height_binv _ _ _ _ B1); lia|exact Hl1|].
        rewrite E. eexists. exists out. split; [reflexivity|]. split; [|split].
        - split; [exact D|]. cbn [bt_root bt_degree bt_length]. unfold root_inv, min_items, max_items. cbn [bt_degree]. exists h1.
          split; [exact B'|]. split.
          + pose proof (l0_insert_sorted ltb lt_trans lt_negtrans x _ Hs) as H. rewrite EI in H. exact H.
          + split; [lia|]. split.
            * intros NZ E0. apply (Hne1 NZ). destruct (n_its r1); [reflexivity|]. rewrite E0 in Hb. cbn in Hb. lia.
            * pose proof (l0_insert_length ltb _ _ LO HI x (flatten r1)) as HL. rewrite EI in HL. cbn [fst snd] in HL.
              rewrite EL, <- EF. destruct out; lia.
        - reflexivity.
        - cbn [bt_root]. rewrite <- EF. exact EI. }
      destruct (Nat.leb_spec (bt_degree t * 2 - 1) (length (n_its r))) as [Full|NotFull].
      + assert (Elen : (length (n_its r) = bt_degree t * 2 - 1)%nat) by lia.
        destruct (node_split_spec _ _ LO HI h r B Elen) as (m & l & r2 & ES & EF & Bl & Br & Ll & Lr).
        rewrite (half_hi _ _ LO HI). rewrite ES.
        assert (EIDX : init_size [l; r2] = idx_of (map fsize [l; r2])).
        { unfold init_size. cbn [map]. rewrite (nlen_binv _ _ _ _ Bl), (nlen_binv _ _ _ _ Br). reflexivity. }
        rewrite EIDX.
        apply (STEP (S h)).
        * apply binv_node; [reflexivity|repeat constructor; assumption|].
          repeat constructor; lia.
        * cbn [flatten]. rewrite EF. reflexivity.
        * cbn [n_its length]. lia.
        * intros _. discriminate.
      + apply (STEP h r B eq_refl); [lia|exact Hne].
    - eexists. exists None. split; [reflexivity|]. split; [|split; reflexivity].
      split; [exact D|]. cbn [bt_root bt_length]. unfold root_inv, min_items, max_items. cbn [bt_degree]. exists 0%nat. split; [apply binv_leaf|]. split; [apply sorted_one|].
      split; [cbn; lia|]. split; [intros H; contradiction|]. rewrite R. reflexivity.
  Qed.

  Lemma rem_spec_l0 typ L L' out : rem_spec ltb typ L L' out -> l0_rem typ L = (L', out).
  Proof.
    destruct typ as [x| |]; cbn [rem_spec l0_rem].
    - auto.
    - destruct out as [e|]; [|contradiction]. intros ->. reflexivity.
    - destruct out as [e|]; [|contradiction]. intros ->. unfold l0_delete_max. rewrite rev_app_distr. cbn. rewrite rev_involutive. reflexivity.
  Qed.

  Lemma l0_rem_nil typ : l0_rem typ [] = ([], None).
  Proof. destruct typ; reflexivity. Qed.

  (* Delete / DeleteMin / DeleteMax *)
  Theorem delete_item_spec t typ : tinv t ->
    exists t' out, delete_item ltb t typ = Some (t', out) /\ tinv t' /\ bt_degree t' = bt_degree t /\
                   l0_rem typ (tabs t) = (tabs t', out).
  Proof.
    intros [D R]. destruct (degree_facts _ D) as [LO HI].
    unfold delete_item, tabs, min_items, max_items in *. destruct (bt_root t) as [r|] eqn:ER.
    - destruct R as (h & B & Hs & Hlen & Hne & EL).
      destruct (n_its r) as [|a its0] eqn:EI.
      + exists t, None. split; [reflexivity|]. split; [split; [exact D|]; rewrite ER; exists h; rewrite EI; auto|]. split; [reflexivity|].
        rewrite ER. destruct h as [|h]; [|exfalso; apply Hne; [discriminate|reflexivity]].
        inversion B; subst. cbn [n_its] in EI. subst. cbn [flatten]. apply l0_rem_nil.
      + assert (NE : n_its r <> []) by (rewrite EI; discriminate).
        destruct (remove_spec ltb lt_irrefl lt_trans lt_negtrans _ _ LO HI h typ r (2 * S (height r)) B Hs) as (n' & out & E & B' & RS & LEN);
          [rewrite (height_binv _ _ _ _ B); lia|exact NE|].
        rewrite E.
        rewrite EI in LEN. cbn [length] in LEN, Hlen.
        pose proof (rem_sorted ltb _ _ _ _ RS Hs) as Hs'.
        pose proof (rem_length ltb _ _ LO HI _ _ _ _ RS) as HL.
        pose proof (rem_spec_l0 _ _ _ _ RS) as EQ.
        eexists. exists out. split; [reflexivity|].
        assert (ELEN : (match out with Some _ => bt_length t - 1 | None => bt_length t end = Z.of_nat (length (flatten n')))%Z).
        { rewrite EL. destruct out; lia. }
        destruct n' as [its' ch' idx']. cbn [n_its n_ch].
        destruct its' as [|b its'].
        * destruct ch' as [|c0 rest].
          -- split; [|split; [reflexivity|exact EQ]]. split; [exact D|]. cbn [bt_root bt_length bt_degree]. unfold root_inv, min_items, max_items. cbn [bt_degree].
             exists h.
             split; [exact B'|]. split; [exact Hs'|]. split; [cbn; lia|]. split; [|exact ELEN].
             intros NZ. inversion B'; subst; [contradiction|discriminate].
          -- inversion B' as [|h0 ? ? L F1 F2]; subst. cbn [length] in L. destruct rest; [|discriminate].
             inversion F1; subst. inversion F2; subst.
             assert (EFL : flatten (Node [] [c0] (idx_of (map fsize [c0]))) = flatten c0) by reflexivity.
             rewrite EFL in *.
             split; [|split; [reflexivity|exact EQ]]. split; [exact D|]. cbn [bt_root bt_length bt_degree]. unfold root_inv, min_items, max_items. cbn [bt_degree].
             exists h0.
             split; [assumption|]. split; [exact Hs'|]. split; [lia|]. split; [|exact ELEN].
             intros _ E0. rewrite E0 in *. cbn in *. lia.
        * split; [|split; [reflexivity|exact EQ]]. split; [exact D|]. cbn [bt_root bt_length bt_degree]. unfold root_inv, min_items, max_items. cbn [bt_degree].
          exists h.
          split; [exact B'|]. split; [exact Hs'|]. split; [cbn [n_its] in LEN |- *; lia|]. split; [|exact ELEN].
          intros _. discriminate.
    - exists t, None. split; [reflexivity|]. split; [split; [exact D|rewrite ER; exact R]|]. split; [reflexivity|].
      rewrite ER. apply l0_rem_nil.
  Qed.

  (* ---- queries on a whole tree (with_root of the model gives the fuel S (height root)) ---- *)
  Section Queries.
    Variable t : btree A.
    Hypothesis T : tinv t.

    Lemma q_root r : bt_root t = Some r ->
      exists h, binv (min_items t) (max_items t) h r /\ sorted ltb (flatten r) /\ (h < S (height r))%nat /\ (1 <= min_items t)%nat.
    Proof.
      intros ER. destruct T as [D R]. rewrite ER in R. destruct R as (h & B & Hs & _). exists h. split; [exact B|]. split; [exact Hs|].
      rewrite (height_binv _ _ _ _ B). unfold min_items. lia.
    Qed.

    Lemma q_get x : match bt_root t with Some r => get ltb (S (height r)) r x | None => None end = l0_get ltb x (tabs t).
    Proof.
      unfold tabs. destruct (bt_root t) as [r|] eqn:ER; [|reflexivity]. destruct (q_root r ER) as (h & B & Hs & Hf & _).
      apply (get_spec ltb lt_irrefl lt_trans lt_negtrans _ _ x h r _ B Hs Hf).
    Qed.

    Lemma q_get_with_index x :
      match bt_root t with Some r => get_with_index ltb (S (height r)) r x | None => (None, 0%Z) end =
      (l0_get ltb x (tabs t), Z.of_nat (l0_rank ltb x (tabs t))).
    Proof.
      unfold tabs. destruct (bt_root t) as [r|] eqn:ER; [|reflexivity]. destruct (q_root r ER) as (h & B & Hs & Hf & _).
      apply (get_with_index_spec ltb lt_irrefl lt_trans lt_negtrans _ _ x h r _ B Hs Hf).
    Qed.

    Lemma q_get_at k : match bt_root t with Some r => get_at (S (height r)) r k | None => None end = l0_get_at k (tabs t).
    Proof.
      unfold tabs, l0_get_at. destruct (bt_root t) as [r|] eqn:ER.
      - destruct (q_root r ER) as (h & B & Hs & Hf & _). destruct (Z.ltb_spec k 0) as [Neg|Pos].
        + cbn [get_at]. replace (k <? 0)%Z with true by (symmetry; apply Z.ltb_lt; exact Neg). rewrite orb_true_r. reflexivity.
        + apply (get_at_spec _ _ h r _ k B Hf Pos).
      - destruct (k <? 0)%Z; [reflexivity|]. destruct (Z.to_nat k); reflexivity.
    Qed.

    Lemma q_min : match bt_root t with Some r => node_min (S (height r)) r | None => None end = hd_error (tabs t).
    Proof.
      unfold tabs. destruct (bt_root t) as [r|] eqn:ER; [|reflexivity]. destruct (q_root r ER) as (h & B & Hs & Hf & LO).
      apply (node_min_spec _ _ LO h r _ B Hf).
    Qed.

    Lemma q_max : match bt_root t with Some r => node_max (S (height r)) r | None => None end = hd_error (rev (tabs t)).
    Proof.
      unfold tabs. destruct (bt_root t) as [r|] eqn:ER; [|reflexivity]. destruct (q_root r ER) as (h & B & Hs & Hf & LO).
      rewrite (node_max_spec _ _ LO h r _ B Hf). unfold last_opt. destruct (rev (flatten r)); reflexivity.
    Qed.

    Lemma q_ascend x : match bt_root t with Some r => ascend_from ltb (S (height r)) r (Some x) | None => [] end = l0_ascend_ge ltb x (tabs t).
    Proof.
      unfold tabs. destruct (bt_root t) as [r|] eqn:ER; [|reflexivity]. destruct (q_root r ER) as (h & B & Hs & Hf & LO).
      apply (ascend_spec ltb lt_irrefl lt_trans lt_negtrans _ _ LO x h r _ B Hs Hf).
    Qed.

    Lemma q_descend x :
      match bt_root t with Some r => fst (descend_from ltb (S (height r)) r x false) | None => [] end = l0_descend_le ltb x (tabs t).
    Proof.
      unfold tabs. destruct (bt_root t) as [r|] eqn:ER; [|reflexivity]. destruct (q_root r ER) as (h & B & Hs & Hf & LO).
      apply (descend_le_spec ltb lt_irrefl lt_trans lt_negtrans _ _ LO x h r _ B Hs Hf).
    Qed.
  End Queries.
End Tree.

(* ---------------------------------------------------------------------------------------- *)
(* pkg/btree on Int items: the operation lists the driver runs (bt2_step / bt2_run of model/C07_BTree.v) against
   the L0 runs (bt_step / bt_run of model/C07_BTreeSpec.v) *)
Local Open Scope Z_scope.

Lemma zlt_irrefl a : Z.ltb a a = false.
Proof. apply Z.ltb_irrefl. Qed.
Lemma zlt_trans a b c : Z.ltb a b = true -> Z.ltb b c = true -> Z.ltb a c = true.
Proof. rewrite !Z.ltb_lt. lia. Qed.
Lemma zlt_negtrans a b c : Z.ltb a b = false -> Z.ltb b c = false -> Z.ltb a c = false.
Proof. rewrite !Z.ltb_ge. lia. Qed.

Lemma seq_nth_map {X} (d : X) (l : list X) : forall pre,
  map (fun k => match nth_error (pre ++ l) k with Some x => x | None => d end) (seq (length pre) (length l)) = l.
Proof.
  induction l as [|a l IH]; intros pre; [reflexivity|]. cbn [length seq map].
  rewrite nth_error_app2 by lia. rewrite Nat.sub_diag. cbn [nth_error]. f_equal.
  specialize (IH (pre ++ [a])). rewrite <- app_assoc in IH. cbn [app] in IH. rewrite app_length in IH. cbn [length] in IH.
  rewrite Nat.add_1_r in IH. exact IH.
Qed.

Theorem bt2_step_refines (t : zt) (o : bop) : tinv Z.ltb t ->
  exists t' b, bt2_step t o = Some (t', b) /\ bt_step (tabs t) o = (tabs t', b) /\ tinv Z.ltb t' /\ bt_degree t' = bt_degree t.
Proof.
  intros T.
  pose proof (replace_or_insert_spec Z.ltb zlt_irrefl zlt_trans zlt_negtrans t) as INS.
  pose proof (delete_item_spec Z.ltb zlt_irrefl zlt_trans zlt_negtrans t) as DEL.
  destruct o as [x|x| | |x|x|k|x lim|x lim| | | |]; cbn [bt2_step bt_step]; unfold with_root; cbv beta.
  - destruct (INS x T) as (t' & out & E & T' & ED & EL). rewrite E, EL. eauto 10.
  - destruct (DEL (RemoveItem x) T) as (t' & out & E & T' & ED & EL). cbn [l0_rem] in EL. rewrite E, EL. eauto 10.
  - destruct (DEL RemoveMin T) as (t' & out & E & T' & ED & EL). cbn [l0_rem] in EL. rewrite E, EL. eauto 10.
  - destruct (DEL RemoveMax T) as (t' & out & E & T' & ED & EL). cbn [l0_rem] in EL. rewrite E, EL. eauto 10.
  - rewrite (q_get Z.ltb zlt_irrefl zlt_trans zlt_negtrans t T x). eauto 10.
  - rewrite (q_get_with_index Z.ltb zlt_irrefl zlt_trans zlt_negtrans t T x). unfold l0_get_with_index. eauto 10.
  - rewrite (q_get_at Z.ltb t T k). eauto 10.
  - rewrite (q_ascend Z.ltb zlt_irrefl zlt_trans zlt_negtrans t T x). eauto 10.
  - rewrite (q_descend Z.ltb zlt_irrefl zlt_trans zlt_negtrans t T x). eauto 10.
  - rewrite (tinv_length Z.ltb t T). eauto 10.
  - rewrite (q_min Z.ltb t T). eauto 10.
  - rewrite (q_max Z.ltb t T). eauto 10.
  - exists t. eexists. split; [reflexivity|]. split; [|split; [exact T|reflexivity]]. f_equal.
    rewrite (tinv_length Z.ltb t T), Nat2Z.id.
    assert (E1 : map (fun k : nat => match match bt_root t with
                                           | Some r => get_at (S (height r)) r (Z.of_nat k)
                                           | None => None end with Some x => x | None => -999999 end) (seq 0 (length (tabs t))) = tabs t).
    { etransitivity; [|exact (seq_nth_map (-999999) (tabs t) [])]. cbn [app length]. apply map_ext. intros k.
      rewrite (q_get_at Z.ltb t T (Z.of_nat k)). unfold l0_get_at.
      replace (Z.of_nat k <? 0) with false by (symmetry; apply Z.ltb_ge; lia). rewrite Nat2Z.id. reflexivity. }
    rewrite E1. f_equal. apply map_ext. intros x.
    rewrite (q_get_with_index Z.ltb zlt_irrefl zlt_trans zlt_negtrans t T x). reflexivity.
Qed.

(* what a run reports about the tree after each operation: the root satisfies the representation invariant *)
Definition shape_ok (d : nat) (r : option (bobs * option (node Z))) : Prop :=
  match r with
  | Some (_, Some root) => exists len, root_inv Z.ltb (d - 1) (d * 2 - 1) len root
  | Some (_, None) => True
  | None => False          (* the transcription never reaches a point where the Go code would panic *)
  end.

Theorem bt2_run_refines ops : forall (t : zt), tinv Z.ltb t ->
  map (option_map fst) (bt2_run t ops) = map Some (bt_run (tabs t) ops) /\
  Forall (shape_ok (bt_degree t)) (bt2_run t ops).
Proof.
  induction ops as [|o ops IH]; intros t T; [split; [reflexivity|constructor]|].
  destruct (bt2_step_refines t o T) as (t' & b & E & EL & T' & ED).
  cbn [bt2_run bt_run]. rewrite E, EL. destruct (IH t' T') as [IH1 IH2]. rewrite ED in IH2. split.
  - cbn [map option_map fst]. f_equal. exact IH1.
  - constructor; [|exact IH2]. unfold shape_ok. destruct T' as [_ R]. destruct (bt_root t') as [r|]; [|exact I].
    exists (bt_length t'). unfold min_items, max_items in R. rewrite ED in R. exact R.
Qed.

Corollary btree_refines_spec d ops : (2 <= d)%nat ->
  map (option_map fst) (bt2_run (bt_new d) ops) = map Some (bt_run [] ops) /\
  Forall (shape_ok d) (bt2_run (bt_new d) ops).
Proof. intros D. apply (bt2_run_refines ops (bt_new d)). apply tinv_new, D. Qed.
