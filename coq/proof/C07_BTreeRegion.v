(* C07 — regionItem.Less (model/C07_Region.v: rlt, the order of the start keys) is a strict weak order: the hypotheses
   of the B-tree refinement (proof/C07_BTreeSim.v) hold for the items core.regionTree stores. *)
From PDV Require Import lib.Base lib.C07_Key model.C07_BTreeSpec model.C07_BTree model.C07_Region
  proof.C07_BTreeOrder proof.C07_BTreeRefine proof.C07_BTreeSim.

Lemma rlt_irrefl a : rlt a a = false.
Proof. unfold rlt. kreflect; [korder|reflexivity]. Qed.
Lemma rlt_trans a b c : rlt a b = true -> rlt b c = true -> rlt a c = true.
Proof. unfold rlt. intros H1 H2. kreflect; try discriminate; try reflexivity. korder. Qed.
Lemma rlt_negtrans a b c : rlt a b = false -> rlt b c = false -> rlt a c = false.
Proof. unfold rlt. intros H1 H2. kreflect; try discriminate; try reflexivity. korder. Qed.

(* the region tree's ReplaceOrInsert / Delete on a Gallina B-tree of region items are the L0 operations the
   regionTree model (L1) is written over *)
Theorem region_btree_insert t r : tinv rlt t ->
  exists t' out, replace_or_insert rlt t r = Some (t', out) /\ tinv rlt t' /\ bt_degree t' = bt_degree t /\
                 l0_insert rlt r (tabs t) = (tabs t', out).
Proof. apply (replace_or_insert_spec rlt rlt_irrefl rlt_trans rlt_negtrans). Qed.

Theorem region_btree_delete t r : tinv rlt t ->
  exists t' out, delete_item rlt t (RemoveItem r) = Some (t', out) /\ tinv rlt t' /\ bt_degree t' = bt_degree t /\
                 l0_delete rlt r (tabs t) = (tabs t', out).
Proof. apply (delete_item_spec rlt rlt_irrefl rlt_trans rlt_negtrans t (RemoveItem r)). Qed.
