(* C09 — a syntactic criterion for "no step lowers what an earlier step counts in ConfVerChanged" (monotone_from
   of proof/C09_OwnGeneral.v): every later step is compatible with every earlier one.  General in the plan. *)
From Coq Require Import String.
From PDV Require Import lib.Base gen.Gen_C08 gen.Gen_C09 model.C08_Steps model.C08_Builder model.C09_OpCtl
     proof.C08_ListFacts proof.C08_SimPhases proof.C08_NjPhases proof.C08_StepSpec proof.C09_CountProof proof.C09_StaleProof proof.C09_OwnGeneral.
Local Open Scope list_scope.
Local Open Scope Z_scope.

Definition step_store (s : step) : option Z :=
  match s with
  | AddPeer st _ | AddLearner st _ | AddLightPeer st _ | AddLightLearner st _
  | PromoteLearner st _ | DemoteFollower st _ | RemovePeer st _ => Some st
  | _ => None
  end.

Definition in_fst (st : Z) (l : list (Z * Z)) : bool := existsb (fun e => fst e =? st) l.

(* may the later step s follow the earlier step x without lowering x's count? *)
Definition compat (x s : step) : bool :=
  match x with
  | TransferLeader _ _ | MergeRegion _ _ | SplitRegion _ => true
  | _ =>
  match s with
  | TransferLeader _ _ | MergeRegion _ _ | SplitRegion _ => true
  | ChangePeerV2Enter _ _ =>
      match x with AddLearner _ _ | AddLightLearner _ _ | RemovePeer _ _ => true | _ => false end
  | ChangePeerV2Leave pl dv =>
      match x with
      | AddLearner _ _ | AddLightLearner _ _ | RemovePeer _ _ => true
      | ChangePeerV2Enter pl' dv' => list_eqb zz_eqb pl pl' && list_eqb zz_eqb dv dv'
      | _ => false
      end
  | _ =>
      match step_store s with
      | None => false
      | Some st =>
          match x with
          | ChangePeerV2Enter pl dv | ChangePeerV2Leave pl dv =>
              negb (in_fst st pl) && (match s with RemovePeer _ _ => true | _ => negb (in_fst st dv) end)
          | _ =>
              match step_store x with
              | Some st' =>
                  negb (st' =? st)
                  || match x, s with
                     | AddLearner _ _, PromoteLearner _ _ | AddLightLearner _ _, PromoteLearner _ _ => true
                     | RemovePeer _ id, AddLearner _ id' | RemovePeer _ id, AddLightLearner _ id'
                     | RemovePeer _ id, AddPeer _ id' | RemovePeer _ id, AddLightPeer _ id' => negb (id =? 0) && negb (id' =? id)
                     | _, _ => false
                     end
              | None => false
              end
          end
      end
  end
  end.

(* ---------- ConfVerChanged looks at the peers only, and only on the step's stores ---------- *)
Lemma cvc_peers r r' x : peers r' = peers r -> conf_ver_changed r' x = conf_ver_changed r x.
Proof.
  intros H. destruct x; cbn [conf_ver_changed]; unfold get_store_voter, get_store_peer, get_store_learner, dv_changed, get_store_learner;
    rewrite ?H; try reflexivity.
Qed.

Lemma cvc_simple_local r r' x st :
  step_store x = Some st -> ND (peers r) -> ND (peers r') -> lk (peers r') st = lk (peers r) st ->
  conf_ver_changed r' x = conf_ver_changed r x.
Proof.
  intros Hs Hnd Hnd' H.
  destruct x; cbn [step_store] in Hs; try discriminate; inversion Hs; subst; cbn [conf_ver_changed];
    rewrite ?(get_store_voter_lk r _ Hnd), ?(get_store_voter_lk r' _ Hnd'), ?(get_store_learner_lk r _ Hnd), ?(get_store_learner_lk r' _ Hnd'),
            ?get_store_peer_lk, ?H; reflexivity.
Qed.

Lemma forallb_ext_in {A} (f g : A -> bool) l : (forall x, In x l -> f x = g x) -> forallb f l = forallb g l.
Proof.
  induction l as [|x r IH]; intros H; cbn; [reflexivity|]. rewrite (H x (or_introl eq_refl)), IH; [reflexivity|].
  intros y Hy. apply H. right. exact Hy.
Qed.

Lemma cvc_joint_local r r' x pl dv :
  (x = ChangePeerV2Enter pl dv \/ x = ChangePeerV2Leave pl dv) -> ND (peers r) -> ND (peers r') ->
  (forall e, In e (pl ++ dv) -> lk (peers r') (fst e) = lk (peers r) (fst e)) ->
  conf_ver_changed r' x = conf_ver_changed r x.
Proof.
  intros Hx Hnd Hnd' H.
  assert (Hv : forall e, In e (pl ++ dv) -> get_store_voter r' (fst e) = get_store_voter r (fst e)).
  { intros e He. rewrite (get_store_voter_lk r _ Hnd), (get_store_voter_lk r' _ Hnd'), (H e He). reflexivity. }
  assert (Hl : forall e, In e (pl ++ dv) -> get_store_learner r' (fst e) = get_store_learner r (fst e)).
  { intros e He. rewrite (get_store_learner_lk r _ Hnd), (get_store_learner_lk r' _ Hnd'), (H e He). reflexivity. }
  assert (Hp : forall e, In e (pl ++ dv) -> get_store_peer r' (fst e) = get_store_peer r (fst e)).
  { intros e He. rewrite !get_store_peer_lk. apply H. exact He. }
  destruct Hx as [-> | ->]; cbn [conf_ver_changed].
  - rewrite (forallb_ext_in _ (fun x => let p := get_store_voter r (fst x) in (oid p =? snd x) && is_voter_or_incoming p) pl).
    2:{ intros e He. cbn zeta. rewrite (Hv e (in_or_app _ _ _ (or_introl He))). reflexivity. }
    rewrite (forallb_ext_in _ (fun x => let p := get_store_voter r (fst x) in
                                        negb (is_some p && (negb (oid p =? snd x) || negb (is_learner_or_demoting p)))) dv).
    2:{ intros e He. cbn zeta. rewrite (Hv e (in_or_app _ _ _ (or_intror He))). reflexivity. }
    reflexivity.
  - rewrite (forallb_ext_in _ (fun x => let p := get_store_voter r (fst x) in (oid p =? snd x) && role_eqb (orole p) Voter) pl).
    2:{ intros e He. cbn zeta. rewrite (Hv e (in_or_app _ _ _ (or_introl He))). reflexivity. }
    rewrite (forallb_ext_in _ (fun x => negb (is_some (get_store_peer r (leave_lookup_key x)) && negb (dv_changed r x))) dv).
    2:{ intros e He. rewrite leave_lookup_is_store. unfold dv_changed. rewrite (Hp e (in_or_app _ _ _ (or_intror He))), (Hl e (in_or_app _ _ _ (or_intror He))). reflexivity. }
    reflexivity.
Qed.

(* ---------- what an applied step does to the lookups ---------- *)
Lemma apply_change_frame j l ps t p ps' :
  ND ps -> apply_change j l ps (t, p) = Some ps' -> forall s, s <> pstore p -> lk ps' s = lk ps s.
Proof.
  intros Hnd H s Hs. unfold apply_change in H. fold (lk ps (pstore p)) in H.
  destruct (lk ps (pstore p)) as [e|] eqn:Ee; destruct t.
  - destruct (negb (pid e =? pid p)); [discriminate|]. destruct (prole e); try discriminate.
    inversion H; subst ps'. rewrite lk_replace by reflexivity. destruct (s =? pstore p) eqn:E; [apply Z.eqb_eq in E; contradiction|reflexivity].
  - destruct (negb (pid e =? pid p)); [discriminate|]. destruct (prole e); try discriminate.
    destruct (negb j && (pstore p =? l)); [discriminate|].
    inversion H; subst ps'. rewrite lk_replace by reflexivity. destruct (s =? pstore p) eqn:E; [apply Z.eqb_eq in E; contradiction|reflexivity].
  - destruct (negb (peer_eqb e p)); [discriminate|]. destruct (pstore p =? l); [discriminate|].
    destruct (j && role_eqb (prole e) Voter); [discriminate|].
    inversion H; subst ps'. rewrite lk_remove_store by exact Hnd. destruct (s =? pstore p) eqn:E; [apply Z.eqb_eq in E; contradiction|reflexivity].
  - inversion H; subst ps'. rewrite lk_app. destruct (lk ps s); [reflexivity|]. unfold lk; cbn. unfold on_store; cbn.
    destruct (pstore p =? s) eqn:E; [apply Z.eqb_eq in E; congruence|reflexivity].
  - inversion H; subst ps'. rewrite lk_app. destruct (lk ps s); [reflexivity|]. unfold lk; cbn. unfold on_store; cbn.
    destruct (pstore p =? s) eqn:E; [apply Z.eqb_eq in E; congruence|reflexivity].
  - discriminate.
Qed.

Lemma simple_cmd_store r s st c : step_store s = Some st -> cmd_of_step r s = Some c ->
  exists t p, c = CChangePeer t (Some p) /\ pstore p = st \/ (c = CChangePeer t None).
Proof.
  intros Hs Hc. destruct s; cbn [step_store] in Hs; try discriminate; inversion Hs; subst; cbn [cmd_of_step] in Hc.
  - destruct (is_some (get_store_peer r st)); [discriminate|]. inversion Hc. exists AddNode, (Peer st id Voter). left. auto.
  - destruct (is_some (get_store_peer r st)); [discriminate|]. inversion Hc. exists AddLearnerNode, (Peer st id Learner). left. auto.
  - destruct (is_some (get_store_peer r st)); [discriminate|]. inversion Hc. exists AddNode, (Peer st id Voter). left. auto.
  - destruct (is_some (get_store_peer r st)); [discriminate|]. inversion Hc. exists AddLearnerNode, (Peer st id Learner). left. auto.
  - inversion Hc. exists AddNode, (Peer st id Voter). left. auto.
  - inversion Hc. exists AddLearnerNode, (Peer st id Learner). left. auto.
  - inversion Hc. destruct (get_store_peer r st) as [p|] eqn:Ep.
    + exists RemoveNode, p. left. split; [reflexivity|]. apply (get_store_peer_store _ _ _ Ep).
    + exists RemoveNode, (Peer 0 0 Voter). right. reflexivity.
Qed.

Lemma simple_frame r s c r' st :
  ND (peers r) -> step_store s = Some st -> exec_step r s = RDone c r' ->
  forall s', s' <> st -> lk (peers r') s' = lk (peers r) s'.
Proof.
  intros Hnd Hs He s' Hne. destruct (exec_done _ _ _ _ He) as (_ & _ & Hc & Ha).
  destruct (simple_cmd_store r s st c Hs Hc) as (t & p & [[-> Hp]| ->]); [|cbn in Ha; discriminate].
  unfold apply_cmd in Ha. destruct (is_in_joint r); [discriminate|].
  destruct (apply_change false (leader r) (peers r) (t, p)) as [ps'|] eqn:E; [|discriminate]. inversion Ha; subst r'. cbn [peers set_peers].
  apply (apply_change_frame _ _ _ _ _ _ Hnd E). rewrite Hp. exact Hne.
Qed.

(* promote / demote / enter / leave change roles only: every store keeps its peer id *)
Definition ids_kept (ps ps' : list peer) : Prop := forall st, option_map pid (lk ps' st) = option_map pid (lk ps st).

Lemma apply_change_role_only j l ps t p ps' :
  ND ps -> lk ps (pstore p) <> None -> apply_change j l ps (t, p) = Some ps' -> t <> RemoveNode -> ids_kept ps ps' /\ ND ps'.
Proof.
  intros Hnd Hex H Ht. unfold apply_change in H. fold (lk ps (pstore p)) in H.
  destruct (lk ps (pstore p)) as [e|] eqn:Ee; [|contradiction]. destruct t; [| |contradiction].
  - destruct (negb (pid e =? pid p)); [discriminate|]. destruct (prole e); try discriminate.
    inversion H; subst ps'. split; [|apply ND_replace; [reflexivity|exact Hnd]].
    intros st. rewrite lk_replace by reflexivity. destruct (st =? pstore p) eqn:E; [|reflexivity].
    apply Z.eqb_eq in E. subst st. rewrite Ee. reflexivity.
  - destruct (negb (pid e =? pid p)); [discriminate|]. destruct (prole e); try discriminate.
    destruct (negb j && (pstore p =? l)); [discriminate|].
    inversion H; subst ps'. split; [|apply ND_replace; [reflexivity|exact Hnd]].
    intros st. rewrite lk_replace by reflexivity. destruct (st =? pstore p) eqn:E; [|reflexivity].
    apply Z.eqb_eq in E. subst st. rewrite Ee. reflexivity.
Qed.

(* what the store-to-id map decides: the counts of the learner adds and of the removals *)
Lemma cvc_ids_only r r' x :
  ids_kept (peers r) (peers r') ->
  match x with AddLearner _ _ | AddLightLearner _ _ | RemovePeer _ _ => conf_ver_changed r' x = conf_ver_changed r x | _ => True end.
Proof.
  intros H. destruct x; try exact I; cbn [conf_ver_changed]; rewrite !get_store_peer_lk;
    specialize (H st); destruct (lk (peers r') st), (lk (peers r) st); cbn in *; inversion H; subst; reflexivity.
Qed.

Lemma leave_ids_kept ps : ids_kept ps (map leave_role ps).
Proof.
  intros st. rewrite lk_map by (intros q; apply leave_role_store). destruct (lk ps st) as [p|]; [|reflexivity].
  cbn. unfold leave_role. destruct (prole p); reflexivity.
Qed.

Lemma apply_changes_ids_kept l : forall cs ps ps',
  ND ps -> (forall c, In c cs -> fst c <> RemoveNode /\ lk ps (pstore (snd c)) <> None) ->
  apply_changes true l ps cs = Some ps' -> ids_kept ps ps'.
Proof.
  induction cs as [|[t p] cs IH]; intros ps ps' Hnd Hc H; cbn [apply_changes] in H.
  - inversion H; subst. intros st. reflexivity.
  - destruct (apply_change true l ps (t, p)) as [ps1|] eqn:E; [|discriminate].
    destruct (Hc (t, p) (or_introl eq_refl)) as [Ht Hex]. cbn [fst snd] in *.
    destruct (apply_change_role_only _ _ _ _ _ _ Hnd Hex E Ht) as [K1 Hnd1].
    assert (K2 : ids_kept ps1 ps').
    { apply (IH ps1 ps' Hnd1); [|exact H]. intros c Hin. destruct (Hc c (or_intror Hin)) as [A B]. split; [exact A|].
      intros C. apply B. specialize (K1 (pstore (snd c))). rewrite C in K1. destruct (lk ps (pstore (snd c))); [discriminate|reflexivity]. }
    intros st. rewrite K2. apply K1.
Qed.

Lemma in_fst_false st l e : in_fst st l = false -> In e l -> fst e <> st.
Proof.
  unfold in_fst. intros H Hin C. assert (X : existsb (fun e => fst e =? st) l = true) by (apply existsb_exists; exists e; split; [exact Hin|apply Z.eqb_eq; exact C]).
  congruence.
Qed.

Lemma list_eqb_zz l l' : list_eqb zz_eqb l l' = true -> l = l'.
Proof.
  revert l'. induction l as [|[a b] l IH]; intros [|[a' b'] l'] H; cbn in H; try discriminate; [reflexivity|].
  apply andb_true_iff in H as [H1 H2]. unfold zz_eqb in H1. cbn in H1. apply andb_true_iff in H1 as [A B].
  apply Z.eqb_eq in A, B. subst. f_equal. apply IH. exact H2.
Qed.

(* ---------- a simple step (one store) ---------- *)
Section Simple.
  Variables (r r' : region) (s : step) (c : cmd) (st : Z).
  Hypothesis Hnd : ND (peers r).
  Hypothesis Hnd' : ND (peers r').
  Hypothesis He : exec_step r s = RDone c r'.
  Hypothesis Hf : is_finish r' s = true.
  Hypothesis Hst : step_store s = Some st.
  Hypothesis Hz : step_ids_nonzero s = true.

  Lemma mono_other_store x st' : step_store x = Some st' -> st' <> st -> conf_ver_changed r' x = conf_ver_changed r x.
  Proof.
    intros Hx Hne. apply (cvc_simple_local r r' x st' Hx Hnd Hnd'). apply (simple_frame r s c r' st Hnd Hst He). exact Hne.
  Qed.

  Lemma mono_joint_out x pl dv :
    (x = ChangePeerV2Enter pl dv \/ x = ChangePeerV2Leave pl dv) -> in_fst st pl = false -> in_fst st dv = false ->
    conf_ver_changed r' x = conf_ver_changed r x.
  Proof.
    intros Hx H1 H2. apply (cvc_joint_local r r' x pl dv Hx Hnd Hnd'). intros e He'.
    apply (simple_frame r s c r' st Hnd Hst He). apply in_app_or in He' as [H|H]; [exact (in_fst_false st pl e H1 H)|exact (in_fst_false st dv e H2 H)].
  Qed.

  (* removing a peer a joint step demoted (or any peer outside its promotions) keeps the joint step's count *)
  Lemma mono_joint_remove x pl dv id :
    s = RemovePeer st id -> (x = ChangePeerV2Enter pl dv \/ x = ChangePeerV2Leave pl dv) -> in_fst st pl = false ->
    conf_ver_changed r x <= conf_ver_changed r' x.
  Proof.
    intros -> Hx H1.
    assert (Hgone : lk (peers r') st = None).
    { cbn [is_finish] in Hf. rewrite get_store_peer_lk in Hf. destruct (lk (peers r') st); [discriminate|reflexivity]. }
    assert (Hfr : forall s', s' <> st -> lk (peers r') s' = lk (peers r) s') by (apply (simple_frame r _ c r' st Hnd Hst He)).
    assert (Hpl : forall e, In e pl -> lk (peers r') (fst e) = lk (peers r) (fst e)).
    { intros e Hin. apply Hfr. exact (in_fst_false st pl e H1 Hin). }
    pose proof (cvc_le_nominal r x) as [_ Hn].
    destruct Hx as [-> | ->]; cbn [conf_ver_changed nominal] in *.
    - match goal with |- (if ?a then _ else _) <= (if ?b then _ else _) => destruct a eqn:Ea; [assert (Eb : b = true); [|rewrite Eb; lia]|destruct b; lia] end.
      apply andb_true_iff in Ea as [A B]. apply andb_true_iff. split.
      + rewrite <- A. apply forallb_ext_in. intros e Hin. cbn zeta.
        rewrite (get_store_voter_lk r _ Hnd), (get_store_voter_lk r' _ Hnd'), (Hpl e Hin). reflexivity.
      + rewrite forallb_forall in B. apply forallb_forall. intros e Hin. specialize (B e Hin). cbn zeta in *.
        destruct (Z.eq_dec (fst e) st) as [E|E].
        * rewrite (get_store_voter_lk r' _ Hnd'), E, Hgone. reflexivity.
        * rewrite (get_store_voter_lk r _ Hnd) in B. rewrite (get_store_voter_lk r' _ Hnd'), (Hfr _ E). exact B.
    - match goal with |- (if ?a then _ else _) <= (if ?b then _ else _) => destruct a eqn:Ea; [assert (Eb : b = true); [|rewrite Eb; lia]|destruct b; lia] end.
      apply andb_true_iff in Ea as [A B]. apply andb_true_iff. split.
      + rewrite <- A. apply forallb_ext_in. intros e Hin. cbn zeta.
        rewrite (get_store_voter_lk r _ Hnd), (get_store_voter_lk r' _ Hnd'), (Hpl e Hin). reflexivity.
      + rewrite forallb_forall in B. apply forallb_forall. intros e Hin. specialize (B e Hin). rewrite leave_lookup_is_store in *.
        destruct (Z.eq_dec (fst e) st) as [E|E].
        * rewrite get_store_peer_lk, E, Hgone. reflexivity.
        * unfold dv_changed in *. rewrite get_store_peer_lk, (get_store_learner_lk r _ Hnd) in B.
          rewrite get_store_peer_lk, (get_store_learner_lk r' _ Hnd'), (Hfr _ E). exact B.
  Qed.

  (* promoting the learner an earlier step added keeps that step's count *)
  Lemma mono_promote_added x id :
    s = PromoteLearner st id -> match x with AddLearner _ _ | AddLightLearner _ _ | RemovePeer _ _ => True | _ => False end ->
    conf_ver_changed r' x = conf_ver_changed r x.
  Proof.
    intros -> Hk. destruct (exec_done _ _ _ _ He) as (_ & Hs & Hcmd & Ha). cbn in Hcmd. inversion Hcmd; subst c.
    unfold add_node, apply_cmd in Ha. destruct (is_in_joint r); [discriminate|].
    destruct (apply_change false (leader r) (peers r) (AddNode, Peer st id Voter)) as [ps'|] eqn:E; [|discriminate]. inversion Ha; subst r'.
    assert (Hex : lk (peers r) (pstore (Peer st id Voter)) <> None).
    { cbn [pstore]. cbn [check_safety] in Hs. rewrite get_store_peer_lk in Hs. destruct (lk (peers r) st); [discriminate|].
      cbn [oid] in Hs. cbn [step_ids_nonzero] in Hz. destruct (0 =? id) eqn:E0; [apply Z.eqb_eq in E0; subst id; discriminate Hz|discriminate Hs]. }
    assert (Ht : AddNode <> RemoveNode) by discriminate.
    destruct (apply_change_role_only _ _ _ _ _ _ Hnd Hex E Ht) as [K _].
    pose proof (cvc_ids_only r (set_peers r ps' 1) x K) as X. destruct x; try contradiction; exact X.
  Qed.

  (* a peer added, under another id, to a store an earlier step emptied: the removal still counts *)
  Lemma mono_add_after_remove id id' :
    (s = AddPeer st id' \/ s = AddLearner st id' \/ s = AddLightPeer st id' \/ s = AddLightLearner st id') ->
    id <> 0 -> id' <> id -> conf_ver_changed r' (RemovePeer st id) = 1.
  Proof.
    intros Hs Hid Hne. cbn [conf_ver_changed]. rewrite get_store_peer_lk.
    assert (Hp : exists p, lk (peers r') st = Some p /\ pid p = id').
    { destruct Hs as [-> |[-> |[-> | ->]]]; cbn [is_finish] in Hf.
      - destruct (get_store_voter r' st) as [p|] eqn:Ev; [|discriminate]. destruct (voter_some r' Hnd' _ _ Ev) as [Ep _].
        rewrite get_store_peer_lk in Ep. exists p. split; [exact Ep|apply Z.eqb_eq; exact Hf].
      - destruct (get_store_learner r' st) as [p|] eqn:Ev; [|discriminate]. destruct (learner_some r' Hnd' _ _ Ev) as [Ep _].
        rewrite get_store_peer_lk in Ep. exists p. split; [exact Ep|apply Z.eqb_eq; exact Hf].
      - destruct (get_store_voter r' st) as [p|] eqn:Ev; [|discriminate]. destruct (voter_some r' Hnd' _ _ Ev) as [Ep _].
        rewrite get_store_peer_lk in Ep. exists p. split; [exact Ep|apply Z.eqb_eq; exact Hf].
      - destruct (get_store_learner r' st) as [p|] eqn:Ev; [|discriminate]. destruct (learner_some r' Hnd' _ _ Ev) as [Ep _].
        rewrite get_store_peer_lk in Ep. exists p. split; [exact Ep|apply Z.eqb_eq; exact Hf]. }
    destruct Hp as (p & Hp & Hpid). rewrite Hp. cbn [oid]. rewrite Hpid.
    destruct (id =? 0) eqn:E1; [apply Z.eqb_eq in E1; contradiction|].
    destruct (id' =? id) eqn:E2; [apply Z.eqb_eq in E2; contradiction|]. cbn. rewrite orb_true_r. reflexivity.
  Qed.
End Simple.

Lemma cvc_zero_kind r x : match x with TransferLeader _ _ | MergeRegion _ _ | SplitRegion _ => True | _ => False end -> conf_ver_changed r x = 0.
Proof. destruct x; intros H; try contradiction; reflexivity. Qed.

Lemma simple_mono_joint r r' s c st x pl dv :
  ND (peers r) -> ND (peers r') -> exec_step r s = RDone c r' -> is_finish r' s = true ->
  step_store s = Some st -> step_ids_nonzero s = true ->
  (x = ChangePeerV2Enter pl dv \/ x = ChangePeerV2Leave pl dv) -> compat x s = true ->
  conf_ver_changed r x <= conf_ver_changed r' x.
Proof.
  intros Hnd Hnd' He Hf Hst Hz Hx Hc.
  assert (Hc' : negb (in_fst st pl) && (match s with RemovePeer _ _ => true | _ => negb (in_fst st dv) end) = true).
  { destruct Hx as [-> | ->]; destruct s; cbn [compat step_store] in Hc, Hst; try discriminate Hst; inversion Hst; subst; exact Hc. }
  apply andb_true_iff in Hc' as [H1 H2]. apply negb_true_iff in H1.
  destruct s; cbn [step_store] in Hst; try discriminate Hst; inversion Hst; subst;
    try (apply negb_true_iff in H2; rewrite (mono_joint_out r r' _ c _ Hnd Hnd' He eq_refl x pl dv Hx H1 H2); lia).
  apply (mono_joint_remove r r' _ c _ Hnd Hnd' He Hf eq_refl Hz x pl dv _ eq_refl Hx H1).
Qed.

Lemma simple_mono_simple r r' s c st x xs :
  ND (peers r) -> ND (peers r') -> exec_step r s = RDone c r' -> is_finish r' s = true ->
  step_store s = Some st -> step_ids_nonzero s = true -> step_store x = Some xs -> compat x s = true ->
  conf_ver_changed r x <= conf_ver_changed r' x.
Proof.
  intros Hnd Hnd' He Hf Hst Hz Hxs Hc.
  destruct (Z.eq_dec xs st) as [Eq|Ne]; [subst xs|rewrite (mono_other_store r r' s c st Hnd Hnd' He Hst x xs Hxs Ne); lia].
  pose proof (cvc_le_nominal r x) as [Hx0 Hxn].
  destruct x as [xf xt|xs xi|xs xi|xs xi|xs xi|xs xi|xs xi|xs xi|xpl xdv|xpl xdv|xpa xtr|xfr]; cbn [step_store] in Hxs; try discriminate Hxs;
    inversion Hxs; subst xs;
    destruct s; cbn [compat step_store] in Hc, Hst; try discriminate Hst; inversion Hst; subst;
    rewrite ?Z.eqb_refl in Hc; cbn [negb orb] in Hc; try discriminate Hc.
  - rewrite (mono_promote_added r r' _ c _ Hnd Hnd' He Hf eq_refl Hz (AddLearner st xi) _ eq_refl I). lia.
  - rewrite (mono_promote_added r r' _ c _ Hnd Hnd' He Hf eq_refl Hz (AddLightLearner st xi) _ eq_refl I). lia.
  - apply andb_true_iff in Hc as [H1 H2]; apply negb_true_iff, Z.eqb_neq in H1, H2; cbn [nominal] in Hxn.
    rewrite (mono_add_after_remove r r' _ c _ Hnd' He Hf eq_refl Hz xi _ (or_introl eq_refl) H1 H2). lia.
  - apply andb_true_iff in Hc as [H1 H2]; apply negb_true_iff, Z.eqb_neq in H1, H2; cbn [nominal] in Hxn.
    rewrite (mono_add_after_remove r r' _ c _ Hnd' He Hf eq_refl Hz xi _ (or_intror (or_introl eq_refl)) H1 H2). lia.
  - apply andb_true_iff in Hc as [H1 H2]; apply negb_true_iff, Z.eqb_neq in H1, H2; cbn [nominal] in Hxn.
    rewrite (mono_add_after_remove r r' _ c _ Hnd' He Hf eq_refl Hz xi _ (or_intror (or_intror (or_introl eq_refl))) H1 H2). lia.
  - apply andb_true_iff in Hc as [H1 H2]; apply negb_true_iff, Z.eqb_neq in H1, H2; cbn [nominal] in Hxn.
    rewrite (mono_add_after_remove r r' _ c _ Hnd' He Hf eq_refl Hz xi _ (or_intror (or_intror (or_intror eq_refl))) H1 H2). lia.
Qed.

Lemma simple_mono r r' s c st x :
  ND (peers r) -> ND (peers r') -> exec_step r s = RDone c r' -> is_finish r' s = true ->
  step_store s = Some st -> step_ids_nonzero s = true -> compat x s = true ->
  conf_ver_changed r x <= conf_ver_changed r' x.
Proof.
  intros Hnd Hnd' He Hf Hst Hz Hc.
  destruct x as [xf xt|xs xi|xs xi|xs xi|xs xi|xs xi|xs xi|xs xi|xpl xdv|xpl xdv|xpa xtr|xfr].
  - cbn. lia.
  - apply (simple_mono_simple r r' s c st (AddPeer xs xi) xs Hnd Hnd' He Hf Hst Hz eq_refl Hc).
  - apply (simple_mono_simple r r' s c st (AddLearner xs xi) xs Hnd Hnd' He Hf Hst Hz eq_refl Hc).
  - apply (simple_mono_simple r r' s c st (AddLightPeer xs xi) xs Hnd Hnd' He Hf Hst Hz eq_refl Hc).
  - apply (simple_mono_simple r r' s c st (AddLightLearner xs xi) xs Hnd Hnd' He Hf Hst Hz eq_refl Hc).
  - apply (simple_mono_simple r r' s c st (PromoteLearner xs xi) xs Hnd Hnd' He Hf Hst Hz eq_refl Hc).
  - apply (simple_mono_simple r r' s c st (DemoteFollower xs xi) xs Hnd Hnd' He Hf Hst Hz eq_refl Hc).
  - apply (simple_mono_simple r r' s c st (RemovePeer xs xi) xs Hnd Hnd' He Hf Hst Hz eq_refl Hc).
  - apply (simple_mono_joint r r' s c st (ChangePeerV2Enter xpl xdv) xpl xdv Hnd Hnd' He Hf Hst Hz (or_introl eq_refl) Hc).
  - apply (simple_mono_joint r r' s c st (ChangePeerV2Leave xpl xdv) xpl xdv Hnd Hnd' He Hf Hst Hz (or_intror eq_refl) Hc).
  - cbn. lia.
  - cbn. lia.
Qed.

(* ---------- the joint steps as the later step ---------- *)
Lemma enter_ids_kept r pl dv c r' :
  ND (peers r) -> exec_step r (ChangePeerV2Enter pl dv) = RDone c r' -> step_ids_nonzero (ChangePeerV2Enter pl dv) = true ->
  ids_kept (peers r) (peers r').
Proof.
  intros Hnd He Hz. destruct (exec_done _ _ _ _ He) as (Hnf & Hs & Hcmd & Ha). cbn in Hcmd. inversion Hcmd; subst c.
  pose proof (check_safety_sound r _ Hnd Hz Hs) as Sp. cbn [spec_safe] in Sp.
  apply andb_true_iff in Sp as [Sp _]. apply andb_true_iff in Sp as [S1 S2]. rewrite forallb_forall in S1, S2.
  destruct (v2_request pl dv) as [|x cs] eqn:Ev.
  - (* an empty request would be a leave command; then the step was already finished *)
    unfold v2_request in Ev. apply app_eq_nil in Ev as [E1 E2]. apply map_eq_nil in E1, E2. subst. cbn in Hnf. discriminate.
  - unfold apply_cmd in Ha. destruct (is_in_joint r); [discriminate|].
    destruct (apply_changes true (leader r) (peers r) (x :: cs)) as [ps'|] eqn:E; [|discriminate]. inversion Ha; subst r'. cbn [peers set_peers].
    apply (apply_changes_ids_kept (leader r) (x :: cs) (peers r) ps' Hnd); [|exact E].
    intros ch Hin. rewrite <- Ev in Hin. unfold v2_request in Hin. apply in_app_or in Hin as [Hin|Hin]; apply in_map_iff in Hin as (e & <- & He'); cbn [fst snd pstore].
    + split; [discriminate|]. specialize (S1 e He'). unfold entry_is in S1. rewrite get_store_peer_lk in S1. destruct (lk (peers r) (fst e)); [discriminate|discriminate S1].
    + split; [discriminate|]. specialize (S2 e He'). unfold entry_is in S2. rewrite get_store_peer_lk in S2. destruct (lk (peers r) (fst e)); [discriminate|discriminate S2].
Qed.

Lemma leave_result r pl dv c r' :
  exec_step r (ChangePeerV2Leave pl dv) = RDone c r' -> peers r' = map leave_role (peers r).
Proof.
  intros He. destruct (exec_done _ _ _ _ He) as (_ & _ & Hcmd & Ha). cbn in Hcmd. inversion Hcmd; subst c.
  unfold apply_cmd in Ha. destruct (negb (is_in_joint r)); [discriminate|].
  match type of Ha with (if ?c then _ else _) = _ => destruct c end; [discriminate|]. inversion Ha; reflexivity.
Qed.

(* after the leave step is finished, the matching enter step counts in full *)
Lemma enter_counts_after_leave r' pl dv :
  ND (peers r') -> pair_ids_nonzero pl = true -> pair_ids_nonzero dv = true ->
  is_finish r' (ChangePeerV2Leave pl dv) = true -> conf_ver_changed r' (ChangePeerV2Enter pl dv) = Z.of_nat (length pl + length dv).
Proof.
  intros Hnd Z1 Z2 Hf. cbn [is_finish] in Hf. apply andb_true_iff in Hf as [Hf _]. apply andb_true_iff in Hf as [F1 F2].
  rewrite forallb_forall in F1, F2. cbn [conf_ver_changed].
  match goal with |- (if ?a then _ else _) = _ => assert (Ea : a = true); [|rewrite Ea; reflexivity] end.
  apply andb_true_iff. split; apply forallb_forall; intros e Hin; cbn zeta.
  - specialize (F1 e Hin). cbn zeta in F1. apply andb_true_iff in F1 as [A B]. rewrite A.
    destruct (get_store_voter r' (fst e)) as [p|]; cbn [orole is_voter_or_incoming] in *; [|apply Z.eqb_eq in A; cbn in A; exfalso; apply (pairs_nonzero pl e Z1 Hin); congruence].
    destruct (prole p); try discriminate; reflexivity.
  - specialize (F2 e Hin). unfold dv_finished in F2. destruct (get_store_learner r' (fst e)) as [p|] eqn:El; [|discriminate].
    destruct (learner_some r' Hnd _ _ El) as [Ep Hl].
    rewrite (get_store_voter_lk r' _ Hnd). rewrite get_store_peer_lk in Ep. rewrite Ep, Hl. reflexivity.
Qed.

Lemma joint_mono r x s c r' :
  ND (peers r) -> ND (peers r') -> exec_step r s = RDone c r' -> is_finish r' s = true -> step_ids_nonzero s = true ->
  (exists pl dv, s = ChangePeerV2Enter pl dv \/ s = ChangePeerV2Leave pl dv) ->
  compat x s = true -> conf_ver_changed r x <= conf_ver_changed r' x.
Proof.
  intros Hnd Hnd' He Hf Hz (pl & dv & Hs) Hc.
  pose proof (cvc_le_nominal r x) as [Hx0 Hxn]. pose proof (cvc_le_nominal r' x) as [Hx0' Hxn'].
  assert (K : ids_kept (peers r) (peers r')).
  { destruct Hs as [-> | ->]; [eapply enter_ids_kept; eauto|]. rewrite (leave_result _ _ _ _ _ He). apply leave_ids_kept. }
  pose proof (cvc_ids_only r r' x K) as E.
  destruct x as [xf xt|xs xi|xs xi|xs xi|xs xi|xs xi|xs xi|xs xi|xpl xdv|xpl xdv|xpa xtr|xfr];
    try (cbn; lia); try (rewrite E; lia);
    destruct Hs as [-> | ->]; cbn [compat] in Hc; try discriminate Hc.
  (* enter, then the matching leave *)
  apply andb_true_iff in Hc as [C1 C2]. apply list_eqb_zz in C1, C2. subst xpl xdv.
  cbn [step_ids_nonzero] in Hz. apply andb_true_iff in Hz as [Z1 Z2].
  rewrite (enter_counts_after_leave r' pl dv Hnd' Z1 Z2 Hf). cbn [nominal] in Hxn. exact Hxn.
Qed.

Lemma other_mono r x s c r' :
  exec_step r s = RDone c r' ->
  match s with TransferLeader _ _ | MergeRegion _ _ | SplitRegion _ => True | _ => False end ->
  conf_ver_changed r x <= conf_ver_changed r' x.
Proof.
  intros He Hk. destruct (exec_done _ _ _ _ He) as (_ & _ & Hcmd & Ha).
  assert (E : peers r' = peers r).
  { destruct s; try contradiction; cbn in Hcmd.
    - inversion Hcmd; subst c. unfold apply_cmd in Ha. destruct (get_store_peer r to) as [p|]; [|discriminate].
      destruct (get_store_peer r (pstore p)); [|discriminate]. destruct (negb _ || _); [discriminate|]. inversion Ha; reflexivity.
    - destruct passive; [discriminate|]. inversion Hcmd; subst c. cbn in Ha. inversion Ha; reflexivity.
    - inversion Hcmd; subst c. cbn in Ha. inversion Ha; reflexivity. }
  rewrite (cvc_peers r r' x E). lia.
Qed.

(* the heart: a compatible later step does not lower the earlier step's count *)
Lemma compat_mono r x s c r' :
  ND (peers r) -> ND (peers r') -> exec_step r s = RDone c r' -> is_finish r' s = true -> step_ids_nonzero s = true ->
  compat x s = true -> conf_ver_changed r x <= conf_ver_changed r' x.
Proof.
  intros Hnd Hnd' He Hf Hz Hc.
  destruct s as [f t|st id|st id|st id|st id|st id|st id|st id|pl dv|pl dv|pa tr|fr].
  - eapply other_mono; [exact He|exact I].
  - eapply (simple_mono r r' _ c st); eauto.
  - eapply (simple_mono r r' _ c st); eauto.
  - eapply (simple_mono r r' _ c st); eauto.
  - eapply (simple_mono r r' _ c st); eauto.
  - eapply (simple_mono r r' _ c st); eauto.
  - eapply (simple_mono r r' _ c st); eauto.
  - eapply (simple_mono r r' _ c st); eauto.
  - eapply joint_mono; eauto.
  - eapply joint_mono; eauto.
  - eapply other_mono; [exact He|exact I].
  - eapply other_mono; [exact He|exact I].
Qed.

(* ---------- joint steps come in matching enter / leave pairs (only leadership moves in between) ---------- *)
Definition empty_pairs (pl dv : list (Z * Z)) : bool := Nat.eqb (length pl + length dv) 0.
Definition bopen := option (list (Z * Z) * list (Z * Z)).

Definition br_ok (open : bopen) (s : step) : bool :=
  match open, s with
  | None, ChangePeerV2Leave pl dv => empty_pairs pl dv
  | None, _ => true
  | Some _, TransferLeader _ _ => true
  | Some (pl, dv), ChangePeerV2Leave pl' dv' => list_eqb zz_eqb pl pl' && list_eqb zz_eqb dv dv'
  | Some _, _ => false
  end.
Definition br_next (open : bopen) (s : step) : bopen :=
  match open, s with
  | None, ChangePeerV2Enter pl dv => if empty_pairs pl dv then None else Some (pl, dv)
  | None, _ => None
  | Some o, TransferLeader _ _ => Some o
  | Some _, _ => None
  end.
Fixpoint bracketed (open : bopen) (ss : list step) : bool :=
  match ss with [] => true | s :: rest => br_ok open s && bracketed (br_next open s) rest end.

Definition open_ok (open : bopen) (r : region) : Prop :=
  match open with None => NJ (peers r) | Some (pl, dv) => empty_pairs pl dv = false end.

Lemma simple_keeps_NJ r s c r' st :
  NJ (peers r) -> step_store s = Some st -> exec_step r s = RDone c r' -> NJ (peers r').
Proof.
  intros Hnj Hs He. destruct (exec_done _ _ _ _ He) as (_ & _ & Hc & Ha).
  destruct (simple_cmd_store r s st c Hs Hc) as (t & p & [[-> Hp]| ->]); [|cbn in Ha; discriminate].
  unfold apply_cmd in Ha. destruct (is_in_joint r); [discriminate|].
  destruct (apply_change false (leader r) (peers r) (t, p)) as [ps'|] eqn:E; [|discriminate]. inversion Ha; subst r'. cbn [peers set_peers].
  unfold apply_change in E. destruct (find (on_store (pstore p)) (peers r)) as [e|]; destruct t.
  - destruct (negb (pid e =? pid p)); [discriminate|]. destruct (prole e); try discriminate. inversion E; subst ps'.
    apply NJ_replace; [exact Hnj|left; reflexivity].
  - destruct (negb (pid e =? pid p)); [discriminate|]. destruct (prole e); try discriminate.
    destruct (negb false && _); [discriminate|]. inversion E; subst ps'. apply NJ_replace; [exact Hnj|right; reflexivity].
  - destruct (negb (peer_eqb e p)); [discriminate|]. destruct (pstore p =? leader r); [discriminate|]. cbn [andb] in E. inversion E; subst ps'.
    intros q Hq. apply Hnj. unfold remove_store in Hq. apply filter_In in Hq. tauto.
  - inversion E; subst ps'. intros q Hq. apply in_app_or in Hq as [Hq|[<-|[]]]; [apply Hnj; exact Hq|left; reflexivity].
  - inversion E; subst ps'. intros q Hq. apply in_app_or in Hq as [Hq|[<-|[]]]; [apply Hnj; exact Hq|right; reflexivity].
  - discriminate.
Qed.

Lemma NJ_no_joint r : NJ (peers r) -> is_in_joint r = false.
Proof. intros H. unfold is_in_joint. apply NJ_not_joint. exact H. Qed.

Lemma not_joint_NJ r : is_in_joint r = false -> NJ (peers r).
Proof.
  unfold is_in_joint. intros H p Hp. destruct (prole p) eqn:Er; auto; exfalso;
    assert (X : existsb in_joint (peers r) = true) by (apply existsb_exists; exists p; split; [exact Hp|unfold in_joint; rewrite Er; reflexivity]); congruence.
Qed.

Lemma exec_skip r s : exec_step r s = RSkip -> is_finish r s = true.
Proof.
  unfold exec_step. destruct (is_finish r s); [reflexivity|]. destruct (check_safety r s); [discriminate|].
  destruct (cmd_of_step r s) as [c|]; [|discriminate]. destruct (apply_cmd r c); discriminate.
Qed.

(* the bracket state after a step, executed or passed over *)
Lemma open_after g r s rest open :
  plan_check g r (s :: rest) = None -> open_ok open r -> br_ok open s = true ->
  (exec_step r s = RSkip -> open_ok (br_next open s) r)
  /\ (forall c r', exec_step r s = RDone c r' -> open_ok (br_next open s) r' /\ joint_lists_nonempty s = true).
Proof.
  intros Hpc Ho Hb. split.
  - intros E. destruct open as [[pl dv]|]; cbn [open_ok br_next br_ok] in *.
    + destruct s; try discriminate Hb; [exact Ho|].
      (* the matching leave is already finished: the region is in no joint state *)
      pose proof (exec_skip _ _ E) as Ef.
      cbn [is_finish] in Ef. apply andb_true_iff in Ef as [_ Ef]. apply negb_true_iff in Ef. apply not_joint_NJ. exact Ef.
    + destruct s; try exact Ho. destruct (empty_pairs pl dv) eqn:Ee; [exact Ho|exact Ee].
  - intros c r' E. destruct (exec_done _ _ _ _ E) as (Hnf & Hs & Hcmd & Ha).
    destruct open as [[pl dv]|]; cbn [open_ok br_next br_ok] in *.
    + destruct s; try discriminate Hb.
      * split; [exact Ho|reflexivity].
      * apply andb_true_iff in Hb as [B1 B2]. apply list_eqb_zz in B1, B2. subst pl0 dv0. split.
        -- cbn [br_next open_ok]. rewrite (leave_result _ _ _ _ _ E). apply NJ_leave.
        -- cbn [joint_lists_nonempty]. unfold empty_pairs in Ho. rewrite Ho. reflexivity.
    + destruct s; try (split; [|reflexivity]).
      * (* transfer *) cbn in Hcmd. inversion Hcmd; subst c. unfold apply_cmd in Ha. destruct (get_store_peer r to) as [p|]; [|discriminate].
        destruct (get_store_peer r (pstore p)); [|discriminate]. destruct (negb _ || _); [discriminate|]. inversion Ha; subst r'. exact Ho.
      * eapply simple_keeps_NJ; eauto; reflexivity.
      * eapply simple_keeps_NJ; eauto; reflexivity.
      * eapply simple_keeps_NJ; eauto; reflexivity.
      * eapply simple_keeps_NJ; eauto; reflexivity.
      * eapply simple_keeps_NJ; eauto; reflexivity.
      * eapply simple_keeps_NJ; eauto; reflexivity.
      * eapply simple_keeps_NJ; eauto; reflexivity.
      * (* enter: executed, hence not empty *)
        assert (Ee : empty_pairs pl dv = false).
        { destruct pl, dv; try reflexivity. cbn in Hnf. discriminate. }
        rewrite Ee. split; [exact Ee|]. cbn [joint_lists_nonempty]. unfold empty_pairs in Ee. rewrite Ee. reflexivity.
      * (* leave outside a bracket is executed only inside a joint state *)
        exfalso. cbn in Hcmd. inversion Hcmd; subst c. unfold apply_cmd in Ha. rewrite (NJ_no_joint r Ho) in Ha. cbn in Ha. discriminate.
      * cbn in Hcmd. destruct passive; [discriminate|]. inversion Hcmd; subst c. cbn in Ha. inversion Ha; subst r'. exact Ho.
      * cbn in Hcmd. inversion Hcmd; subst c. cbn in Ha. inversion Ha; subst r'. exact Ho.
Qed.

(* every later step compatible with every earlier one *)
Fixpoint tidy_from (done : list step) (ss : list step) : bool :=
  match ss with
  | [] => true
  | s :: rest => forallb (fun x => compat x s) done && tidy_from (done ++ [s]) rest
  end.

Theorem tidy_monotone g : forall ss done r open,
  plan_check g r ss = None -> nodup_stores (peers r) = true -> open_ok open r ->
  bracketed open ss = true -> forallb step_ids_nonzero ss = true -> tidy_from done ss = true ->
  monotone_from done r ss = true.
Proof.
  induction ss as [|s rest IH]; intros done r open Hpc Hnd Ho Hbr Hz Ht; [reflexivity|].
  cbn [forallb tidy_from bracketed] in Hz, Ht, Hbr.
  apply andb_true_iff in Hz as [Hz Hzr]. apply andb_true_iff in Ht as [Hc Htr]. apply andb_true_iff in Hbr as [Hb Hbr].
  destruct (open_after g r s rest open Hpc Ho Hb) as [Oskip Odone].
  cbn [monotone_from].
  destruct (plan_check_cons g r s rest Hpc) as [(E & Hrest)|(c & r' & E & Hnd' & Hf & Hrest)]; rewrite E.
  - apply (IH _ r (br_next open s)); auto.
  - destruct (Odone c r' E) as [Onext Hne].
    assert (HND : ND (peers r)) by (apply nodup_stores_ND; exact Hnd).
    assert (HND' : ND (peers r')) by (apply nodup_stores_ND; exact Hnd').
    assert (Hwf : wf_step s = true) by (unfold wf_step; rewrite Hz, Hne; reflexivity).
    rewrite Hwf. cbn [andb].
    assert (Hm : forallb (fun x => conf_ver_changed r x <=? conf_ver_changed r' x) done = true).
    { apply forallb_forall. intros x Hx. apply Z.leb_le. rewrite forallb_forall in Hc.
      apply (compat_mono r x s c r' HND HND' E Hf Hz (Hc x Hx)). }
    rewrite Hm. cbn [andb]. apply (IH _ r' (br_next open s)); auto.
Qed.
