(* C09 — the status matrix regenerated from status.go (gen/Gen_C09.v valid_trans) and the
   operator-level status discipline: every function of the Operator model changes the status only
   through op_to (OpStatusTracker.To), i.e. along the matrix. *)
From Coq Require Import String.
From PDV Require Import lib.Base gen.Gen_C08 gen.Gen_C09 model.C08_Steps model.C09_OpCtl.
Local Open Scope Z_scope.

(* the transitions the property names *)
Definition allowed (a b : status) : Prop :=
  match a, b with
  | CREATED, STARTED | CREATED, CANCELED | CREATED, EXPIRED => True
  | STARTED, SUCCESS | STARTED, CANCELED | STARTED, REPLACED | STARTED, TIMEOUT => True
  | _, _ => False
  end.

Definition end_status (s : status) : Prop :=
  s = SUCCESS \/ s = CANCELED \/ s = REPLACED \/ s = EXPIRED \/ s = TIMEOUT.

(* by computation on the generated matrix: the valid transitions are exactly the allowed ones *)
Lemma status_matrix_exact a b : valid_trans a b = true <-> allowed a b.
Proof. destruct a, b; vm_compute; split; intros H; try reflexivity; try discriminate; try exact I; try contradiction. Qed.

Lemma end_status_exact s : is_end_status s = true <-> end_status s.
Proof.
  unfold end_status. destruct s; vm_compute; split; intros H; try reflexivity; try discriminate; auto 6;
    repeat (destruct H as [H|H]; try discriminate H).
Qed.

Lemma end_status_absorbing a b : is_end_status a = true -> valid_trans a b = false.
Proof. destruct a, b; vm_compute; intros H; try reflexivity; try discriminate. Qed.

Lemma matrix_shape : length Gen_C09.valid_trans = Z.to_nat Gen_C09.status_count
                     /\ forallb (fun row => Nat.eqb (length row) (Z.to_nat Gen_C09.status_count)) Gen_C09.valid_trans = true
                     /\ Gen_C09.status_names = ["CREATED"; "STARTED"; "SUCCESS"; "CANCELED"; "REPLACED"; "EXPIRED"; "TIMEOUT"]%string
                     /\ Gen_C09.first_end_status = 2.
Proof. repeat split; reflexivity. Qed.

(* reach = at most two hops along the matrix; it is reflexive and transitive, so it bounds every history *)
Lemma reach_refl a : reach a a = true.
Proof. destruct a; reflexivity. Qed.

Lemma reach_trans a b c : reach a b = true -> reach b c = true -> reach a c = true.
Proof. destruct a, b, c; vm_compute; intros H1 H2; try reflexivity; try discriminate. Qed.

Lemma reach_valid a b : valid_trans a b = true -> reach a b = true.
Proof. destruct a, b; vm_compute; intros H; try reflexivity; try discriminate. Qed.

(* what reach means in the words of the property *)
Lemma reach_spec a b :
  reach a b = true <-> (a = b \/ allowed a b \/ (a = CREATED /\ allowed STARTED b)).
Proof.
  destruct a, b; vm_compute; split; intros H; try reflexivity; try discriminate; auto;
    try (right; left; exact I); try (right; right; split; [reflexivity|exact I]);
    try (destruct H as [H|[H|[H1 H2]]]; try discriminate; try contradiction).
Qed.

Lemma reach_from_end a b : is_end_status a = true -> reach a b = true -> a = b.
Proof. destruct a, b; vm_compute; intros H1 H2; try reflexivity; try discriminate. Qed.

(* ---------- operator level ---------- *)
(* same operator, status moved along the matrix *)
Definition rel (o o' : opr) : Prop :=
  o_id o' = o_id o /\ o_rid o' = o_rid o /\ o_cv o' = o_cv o /\ o_ver o' = o_ver o /\ o_steps o' = o_steps o
  /\ o_level o' = o_level o /\ o_kregion o' = o_kregion o /\ o_desc o' = o_desc o
  /\ reach (o_st o) (o_st o') = true.

Lemma rel_refl o : rel o o.
Proof. unfold rel. repeat split; auto using reach_refl. Qed.

Lemma rel_trans a b c : rel a b -> rel b c -> rel a c.
Proof.
  unfold rel. intros (A1 & A2 & A3 & A4 & A5 & A6 & A7 & A8 & A9) (B1 & B2 & B3 & B4 & B5 & B6 & B7 & B8 & B9).
  repeat split; try congruence. eapply reach_trans; eauto.
Qed.

Lemma rel_op_to o dst : rel o (fst (op_to o dst)).
Proof.
  unfold op_to. destruct (valid_trans (o_st o) dst) eqn:E; cbn [fst]; [|apply rel_refl].
  unfold rel, with_st; cbn. repeat split; auto. apply reach_valid; exact E.
Qed.

Lemma op_to_status o dst : o_st (fst (op_to o dst)) = o_st o \/ (valid_trans (o_st o) dst = true /\ o_st (fst (op_to o dst)) = dst).
Proof. unfold op_to. destruct (valid_trans (o_st o) dst); cbn; auto. Qed.

Lemma rel_with_cur o n : rel o (with_cur o n).
Proof. unfold rel, with_cur; cbn. repeat split; auto using reach_refl. Qed.

Lemma rel_with_flags o a b : rel o (with_flags o a b).
Proof. unfold rel, with_flags; cbn. repeat split; auto using reach_refl. Qed.

Lemma rel_check_success o : rel o (fst (check_success o)).
Proof.
  unfold check_success. destruct (length (o_steps o) <=? o_cur o)%nat; [|apply rel_refl].
  destruct (op_to o SUCCESS) as [o' ok] eqn:E. cbn [fst].
  replace o' with (fst (op_to o SUCCESS)) by (rewrite E; reflexivity). apply rel_op_to.
Qed.

Lemma rel_check_expired o : rel o (fst (check_expired o)).
Proof.
  unfold check_expired. destruct (o_st o) eqn:S; cbn [fst]; try apply rel_refl.
  destruct (o_old o); cbn [fst]; [apply rel_op_to|apply rel_refl].
Qed.

Lemma rel_check_timeout o : rel o (fst (check_timeout o)).
Proof.
  unfold check_timeout. pose proof (rel_check_success o) as R.
  destruct (check_success o) as [o1 succ]. cbn [fst] in R.
  destruct succ; cbn [fst]; [exact R|].
  destruct (o_st o1) eqn:S; cbn [fst]; try exact R.
  destruct (o_slow o1); cbn [fst]; [|exact R].
  eapply rel_trans; [exact R|apply rel_op_to].
Qed.

Lemma rel_op_check o r : rel o (fst (op_check o r)).
Proof.
  unfold op_check. destruct (op_is_end o); cbn [fst]; [apply rel_refl|].
  eapply rel_trans; [apply rel_with_cur|apply rel_check_timeout].
Qed.

Lemma rel_poke_op c o k : rel o (fst (poke_op c o k)).
Proof.
  destruct k; cbn [poke_op].
  - pose proof (rel_op_to o STARTED) as R. destruct (op_to o STARTED); exact R.
  - pose proof (rel_op_to o CANCELED) as R. destruct (op_to o CANCELED); exact R.
  - pose proof (rel_op_to o REPLACED) as R. destruct (op_to o REPLACED); exact R.
  - pose proof (rel_check_expired o) as R. destruct (check_expired o); exact R.
  - pose proof (rel_check_timeout o) as R. destruct (check_timeout o); exact R.
  - pose proof (rel_check_success o) as R. destruct (check_success o); exact R.
  - destruct (alist_get (cache c) (o_rid o)) as [r|]; [|apply rel_refl].
    pose proof (rel_op_check o r) as R. destruct (op_check o r); exact R.
Qed.

(* Operator.Check never revives or rewinds: an ended operator is returned unchanged *)
Lemma op_check_end o r : op_is_end o = true -> op_check o r = (o, None).
Proof. unfold op_check. intros ->. reflexivity. Qed.

(* the status functions never move the cursor or change the steps *)
Lemma op_to_cur o d : o_cur (fst (op_to o d)) = o_cur o /\ o_steps (fst (op_to o d)) = o_steps o.
Proof. unfold op_to. destruct (valid_trans (o_st o) d); cbn; auto. Qed.

Lemma check_success_cur o : o_cur (fst (check_success o)) = o_cur o /\ o_steps (fst (check_success o)) = o_steps o.
Proof.
  unfold check_success. destruct (length (o_steps o) <=? o_cur o)%nat; cbn [fst]; [|auto].
  pose proof (op_to_cur o SUCCESS) as H. destruct (op_to o SUCCESS) as [o' ok]. exact H.
Qed.

Lemma check_timeout_cur o : o_cur (fst (check_timeout o)) = o_cur o /\ o_steps (fst (check_timeout o)) = o_steps o.
Proof.
  unfold check_timeout. pose proof (check_success_cur o) as H. destruct (check_success o) as [o1 succ]. cbn [fst] in H.
  destruct succ; cbn [fst]; [exact H|].
  destruct (o_st o1); cbn [fst]; try exact H.
  destruct (o_slow o1); cbn [fst]; [|exact H].
  destruct (op_to_cur o1 TIMEOUT) as [A B]. destruct H as [C D]. split; congruence.
Qed.

(* the step Operator.Check returns is the one at the returned operator's cursor *)
Lemma op_check_cursor o r oc s : op_check o r = (oc, Some s) -> nth_error (o_steps oc) (o_cur oc) = Some s.
Proof.
  unfold op_check. destruct (op_is_end o); [discriminate|].
  intros H. inversion H as [[H1 H2]].
  destruct (check_timeout_cur (with_cur o (o_cur o + finished_prefix r (skipn (o_cur o) (o_steps o))))) as [A B].
  rewrite A, B. cbn [with_cur o_cur o_steps]. reflexivity.
Qed.
