(* C15 — proofs about model/C15_Gc.v.
   Part 1: the cluster GC safe point under interleaved UpdateGCSafePoint requests.
   Part 2: the service safe point clauses as postconditions of UpdateServiceGCSafePoint from an
           arbitrary well-formed store. *)
From Coq Require Import String.
From PDV Require Import lib.Base lib.Skel lib.C15_Guard gen.Gen_C15 model.C15_Gc.
Local Open Scope Z_scope.

(* ---------- statements' vocabulary ---------- *)
(* the stored value is readable before and after, and did not go down *)
Definition gc_le (a b : gcv) : Prop := exists x y, gc_read a = Some x /\ gc_read b = Some y /\ x <= y.

Definition to_gc (k : skey) : bool := match k with KGc => true | _ => false end.
(* no other UpdateGCSafePoint request is between its load and its save when this one loads
   (what the mutex enforces; only needed to talk about the model without the mutex) *)
Definition excl_label (s : state) (l : label) : bool :=
  match l with LLoad _ _ => Nat.eqb (npend s) 0 | _ => true end.
Definition no_guard (_ : state) (_ : label) : bool := true.

Ltac inj_some :=
  repeat match goal with
  | H : Some _ = Some _ |- _ => inversion H; subst; clear H
  | H : None = Some _ |- _ => discriminate H
  | H : Some _ = None |- _ => discriminate H
  end.

(* ---------- the service path never touches the cluster key unless the id escapes onto it ---------- *)
Lemma st_save_gc k e st : to_gc k = false -> gc (st_save k e st) = gc st.
Proof. destruct k; cbn; intros; try discriminate; reflexivity. Qed.
Lemma st_remove_gc k st : to_gc k = false -> gc (st_remove k st) = gc st.
Proof. destruct k; cbn; intros; try discriminate; reflexivity. Qed.

Lemma scan_gc now es : forall st has mn, gc (fst (fst (scan now es st has mn))) = gc st.
Proof.
  induction es as [|[k e] r IH]; intros st has mn; cbn [scan]; [reflexivity|].
  destruct (is_gcw (e_text e) && negb (e_exp e =? maxI64));
    match goal with |- context [if ?c then scan _ _ _ _ _ else _] => destruct c end;
    rewrite IH; reflexivity.
Qed.

Lemma load_min_gc now st : gc (fst (load_min now st)) = gc st.
Proof.
  unfold load_min. destruct (svcs st) as [|x r] eqn:E; [reflexivity|].
  pose proof (scan_gc now (x :: r) st false None) as H.
  destruct (scan now (x :: r) st false None) as [[st1 has] mn]. cbn [fst] in H.
  destruct mn as [m|]; [destruct has|]; cbn; exact H.
Qed.

(* an id that passes checkServiceID is stored under its own key, never on the cluster key *)
Lemma id_ok_not_gc i : id_ok i = true -> to_gc (key_of i) = false.
Proof. destruct i as [| |z k]; cbn; try reflexivity. destruct k; cbn; intros; try discriminate; reflexivity. Qed.

Lemma save_service_gc i e st st' : save_service i e st = Some st' -> gc st' = gc st.
Proof.
  unfold save_service. intros H.
  destruct (e_text e); try discriminate; destruct (id_ok i) eqn:Eo; cbn in H; try discriminate;
    [destruct (e_exp e =? maxI64); [|discriminate]|]; inj_some; apply st_save_gc, id_ok_not_gc; exact Eo.
Qed.

Lemma remove_service_gc i st st' : remove_service i st = Some st' -> gc st' = gc st.
Proof.
  unfold remove_service. intros H.
  destruct (text_of i); try discriminate; destruct (id_ok i) eqn:Eo; try discriminate; inj_some;
    apply st_remove_gc, id_ok_not_gc; exact Eo.
Qed.

Lemma svc_update_gc st i ttl sp now : gc (fst (svc_update st i ttl sp now)) = gc st.
Proof.
  unfold svc_update.
  assert (H0 : forall st0, (if ttl <=? 0 then remove_service i st else Some st) = Some st0 -> gc st0 = gc st).
  { intros st0. destruct (ttl <=? 0); intros H; [eapply remove_service_gc; eauto | inj_some; reflexivity]. }
  destruct (if ttl <=? 0 then remove_service i st else Some st) as [st0|]; [|reflexivity].
  specialize (H0 _ eq_refl).
  pose proof (load_min_gc now st0) as H1. destruct (load_min now st0) as [st1 mn]. cbn [fst] in H1.
  destruct ((0 <? ttl) && (e_sp mn <=? sp)); [|cbn; congruence].
  destruct (save_service _ _ st1) as [st2|] eqn:Es; [|cbn; congruence].
  apply save_service_gc in Es.
  destruct (text_eqb (text_of i) (e_text mn)); [|cbn; congruence].
  pose proof (load_min_gc now st2) as H3. destruct (load_min now st2) as [st3 mn']. cbn [fst] in *. congruence.
Qed.

(* ---------- invariant of executions in which load..save sections do not overlap ---------- *)
Record J (s : state) : Prop := {
  j_read : exists g, gc_read (gc (sto s)) = Some g
             /\ (forall a, In a (acks s) -> a <= g)
             /\ (forall t p, thr s t = Some p -> t_old p = g /\ forall a, In a (t_before p) -> a <= g);
  j_one  : (npend s = 0%nat /\ forall t, thr s t = None)
           \/ (npend s = 1%nat /\ exists t, forall t', t' <> t -> thr s t' = None);
  j_resp : forall r bf a, In (r, bf) (resps s) -> In a bf -> a <= r
}.

Lemma J_init : J init.
Proof.
  constructor; cbn.
  - exists 0. repeat split; intros; try contradiction; discriminate.
  - left; auto.
  - intros; contradiction.
Qed.

Lemma J_set_sto s st : J s -> gc st = gc (sto s) -> J (set_sto s st).
Proof. intros [[g (Hg & Ha & Ht)] H1 Hr] E. constructor; cbn; [exists g; rewrite E; auto | exact H1 | exact Hr]. Qed.

Lemma J_step b s l s' :
  J s -> (b = true \/ excl_label s l = true) ->
  step_gen b false s l = Some s' -> J s' /\ gc_le (gc (sto s)) (gc (sto s')).
Proof.
  intros Hj He H.
  assert (Hrefl : forall s0, J s0 -> gc_le (gc (sto s0)) (gc (sto s0))).
  { intros s0 [[g (Hg & _)] _ _]. exists g, g. repeat split; auto; lia. }
  destruct l as [t v|t o| |i ttl sp now|i|i exp sp]; cbn [step_gen] in H.
  - (* LLoad *)
    destruct (thr s t) eqn:Et; [discriminate|].
    assert (Hn : npend s = 0%nat).
    { destruct He as [->|He]; [|cbn in He; apply Nat.eqb_eq in He; exact He].
      cbn [andb] in H. destruct (Nat.eqb (npend s) 0) eqn:En; [apply Nat.eqb_eq in En; exact En | discriminate]. }
    rewrite Hn in H. cbn [Nat.eqb negb] in H. rewrite andb_false_r in H.
    destruct Hj as [[g (Hg & Ha & Ht)] H1 Hr]. rewrite Hg in H. inj_some.
    split; [|exists g, g; cbn; split; [exact Hg|split; [exact Hg|lia]]].
    constructor; cbn.
    + exists g. split; [exact Hg|]. split; [exact Ha|]. intros t' p'.
      destruct (Nat.eqb t' t); intros Hp; [inj_some; cbn; split; [reflexivity | exact Ha] | apply (Ht _ _ Hp)].
    + right. split; [reflexivity|]. exists t. intros t' Hne.
      destruct (Nat.eqb_spec t' t); [contradiction|].
      destruct H1 as [[_ H1]|[H1 _]]; [apply H1 | rewrite Hn in H1; discriminate].
    + exact Hr.
  - (* LSave *)
    destruct (thr s t) as [p|] eqn:Et; [|discriminate].
    destruct Hj as [[g (Hg & Ha & Ht)] H1 Hr].
    destruct (Ht _ _ Et) as [Hold Hbf].
    assert (Hn : npend s = 1%nat /\ forall t', t' <> t -> thr s t' = None).
    { destruct H1 as [[_ H1]|[H1 [t0 H2]]]; [rewrite H1 in Et; discriminate|].
      split; [exact H1|]. intros t' Hne. destruct (Nat.eq_dec t t0) as [->|Hd]; [apply H2; exact Hne|].
      rewrite (H2 _ Hd) in Et. discriminate. }
    destruct Hn as [Hn Hothers].
    assert (Hone' : forall thr', (forall t', thr' t' = if Nat.eqb t' t then None else thr s t') ->
               (Nat.pred (npend s) = 0%nat /\ forall t', thr' t' = None)).
    { intros thr' Hthr. split; [rewrite Hn; reflexivity|]. intros t'. rewrite Hthr.
      destruct (Nat.eqb_spec t' t); [reflexivity | apply Hothers; assumption]. }
    assert (Hnone : forall t' p', (if Nat.eqb t' t then None else thr s t') = Some p' -> False).
    { intros t' p'. destruct (Nat.eqb_spec t' t); intros Hp; [discriminate|]. rewrite (Hothers _ n) in Hp. discriminate. }
    destruct (t_old p <? t_new p) eqn:Ecmp.
    + apply Z.ltb_lt in Ecmp.
      destruct o; injection H as <-.
      * (* Ok: saved and acknowledged *)
        split; [constructor; cbn|exists g, (t_new p); cbn; split; [exact Hg|split; [reflexivity|lia]]].
        -- exists (t_new p). split; [reflexivity|]. split.
           ++ intros a [<-|Hin]; [lia | specialize (Ha _ Hin); lia].
           ++ intros t' p' Hp. destruct (Hnone _ _ Hp).
        -- left. apply Hone'. reflexivity.
        -- intros r bf a [Heq|Hin] Hia; [inversion Heq; subst; specialize (Hbf _ Hia); lia | eauto].
      * (* ErrNotApplied: nothing stored, nothing acknowledged *)
        split; [constructor; cbn|exists g, g; split; [exact Hg|split; [exact Hg|lia]]].
        -- exists g. split; [exact Hg|]. split; [exact Ha|]. intros t' p' Hp. destruct (Hnone _ _ Hp).
        -- left. apply Hone'. reflexivity.
        -- exact Hr.
      * (* ErrApplied: stored, not acknowledged *)
        split; [constructor; cbn|exists g, (t_new p); cbn; split; [exact Hg|split; [reflexivity|lia]]].
        -- exists (t_new p). split; [reflexivity|]. split.
           ++ intros a Hin; specialize (Ha _ Hin); lia.
           ++ intros t' p' Hp. destruct (Hnone _ _ Hp).
        -- left. apply Hone'. reflexivity.
        -- exact Hr.
    + apply Z.ltb_ge in Ecmp. injection H as <-.
      assert (Hr0 : (if t_new p <? t_old p then t_old p else t_new p) = g).
      { destruct (t_new p <? t_old p) eqn:E2; [exact Hold | apply Z.ltb_ge in E2; lia]. }
      rewrite Hr0. split; [constructor; cbn|exists g, g; cbn; split; [exact Hg|split; [exact Hg|lia]]].
      * exists g. split; [exact Hg|]. split.
        -- intros a [<-|Hin]; [lia | auto].
        -- intros t' p' Hp. destruct (Hnone _ _ Hp).
      * left. apply Hone'. reflexivity.
      * intros r bf a [Heq|Hin] Hia; [inversion Heq; subst; auto | eauto].
  - (* LGet *)
    pose proof Hj as [[g (Hg & Ha & Ht)] H1 Hr]. rewrite Hg in H. inj_some.
    split; [constructor; cbn|exists g, g; cbn; split; [exact Hg|split; [exact Hg|lia]]].
    + exists g. split; [exact Hg|]. split; [|exact Ht]. intros a [<-|Hin]; [lia | auto].
    + exact H1.
    + intros r bf a [Heq|Hin] Hia; [inversion Heq; subst; auto | eauto].
  - (* LSvc *)
    inj_some.
    pose proof (svc_update_gc (sto s) i ttl sp now) as E.
    split; [apply J_set_sto; assumption|]. cbn. rewrite E. apply Hrefl; exact Hj.
  - (* LApiDel *)
    destruct (remove_service i (sto s)) as [st|] eqn:Er; inj_some; [|split; [exact Hj | apply Hrefl; exact Hj]].
    apply remove_service_gc in Er.
    split; [apply J_set_sto; assumption|]. cbn. rewrite Er. apply Hrefl; exact Hj.
  - (* LSeed *)
    destruct (key_of i) as [|n|] eqn:Ek; inj_some; try (split; [exact Hj | apply Hrefl; exact Hj]).
    split; [apply J_set_sto; [assumption|reflexivity]|]. cbn. apply Hrefl; exact Hj.
Qed.

(* ---------- all guarded executions ---------- *)
Section GuardedExec.
  Variable b : bool.
  Variable G : state -> label -> bool.
  Hypothesis HG : forall s l, G s l = true -> (b = true \/ excl_label s l = true).

  Lemma J_exec ls : guarded (step_gen b false) G init ls = true -> J (exec (step_gen b false) init ls).
  Proof.
    apply (invariant_guarded (step_gen b false) G J); [|exact J_init].
    intros s l s' Hj Hg Hs. exact (proj1 (J_step b s l s' Hj (HG _ _ Hg) Hs)).
  Qed.

  Lemma monotone_guarded ls l s' :
    guarded (step_gen b false) G init (ls ++ [l]) = true ->
    step_gen b false (exec (step_gen b false) init ls) l = Some s' ->
    gc_le (gc (sto (exec (step_gen b false) init ls))) (gc (sto s')).
  Proof.
    intros Hg Hs. destruct (guarded_last _ _ _ _ _ _ Hg Hs) as [Hg1 Hg2].
    exact (proj2 (J_step b _ l s' (J_exec ls Hg1) (HG _ _ Hg2) Hs)).
  Qed.

  Lemma responses_guarded ls r bf a :
    guarded (step_gen b false) G init ls = true ->
    In (r, bf) (resps (exec (step_gen b false) init ls)) -> In a bf -> a <= r.
  Proof. intros Hg. apply (j_resp _ (J_exec ls Hg)). Qed.

  Lemma acks_le_stored_guarded ls a :
    guarded (step_gen b false) G init ls = true -> In a (acks (exec (step_gen b false) init ls)) ->
    exists g, gc_read (gc (sto (exec (step_gen b false) init ls))) = Some g /\ a <= g.
  Proof. intros Hg Hin. destruct (j_read _ (J_exec ls Hg)) as (g & Hr & Ha & _). exists g; auto. Qed.
End GuardedExec.

Lemma guarded_no_guard b c ls : forall s, guarded (step_gen b c) no_guard s ls = true.
Proof.
  induction ls as [|l r IH]; intros s; cbn [guarded]; [reflexivity|].
  destruct (step_gen b c s l); [cbn; apply IH | apply IH].
Qed.

Lemma excl_ok b : forall s l, excl_label s l = true -> (b = true \/ excl_label s l = true).
Proof. intros; right; assumption. Qed.

(* ---------- the compare-and-swap regime: any number of request threads, of any member, overlapping freely ---------- *)
Lemma cas_ok_read g old : cas_ok g old = true -> gc_read g = Some old.
Proof.
  destruct g as [|z|]; cbn; intros H; try discriminate.
  - apply Z.eqb_eq in H. congruence.
  - apply andb_true_iff in H as [_ H]. apply Z.eqb_eq in H. congruence.
Qed.

Record K (s : state) : Prop := {
  k_read : exists g, gc_read (gc (sto s)) = Some g
             /\ (forall a, In a (acks s) -> a <= g)
             /\ (forall t p, thr s t = Some p -> t_old p <= g /\ forall a, In a (t_before p) -> a <= t_old p);
  k_resp : forall r bf a, In (r, bf) (resps s) -> In a bf -> a <= r
}.

Lemma K_init : K init.
Proof.
  constructor; cbn; [|intros; contradiction].
  exists 0. split; [reflexivity|]. split; [intros ? []|intros; discriminate].
Qed.

Lemma K_set_sto s st : K s -> gc st = gc (sto s) -> K (set_sto s st).
Proof. intros [[g (Hg & Ha & Ht)] Hr] E. constructor; cbn; [exists g; rewrite E; auto | exact Hr]. Qed.

Lemma K_step b s l s' : K s -> step_gen b true s l = Some s' -> K s' /\ gc_le (gc (sto s)) (gc (sto s')).
Proof.
  intros Hk H.
  assert (Hrefl : forall s0, K s0 -> gc_le (gc (sto s0)) (gc (sto s0))).
  { intros s0 [[g (Hg & _)] _]. exists g, g. split; [exact Hg|split; [exact Hg|lia]]. }
  destruct l as [t v|t o| |i ttl sp now|i|i exp sp]; cbn [step_gen] in H.
  - (* LLoad *)
    destruct (thr s t) eqn:Et; [discriminate|].
    destruct (b && negb (Nat.eqb (npend s) 0)); [discriminate|].
    destruct Hk as [[g (Hg & Ha & Ht)] Hr]. rewrite Hg in H. injection H as <-.
    split; [|exists g, g; cbn; split; [exact Hg|split; [exact Hg|lia]]].
    constructor; cbn; [|exact Hr].
    exists g. split; [exact Hg|]. split; [exact Ha|]. intros t' p'.
    destruct (Nat.eqb t' t); intros Hp; [injection Hp as <-; cbn; split; [lia|exact Ha] | apply (Ht _ _ Hp)].
  - (* LSave *)
    destruct (thr s t) as [p|] eqn:Et; [|discriminate].
    destruct Hk as [[g (Hg & Ha & Ht)] Hr]. destruct (Ht _ _ Et) as [Hold Hbf].
    assert (Hrest : forall g', g <= g' -> forall t' p', (if Nat.eqb t' t then None else thr s t') = Some p' ->
              t_old p' <= g' /\ forall a, In a (t_before p') -> a <= t_old p').
    { intros g' Hle t' p'. destruct (Nat.eqb t' t); intros Hp; [discriminate|]. destruct (Ht _ _ Hp). split; [lia|assumption]. }
    destruct (t_old p <? t_new p) eqn:Ecmp.
    + apply Z.ltb_lt in Ecmp. cbn [andb] in H.
      destruct (cas_ok (gc (sto s)) (t_old p)) eqn:Ecas; cbn [negb] in H.
      * (* the comparison holds: what is stored is what the request saw *)
        apply cas_ok_read in Ecas. rewrite Hg in Ecas. injection Ecas as Eg.
        destruct o; injection H as <-.
        -- split; [constructor; cbn|exists g, (t_new p); cbn; split; [exact Hg|split; [reflexivity|lia]]].
           ++ exists (t_new p). split; [reflexivity|]. split; [intros a [<-|Hin]; [lia | specialize (Ha _ Hin); lia]|].
              apply Hrest. lia.
           ++ intros r bf a [Heq|Hin] Hia; [injection Heq as <- <-; specialize (Hbf _ Hia); lia | eauto].
        -- split; [constructor; cbn|exists g, g; split; [exact Hg|split; [exact Hg|lia]]].
           ++ exists g. split; [exact Hg|]. split; [exact Ha|]. apply Hrest. lia.
           ++ exact Hr.
        -- split; [constructor; cbn|exists g, (t_new p); cbn; split; [exact Hg|split; [reflexivity|lia]]].
           ++ exists (t_new p). split; [reflexivity|]. split; [intros a Hin; specialize (Ha _ Hin); lia|]. apply Hrest. lia.
           ++ exact Hr.
      * (* the stored value moved: refused, nothing changes *)
        injection H as <-. split; [constructor; cbn|exists g, g; split; [exact Hg|split; [exact Hg|lia]]].
        -- exists g. split; [exact Hg|]. split; [exact Ha|]. apply Hrest. lia.
        -- exact Hr.
    + apply Z.ltb_ge in Ecmp. injection H as <-.
      set (r := if t_new p <? t_old p then t_old p else t_new p).
      assert (Hrr : t_old p <= r /\ r <= g).
      { unfold r. destruct (t_new p <? t_old p) eqn:E2; [lia | apply Z.ltb_ge in E2; lia]. }
      split; [constructor; cbn|exists g, g; cbn; split; [exact Hg|split; [exact Hg|lia]]].
      * exists g. split; [exact Hg|]. split; [intros a [<-|Hin]; [lia | auto]|]. apply Hrest. lia.
      * intros r0 bf a [Heq|Hin] Hia; [injection Heq as <- <-; specialize (Hbf _ Hia); lia | eauto].
  - (* LGet *)
    pose proof Hk as [[g (Hg & Ha & Ht)] Hr]. rewrite Hg in H. injection H as <-.
    split; [constructor; cbn|exists g, g; cbn; split; [exact Hg|split; [exact Hg|lia]]].
    + exists g. split; [exact Hg|]. split; [|exact Ht]. intros a [<-|Hin]; [lia | auto].
    + intros r bf a [Heq|Hin] Hia; [injection Heq as <- <-; auto | eauto].
  - injection H as <-.
    pose proof (svc_update_gc (sto s) i ttl sp now) as E.
    split; [apply K_set_sto; assumption|]. cbn. rewrite E. apply Hrefl; exact Hk.
  - destruct (remove_service i (sto s)) as [st|] eqn:Er; injection H as <-; [|split; [exact Hk | apply Hrefl; exact Hk]].
    apply remove_service_gc in Er.
    split; [apply K_set_sto; assumption|]. cbn. rewrite Er. apply Hrefl; exact Hk.
  - destruct (key_of i) as [|n|] eqn:Ek; injection H as <-; try (split; [exact Hk | apply Hrefl; exact Hk]).
    split; [apply K_set_sto; [assumption|reflexivity]|]. cbn. apply Hrefl; exact Hk.
Qed.

Lemma K_exec b ls : K (exec (step_gen b true) init ls).
Proof. apply invariant_exec; [|exact K_init]. intros s l s' Hk Hs. exact (proj1 (K_step b s l s' Hk Hs)). Qed.

(* the code as it is now: the save is a compare-and-swap on the loaded value (and leader-guarded); requests of one member
   are additionally serialised by gcSafePointLock *)
Lemma gc_cas_now : gc_cas = true.
Proof. reflexivity. Qed.
Lemma gc_locked_now : gc_locked = true.
Proof. reflexivity. Qed.

(* ---------- all executions of the code as it is ---------- *)
Lemma step_is_cas : step = step_gen gc_locked true.
Proof. unfold step. rewrite gc_cas_now. reflexivity. Qed.

Lemma gc_monotone_pf ls l s' :
  step (exec step init ls) l = Some s' -> gc_le (gc (sto (exec step init ls))) (gc (sto s')).
Proof. rewrite step_is_cas. intros H. exact (proj2 (K_step gc_locked _ l s' (K_exec gc_locked ls) H)). Qed.

Lemma response_ge_pf ls r bf a : In (r, bf) (resps (exec step init ls)) -> In a bf -> a <= r.
Proof. rewrite step_is_cas. apply (k_resp _ (K_exec gc_locked ls)). Qed.

Lemma acks_le_stored_pf ls a : In a (acks (exec step init ls)) ->
  exists g, gc_read (gc (sto (exec step init ls))) = Some g /\ a <= g.
Proof. rewrite step_is_cas. intros Hin. destruct (k_read _ (K_exec gc_locked ls)) as (g & Hr & Ha & _). exists g; auto. Qed.

(* the same for any number of members: without any mutex, with the compare-and-swap *)
Lemma cas_alone_monotone_pf ls l s' :
  step_gen false true (exec (step_gen false true) init ls) l = Some s' ->
  gc_le (gc (sto (exec (step_gen false true) init ls))) (gc (sto s')).
Proof. intros H. exact (proj2 (K_step false _ l s' (K_exec false ls) H)). Qed.

Lemma cas_alone_response_pf ls r bf a : In (r, bf) (resps (exec (step_gen false true) init ls)) -> In a bf -> a <= r.
Proof. apply (k_resp _ (K_exec false ls)). Qed.

(* a write that arrives after the stored value has moved is refused: nothing is stored, nothing acknowledged *)
Lemma stale_save_refused_pf b s t o p s' :
  thr s t = Some p -> t_old p < t_new p -> cas_ok (gc (sto s)) (t_old p) = false ->
  step_gen b true s (LSave t o) = Some s' -> sto s' = sto s /\ acks s' = acks s /\ resps s' = resps s /\ thr s' t = None.
Proof.
  intros Ht Hlt Hc H. cbn [step_gen] in H. rewrite Ht in H.
  apply Z.ltb_lt in Hlt. rewrite Hlt, Hc in H. cbn in H. injection H as <-. cbn. rewrite Nat.eqb_refl. auto.
Qed.

(* ---------- the old witnesses ---------- *)
(* S6: A loads 5, B loads 5, B saves 20, A saves 10. *)
Definition w_overlap : list label := [LLoad 0 5; LSave 0 Ok; LLoad 0 10; LLoad 1 20; LSave 1 Ok].

(* without the mutex and without the compare-and-swap (step_gen false false, the code before both fixes) the last step takes the store from 20 back to 10 *)
Lemma overlap_decreases_without_mutex :
  exists s', step_gen false false (exec (step_gen false false) init w_overlap) (LSave 0 Ok) = Some s'
             /\ gc (sto (exec (step_gen false false) init w_overlap)) = GVal 20 /\ gc (sto s') = GVal 10.
Proof. eexists. split; [vm_compute; reflexivity|]. split; vm_compute; reflexivity. Qed.

Lemma without_mutex_refuted_pf :
  ~ (forall ls l s', step_gen false false (exec (step_gen false false) init ls) l = Some s' ->
       gc_le (gc (sto (exec (step_gen false false) init ls))) (gc (sto s'))).
Proof.
  intros H. destruct overlap_decreases_without_mutex as (s' & Hs & Ha & Hb).
  destruct (H _ _ _ Hs) as (x & y & Hx & Hy & Hle). rewrite Ha in Hx. rewrite Hb in Hy.
  cbn in Hx, Hy. inversion Hx; inversion Hy; subst. lia.
Qed.

(* with the mutex B cannot load while A is inside: the label is disabled (the request blocks) *)
Lemma overlap_now_blocked :
  step (exec step init [LLoad 0 5; LSave 0 Ok; LLoad 0 10]) (LLoad 1 20) = None
  /\ gc (sto (exec step init (w_overlap ++ [LSave 0 Ok]))) = GVal 10
  /\ resps (exec step init (w_overlap ++ [LSave 0 Ok; LLoad 1 20; LSave 1 Ok; LGet])) = [(20, [20; 10; 5]); (20, [10; 5]); (10, [5]); (5, [])].
Proof. vm_compute. repeat split; reflexivity. Qed.

(* ================= Part 2: service safe points ================= *)

(* ---------- association list facts ---------- *)
Lemma get_put_same k e l : sv_get k (sv_put k e l) = Some e.
Proof.
  induction l as [|[k0 e0] r IH]; cbn; [rewrite Z.eqb_refl; reflexivity|].
  destruct (k <? k0) eqn:E1; [cbn; rewrite Z.eqb_refl; reflexivity|].
  destruct (k =? k0) eqn:E2; cbn; [rewrite Z.eqb_refl; reflexivity|]. rewrite E2. exact IH.
Qed.

Lemma get_put_other k k' e l : k' <> k -> sv_get k' (sv_put k e l) = sv_get k' l.
Proof.
  intros Hne. induction l as [|[k0 e0] r IH]; cbn.
  - destruct (Z.eqb_spec k' k); [contradiction|reflexivity].
  - destruct (k <? k0) eqn:E1.
    + cbn. destruct (Z.eqb_spec k' k); [contradiction|reflexivity].
    + destruct (Z.eqb_spec k k0) as [->|Hk]; cbn.
      * destruct (Z.eqb_spec k' k0); [contradiction|reflexivity].
      * destruct (k' =? k0); [reflexivity|exact IH].
Qed.

Lemma get_del_same k l : sv_get k (sv_del k l) = None.
Proof.
  induction l as [|[k0 e0] r IH]; cbn; [reflexivity|].
  destruct (k =? k0) eqn:E; [exact IH|]. cbn. rewrite E. exact IH.
Qed.

Lemma get_del_other k k' l : k' <> k -> sv_get k' (sv_del k l) = sv_get k' l.
Proof.
  intros Hne. induction l as [|[k0 e0] r IH]; cbn; [reflexivity|].
  destruct (Z.eqb_spec k k0) as [->|Hk].
  - destruct (Z.eqb_spec k' k0); [contradiction|exact IH].
  - cbn. destruct (k' =? k0); [reflexivity|exact IH].
Qed.

Fixpoint keys_sorted (l : list (Z * entry)) : Prop :=
  match l with [] => True | (k, _) :: r => (forall k' e', In (k', e') r -> k < k') /\ keys_sorted r end.

Lemma put_in k e l k' e' : In (k', e') (sv_put k e l) -> k' = k \/ In (k', e') l.
Proof.
  induction l as [|[k0 e0] r IH]; cbn.
  - intros [H|[]]; inversion H; auto.
  - destruct (k <? k0); [cbn; intros [H|H]; [inversion H; auto | auto]|].
    destruct (k =? k0); cbn; intros [H|H]; try (inversion H; auto; fail); auto.
    destruct (IH H); auto.
Qed.

Lemma del_in k l x : In x (sv_del k l) -> In x l.
Proof.
  induction l as [|[k0 e0] r IH]; cbn; [auto|].
  destruct (k =? k0); cbn; [auto|]. intros [H|H]; auto.
Qed.

Lemma put_sorted k e l : keys_sorted l -> keys_sorted (sv_put k e l).
Proof.
  induction l as [|[k0 e0] r IH]; cbn; [intros _; split; [intros ? ? []|exact I]|].
  intros [H1 H2].
  destruct (k <? k0) eqn:E1.
  - apply Z.ltb_lt in E1. cbn. split; [|split; assumption].
    intros k' e' [H|H]; [inversion H; subst; exact E1 | specialize (H1 _ _ H); lia].
  - destruct (Z.eqb_spec k k0) as [->|Hk]; cbn; [split; assumption|].
    apply Z.ltb_ge in E1. split; [|apply IH; exact H2].
    intros k' e' H. destruct (put_in _ _ _ _ _ H) as [->|H']; [lia | eauto].
Qed.

Lemma del_sorted k l : keys_sorted l -> keys_sorted (sv_del k l).
Proof.
  induction l as [|[k0 e0] r IH]; cbn; [auto|]. intros [H1 H2].
  destruct (k =? k0); [apply IH; exact H2|]. cbn. split; [|apply IH; exact H2].
  intros k' e' H. apply del_in in H. eauto.
Qed.

Lemma get_in l k e : sv_get k l = Some e -> In (k, e) l.
Proof.
  induction l as [|[k0 e0] r IH]; cbn; [discriminate|].
  destruct (Z.eqb_spec k k0) as [->|Hk]; intros H; [inversion H; auto | auto].
Qed.

Lemma sorted_head_absent k r : (forall k' e', In (k', e') r -> k < k') -> sv_get k r = None.
Proof.
  intros H. destruct (sv_get k r) eqn:E; [|reflexivity]. apply get_in in E. specialize (H _ _ E). lia.
Qed.

Lemma sorted_in_get l : keys_sorted l -> forall k e, In (k, e) l -> sv_get k l = Some e.
Proof.
  induction l as [|[k0 e0] r IH]; cbn; [intros _ ? ? []|]. intros [H1 H2] k e [H|H].
  - inversion H; subst. rewrite Z.eqb_refl. reflexivity.
  - destruct (Z.eqb_spec k k0) as [->|Hk]; [specialize (H1 _ _ H); lia | apply IH; assumption].
Qed.

(* ---------- what one iteration of the LoadMin loop does to the entry it looks at ---------- *)
Definition repair (e : entry) : entry :=
  if is_gcw (e_text e) && negb (e_exp e =? maxI64) then Entry (e_text e) maxI64 (e_sp e) else e.
Definition eff (now : Z) (e : entry) : option entry :=
  if e_exp (repair e) <? now then None else Some (repair e).

Lemma scan_cons now k e r st has mn :
  scan now ((k, e) :: r) st has mn =
    let st1 := if is_gcw (e_text e) && negb (e_exp e =? maxI64) then st_save (KSvc 0) (repair e) st else st in
    if e_exp (repair e) <? now then scan now r (st_remove (KSvc k) st1) (has || is_gcw (e_text e)) mn
    else scan now r st1 (has || is_gcw (e_text e)) (if e_sp (repair e) <? min_sp mn then Some (repair e) else mn).
Proof. reflexivity. Qed.

Lemma repair_text e : e_text (repair e) = e_text e.
Proof. unfold repair. destruct (is_gcw (e_text e) && negb (e_exp e =? maxI64)); reflexivity. Qed.
Lemma repair_sp e : e_sp (repair e) = e_sp e.
Proof. unfold repair. destruct (is_gcw (e_text e) && negb (e_exp e =? maxI64)); reflexivity. Qed.
Lemma repair_not_gcw e : is_gcw (e_text e) = false -> repair e = e.
Proof. unfold repair. intros ->. reflexivity. Qed.
Lemma repair_gcw_exp e : is_gcw (e_text e) = true -> e_exp (repair e) = maxI64.
Proof.
  unfold repair. intros ->. cbn. destruct (Z.eqb_spec (e_exp e) maxI64); cbn; [assumption|reflexivity].
Qed.

Lemma is_gcw_true t : is_gcw t = true <-> t = TGcw.
Proof. destruct t; cbn; split; intros; try discriminate; reflexivity. Qed.

Lemma scan_store now : forall es st has mn st' has' mn',
  keys_sorted es ->
  (forall k e, In (k, e) es -> e_text e = TGcw -> k = 0) ->
  (forall k e, In (k, e) es -> sv_get k (svcs st) = Some e) ->
  scan now es st has mn = (st', has', mn') ->
  forall k, sv_get k (svcs st') = match sv_get k es with Some e => eff now e | None => sv_get k (svcs st) end.
Proof.
  induction es as [|[k0 e0] r IH]; intros st has mn st' has' mn' Hs Hg Hin H k.
  - cbn in H. inversion H; subst. reflexivity.
  - rewrite scan_cons in H. cbn zeta in H. destruct Hs as [Hs1 Hs2].
    assert (Hk0 : is_gcw (e_text e0) && negb (e_exp e0 =? maxI64) = true -> k0 = 0).
    { intros Hf. apply andb_true_iff in Hf as [Hf _]. apply is_gcw_true in Hf. eapply Hg; [left; reflexivity|exact Hf]. }
    set (st1 := if is_gcw (e_text e0) && negb (e_exp e0 =? maxI64) then st_save (KSvc 0) (repair e0) st else st) in *.
    assert (Hst1 : forall k', k' <> k0 -> sv_get k' (svcs st1) = sv_get k' (svcs st)).
    { intros k' Hne. unfold st1. destruct (is_gcw (e_text e0) && negb (e_exp e0 =? maxI64)) eqn:Ef; [|reflexivity].
      cbn. rewrite get_put_other; [reflexivity|]. rewrite <- (Hk0 eq_refl). exact Hne. }
    assert (Hst1k : sv_get k0 (svcs st1) = Some (repair e0)).
    { unfold st1, repair. destruct (is_gcw (e_text e0) && negb (e_exp e0 =? maxI64)) eqn:Ef.
      - cbn. rewrite (Hk0 eq_refl). apply get_put_same.
      - apply Hin. left; reflexivity. }
    assert (Hr : forall k' e', In (k', e') r -> k' <> k0) by (intros k' e' Hi; specialize (Hs1 _ _ Hi); lia).
    cbn [sv_get].
    destruct (e_exp (repair e0) <? now) eqn:Eexp.
    + (* expired: removed *)
      assert (Hin2 : forall k' e', In (k', e') r -> sv_get k' (svcs (st_remove (KSvc k0) st1)) = Some e').
      { intros k' e' Hi. cbn. rewrite get_del_other; [|eapply Hr; eauto].
        rewrite Hst1; [|eapply Hr; eauto]. apply Hin. right; exact Hi. }
      rewrite (IH _ _ _ _ _ _ Hs2 (fun k e Hi => Hg k e (or_intror Hi)) Hin2 H k).
      destruct (Z.eqb_spec k k0) as [->|Hk].
      * rewrite (sorted_head_absent _ _ Hs1). unfold eff. rewrite Eexp. cbn. apply get_del_same.
      * destruct (sv_get k r); [reflexivity|]. cbn. rewrite get_del_other; [apply Hst1|]; exact Hk.
    + assert (Hin2 : forall k' e', In (k', e') r -> sv_get k' (svcs st1) = Some e').
      { intros k' e' Hi. rewrite Hst1; [|eapply Hr; eauto]. apply Hin. right; exact Hi. }
      rewrite (IH _ _ _ _ _ _ Hs2 (fun k e Hi => Hg k e (or_intror Hi)) Hin2 H k).
      destruct (Z.eqb_spec k k0) as [->|Hk].
      * rewrite (sorted_head_absent _ _ Hs1). unfold eff. rewrite Eexp. exact Hst1k.
      * destruct (sv_get k r); [reflexivity|]. apply Hst1; exact Hk.
Qed.

Lemma scan_sorted now : forall es st has mn,
  keys_sorted (svcs st) -> keys_sorted (svcs (fst (fst (scan now es st has mn)))).
Proof.
  induction es as [|[k0 e0] r IH]; intros st has mn Hs; [exact Hs|].
  rewrite scan_cons. cbn zeta.
  set (st1 := if is_gcw (e_text e0) && negb (e_exp e0 =? maxI64) then st_save (KSvc 0) (repair e0) st else st).
  assert (H1 : keys_sorted (svcs st1)).
  { unfold st1. destruct (is_gcw (e_text e0) && negb (e_exp e0 =? maxI64)); [cbn; apply put_sorted|]; exact Hs. }
  destruct (e_exp (repair e0) <? now); apply IH; [cbn; apply del_sorted|]; exact H1.
Qed.

Lemma scan_acc now : forall es st has mn st' has' mn',
  scan now es st has mn = (st', has', mn') ->
  has' = has || existsb (fun x => is_gcw (e_text (snd x))) es
  /\ min_sp mn' <= min_sp mn
  /\ (forall k e e1, In (k, e) es -> eff now e = Some e1 -> min_sp mn' <= e_sp e1)
  /\ (mn' = mn \/ exists k e e1, In (k, e) es /\ eff now e = Some e1 /\ mn' = Some e1).
Proof.
  induction es as [|[k0 e0] r IH]; intros st has mn st' has' mn' H.
  - cbn in H. inversion H; subst. rewrite orb_false_r. repeat split; [lia | intros ? ? ? [] | left; reflexivity].
  - rewrite scan_cons in H. cbn zeta in H. cbn [existsb snd].
    destruct (e_exp (repair e0) <? now) eqn:Eexp.
    + destruct (IH _ _ _ _ _ _ H) as (Hh & Hm & Hall & Hw). rewrite orb_assoc. split; [exact Hh|]. split; [exact Hm|]. split.
      * intros k e e1 [Hi|Hi] He; [inversion Hi; subst; unfold eff in He; rewrite Eexp in He; discriminate | eapply Hall; eauto].
      * destruct Hw as [Hw|(k & e & e1 & Hi & He & Hw)]; [left; exact Hw|right; exists k, e, e1; split; [right; exact Hi|split; assumption]].
    + destruct (IH _ _ _ _ _ _ H) as (Hh & Hm & Hall & Hw). rewrite orb_assoc. split; [exact Hh|].
      assert (Hstep : min_sp (if e_sp (repair e0) <? min_sp mn then Some (repair e0) else mn) <= min_sp mn
                      /\ min_sp (if e_sp (repair e0) <? min_sp mn then Some (repair e0) else mn) <= e_sp (repair e0)).
      { destruct (e_sp (repair e0) <? min_sp mn) eqn:E; [apply Z.ltb_lt in E; cbn; lia | apply Z.ltb_ge in E; lia]. }
      split; [lia|]. split.
      * intros k e e1 [Hi|Hi] He; [inversion Hi; subst; unfold eff in He; rewrite Eexp in He; inversion He; subst; lia | eapply Hall; eauto].
      * destruct Hw as [Hw|(k & e & e1 & Hi & He & Hw)]; [|right; exists k, e, e1; split; [right; exact Hi|split; assumption]].
        destruct (e_sp (repair e0) <? min_sp mn); [|left; exact Hw].
        right. exists k0, e0, (repair e0). unfold eff. rewrite Eexp. split; [left; reflexivity|split; [reflexivity|exact Hw]].
Qed.

(* ---------- LoadMinServiceGCSafePoint: postcondition from any well-formed store ---------- *)
Definition wf_svcs (l : list (Z * entry)) : Prop :=
  keys_sorted l /\ forall k e, sv_get k l = Some e -> (e_text e = TGcw -> k = 0) /\ 0 <= e_sp e.

(* gc_worker's own entry exists and never expires *)
Definition gcw_ok (l : list (Z * entry)) : Prop :=
  exists g, sv_get 0 l = Some g /\ e_text g = TGcw /\ e_exp g = maxI64.

Definition prune1 (now : Z) (o : option entry) : option entry :=
  match o with Some e => if e_exp e <? now then None else Some e | None => None end.

Record lm_post (now : Z) (st st' : store) (m : entry) : Prop := {
  lm_gc   : gc st' = gc st;
  lm_wf   : wf_svcs (svcs st');
  lm_live : forall k e, sv_get k (svcs st') = Some e -> now <= e_exp e;
  lm_min  : forall k e, sv_get k (svcs st') = Some e -> e_sp m <= e_sp e;
  lm_min_pre : forall k e e1, sv_get k (svcs st) = Some e -> eff now e = Some e1 -> e_sp m <= e_sp e1;
  lm_gcw  : gcw_ok (svcs st');
  lm_keep : forall k, k <> 0 -> sv_get k (svcs st') = prune1 now (sv_get k (svcs st));
  lm_m_pos : 0 <= e_sp m
}.

Lemma eff_live now e e1 : eff now e = Some e1 -> now <= e_exp e1 /\ e1 = repair e.
Proof.
  unfold eff. destruct (e_exp (repair e) <? now) eqn:E; [discriminate|]. intros H; inversion H; subst.
  apply Z.ltb_ge in E. auto.
Qed.

Lemma init_gcw_post now st v :
  wf_svcs (svcs st) -> now <= maxI64 -> 0 <= v ->
  (forall k e, sv_get k (svcs st) = Some e -> now <= e_exp e) ->
  (forall k e, sv_get k (svcs st) = Some e -> v <= e_sp e) ->
  let st' := fst (init_gcw v st) in
  gc st' = gc st /\ wf_svcs (svcs st') /\
  (forall k e, sv_get k (svcs st') = Some e -> now <= e_exp e) /\
  (forall k e, sv_get k (svcs st') = Some e -> v <= e_sp e) /\
  gcw_ok (svcs st') /\ (forall k, k <> 0 -> sv_get k (svcs st') = sv_get k (svcs st)).
Proof.
  intros [Hs Hw] Hnow Hv Hlive Hmin. cbn.
  assert (Hget : forall k e, sv_get k (sv_put 0 (Entry TGcw maxI64 v) (svcs st)) = Some e ->
                   (k = 0 /\ e = Entry TGcw maxI64 v) \/ (k <> 0 /\ sv_get k (svcs st) = Some e)).
  { intros k e. destruct (Z.eq_dec k 0) as [->|Hk].
    - rewrite get_put_same. intros H; inversion H; auto.
    - rewrite get_put_other by exact Hk. auto. }
  split; [reflexivity|]. split; [split; [apply put_sorted; exact Hs|]|].
  - intros k e H. destruct (Hget _ _ H) as [[-> ->]|[Hk H']]; [cbn; split; [reflexivity|exact Hv] | apply Hw; exact H'].
  - split; [|split; [|split]].
    + intros k e H. destruct (Hget _ _ H) as [[-> ->]|[Hk H']]; [exact Hnow | eapply Hlive; eauto].
    + intros k e H. destruct (Hget _ _ H) as [[-> ->]|[Hk H']]; [cbn; lia | eapply Hmin; eauto].
    + exists (Entry TGcw maxI64 v). rewrite get_put_same. auto.
    + intros k Hk. apply get_put_other; exact Hk.
Qed.

Lemma load_min_post now st st' m :
  wf_svcs (svcs st) -> now <= maxI64 -> load_min now st = (st', m) -> lm_post now st st' m.
Proof.
  intros [Hs Hw] Hnow H. unfold load_min in H.
  destruct (svcs st) as [|x r] eqn:Ees.
  - (* no entries at all *)
    assert (Hwf : wf_svcs (svcs st)) by (rewrite Ees; split; [exact I | intros ? ? Hd; discriminate Hd]).
    destruct (init_gcw_post now st 0 Hwf Hnow (Z.le_refl 0)) as (H1 & H2 & H3 & H4 & H5 & H6);
      try (rewrite Ees; intros ? ? Hd; discriminate Hd).
    inversion H; subst. constructor; auto.
    + intros k e e1 Hd. rewrite Ees in Hd. discriminate Hd.
    + intros k Hk. rewrite H6 by exact Hk. rewrite Ees. reflexivity.
    + cbn; lia.
  - rewrite <- Ees in *.
    destruct (scan now (svcs st) st false None) as [[st1 has] mn] eqn:Escan.
    assert (Hget : forall k, sv_get k (svcs st1) = match sv_get k (svcs st) with Some e => eff now e | None => None end).
    { intros k.
      assert (Ha : forall k0 e, In (k0, e) (svcs st) -> e_text e = TGcw -> k0 = 0).
      { intros k0 e Hi Ht. apply (sorted_in_get _ Hs) in Hi. apply (Hw _ _ Hi). exact Ht. }
      assert (Hb : forall k0 e, In (k0, e) (svcs st) -> sv_get k0 (svcs st) = Some e).
      { intros k0 e Hi. apply sorted_in_get; assumption. }
      rewrite (scan_store now _ _ _ _ _ _ _ Hs Ha Hb Escan k).
      destruct (sv_get k (svcs st)); reflexivity. }
    assert (Hfrom : forall k e1, sv_get k (svcs st1) = Some e1 -> exists e, sv_get k (svcs st) = Some e /\ eff now e = Some e1).
    { intros k e1 Hg. rewrite Hget in Hg. destruct (sv_get k (svcs st)) as [e|]; [exists e; auto|discriminate]. }
    destruct (scan_acc now _ _ _ _ _ _ _ Escan) as (Hhas & _ & Hall & Hwit).
    pose proof (scan_gc now (svcs st) st false None) as Hgc. rewrite Escan in Hgc. cbn [fst] in Hgc.
    pose proof (scan_sorted now (svcs st) st false None Hs) as Hsort. rewrite Escan in Hsort. cbn [fst] in Hsort.
    assert (Hwf1 : wf_svcs (svcs st1)).
    { split; [exact Hsort|]. intros k e1 Hg. destruct (Hfrom _ _ Hg) as (e & He & Heff).
      apply eff_live in Heff as [_ ->]. rewrite repair_text, repair_sp. apply Hw; exact He. }
    assert (Hlive1 : forall k e1, sv_get k (svcs st1) = Some e1 -> now <= e_exp e1).
    { intros k e1 Hg. destruct (Hfrom _ _ Hg) as (e & He & Heff). apply eff_live in Heff as [Hl _]. exact Hl. }
    assert (Hmin1 : forall k e1, sv_get k (svcs st1) = Some e1 -> min_sp mn <= e_sp e1).
    { intros k e1 Hg. destruct (Hfrom _ _ Hg) as (e & He & Heff). eapply Hall; [apply get_in; exact He|exact Heff]. }
    assert (Hpre : forall k e e1, sv_get k (svcs st) = Some e -> eff now e = Some e1 -> min_sp mn <= e_sp e1).
    { intros k e e1 He Heff. eapply Hall; [apply get_in; exact He|exact Heff]. }
    assert (Hkeep1 : forall k, k <> 0 -> sv_get k (svcs st1) = prune1 now (sv_get k (svcs st))).
    { intros k Hk. rewrite Hget. destruct (sv_get k (svcs st)) as [e|] eqn:He; [|reflexivity]. cbn.
      assert (Hng : is_gcw (e_text e) = false).
      { destruct (is_gcw (e_text e)) eqn:Eg; [|reflexivity]. apply is_gcw_true in Eg. destruct (Hw _ _ He) as [H0 _]. specialize (H0 Eg). contradiction. }
      unfold eff. rewrite (repair_not_gcw _ Hng). reflexivity. }
    assert (Hmpos : forall m0, mn = Some m0 -> 0 <= e_sp m0).
    { intros m0 ->. destruct Hwit as [Hd|(k & e & e1 & Hi & Heff & Hd)]; [discriminate|]. inversion Hd; subst.
      apply eff_live in Heff as [_ ->]. rewrite repair_sp. apply (sorted_in_get _ Hs) in Hi. apply (Hw _ _ Hi). }
    destruct mn as [m0|].
    + destruct has.
      * (* gc_worker present: the minimum of the live entries *)
        inversion H; subst. constructor; auto.
        cbn [orb] in Hhas. symmetry in Hhas. apply existsb_exists in Hhas as ([k e] & Hi & Hg). cbn in Hg.
        pose proof Hg as Hg'. apply is_gcw_true in Hg'. apply (sorted_in_get _ Hs) in Hi.
        destruct (Hw _ _ Hi) as [H0 _]. specialize (H0 Hg'). subst k.
        exists (repair e). rewrite Hget, Hi. unfold eff. rewrite (repair_gcw_exp _ Hg).
        destruct (Z.ltb_spec maxI64 now); [lia|]. rewrite repair_text. auto.
      * (* some entries but no gc_worker: create it at the minimum *)
        destruct (init_gcw_post now st1 (e_sp m0) Hwf1 Hnow (Hmpos _ eq_refl) Hlive1 Hmin1) as (H1 & H2 & H3 & H4 & H5 & H6).
        inversion H; subst. cbn [fst init_gcw] in *.
        constructor; [cbn; exact Hgc | exact H2 | exact H3 | exact H4 | exact Hpre | exact H5 | | cbn; apply (Hmpos _ eq_refl)].
        intros k Hk. rewrite H6 by exact Hk. apply Hkeep1; exact Hk.
    + (* every live safe point is MaxUint64 (or nothing is live): gc_worker := 0 *)
      assert (Hmin0 : forall k e1, sv_get k (svcs st1) = Some e1 -> 0 <= e_sp e1) by (intros k e1 Hg; apply (proj2 Hwf1 _ _ Hg)).
      destruct (init_gcw_post now st1 0 Hwf1 Hnow (Z.le_refl 0) Hlive1 Hmin0) as (H1 & H2 & H3 & H4 & H5 & H6).
      inversion H; subst. cbn [fst init_gcw] in *.
      constructor; [cbn; exact Hgc | exact H2 | exact H3 | exact H4 | | exact H5 | | cbn; lia].
      * intros k e e1 He Heff. cbn. apply eff_live in Heff as [_ ->]. rewrite repair_sp. apply (Hw _ _ He).
      * intros k Hk. rewrite H6 by exact Hk. apply Hkeep1; exact Hk.
Qed.

(* ---------- UpdateServiceGCSafePoint: postconditions ---------- *)
Definition exp_of (now ttl : Z) : Z := if maxI64 - now <=? ttl then maxI64 else now + ttl.

Lemma svc_update_cases st i ttl sp now st' r :
  svc_update st i ttl sp now = (st', Some r) ->
  exists st0 st1 mn,
    (if ttl <=? 0 then remove_service i st else Some st) = Some st0 /\ load_min now st0 = (st1, mn) /\
    ( ((0 <? ttl) && (e_sp mn <=? sp) = false /\ st' = st1 /\ r = resp_of mn now)
      \/ ((0 <? ttl) && (e_sp mn <=? sp) = true /\
          exists st2, save_service i (Entry (text_of i) (exp_of now ttl) sp) st1 = Some st2 /\
            ( (text_eqb (text_of i) (e_text mn) = false /\ st' = st2 /\ r = resp_of mn now)
              \/ (text_eqb (text_of i) (e_text mn) = true /\ exists mn', load_min now st2 = (st', mn') /\ r = resp_of mn' now)))).
Proof.
  unfold svc_update, exp_of. intros H.
  destruct (if ttl <=? 0 then remove_service i st else Some st) as [st0|]; [|inversion H].
  destruct (load_min now st0) as [st1 mn] eqn:E1. exists st0, st1, mn. split; [reflexivity|]. split; [exact E1|].
  destruct ((0 <? ttl) && (e_sp mn <=? sp)) eqn:Eg.
  - right. split; [reflexivity|].
    destruct (save_service _ _ st1) as [st2|] eqn:Es; [|inversion H]. exists st2. split; [reflexivity|].
    destruct (text_eqb (text_of i) (e_text mn)) eqn:Et.
    + right. split; [reflexivity|]. destruct (load_min now st2) as [st3 mn'] eqn:E2. inversion H; subst. exists mn'. split; reflexivity.
    + left. inversion H; subst. auto.
  - left. inversion H; subst. auto.
Qed.

Lemma save_service_spec i e st st' :
  save_service i e st = Some st' ->
  st' = st_save (key_of i) e st /\ (e_text e = TGcw -> e_exp e = maxI64) /\ is_clean i = true.
Proof.
  unfold save_service, id_ok. destruct (e_text e) eqn:Et; try discriminate; destruct (is_clean i); cbn; try discriminate.
  - destruct (Z.eqb_spec (e_exp e) maxI64); intros H; inversion H; subst. auto.
  - intros H; inversion H; subst. repeat split; auto. discriminate.
Qed.

Lemma remove_service_spec i st st' :
  remove_service i st = Some st' -> st' = st_remove (key_of i) st /\ is_clean i = true /\ text_of i <> TGcw.
Proof.
  unfold remove_service, id_ok. destruct (text_of i) eqn:Et; try discriminate; destruct (is_clean i); try discriminate;
    intros H; inversion H; subst; repeat split; auto; discriminate.
Qed.

Lemma wf_remove k st : wf_svcs (svcs st) -> wf_svcs (svcs (st_remove k st)).
Proof.
  intros [Hs Hw]. destruct k as [|n|]; cbn; [split; assumption| |split; assumption].
  split; [apply del_sorted; exact Hs|]. intros k e H. destruct (Z.eq_dec k n) as [->|Hk].
  - rewrite get_del_same in H. discriminate.
  - rewrite get_del_other in H by exact Hk. apply Hw; exact H.
Qed.

Lemma wf_save k e st :
  wf_svcs (svcs st) -> 0 <= e_sp e -> (forall n, k = KSvc n -> e_text e = TGcw -> n = 0) ->
  wf_svcs (svcs (st_save k e st)).
Proof.
  intros [Hs Hw] Hsp Hk. destruct k as [|n|]; cbn; [split; assumption| |split; assumption].
  split; [apply put_sorted; exact Hs|]. intros k e' H. destruct (Z.eq_dec k n) as [->|Hne].
  - rewrite get_put_same in H. inversion H; subst. split; [apply Hk; reflexivity|exact Hsp].
  - rewrite get_put_other in H by exact Hne. apply Hw; exact H.
Qed.

Lemma key_text_ok i n : key_of i = KSvc n -> text_of i = TGcw -> n = 0.
Proof. destruct i; cbn; intros H1 H2; try discriminate. inversion H1; reflexivity. Qed.

Lemma wf_step0 st i ttl st0 :
  wf_svcs (svcs st) -> (if ttl <=? 0 then remove_service i st else Some st) = Some st0 -> wf_svcs (svcs st0).
Proof.
  intros Hwf H. destruct (ttl <=? 0); [|inversion H; subst; exact Hwf].
  apply remove_service_spec in H as (-> & _). apply wf_remove; exact Hwf.
Qed.

Lemma exp_of_live now ttl : 0 < ttl -> now <= maxI64 -> now <= exp_of now ttl.
Proof. intros H1 H2. unfold exp_of. destruct (maxI64 - now <=? ttl); lia. Qed.

(* get after a service save, by key class *)
Lemma get_save k e st x :
  sv_get x (svcs (st_save k e st)) = match k with KSvc n => if x =? n then Some e else sv_get x (svcs st) | _ => sv_get x (svcs st) end.
Proof.
  destruct k as [|n|]; cbn; try reflexivity. destruct (Z.eqb_spec x n) as [->|Hne]; [apply get_put_same | apply get_put_other; exact Hne].
Qed.

Section SvcPost.
  Variables (st : store) (i : sid) (ttl sp now : Z) (st' : store) (r : resp).
  Hypothesis Hwf : wf_svcs (svcs st).
  Hypothesis Hsp : 0 <= sp.
  Hypothesis Hnow : now <= maxI64.
  Hypothesis Hrun : svc_update st i ttl sp now = (st', Some r).

  (* clause 2: the reported minimum is not above the safe point of any live registered service *)
  Lemma min_le_every_live_pf : forall k e, sv_get k (svcs st') = Some e -> now <= e_exp e -> r_sp r <= e_sp e.
  Proof.
    destruct (svc_update_cases _ _ _ _ _ _ _ Hrun) as (st0 & st1 & mn & H0 & H1 & Hc).
    pose proof (load_min_post _ _ _ _ (wf_step0 _ _ _ _ Hwf H0) Hnow H1) as P1.
    intros k e Hg _.
    destruct Hc as [(Eg & -> & ->)|(Eg & st2 & Es & Hc)]; [cbn; eapply (lm_min _ _ _ _ P1); eauto|].
    apply andb_true_iff in Eg as [Ettl Ele]. apply Z.leb_le in Ele.
    apply save_service_spec in Es as (-> & Hinf & Hok).
    destruct Hc as [(Et & -> & ->)|(Et & mn' & H2 & ->)].
    - cbn. rewrite get_save in Hg. destruct (key_of i) as [|n|]; try (eapply (lm_min _ _ _ _ P1); eauto; fail).
      destruct (Z.eqb_spec k n); [inversion Hg; subst; cbn; exact Ele | eapply (lm_min _ _ _ _ P1); eauto].
    - assert (Hwf2 : wf_svcs (svcs (st_save (key_of i) (Entry (text_of i) (exp_of now ttl) sp) st1))).
      { apply wf_save; [apply (lm_wf _ _ _ _ P1) | exact Hsp | intros n Hk Ht; eapply key_text_ok; eauto]. }
      pose proof (load_min_post _ _ _ _ Hwf2 Hnow H2) as P2. cbn. eapply (lm_min _ _ _ _ P2); eauto.
  Qed.

  (* clause 5a: nothing expired is left behind *)
  Lemma no_expired_left_pf : forall k e, sv_get k (svcs st') = Some e -> now <= e_exp e.
  Proof.
    destruct (svc_update_cases _ _ _ _ _ _ _ Hrun) as (st0 & st1 & mn & H0 & H1 & Hc).
    pose proof (load_min_post _ _ _ _ (wf_step0 _ _ _ _ Hwf H0) Hnow H1) as P1.
    intros k e Hg.
    destruct Hc as [(Eg & -> & ->)|(Eg & st2 & Es & Hc)]; [eapply (lm_live _ _ _ _ P1); eauto|].
    apply andb_true_iff in Eg as [Ettl Ele]. apply Z.ltb_lt in Ettl.
    apply save_service_spec in Es as (-> & Hinf & Hok).
    destruct Hc as [(Et & -> & ->)|(Et & mn' & H2 & ->)].
    - rewrite get_save in Hg. destruct (key_of i) as [|n|]; try (eapply (lm_live _ _ _ _ P1); eauto; fail).
      destruct (Z.eqb_spec k n); [inversion Hg; subst; cbn; apply exp_of_live; assumption | eapply (lm_live _ _ _ _ P1); eauto].
    - assert (Hwf2 : wf_svcs (svcs (st_save (key_of i) (Entry (text_of i) (exp_of now ttl) sp) st1))).
      { apply wf_save; [apply (lm_wf _ _ _ _ P1) | exact Hsp | intros n Hk Ht; eapply key_text_ok; eauto]. }
      pose proof (load_min_post _ _ _ _ Hwf2 Hnow H2) as P2. eapply (lm_live _ _ _ _ P2); eauto.
  Qed.

  (* the store stays well-formed *)
  Lemma svc_update_wf_pf : wf_svcs (svcs st').
  Proof.
    destruct (svc_update_cases _ _ _ _ _ _ _ Hrun) as (st0 & st1 & mn & H0 & H1 & Hc).
    pose proof (load_min_post _ _ _ _ (wf_step0 _ _ _ _ Hwf H0) Hnow H1) as P1.
    destruct Hc as [(Eg & -> & ->)|(Eg & st2 & Es & Hc)]; [apply (lm_wf _ _ _ _ P1)|].
    apply save_service_spec in Es as (-> & Hinf & Hok).
    assert (Hwf2 : wf_svcs (svcs (st_save (key_of i) (Entry (text_of i) (exp_of now ttl) sp) st1))).
    { apply wf_save; [apply (lm_wf _ _ _ _ P1) | exact Hsp | intros n Hk Ht; eapply key_text_ok; eauto]. }
    destruct Hc as [(Et & -> & ->)|(Et & mn' & H2 & ->)]; [exact Hwf2|].
    apply (lm_wf _ _ _ _ (load_min_post _ _ _ _ Hwf2 Hnow H2)).
  Qed.

  (* clause 4: gc_worker's entry exists with unlimited lifetime *)
  Lemma gc_worker_always_infinite_pf : gcw_ok (svcs st').
  Proof.
    destruct (svc_update_cases _ _ _ _ _ _ _ Hrun) as (st0 & st1 & mn & H0 & H1 & Hc).
    pose proof (load_min_post _ _ _ _ (wf_step0 _ _ _ _ Hwf H0) Hnow H1) as P1.
    destruct Hc as [(Eg & -> & ->)|(Eg & st2 & Es & Hc)]; [apply (lm_gcw _ _ _ _ P1)|].
    apply save_service_spec in Es as (-> & Hinf & Hok).
    assert (Hwf2 : wf_svcs (svcs (st_save (key_of i) (Entry (text_of i) (exp_of now ttl) sp) st1))).
    { apply wf_save; [apply (lm_wf _ _ _ _ P1) | exact Hsp | intros n Hk Ht; eapply key_text_ok; eauto]. }
    destruct Hc as [(Et & -> & ->)|(Et & mn' & H2 & ->)]; [|apply (lm_gcw _ _ _ _ (load_min_post _ _ _ _ Hwf2 Hnow H2))].
    destruct (lm_gcw _ _ _ _ P1) as (g & Hg & Hgt & Hge). unfold gcw_ok. rewrite get_save.
    destruct i as [| |z k]; cbn [key_of text_of] in *.
    - exists (Entry TGcw (exp_of now ttl) sp). cbn. split; [reflexivity|]. split; [reflexivity|]. apply Hinf. reflexivity.
    - exists g. auto.
    - destruct k as [|n|]; try (exists g; auto; fail).
      cbn in Hok. apply andb_true_iff in Hok as [Hz Hnz]. apply Z.eqb_eq in Hz. apply negb_true_iff, Z.eqb_neq in Hnz. subst n.
      destruct (Z.eqb_spec 0 z); [congruence|]. exists g. auto.
  Qed.

  (* clause 3: a registration below the current minimum is not recorded: the call is a pure LoadMin *)
  Lemma below_min_not_recorded_pf n :
    key_of i = KSvc n -> 0 < ttl -> sp < r_sp r ->
    st' = fst (load_min now st) /\ r = resp_of (snd (load_min now st)) now.
  Proof.
    intros Hkey Httl Hlt.
    destruct (svc_update_cases _ _ _ _ _ _ _ Hrun) as (st0 & st1 & mn & H0 & H1 & Hc).
    assert (st0 = st) as -> by (destruct (Z.leb_spec ttl 0); [lia | inversion H0; reflexivity]).
    pose proof (load_min_post _ _ _ _ Hwf Hnow H1) as P1. rewrite H1. cbn [fst snd].
    destruct Hc as [(Eg & -> & ->)|(Eg & st2 & Es & Hc)]; [auto|]. exfalso.
    apply andb_true_iff in Eg as [_ Ele]. apply Z.leb_le in Ele.
    apply save_service_spec in Es as (-> & Hinf & Hok).
    destruct Hc as [(Et & -> & ->)|(Et & mn' & H2 & ->)]; [cbn in Hlt; lia|].
    assert (Hwf2 : wf_svcs (svcs (st_save (key_of i) (Entry (text_of i) (exp_of now ttl) sp) st1))).
    { apply wf_save; [apply (lm_wf _ _ _ _ P1) | exact Hsp | intros n0 Hk Ht; eapply key_text_ok; eauto]. }
    pose proof (load_min_post _ _ _ _ Hwf2 Hnow H2) as P2. cbn in Hlt.
    (* the request's own entry is live in the snapshot of the second LoadMin *)
    set (E := Entry (text_of i) (exp_of now ttl) sp) in *.
    assert (HE : sv_get n (svcs (st_save (key_of i) E st1)) = Some E) by (rewrite get_save, Hkey, Z.eqb_refl; reflexivity).
    assert (Hrep : repair E = E).
    { unfold repair. destruct (is_gcw (e_text E)) eqn:Eg; [|reflexivity].
      apply is_gcw_true in Eg. rewrite (Hinf Eg), Z.eqb_refl. reflexivity. }
    assert (Heff : eff now E = Some E).
    { unfold eff. rewrite Hrep. pose proof (exp_of_live now ttl Httl Hnow). destruct (Z.ltb_spec (e_exp E) now); [cbn in *; lia|reflexivity]. }
    pose proof (lm_min_pre _ _ _ _ P2 _ _ _ HE Heff) as Hle. cbn in Hle. lia.
  Qed.

  (* clause 6: an answered registration at or above the reported minimum IS recorded (services other than gc_worker, whose
     entry LoadMin may re-create): what the monitor signals as C15:acknowledged-registration-not-stored *)
  Lemma acknowledged_is_recorded_pf n :
    key_of i = KSvc n -> n <> 0 -> 0 < ttl -> r_sp r <= sp ->
    sv_get n (svcs st') = Some (Entry (text_of i) (exp_of now ttl) sp).
  Proof.
    intros Hkey Hn Httl Hle.
    destruct (svc_update_cases _ _ _ _ _ _ _ Hrun) as (st0 & st1 & mn & H0 & H1 & Hc).
    pose proof (load_min_post _ _ _ _ (wf_step0 _ _ _ _ Hwf H0) Hnow H1) as P1.
    destruct Hc as [(Eg & -> & ->)|(Eg & st2 & Es & Hc)].
    - exfalso. cbn in Hle. apply andb_false_iff in Eg as [Eg|Eg]; [apply Z.ltb_ge in Eg | apply Z.leb_gt in Eg]; lia.
    - apply save_service_spec in Es as (-> & Hinf & Hok).
      set (E := Entry (text_of i) (exp_of now ttl) sp) in *.
      assert (HE : sv_get n (svcs (st_save (key_of i) E st1)) = Some E) by (rewrite get_save, Hkey, Z.eqb_refl; reflexivity).
      destruct Hc as [(Et & -> & ->)|(Et & mn' & H2 & ->)]; [exact HE|].
      assert (Hwf2 : wf_svcs (svcs (st_save (key_of i) E st1))).
      { apply wf_save; [apply (lm_wf _ _ _ _ P1) | exact Hsp | intros n0 Hk Ht; eapply key_text_ok; eauto]. }
      pose proof (load_min_post _ _ _ _ Hwf2 Hnow H2) as P2.
      rewrite (lm_keep _ _ _ _ P2 _ Hn), HE. cbn [prune1].
      pose proof (exp_of_live now ttl Httl Hnow) as Hl. unfold E; cbn [e_exp].
      destruct (Z.ltb_spec (exp_of now ttl) now); [lia|reflexivity].
  Qed.

  (* clause 5b: a non-positive TTL removes the registration *)
  Lemma nonpositive_ttl_removed_pf n : key_of i = KSvc n -> n <> 0 -> ttl <= 0 -> sv_get n (svcs st') = None.
  Proof.
    intros Hkey Hn Httl.
    destruct (svc_update_cases _ _ _ _ _ _ _ Hrun) as (st0 & st1 & mn & H0 & H1 & Hc).
    pose proof (load_min_post _ _ _ _ (wf_step0 _ _ _ _ Hwf H0) Hnow H1) as P1.
    destruct (Z.leb_spec ttl 0); [|lia].
    destruct Hc as [(Eg & -> & ->)|(Eg & _)]; [|destruct (Z.ltb_spec 0 ttl); [lia|discriminate Eg]].
    rewrite (lm_keep _ _ _ _ P1 _ Hn).
    apply remove_service_spec in H0 as (-> & _). rewrite Hkey; cbn; rewrite get_del_same; reflexivity.
  Qed.
End SvcPost.

(* ---------- the service clauses along whole histories ---------- *)
Lemma svc_update_none st i ttl sp now st' :
  svc_update st i ttl sp now = (st', None) ->
  st' = st \/ exists st0 mn, (if ttl <=? 0 then remove_service i st else Some st) = Some st0 /\ load_min now st0 = (st', mn).
Proof.
  unfold svc_update. intros H.
  destruct (if ttl <=? 0 then remove_service i st else Some st) as [st0|]; [|inversion H; auto].
  destruct (load_min now st0) as [st1 mn] eqn:E1.
  destruct ((0 <? ttl) && (e_sp mn <=? sp)); [|inversion H].
  destruct (save_service _ _ st1) as [st2|]; [|inversion H; subst; right; exists st0, mn; auto].
  destruct (text_eqb (text_of i) (e_text mn)); [destruct (load_min now st2)|]; inversion H.
Qed.

(* the values a label carries are 64-bit quantities *)
Definition label_ok (l : label) : Prop :=
  match l with LSvc _ _ sp now => 0 <= sp /\ now <= maxI64 | LSeed _ _ sp => 0 <= sp | _ => True end.
(* no raw writes into storage behind the handlers' back *)
Definition no_seed (l : label) : Prop := match l with LSeed _ _ _ => False | _ => True end.

Lemma wf_step b c s l s' :
  wf_svcs (svcs (sto s)) -> label_ok l -> step_gen b c s l = Some s' -> wf_svcs (svcs (sto s')).
Proof.
  intros Hwf Hok H. destruct l as [t v|t o| |i ttl sp now|i|i exp sp]; cbn [step_gen] in H.
  - destruct (thr s t); [discriminate|]. destruct (b && negb (Nat.eqb (npend s) 0)); [discriminate|].
    destruct (gc_read (gc (sto s))); inversion H; subst; exact Hwf.
  - destruct (thr s t) as [p|]; [|discriminate].
    destruct (t_old p <? t_new p); [destruct (c && negb (cas_ok (gc (sto s)) (t_old p))); [|destruct o]|]; inversion H; subst; cbn; exact Hwf.
  - destruct (gc_read (gc (sto s))); inversion H; subst; exact Hwf.
  - inversion H; subst. cbn. destruct Hok as [Hsp Hnow].
    destruct (svc_update (sto s) i ttl sp now) as [st' [r|]] eqn:E; cbn.
    + eapply svc_update_wf_pf; eauto.
    + destruct (svc_update_none _ _ _ _ _ _ E) as [->|(st0 & mn & H0 & H1)]; [exact Hwf|].
      apply (lm_wf _ _ _ _ (load_min_post _ _ _ _ (wf_step0 _ _ _ _ Hwf H0) Hnow H1)).
  - destruct (remove_service i (sto s)) as [st|] eqn:E; inversion H; subst; [|exact Hwf].
    apply remove_service_spec in E as (-> & _). cbn. apply wf_remove; exact Hwf.
  - destruct (key_of i) as [|n|] eqn:Ek; inversion H; subst; try exact Hwf.
    change (wf_svcs (svcs (st_save (KSvc n) (Entry (text_of i) exp sp) (sto s)))).
    apply wf_save; [exact Hwf | exact Hok |]. intros n0 Hk Ht. inversion Hk; subst. eapply key_text_ok; eauto.
Qed.

Lemma gcw_step b c s l s' :
  wf_svcs (svcs (sto s)) -> gcw_ok (svcs (sto s)) -> label_ok l -> no_seed l ->
  step_gen b c s l = Some s' -> gcw_ok (svcs (sto s')).
Proof.
  intros Hwf Hg Hok Hcl H. destruct l as [t v|t o| |i ttl sp now|i|i exp sp]; cbn [step_gen] in H.
  - destruct (thr s t); [discriminate|]. destruct (b && negb (Nat.eqb (npend s) 0)); [discriminate|].
    destruct (gc_read (gc (sto s))); inversion H; subst; exact Hg.
  - destruct (thr s t) as [p|]; [|discriminate].
    destruct (t_old p <? t_new p); [destruct (c && negb (cas_ok (gc (sto s)) (t_old p))); [|destruct o]|]; inversion H; subst; cbn; exact Hg.
  - destruct (gc_read (gc (sto s))); inversion H; subst; exact Hg.
  - inversion H; subst. cbn. destruct Hok as [Hsp Hnow].
    destruct (svc_update (sto s) i ttl sp now) as [st' [r|]] eqn:E; cbn.
    + eapply gc_worker_always_infinite_pf; eauto.
    + destruct (svc_update_none _ _ _ _ _ _ E) as [->|(st0 & mn & H0 & H1)]; [exact Hg|].
      apply (lm_gcw _ _ _ _ (load_min_post _ _ _ _ (wf_step0 _ _ _ _ Hwf H0) Hnow H1)).
  - destruct (remove_service i (sto s)) as [st|] eqn:E; inversion H; subst; [|exact Hg].
    apply remove_service_spec in E as (-> & Hc & Hnt).
    destruct i as [| |z k]; cbn in *; [congruence|exact Hg|].
    destruct k as [|n|]; cbn; try exact Hg.
    apply andb_true_iff in Hc as [Hz Hnz]. apply Z.eqb_eq in Hz. apply negb_true_iff, Z.eqb_neq in Hnz. subst n.
    destruct Hg as (g & Hg0 & Hg1). exists g. rewrite get_del_other by congruence. auto.
  - destruct Hcl.
Qed.

Lemma gcw_stays_pf b c : forall ls s,
  wf_svcs (svcs (sto s)) -> gcw_ok (svcs (sto s)) -> Forall (fun l => label_ok l /\ no_seed l) ls ->
  gcw_ok (svcs (sto (exec (step_gen b c) s ls))).
Proof.
  induction ls as [|l r IH]; intros s Hwf Hg Hall; cbn [exec]; [exact Hg|].
  inversion Hall as [|? ? [Hok Hcl] Hr]; subst.
  destruct (step_gen b c s l) as [s'|] eqn:E; [|apply IH; assumption].
  apply IH; [eapply wf_step; eauto | eapply gcw_step; eauto | exact Hr].
Qed.

Lemma wf_init : wf_svcs (svcs (sto init)).
Proof. split; [exact I|]. intros k e H. discriminate H. Qed.

Lemma wf_exec_pf b c : forall ls s, wf_svcs (svcs (sto s)) -> Forall label_ok ls -> wf_svcs (svcs (sto (exec (step_gen b c) s ls))).
Proof.
  induction ls as [|l r IH]; intros s Hwf Hall; cbn [exec]; [exact Hwf|].
  inversion Hall as [|? ? Hok Hr]; subst.
  destruct (step_gen b c s l) as [s'|] eqn:E; [|apply IH; assumption].
  apply IH; [eapply wf_step; eauto | exact Hr].
Qed.

(* ---------- the old path-escape witnesses are refused now ---------- *)
Lemma escapes_now_refused :
  let st := fst (svc_update (Store (GVal 30) []) IGcw maxI64 7 1700000000) in
  svc_update st (IName 100 KGc) 0 0 1700000000 = (st, None)                       (* "..", TTL <= 0 *)
  /\ snd (svc_update st (IName 100 KGc) 1000 9 1700000000) = None               (* "..", TTL > 0 *)
  /\ gc (fst (svc_update st (IName 100 KGc) 1000 9 1700000000)) = GVal 30
  /\ svc_update st (IName 101 (KSvc 0)) 0 8 1700000000 = (st, None)             (* "x/../gc_worker", TTL <= 0 *)
  /\ svc_update st (IName 101 (KSvc 0)) 1000 8 1700000000 = (st, None).         (* "x/../gc_worker", TTL > 0 *)
Proof. vm_compute. repeat split; reflexivity. Qed.
