(* C09 — an operator that leaves the running set is ended: for every event, every operator that was in
   OperatorController.operators before and is not there afterwards is in an end status afterwards
   (cancelled / replaced / success / timeout), and by C09_status_paths it stays in that status. *)
From Coq Require Import String.
From PDV Require Import lib.Base gen.Gen_C08 gen.Gen_C09 model.C08_Steps model.C09_OpCtl
     proof.C09_StatusProof proof.C09_CtlProof.
Local Open Scope list_scope.
Local Open Scope Z_scope.

Definition ended (c : ctl) (id : Z) : Prop := exists o, get_op c id = Some o /\ is_end_status (o_st o) = true.

(* ended, and GetOperatorStatus has a record for the region it ran on *)
Definition gone (c : ctl) (rid id : Z) : Prop := ended c id /\ alist_get (records c) rid <> None.

Definition Left (c c' : ctl) : Prop :=
  forall rid id, In (rid, id) (running c) -> In (rid, id) (running c') \/ gone c' rid id.

(* every running entry names an existing operator *)
Definition RunOps (c : ctl) : Prop := forall rid id, In (rid, id) (running c) -> exists o, get_op c id = Some o.

Lemma ended_fwd c c' id : Frame c c' -> ended c id -> ended c' id.
Proof.
  intros F (o & Ho & E). destruct (fr_fwd _ _ F _ _ Ho) as (o' & Ho' & R). exists o'. split; [exact Ho'|].
  destruct R as (_ & _ & _ & _ & _ & _ & _ & _ & R9). rewrite <- (reach_from_end _ _ E R9). exact E.
Qed.

Lemma ended_ops_fwd c c' id : ops_fwd c c' -> ended c id -> ended c' id.
Proof.
  intros F (o & Ho & E). destruct (F _ _ Ho) as (o' & Ho' & R). exists o'. split; [exact Ho'|].
  destruct R as (_ & _ & _ & _ & _ & _ & _ & _ & R9). rewrite <- (reach_from_end _ _ E R9). exact E.
Qed.

Lemma gone_fwd c c' rid id : Frame c c' -> gone c rid id -> gone c' rid id.
Proof. intros F [E R]. split; [eapply ended_fwd; eauto|apply (fr_keep _ _ F), R]. Qed.

Lemma gone_ops_fwd c c' rid id : ops_fwd c c' -> records c' = records c -> gone c rid id -> gone c' rid id.
Proof. intros F Hr [E R]. split; [eapply ended_ops_fwd; eauto|rewrite Hr; exact R]. Qed.

Lemma ops_fwd_trans a b c : ops_fwd a b -> ops_fwd b c -> ops_fwd a c.
Proof.
  intros F G id x Hx. destruct (F _ _ Hx) as (y & Hy & R1). destruct (G _ _ Hy) as (z & Hz & R2).
  exists z. split; [exact Hz|eapply rel_trans; eauto].
Qed.

Lemma ops_fwd_same c c' : ops c' = ops c -> ops_fwd c c'.
Proof. intros H id x Hx. exists x. unfold get_op in *. rewrite H. auto using rel_refl. Qed.

Lemma Left_refl c : Left c c.
Proof. intros rid id H. left. exact H. Qed.

Lemma Left_trans a b c : Left a b -> Left b c -> Frame b c -> Left a c.
Proof.
  intros L1 L2 F rid id H. destruct (L1 _ _ H) as [H1|H1].
  - apply L2. exact H1.
  - right. eapply gone_fwd; eauto.
Qed.

Lemma Left_same c c' : running c' = running c -> Left c c'.
Proof. intros H rid id Hin. left. rewrite H. exact Hin. Qed.

Lemma RunOps_frame c c' : Frame c c' -> RunOps c -> RunOps c'.
Proof.
  intros F W rid id H. destruct (fr_adm _ _ F _ _ H) as [H1|(o & r & Ho & _)].
  - destruct (W _ _ H1) as (o & Ho). destruct (fr_fwd _ _ F _ _ Ho) as (o' & Ho' & _). eauto.
  - destruct (fr_fwd _ _ F _ _ Ho) as (o' & Ho' & _). eauto.
Qed.

Lemma alist_unique {A} (l : list (Z * A)) k v v' :
  NoDup (map fst l) -> In (k, v) l -> alist_get l k = Some v' -> v = v'.
Proof.
  unfold alist_get. induction l as [|[k0 v0] r IH]; cbn; intros Hnd Hin Hget; [contradiction|].
  inversion Hnd as [|? ? Hn Hd]; subst. destruct (k0 =? k) eqn:E.
  - apply Z.eqb_eq in E; subst k0. inversion Hget; subst v'. destruct Hin as [Hin|Hin]; [congruence|].
    exfalso. apply Hn. apply in_map_iff. exists (k, v). auto.
  - destruct Hin as [Hin|Hin]; [inversion Hin; subst; rewrite Z.eqb_refl in E; discriminate|]. apply IH; auto.
Qed.

Lemma alist_del_keeps {A} (l : list (Z * A)) k k' v : k' <> k -> In (k', v) l -> In (k', v) (alist_del l k).
Proof.
  intros Hne Hin. unfold alist_del. apply filter_In. split; [exact Hin|]. cbn. apply negb_true_iff, Z.eqb_neq. exact Hne.
Qed.

(* the entry of one region disappears and its operator is ended: everybody else stays *)
Lemma left_del c cx rid id :
  RInv c -> alist_get (running c) rid = Some id ->
  (forall r i, r <> rid -> In (r, i) (running c) -> In (r, i) (running cx)) -> gone cx rid id -> Left c cx.
Proof.
  intros Hnd Hget Hkeep Hend r i Hin. destruct (Z.eq_dec r rid) as [->|Hne].
  - right. rewrite (alist_unique _ _ _ _ Hnd Hin Hget). exact Hend.
  - left. apply Hkeep; auto.
Qed.

(* bury ends the operator it buries *)
Lemma bury_ended c id o : get_op c id = Some o -> ended (bury c id) id.
Proof.
  intros Ho. unfold bury. rewrite Ho.
  set (o' := if op_is_end o then o else fst (op_to o CANCELED)).
  assert (I : o_id o' = id).
  { unfold o'. pose proof (get_op_id _ _ _ Ho). destruct (op_is_end o); [auto|]. destruct (rel_op_to o CANCELED) as (R1 & _). congruence. }
  exists o'. split.
  - change (get_op (set_op c o') id = Some o'). rewrite <- I. apply get_set_op_same with (o := o). rewrite I. exact Ho.
  - unfold o'. destruct (op_is_end o) eqn:E; [exact E|apply op_to_end_cancel].
Qed.

Lemma bury_gone c id o : get_op c id = Some o -> gone (bury c id) (o_rid o) id.
Proof.
  intros Ho. split; [eapply bury_ended; eauto|].
  unfold bury. rewrite Ho. cbn [records upd]. rewrite alist_get_set.
  set (o' := if op_is_end o then o else fst (op_to o CANCELED)).
  assert (E : o_rid o' = o_rid o) by (unfold o'; destruct (op_is_end o); [reflexivity|destruct (rel_op_to o CANCELED) as (_ & R2 & _); exact R2]).
  rewrite E, Z.eqb_refl. discriminate.
Qed.

Lemma running_bury c id : running (bury c id) = running c.
Proof. unfold bury. destruct (get_op c id); reflexivity. Qed.
Lemma running_cancel c id : running (cancel c id) = running c.
Proof. unfold cancel. destruct (get_op c id); reflexivity. Qed.

Lemma get_op_cancel c id o : get_op c id = Some o -> exists o', get_op (cancel c id) id = Some o'.
Proof.
  intros Ho. destruct (fr_fwd _ _ (frame_cancel c id) _ _ Ho) as (o' & Ho' & _). eauto.
Qed.

Lemma left_remove_operator c id : RInv c -> Left c (fst (remove_operator c id)).
Proof.
  intros Hnd. unfold remove_operator. destruct (get_op c id) as [o|] eqn:Ho; [|apply Left_refl].
  unfold remove_locked. destruct (alist_get (running c) (o_rid o)) as [i|] eqn:Hget; [|apply Left_refl].
  destruct (i =? o_id o) eqn:E; cbn [fst]; [|apply Left_refl].
  apply Z.eqb_eq in E. rewrite (get_op_id _ _ _ Ho) in E. subst i.
  apply left_del with (rid := o_rid o) (id := id); auto.
  - intros r i Hne Hin. rewrite running_bury, running_cancel. cbn. apply alist_del_keeps; auto.
  - set (c1 := set_running c (alist_del (running c) (o_rid o))).
    assert (H1 : get_op c1 id = Some o) by exact Ho.
    destruct (fr_fwd _ _ (frame_cancel c1 id) _ _ H1) as (o' & Ho' & R').
    destruct R' as (_ & R2 & _). rewrite <- R2. apply bury_gone. exact Ho'.
Qed.

(* running entries are keyed by the operator's own region *)
Definition KeyOk (c : ctl) : Prop := forall rid id o, In (rid, id) (running c) -> get_op c id = Some o -> o_rid o = rid.

Lemma KeyOk_frame c c' : Frame c c' -> KeyOk c -> KeyOk c'.
Proof.
  intros F K rid id o' Hin Ho'. destruct (fr_bwd _ _ F _ _ Ho') as (o & Ho & R). destruct R as (_ & R2 & _).
  rewrite R2. destruct (fr_adm _ _ F _ _ Hin) as [H1|(x & r & Hx & Hr & _)].
  - eapply K; eauto.
  - congruence.
Qed.

Record WF (c : ctl) : Prop := { wf_rinv : RInv c; wf_runops : RunOps c; wf_key : KeyOk c }.

Lemma WF_frame c c' : Frame c c' -> WF c -> WF c'.
Proof.
  intros F [A B C]. constructor; [apply (fr_rinv _ _ F); exact A|eapply RunOps_frame; eauto|eapply KeyOk_frame; eauto].
Qed.

Lemma left_add_locked c id : WF c -> Left c (fst (add_locked c id)).
Proof.
  intros [Hnd W K]. unfold add_locked. destruct (get_op c id) as [o|] eqn:Ho; [|apply Left_refl].
  set (c1 := match alist_get (running c) (o_rid o) with
             | Some oldid => match get_op c oldid with
                             | Some old => bury (set_op (fst (remove_locked c old)) (fst (op_to old REPLACED))) oldid
                             | None => c end
             | None => c end).
  assert (L1 : Left c c1 /\ (forall r i, r <> o_rid o -> In (r, i) (running c) -> In (r, i) (running c1))).
  { unfold c1. destruct (alist_get (running c) (o_rid o)) as [oldid|] eqn:Hget; [|split; [apply Left_refl|auto]].
    destruct (get_op c oldid) as [old|] eqn:Hold.
    2:{ destruct (W _ _ (alist_get_In _ _ _ Hget)) as (x & Hx). congruence. }
    assert (Hk : o_rid old = o_rid o) by (eapply K; [apply alist_get_In; exact Hget|exact Hold]).
    assert (Hi : o_id old = oldid) by (eapply get_op_id; eauto).
    assert (Hrun : running (bury (set_op (fst (remove_locked c old)) (fst (op_to old REPLACED))) oldid) = alist_del (running c) (o_rid o)).
    { rewrite running_bury. unfold remove_locked. rewrite Hk, Hget, Hi, Z.eqb_refl. reflexivity. }
    assert (Hend : gone (bury (set_op (fst (remove_locked c old)) (fst (op_to old REPLACED))) oldid) (o_rid o) oldid).
    { pose proof (frame_remove_locked c old) as F1.
      destruct (fr_fwd _ _ F1 _ _ Hold) as (old1 & Hold1 & _).
      assert (I : o_id (fst (op_to old REPLACED)) = oldid).
      { destruct (rel_op_to old REPLACED) as (R1 & _). congruence. }
      assert (H2 : get_op (set_op (fst (remove_locked c old)) (fst (op_to old REPLACED))) oldid = Some (fst (op_to old REPLACED))).
      { rewrite <- I. apply get_set_op_same with (o := old1). rewrite I. exact Hold1. }
      rewrite <- Hk. destruct (rel_op_to old REPLACED) as (_ & R2 & _). rewrite <- R2. apply bury_gone. exact H2. }
    split.
    - apply left_del with (rid := o_rid o) (id := oldid); auto.
      intros r i Hne Hin. rewrite Hrun. apply alist_del_keeps; auto.
    - intros r i Hne Hin. rewrite Hrun. apply alist_del_keeps; auto. }
  destruct L1 as [L1 Keep1]. fold c1.
  (* the operator table only moves forward from c on *)
  assert (F1 : ops_fwd c c1).
  { unfold c1. destruct (alist_get (running c) (o_rid o)) as [oldid|]; [|apply ops_fwd_same; reflexivity].
    destruct (get_op c oldid) as [old|] eqn:Hold; [|apply ops_fwd_same; reflexivity].
    eapply ops_fwd_trans; [|apply (fr_fwd _ _ (frame_bury _ oldid))].
    eapply ops_fwd_trans; [apply (fr_fwd _ _ (frame_remove_locked c old))|].
    assert (Hold' : get_op (fst (remove_locked c old)) oldid = Some old).
    { unfold remove_locked. destruct (alist_get (running c) (o_rid old)) as [j|]; [destruct (j =? o_id old)|]; exact Hold. }
    apply (fr_fwd _ _ (frame_op_update _ oldid old (fst (op_to old REPLACED)) Hold' (rel_op_to old REPLACED))). }
  destruct (F1 _ _ Ho) as (x & Hx & _). rewrite Hx.
  pose proof (rel_op_to x STARTED) as Rs. destruct (op_to x STARTED) as [o1 started]. cbn [fst] in Rs.
  destruct started; cbn [negb]; [|exact L1].
  (* the new entry replaces only the entry of its own region, which c1 has already dealt with *)
  assert (L2 : forall cx, (forall r i, r <> o_rid o -> In (r, i) (running c1) -> In (r, i) (running cx)) ->
                     ops_fwd c1 cx -> records cx = records c1 -> Left c cx).
  { intros cx Hk He Hrec r i Hin. destruct (Z.eq_dec r (o_rid o)) as [->|Hne].
    - destruct (L1 _ _ Hin) as [H1|H1]; [|right; eapply gone_ops_fwd; eauto].
      exfalso. unfold c1 in H1. destruct (alist_get (running c) (o_rid o)) as [oldid|] eqn:Hget.
      + destruct (get_op c oldid) as [old|] eqn:Hold.
        * assert (Hk' : o_rid old = o_rid o) by (eapply K; [apply alist_get_In; exact Hget|exact Hold]).
          assert (Hi : o_id old = oldid) by (eapply get_op_id; eauto).
          rewrite running_bury in H1. unfold remove_locked in H1. rewrite Hk', Hget, Hi, Z.eqb_refl in H1. cbn in H1.
          apply alist_del_In in H1 as [_ H1]. cbn in H1. congruence.
        * destruct (W _ _ (alist_get_In _ _ _ Hget)) as (y & Hy). congruence.
      + unfold alist_get in Hget. destruct (find (fun e => fst e =? o_rid o) (running c)) eqn:F; [discriminate|].
        pose proof (find_none _ _ F _ Hin) as N. cbn in N. rewrite Z.eqb_refl in N. discriminate.
    - left. apply Hk; auto. }
  set (c2 := set_running (set_op c1 o1) (alist_set (running c1) (o_rid o) id)).
  assert (Hk2 : forall r i, r <> o_rid o -> In (r, i) (running c1) -> In (r, i) (running c2)).
  { intros r i Hne Hin. unfold c2; cbn. right. apply alist_del_keeps; auto. }
  assert (Fa : ops_fwd c1 c2).
  { eapply ops_fwd_trans; [apply (fr_fwd _ _ (frame_op_update c1 id x o1 Hx Rs))|apply ops_fwd_same; reflexivity]. }
  destruct (alist_get (cache c2) (o_rid o)) as [r|]; cbn [fst]; [|apply L2; auto].
  pose proof (rel_op_check o1 r) as Rc. destruct (op_check o1 r) as [o2 st]. cbn [fst] in Rc.
  assert (Ho1 : get_op c2 id = Some o1).
  { assert (I : o_id o1 = id) by (destruct Rs as (R1 & _); rewrite R1; eapply get_op_id; eauto).
    change (get_op (set_op c1 o1) id = Some o1). rewrite <- I. apply get_set_op_same with (o := x). rewrite I. exact Hx. }
  assert (Fb : ops_fwd c1 (set_op c2 o2)).
  { eapply ops_fwd_trans; [exact Fa|apply (fr_fwd _ _ (frame_op_update c2 id o1 o2 Ho1 Rc))]. }
  destruct st as [s|]; cbn [fst]; apply L2; auto.
Qed.

Lemma left_comp a b c : Left a b -> Frame b c -> Left b c -> Left a c.
Proof. intros L1 F L2. eapply Left_trans; eauto. Qed.

Lemma left_add_locked' c id : WF c -> admissible c id -> Left c (fst (add_locked c id)) /\ Frame c (fst (add_locked c id)).
Proof. intros H A. split; [apply left_add_locked; exact H|apply frame_add_locked'; exact A]. Qed.

Lemma left_add_all_locked ids : forall c, WF c -> (forall id, In id ids -> admissible c id) -> Left c (fst (add_all_locked c ids)).
Proof.
  induction ids as [|id r IH]; intros c H A; cbn [add_all_locked fst]; [apply Left_refl|].
  destruct (left_add_locked' c id H (A id (or_introl eq_refl))) as [L F].
  destruct (add_locked c id) as [c' ok]. cbn [fst] in *. destruct ok; cbn [fst]; [|exact L].
  assert (A' : forall i, In i r -> admissible c' i) by (intros i Hi; eapply admissible_fwd; [exact F|apply A; right; exact Hi]).
  eapply Left_trans; [exact L|apply IH; [eapply WF_frame; eauto|exact A']|apply frame_add_all_locked; exact A'].
Qed.

Lemma left_running_same_frame c c' : running c' = running c -> Left c c'.
Proof. apply Left_same. Qed.

Lemma running_check_add_fold ids : forall c b,
  running (fst (fold_left (fun '(c', ok) id =>
                 match get_op c' id with
                 | Some o => let '(o', ex) := check_expired o in (set_op c' o', ok && negb ex)
                 | None => (c', ok)
                 end) ids (c, b))) = running c.
Proof.
  induction ids as [|id r IH]; intros c b; cbn [fold_left fst]; [reflexivity|].
  destruct (get_op c id) as [o|]; [|apply IH]. destruct (check_expired o) as [o' ex]. rewrite IH. reflexivity.
Qed.

Lemma running_check_add c ids : running (fst (check_add c ids)) = running c.
Proof.
  unfold check_add. destruct (negb (forallb (check_add_one c) _)); cbn [fst]; [reflexivity|apply running_check_add_fold].
Qed.

Lemma running_bury_cancel_fold ids : forall c, running (fold_left (fun c' id => bury (cancel c' id) id) ids c) = running c.
Proof.
  induction ids as [|id r IH]; intros c; cbn [fold_left]; [reflexivity|]. rewrite IH, running_bury, running_cancel. reflexivity.
Qed.

Lemma left_add_operator c ids : WF c -> Left c (fst (add_operator c ids)).
Proof.
  intros H. unfold add_operator. pose proof (frame_check_add c ids) as F. pose proof (running_check_add c ids) as R.
  destruct (check_add c ids) as [c1 ok] eqn:E. cbn [fst] in F, R. destruct ok; cbn [negb fst].
  - eapply Left_trans; [apply Left_same; exact R| |].
    + apply left_add_all_locked; [eapply WF_frame; eauto|]. intros id Hin. eapply check_add_admissible; eauto.
    + apply frame_add_all_locked. intros id Hin. eapply check_add_admissible; eauto.
  - apply Left_same. rewrite running_bury_cancel_fold. exact R.
Qed.

Lemma left_promote_loop fuel : forall c, WF c -> Left c (promote_loop fuel c).
Proof.
  induction fuel as [|f IH]; intros c H; cbn [promote_loop]; [apply Left_refl|].
  destruct (waiting c) as [|id rest]; [apply Left_refl|].
  set (c0 := upd c (truth c) (cache c) (ops c) (running c) rest (wcount c) (records c) (inbox c)).
  assert (F0 : Frame c c0) by apply frame_waiting_upd.
  pose proof (frame_check_add c0 [id]) as F1. pose proof (running_check_add c0 [id]) as R1.
  destruct (check_add c0 [id]) as [c1 ok] eqn:E. cbn [fst] in F1, R1.
  set (d := match get_op c0 id with Some o => o_desc o | None => 0 end).
  set (c2 := set_wcount c1 d (wcount_of c1 d - 1)).
  assert (F2 : Frame c1 c2) by apply frame_set_wcount.
  assert (F02 : Frame c c2) by (eapply Frame_trans; [exact F0|eapply Frame_trans; eauto]).
  assert (L02 : Left c c2) by (apply Left_same; unfold c2; cbn; rewrite R1; reflexivity).
  assert (H2 : WF c2) by (eapply WF_frame; eauto).
  destruct ok.
  - assert (A : admissible c2 id) by (eapply admissible_fwd; [exact F2|eapply check_add_admissible; [exact E|left; reflexivity]]).
    eapply Left_trans; [exact L02|apply left_add_locked; exact H2|apply frame_add_locked'; exact A].
  - set (c3 := bury (cancel c2 id) id).
    assert (F3 : Frame c2 c3) by (eapply Frame_trans; [apply frame_cancel|apply frame_bury]).
    assert (L3 : Left c2 c3) by (apply Left_same; unfold c3; rewrite running_bury, running_cancel; reflexivity).
    eapply Left_trans; [eapply Left_trans; [exact L02|exact L3|exact F3]|apply IH; eapply WF_frame; eauto|apply frame_promote_loop].
Qed.

Lemma left_promote c : WF c -> Left c (promote c).
Proof. apply left_promote_loop. Qed.

Lemma running_add_waiting_loop ids : forall c n, running (fst (fst (add_waiting_loop c ids n))) = running c.
Proof.
  induction ids as [|id r IH]; intros c n; cbn [add_waiting_loop fst]; [reflexivity|].
  destruct (get_op c id) as [o|]; [|reflexivity].
  pose proof (running_check_add c [id]) as R. destruct (check_add c [id]) as [c1 ok]. cbn [fst] in R.
  destruct ok; cbn [negb fst].
  - rewrite IH. cbn. exact R.
  - rewrite running_bury, running_cancel. exact R.
Qed.

Lemma left_add_waiting c ids : WF c -> Left c (fst (add_waiting c ids)).
Proof.
  intros H. unfold add_waiting. pose proof (frame_add_waiting_loop ids c 0) as F. pose proof (running_add_waiting_loop ids c 0) as R.
  destruct (add_waiting_loop c ids 0) as [[c1 n] complete]. cbn [fst] in *.
  destruct complete; [|apply Left_same; exact R].
  eapply Left_trans; [apply Left_same; exact R|apply left_promote; eapply WF_frame; eauto|apply frame_promote].
Qed.

Lemma left_remove_promote c id :
  WF c -> Left c (fst (let '(c', removed) := remove_operator c id in if removed then (promote c', true) else (c', false))).
Proof.
  intros H. pose proof (frame_remove_operator c id) as F. pose proof (left_remove_operator c id (wf_rinv _ H)) as L.
  destruct (remove_operator c id) as [c' removed]. cbn [fst] in *.
  destruct removed; cbn [fst]; [|exact L].
  eapply Left_trans; [exact L|apply left_promote; eapply WF_frame; eauto|apply frame_promote].
Qed.

Lemma left_check_stale c o s r : WF c -> Left c (fst (check_stale c o s r)).
Proof.
  intros H. unfold check_stale.
  set (first := if is_some (check_safety r s)
                then let '(c', removed) := remove_operator c (o_id o) in if removed then (promote c', true) else (c', false)
                else (c, false)).
  assert (F1 : Frame c (fst first) /\ Left c (fst first)).
  { unfold first. destruct (is_some (check_safety r s)); [split; [apply frame_remove_promote|apply left_remove_promote; exact H]|
                                                          split; [apply Frame_refl|apply Left_refl]]. }
  destruct F1 as [F1 L1]. destruct first as [c1 done1]. cbn [fst] in F1, L1. destruct done1; cbn [fst]; [exact L1|].
  destruct (Gen_C09.stale_cmp_gt _ _); cbn [fst]; [|exact L1].
  eapply Left_trans; [exact L1|apply left_remove_promote; eapply WF_frame; eauto|apply frame_remove_promote].
Qed.

Lemma left_dispatch c rid r hb : WF c -> Left c (dispatch c rid r hb).
Proof.
  intros H. unfold dispatch. destruct (alist_get (running c) rid) as [id|] eqn:Hrun; [|apply Left_refl].
  destruct (get_op c id) as [o0|] eqn:Ho; [|apply Left_refl].
  pose proof (rel_op_check o0 r) as R. destruct (op_check o0 r) as [o st]. cbn [fst] in R.
  assert (F1 : Frame c (set_op c o)) by (apply frame_op_update with (id := id) (o := o0); auto).
  assert (L1 : Left c (set_op c o)) by (apply Left_same; reflexivity).
  assert (H1 : WF (set_op c o)) by (eapply WF_frame; eauto).
  assert (Hoid : o_id o = id) by (destruct R as (R1 & _); rewrite R1; eapply get_op_id; eauto).
  assert (Ho1 : get_op (set_op c o) id = Some o).
  { rewrite <- Hoid. apply get_set_op_same with (o := o0). rewrite Hoid. exact Ho. }
  (* default branch: remove without bury, then cancel + bury + promote *)
  assert (Ld : Left (set_op c o) (let '(c2, removed) := remove_locked (set_op c o) o in
                                  if removed then promote (bury (cancel c2 id) id) else c2)).
  { unfold remove_locked. destruct (alist_get (running (set_op c o)) (o_rid o)) as [i|] eqn:Hget; [|apply Left_refl].
    destruct (i =? o_id o) eqn:E; [|apply Left_refl].
    apply Z.eqb_eq in E. rewrite Hoid in E. subst i.
    set (cr := set_running (set_op c o) (alist_del (running (set_op c o)) (o_rid o))).
    assert (Fr : Frame (set_op c o) cr) by apply frame_running_del.
    set (cb := bury (cancel cr id) id).
    assert (Fb : Frame cr cb) by (eapply Frame_trans; [apply frame_cancel|apply frame_bury]).
    assert (Lb : Left (set_op c o) cb).
    { apply left_del with (rid := o_rid o) (id := id); [apply (wf_rinv _ H1)|exact Hget| |].
      - intros r0 i Hne Hin. unfold cb. rewrite running_bury, running_cancel. cbn. apply alist_del_keeps; auto.
      - assert (Hcr : get_op cr id = Some o) by exact Ho1.
        destruct (fr_fwd _ _ (frame_cancel cr id) _ _ Hcr) as (o' & Ho' & R').
        destruct R' as (_ & R2 & _). rewrite <- R2. apply bury_gone. exact Ho'. }
    eapply Left_trans; [exact Lb|apply left_promote; eapply WF_frame; [exact Fb|eapply WF_frame; eauto]|apply frame_promote]. }
  assert (Lr : Left (set_op c o) (let '(c2, removed) := remove_operator (set_op c o) id in if removed then promote c2 else c2)).
  { pose proof (frame_remove_operator (set_op c o) id) as F. pose proof (left_remove_operator (set_op c o) id (wf_rinv _ H1)) as L.
    destruct (remove_operator (set_op c o) id) as [c2 removed]. cbn [fst] in *.
    destruct removed; [|exact L]. eapply Left_trans; [exact L|apply left_promote; eapply WF_frame; eauto|apply frame_promote]. }
  assert (Fd : Frame (set_op c o) (let '(c2, removed) := remove_locked (set_op c o) o in
                                     if removed then promote (bury (cancel c2 id) id) else c2)).
  { pose proof (frame_remove_locked (set_op c o) o) as F. destruct (remove_locked (set_op c o) o) as [c2 removed]. cbn [fst] in F.
    destruct removed; [|exact F]. eapply Frame_trans; [exact F|].
    eapply Frame_trans; [apply frame_cancel|]. eapply Frame_trans; [apply frame_bury|apply frame_promote]. }
  assert (Fr : Frame (set_op c o) (let '(c2, removed) := remove_operator (set_op c o) id in if removed then promote c2 else c2)).
  { pose proof (frame_remove_operator (set_op c o) id) as F. destruct (remove_operator (set_op c o) id) as [c2 removed]. cbn [fst] in F.
    destruct removed; [|exact F]. eapply Frame_trans; [exact F|apply frame_promote]. }
  destruct (o_st o); try (eapply Left_trans; [exact L1|exact Ld|exact Fd]); try (eapply Left_trans; [exact L1|exact Lr|exact Fr]).
  destruct st as [s|]; [|exact L1].
  set (p := if hb then check_stale (set_op c o) o s r else (set_op c o, false)).
  assert (Fp : Frame (set_op c o) (fst p) /\ Left (set_op c o) (fst p)).
  { unfold p. destruct hb; [split; [apply frame_check_stale|apply left_check_stale; exact H1]|split; [apply Frame_refl|apply Left_refl]]. }
  destruct Fp as [Fp Lp]. destruct p as [c2 handled]. cbn [fst] in Fp, Lp.
  assert (L2 : Left c c2) by (eapply Left_trans; [exact L1|exact Lp|exact Fp]).
  destruct handled; [exact L2|]. intros rr ii Hin. destruct (L2 _ _ Hin) as [X|X]; [left; exact X|right].
  eapply gone_fwd; [apply frame_send|exact X].
Qed.

(* ---------- every event ---------- *)
Lemma WF_same c c' : ops c' = ops c -> running c' = running c -> WF c -> WF c'.
Proof.
  intros H1 H2 [A B C]. constructor.
  - unfold RInv. rewrite H2. exact A.
  - intros rid id Hin. rewrite H2 in Hin. destruct (B _ _ Hin) as (o & Ho). exists o. unfold get_op in *. rewrite H1. exact Ho.
  - intros rid id o Hin Ho. rewrite H2 in Hin. eapply C; eauto. unfold get_op in *. rewrite <- H1. exact Ho.
Qed.

Lemma running_bury_cancel c id : running (bury (cancel c id) id) = running c.
Proof.
  unfold bury, cancel. repeat match goal with |- context [match ?x with _ => _ end] => destruct x end; reflexivity.
Qed.

Lemma running_influence c : running (influence c) = running c.
Proof.
  unfold influence. generalize (map snd (running c)) as ids. intros ids. revert c.
  induction ids as [|id r IH]; intros c; cbn [fold_left]; [reflexivity|]. rewrite IH.
  unfold influence_one. destruct (get_op c id); [|reflexivity]. destruct (check_timeout o). reflexivity.
Qed.

Lemma left_poll_gone c rid : RInv c -> Left c (poll_gone c rid).
Proof.
  intros Hnd. unfold poll_gone. destruct (alist_get (cache c) rid); [apply Left_refl|].
  destruct (alist_get (running c) rid) as [id|]; [|apply Left_refl].
  destruct (get_op c id) as [o|] eqn:Ho; [|apply Left_refl].
  pose proof (left_remove_operator c id Hnd) as L. unfold remove_operator in L. rewrite Ho in L.
  destruct (remove_locked c o) as [c1 removed] eqn:Er. cbn [fst] in *. destruct removed; cbn [fst] in L.
  - exact L.
  - (* not removed: the running set is untouched *)
    assert (E : c1 = c).
    { unfold remove_locked in Er. destruct (alist_get (running c) (o_rid o)) as [i|]; [|inversion Er; reflexivity].
      destruct (i =? o_id o); inversion Er; reflexivity. }
    subst c1. apply Left_same. apply running_bury_cancel.
Qed.

Lemma ctl_step_wf_left c e : WF c -> WF (fst (ctl_step c e)) /\ Left c (fst (ctl_step c e)).
Proof.
  intros H. destruct e; cbn [ctl_step].
  - (* ECreate *)
    cbn [fst]. destruct (is_some (get_op c id)) eqn:E; [split; [exact H|apply Left_refl]|].
    split; [|apply Left_same; reflexivity].
    destruct H as [A B C]. constructor.
    + exact A.
    + intros r i Hin. destruct (B _ _ Hin) as (o & Ho). exists o.
      unfold get_op, set_ops, upd in *; cbn. apply get_op_app. exact Ho.
    + intros r i o Hin Ho. destruct (B _ _ Hin) as (x & Hx).
      assert (Ho' : get_op (set_ops c (ops c ++ [Opr id rid cv ver steps 0 CREATED level kregion desc false false])) i = Some x).
      { unfold get_op, set_ops, upd in *; cbn. apply get_op_app. exact Hx. }
      rewrite Ho' in Ho. inversion Ho; subst. eapply C; eauto.
  - pose proof (frame_add_operator c ids) as F. pose proof (left_add_operator c ids H) as L.
    destruct (add_operator c ids) as [c' ok]. cbn [fst] in *. split; [eapply WF_frame; eauto|exact L].
  - pose proof (frame_add_waiting c ids) as F. pose proof (left_add_waiting c ids H) as L.
    destruct (add_waiting c ids) as [c' n]. cbn [fst] in *. split; [eapply WF_frame; eauto|exact L].
  - cbn [fst]. split; [eapply WF_frame; [apply frame_promote|exact H]|apply left_promote; exact H].
  - (* EHeartbeat *)
    destruct (alist_get (truth c) rid) as [r|]; cbn [fst]; [|split; [exact H|apply Left_refl]].
    set (c1 := upd c (truth c) (alist_set (cache c) rid r) (ops c) (running c) (waiting c) (wcount c) (records c) (inbox c)).
    assert (H1 : WF c1) by (eapply WF_same; [| |exact H]; reflexivity).
    split; [eapply WF_frame; [apply frame_dispatch|exact H1]|].
    intros rr ii Hin. apply (left_dispatch c1 rid r true H1 rr ii). exact Hin.
  - destruct (alist_get (cache c) rid) as [r|]; cbn [fst]; [|split; [exact H|apply Left_refl]].
    split; [eapply WF_frame; [apply frame_dispatch|exact H]|apply left_dispatch; exact H].
  - pose proof (frame_remove_operator c id) as F. pose proof (left_remove_operator c id (wf_rinv _ H)) as L.
    destruct (remove_operator c id) as [c' ok]. cbn [fst] in *. split; [eapply WF_frame; eauto|exact L].
  - destruct (first_for rid (inbox c)) as [m|]; [|split; [exact H|apply Left_refl]].
    destruct (alist_get (truth c) rid) as [r|]; [|split; [exact H|apply Left_refl]].
    destruct (deliver r m) as [r' d]. cbn [fst]. split; [eapply WF_same; [| |exact H]; reflexivity|apply Left_same; reflexivity].
  - cbn [fst]. split; [eapply WF_same; [| |exact H]; reflexivity|apply Left_same; reflexivity].
  - destruct (alist_get (truth c) rid) as [r|]; [|split; [exact H|apply Left_refl]].
    destruct (apply_cmd r c0); cbn [fst]; (split; [eapply WF_same; [| |exact H]; reflexivity|apply Left_same; reflexivity]).
  - cbn [fst]. destruct (get_op c id) as [o|] eqn:Ho; [|split; [exact H|apply Left_refl]].
    split; [|apply Left_same; reflexivity].
    eapply WF_frame; [|exact H]. apply frame_op_update with (id := id) (o := o); [exact Ho|apply rel_with_flags].
  - cbn [fst]. destruct (get_op c id) as [o|] eqn:Ho; [|split; [exact H|apply Left_refl]].
    split; [|apply Left_same; reflexivity].
    eapply WF_frame; [|exact H]. apply frame_op_update with (id := id) (o := o); [exact Ho|apply rel_with_flags].
  - cbn [fst]. split; [eapply WF_same; [| |exact H]; reflexivity|apply Left_same; reflexivity].
  - destruct (get_op c id) as [o|] eqn:Ho; cbn [fst]; [|split; [exact H|apply Left_refl]].
    split; [|apply Left_same; reflexivity].
    eapply WF_frame; [|exact H]. apply frame_op_update with (id := id) (o := o); [exact Ho|apply rel_poke_op].
  - cbn [fst]. split; [eapply WF_frame; [apply frame_influence|exact H]|apply Left_same; apply running_influence].
  - cbn [fst]. split; [eapply WF_same; [| |exact H]; reflexivity|apply Left_same; reflexivity].
  - cbn [fst]. split; [eapply WF_frame; [apply frame_poll_gone|exact H]|apply left_poll_gone; apply (wf_rinv _ H)].
  - cbn [fst]. split; [eapply WF_same; [| |exact H]; reflexivity|apply Left_same; reflexivity].
  - cbn [fst]. split; [eapply WF_same; [| |exact H]; reflexivity|apply Left_same; reflexivity].
  - cbn [fst]. split; [exact H|apply Left_refl].
  - cbn [fst]. split; [exact H|apply Left_refl].
  - cbn [fst]. split; [exact H|apply Left_refl].
Qed.

Lemma WF_init maxw : WF (init maxw).
Proof. constructor; unfold RInv, RunOps, KeyOk, init; cbn; intros; try contradiction. constructor. Qed.

Lemma WF_history maxw es : WF (run_state ctl_step (init maxw) es).
Proof.
  assert (G : forall es c, WF c -> WF (run_state ctl_step c es)).
  { induction es0 as [|e r IH]; intros c H; cbn [run_state]; [exact H|]. apply IH. apply ctl_step_wf_left. exact H. }
  apply G, WF_init.
Qed.

Lemma left_running_is_ended_pf maxw es e rid id :
  In (rid, id) (running (run_state ctl_step (init maxw) es)) ->
  ~ In (rid, id) (running (fst (ctl_step (run_state ctl_step (init maxw) es) e))) ->
  exists o, get_op (fst (ctl_step (run_state ctl_step (init maxw) es) e)) id = Some o /\ is_end_status (o_st o) = true.
Proof.
  intros Hin Hout. destruct (ctl_step_wf_left _ e (WF_history maxw es)) as [_ L].
  destruct (L _ _ Hin) as [X|X]; [contradiction|exact (proj1 X)].
Qed.

(* ... and is recorded under its region *)
Lemma left_running_has_record_pf maxw es e rid id :
  In (rid, id) (running (run_state ctl_step (init maxw) es)) ->
  ~ In (rid, id) (running (fst (ctl_step (run_state ctl_step (init maxw) es) e))) ->
  alist_get (records (fst (ctl_step (run_state ctl_step (init maxw) es) e))) rid <> None.
Proof.
  intros Hin Hout. destruct (ctl_step_wf_left _ e (WF_history maxw es)) as [_ L].
  destruct (L _ _ Hin) as [X|X]; [contradiction|exact (proj2 X)].
Qed.

(* running entries are keyed by the operator's own region, in every reachable state *)
Lemma running_keyed_pf maxw es rid id o :
  In (rid, id) (running (run_state ctl_step (init maxw) es)) ->
  get_op (run_state ctl_step (init maxw) es) id = Some o -> o_rid o = rid.
Proof. intros Hin Ho. eapply (wf_key _ (WF_history maxw es)); eauto. Qed.
