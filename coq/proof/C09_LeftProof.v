(* C09 — an operator that leaves the running set is ended: for every event, every operator that was in
   OperatorController.operators before and is not there afterwards is in an end status afterwards
   (cancelled / replaced / success / timeout), and by C09_status_paths it stays in that status. *)
From Coq Require Import String.
From PDV Require Import lib.Base gen.Gen_C08 gen.Gen_C09 model.C08_Steps model.C09_OpCtl
     proof.C09_StatusProof proof.C09_CtlProof.
Local Open Scope list_scope.
Local Open Scope Z_scope.

Definition ended (c : ctl) (id : Z) : Prop := exists o, get_op c id = Some o /\ is_end_status (o_st o) = true.

Definition Left (c c' : ctl) : Prop :=
  forall rid id, In (rid, id) (running c) -> In (rid, id) (running c') \/ ended c' id.

(* every running entry names an existing operator *)
Definition RunOps (c : ctl) : Prop := forall rid id, In (rid, id) (running c) -> exists o, get_op c id = Some o.

Lemma ended_fwd c c' id : Frame c c' -> ended c id -> ended c' id.
Proof.
  intros F (o & Ho & E). destruct (fr_fwd _ _ F _ _ Ho) as (o' & Ho' & R). exists o'. split; [exact Ho'|].
  destruct R as (_ & _ & _ & _ & _ & _ & _ & _ & R9). rewrite <- (reach_from_end _ _ E R9). exact E.
Qed.

Lemma ended_ops_fwd c c' id : ops_fwd c c' -> ended c id -> ended c' id.
Proof.
  intros F (o & Ho & E). destruct (F _ _ Ho) as (o' & Ho' & R). exists o'. split; [exact Ho'|].
  destruct R as (_ & _ & _ & _ & _ & _ & _ & _ & R9). rewrite <- (reach_from_end _ _ E R9). exact E.
Qed.

Lemma ops_fwd_trans a b c : ops_fwd a b -> ops_fwd b c -> ops_fwd a c.
Proof.
  intros F G id x Hx. destruct (F _ _ Hx) as (y & Hy & R1). destruct (G _ _ Hy) as (z & Hz & R2).
  exists z. split; [exact Hz|eapply rel_trans; eauto].
Qed.

Lemma ops_fwd_same c c' : ops c' = ops c -> ops_fwd c c'.
Proof. intros H id x Hx. exists x. unfold get_op in *. rewrite H. auto using rel_refl. Qed.

Lemma Left_refl c : Left c c.
Proof. intros rid id H. left. exact H. Qed.

Lemma Left_trans a b c : Left a b -> Left b c -> Frame b c -> Left a c.
Proof.
  intros L1 L2 F rid id H. destruct (L1 _ _ H) as [H1|H1].
  - apply L2. exact H1.
  - right. eapply ended_fwd; eauto.
Qed.

Lemma Left_same c c' : running c' = running c -> Left c c'.
Proof. intros H rid id Hin. left. rewrite H. exact Hin. Qed.

Lemma RunOps_frame c c' : Frame c c' -> RunOps c -> RunOps c'.
Proof.
  intros F W rid id H. destruct (fr_adm _ _ F _ _ H) as [H1|(o & r & Ho & _)].
  - destruct (W _ _ H1) as (o & Ho). destruct (fr_fwd _ _ F _ _ Ho) as (o' & Ho' & _). eauto.
  - destruct (fr_fwd _ _ F _ _ Ho) as (o' & Ho' & _). eauto.
Qed.

Lemma alist_unique {A} (l : list (Z * A)) k v v' :
  NoDup (map fst l) -> In (k, v) l -> alist_get l k = Some v' -> v = v'.
Proof.
  unfold alist_get. induction l as [|[k0 v0] r IH]; cbn; intros Hnd Hin Hget; [contradiction|].
  inversion Hnd as [|? ? Hn Hd]; subst. destruct (k0 =? k) eqn:E.
  - apply Z.eqb_eq in E; subst k0. inversion Hget; subst v'. destruct Hin as [Hin|Hin]; [congruence|].
    exfalso. apply Hn. apply in_map_iff. exists (k, v). auto.
  - destruct Hin as [Hin|Hin]; [inversion Hin; subst; rewrite Z.eqb_refl in E; discriminate|]. apply IH; auto.
Qed.

Lemma alist_del_keeps {A} (l : list (Z * A)) k k' v : k' <> k -> In (k', v) l -> In (k', v) (alist_del l k).
Proof.
  intros Hne Hin. unfold alist_del. apply filter_In. split; [exact Hin|]. cbn. apply negb_true_iff, Z.eqb_neq. exact Hne.
Qed.

(* the entry of one region disappears and its operator is ended: everybody else stays *)
Lemma left_del c cx rid id :
  RInv c -> alist_get (running c) rid = Some id ->
  (forall r i, r <> rid -> In (r, i) (running c) -> In (r, i) (running cx)) -> ended cx id -> Left c cx.
Proof.
  intros Hnd Hget Hkeep Hend r i Hin. destruct (Z.eq_dec r rid) as [->|Hne].
  - right. rewrite (alist_unique _ _ _ _ Hnd Hin Hget). exact Hend.
  - left. apply Hkeep; auto.
Qed.

Lemma not_end_cancel s : is_end_status s = false -> valid_trans s CANCELED = true.
Proof. destruct s; vm_compute; intros H; try reflexivity; discriminate. Qed.

Lemma op_to_end_cancel o : is_end_status (o_st (fst (op_to o CANCELED))) = true.
Proof.
  destruct (is_end_status (o_st o)) eqn:E.
  - destruct (op_to_status o CANCELED) as [H|[_ H]]; rewrite H; [exact E|reflexivity].
  - unfold op_to. rewrite (not_end_cancel _ E). reflexivity.
Qed.

(* bury ends the operator it buries *)
Lemma bury_ended c id o : get_op c id = Some o -> ended (bury c id) id.
Proof.
  intros Ho. unfold bury. rewrite Ho.
  set (o' := if op_is_end o then o else fst (op_to o CANCELED)).
  assert (I : o_id o' = id).
  { unfold o'. pose proof (get_op_id _ _ _ Ho). destruct (op_is_end o); [auto|]. destruct (rel_op_to o CANCELED) as (R1 & _). congruence. }
  exists o'. split.
  - change (get_op (set_op c o') id = Some o'). rewrite <- I. apply get_set_op_same with (o := o). rewrite I. exact Ho.
  - unfold o'. destruct (op_is_end o) eqn:E; [exact E|apply op_to_end_cancel].
Qed.

Lemma running_bury c id : running (bury c id) = running c.
Proof. unfold bury. destruct (get_op c id); reflexivity. Qed.
Lemma running_cancel c id : running (cancel c id) = running c.
Proof. unfold cancel. destruct (get_op c id); reflexivity. Qed.

Lemma get_op_cancel c id o : get_op c id = Some o -> exists o', get_op (cancel c id) id = Some o'.
Proof.
  intros Ho. destruct (fr_fwd _ _ (frame_cancel c id) _ _ Ho) as (o' & Ho' & _). eauto.
Qed.

Lemma left_remove_operator c id : RInv c -> Left c (fst (remove_operator c id)).
Proof.
  intros Hnd. unfold remove_operator. destruct (get_op c id) as [o|] eqn:Ho; [|apply Left_refl].
  unfold remove_locked. destruct (alist_get (running c) (o_rid o)) as [i|] eqn:Hget; [|apply Left_refl].
  destruct (i =? o_id o) eqn:E; cbn [fst]; [|apply Left_refl].
  apply Z.eqb_eq in E. rewrite (get_op_id _ _ _ Ho) in E. subst i.
  apply left_del with (rid := o_rid o) (id := id); auto.
  - intros r i Hne Hin. rewrite running_bury, running_cancel. cbn. apply alist_del_keeps; auto.
  - set (c1 := set_running c (alist_del (running c) (o_rid o))).
    assert (H1 : get_op c1 id = Some o) by exact Ho.
    destruct (get_op_cancel c1 id o H1) as (o' & Ho'). eapply bury_ended; eauto.
Qed.

(* running entries are keyed by the operator's own region *)
Definition KeyOk (c : ctl) : Prop := forall rid id o, In (rid, id) (running c) -> get_op c id = Some o -> o_rid o = rid.

Lemma KeyOk_frame c c' : Frame c c' -> KeyOk c -> KeyOk c'.
Proof.
  intros F K rid id o' Hin Ho'. destruct (fr_bwd _ _ F _ _ Ho') as (o & Ho & R). destruct R as (_ & R2 & _).
  rewrite R2. destruct (fr_adm _ _ F _ _ Hin) as [H1|(x & r & Hx & Hr & _)].
  - eapply K; eauto.
  - congruence.
Qed.

Record WF (c : ctl) : Prop := { wf_rinv : RInv c; wf_runops : RunOps c; wf_key : KeyOk c }.

Lemma WF_frame c c' : Frame c c' -> WF c -> WF c'.
Proof.
  intros F [A B C]. constructor; [apply (fr_rinv _ _ F); exact A|eapply RunOps_frame; eauto|eapply KeyOk_frame; eauto].
Qed.

Lemma left_add_locked c id : WF c -> Left c (fst (add_locked c id)).
Proof.
  intros [Hnd W K]. unfold add_locked. destruct (get_op c id) as [o|] eqn:Ho; [|apply Left_refl].
  set (c1 := match alist_get (running c) (o_rid o) with
             | Some oldid => match get_op c oldid with
                             | Some old => bury (set_op (fst (remove_locked c old)) (fst (op_to old REPLACED))) oldid
                             | None => c end
             | None => c end).
  assert (L1 : Left c c1 /\ (forall r i, r <> o_rid o -> In (r, i) (running c) -> In (r, i) (running c1))).
  { unfold c1. destruct (alist_get (running c) (o_rid o)) as [oldid|] eqn:Hget; [|split; [apply Left_refl|auto]].
    destruct (get_op c oldid) as [old|] eqn:Hold.
    2:{ destruct (W _ _ (alist_get_In _ _ _ Hget)) as (x & Hx). congruence. }
    assert (Hk : o_rid old = o_rid o) by (eapply K; [apply alist_get_In; exact Hget|exact Hold]).
    assert (Hi : o_id old = oldid) by (eapply get_op_id; eauto).
    assert (Hrun : running (bury (set_op (fst (remove_locked c old)) (fst (op_to old REPLACED))) oldid) = alist_del (running c) (o_rid o)).
    { rewrite running_bury. unfold remove_locked. rewrite Hk, Hget, Hi, Z.eqb_refl. reflexivity. }
    assert (Hend : ended (bury (set_op (fst (remove_locked c old)) (fst (op_to old REPLACED))) oldid) oldid).
    { pose proof (frame_remove_locked c old) as F1.
      destruct (fr_fwd _ _ F1 _ _ Hold) as (old1 & Hold1 & _).
      assert (I : o_id (fst (op_to old REPLACED)) = oldid).
      { destruct (rel_op_to old REPLACED) as (R1 & _). congruence. }
      assert (H2 : get_op (set_op (fst (remove_locked c old)) (fst (op_to old REPLACED))) oldid = Some (fst (op_to old REPLACED))).
      { rewrite <- I. apply get_set_op_same with (o := old1). rewrite I. exact Hold1. }
      eapply bury_ended; eauto. }
    split.
    - apply left_del with (rid := o_rid o) (id := oldid); auto.
      intros r i Hne Hin. rewrite Hrun. apply alist_del_keeps; auto.
    - intros r i Hne Hin. rewrite Hrun. apply alist_del_keeps; auto. }
  destruct L1 as [L1 Keep1]. fold c1.
  destruct (op_to match get_op c1 id with Some x => x | None => o end STARTED) as [o1 started].
  destruct started; cbn [negb]; [|exact L1].
  (* the new entry replaces only the entry of its own region, which c1 has already dealt with *)
  assert (L2 : forall cx, (forall r i, r <> o_rid o -> In (r, i) (running c1) -> In (r, i) (running cx)) ->
                     (forall i, ended c1 i -> ended cx i) -> Left c cx).
  { intros cx Hk He r i Hin. destruct (Z.eq_dec r (o_rid o)) as [->|Hne].
    - destruct (L1 _ _ Hin) as [H1|H1]; [|right; apply He; exact H1].
      (* still in running c1 under this region: then nothing was replaced, i.e. there was no entry — impossible *)
      exfalso. unfold c1 in H1. destruct (alist_get (running c) (o_rid o)) as [oldid|] eqn:Hget.
      + destruct (get_op c oldid) as [old|] eqn:Hold.
        * assert (Hk' : o_rid old = o_rid o) by (eapply K; [apply alist_get_In; exact Hget|exact Hold]).
          assert (Hi : o_id old = oldid) by (eapply get_op_id; eauto).
          rewrite running_bury in H1. unfold remove_locked in H1. rewrite Hk', Hget, Hi, Z.eqb_refl in H1. cbn in H1.
          apply alist_del_In in H1 as [_ H1]. cbn in H1. congruence.
        * destruct (W _ _ (alist_get_In _ _ _ Hget)) as (x & Hx). congruence.
      + unfold alist_get in Hget. destruct (find (fun e => fst e =? o_rid o) (running c)) eqn:F; [discriminate|].
        pose proof (find_none _ _ F _ Hin) as N. cbn in N. rewrite Z.eqb_refl in N. discriminate.
    - left. apply Hk; auto. }
  set (c2 := set_running (set_op c1 o1) (alist_set (running c1) (o_rid o) id)).
  assert (Hk2 : forall r i, r <> o_rid o -> In (r, i) (running c1) -> In (r, i) (running c2)).
  { intros r i Hne Hin. unfold c2; cbn. right. apply alist_del_keeps; auto. }
  (* the operator table only moves forward from c1 on *)
  assert (Hx1 : exists x, get_op c1 id = Some x).
  { assert (F1 : ops_fwd c c1).
    { unfold c1. destruct (alist_get (running c) (o_rid o)) as [oldid|]; [|apply ops_fwd_same; reflexivity].
      destruct (get_op c oldid) as [old|] eqn:Hold; [|apply ops_fwd_same; reflexivity].
      eapply ops_fwd_trans; [|apply (fr_fwd _ _ (frame_bury _ oldid))].
      eapply ops_fwd_trans; [apply (fr_fwd _ _ (frame_remove_locked c old))|].
      assert (Hold' : get_op (fst (remove_locked c old)) oldid = Some old).
      { unfold remove_locked. destruct (alist_get (running c) (o_rid old)) as [j|]; [destruct (j =? o_id old)|]; exact Hold. }
      apply (fr_fwd _ _ (frame_op_update _ oldid old (fst (op_to old REPLACED)) Hold' (rel_op_to old REPLACED))). }
    destruct (F1 _ _ Ho) as (x & Hx & _). eauto. }
  admit.
Admitted.
