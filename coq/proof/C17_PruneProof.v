(* C17 — LoadRegions(CheckAndPutRegion) into an empty cluster: afterwards storage and cache hold the same set of
   regions, and the cache is free of overlaps. *)
From Coq Require Import ZifyBool ZifyNat.
From PDV Require Import lib.Base lib.C17_Map gen.Gen_C17 model.C17_Storage proof.C17_PagingProof proof.C17_StorageProof.
Local Open Scope Z_scope.
Local Open Scope list_scope.

Lemma intersects_sym a b : intersects a b = intersects b a.
Proof. unfold intersects. apply andb_comm. Qed.

Lemma lookup_dels (ds : list Z) : forall (m : amap rv) lo id, sorted_from lo m ->
  lookup (fold_left del ds m) id = if existsb (Z.eqb id) ds then None else lookup m id.
Proof.
  induction ds as [|d ds IH]; intros m lo id Hs; cbn [fold_left existsb]; [reflexivity|].
  rewrite (IH (del m d) lo id (del_sorted lo m d Hs)). rewrite (lookup_del lo) by exact Hs.
  destruct (id =? d); cbn [orb]; [destruct (existsb (Z.eqb id) ds); reflexivity|reflexivity].
Qed.

Definition ids_distinct (c : cache) : Prop := NoDup (map fst c).
Definition disjoint (c : cache) : Prop :=
  forall a a', In a c -> In a' c -> fst a <> fst a' -> intersects (snd a) (snd a') = false.

(* the state after everything below `b` has been processed *)
Record PInv (m0 mc : amap rv) (c : cache) (b : Z) : Prop := {
  p_sorted : sorted_from 0 mc;
  p_in     : forall id v, In (id, v) c -> lookup mc id = Some v /\ id < b;
  p_all    : forall id v, lookup mc id = Some v -> id < b -> In (id, v) c;
  p_rest   : forall id, b <= id -> lookup mc id = lookup m0 id;
  p_ids    : ids_distinct c;
  p_disj   : disjoint c
}.

Lemma same_id_same_elem (c : cache) a a' : ids_distinct c -> In a c -> In a' c -> fst a = fst a' -> a = a'.
Proof.
  unfold ids_distinct. induction c as [|x c IH]; intros Hn Ha Ha' E; [contradiction|].
  cbn [map] in Hn. inversion Hn as [|? ? Hnot Hn']; subst.
  destruct Ha as [<-|Ha]; destruct Ha' as [<-|Ha']; auto.
  - exfalso. apply Hnot. rewrite E. apply in_map. exact Ha'.
  - exfalso. apply Hnot. rewrite <- E. apply in_map. exact Ha.
Qed.

Lemma filter_ids_distinct (f : Z * rv -> bool) c : ids_distinct c -> ids_distinct (filter f c).
Proof.
  unfold ids_distinct. induction c as [|x c IH]; intros Hn; cbn [filter map]; [constructor|].
  cbn [map] in Hn. inversion Hn as [|? ? Hnot Hn']; subst.
  destruct (f x); cbn [map]; [|apply IH; exact Hn'].
  constructor; [|apply IH; exact Hn'].
  intros Hin. apply Hnot. apply in_map_iff in Hin as (y & E & Hy). apply filter_In in Hy as [Hy _].
  rewrite <- E. apply in_map. exact Hy.
Qed.

Lemma step_prune m0 mc c b k v rest nx :
  PInv m0 mc c b -> b <= k -> lookup m0 k = Some v ->
  (forall id v', lookup m0 id = Some v' -> b <= id -> In (id, v') ((k, v) :: rest)) ->
  sorted_from b ((k, v) :: rest) ->
  let r := step_item check_and_put no_rw (mc, c, nx) (k, v) in
  PInv m0 (fst (fst r)) (snd (fst r)) (k + 1).
Proof.
  intros [Ps Pin Pall Prest Pids Pdisj] Hbk Hk Hcover Hsorted r. subst r.
  rewrite step_item_eq. cbn [fst snd].
  assert (Hnoid : forall o, In o c -> fst o <> k).
  { intros [id v'] Ho E. cbn in E. subst id. destruct (Pin k v' Ho) as [_ Hlt]. lia. }
  assert (Hgap : forall id v', lookup mc id = Some v' -> b <= id -> id < k + 1 -> id = k /\ v' = v).
  { intros id v' Hl Hb Hlt. rewrite (Prest id Hb) in Hl.
    destruct (Hcover id v' Hl Hb) as [E|Hin]; [inversion E; auto|].
    destruct Hsorted as [_ Hsr]. apply (sorted_from_In _ _ _ _ Hsr) in Hin. lia. }
  assert (Hmck : lookup mc k = Some v) by (rewrite (Prest k Hbk); exact Hk).
  unfold check_and_put. destruct (accepts c (k, v)) eqn:Eacc; cbn [fst snd].
  - (* accepted: the intersecting cached regions are evicted and deleted from storage *)
    set (ev := evicted c (k, v)). set (dels := map fst ev).
    assert (Hev : forall o, In o ev <-> In o c /\ intersects (snd o) v = true).
    { intros o. unfold ev, evicted. rewrite filter_In. cbn [fst snd]. split.
      - intros [Ho E]. apply andb_true_iff in E as [_ E]. auto.
      - intros [Ho E]. split; [exact Ho|]. rewrite E, andb_true_r. apply negb_true_iff. apply Z.eqb_neq. apply Hnoid. exact Ho. }
    assert (Hkeep : forall o, In o (filter (fun o => negb (fst o =? k) && negb (intersects (snd o) v)) c) <->
                              In o c /\ intersects (snd o) v = false).
    { intros o. rewrite filter_In. split.
      - intros [Ho E]. apply andb_true_iff in E as [_ E]. apply negb_true_iff in E. auto.
      - intros [Ho E]. split; [exact Ho|]. rewrite E. cbn [negb]. rewrite andb_true_r. apply negb_true_iff. apply Z.eqb_neq. apply Hnoid. exact Ho. }
    assert (Hdel : forall id, existsb (Z.eqb id) dels = true <-> exists v', In (id, v') ev).
    { intros id. rewrite existsb_exists. split.
      - intros (d & Hd & E). apply Z.eqb_eq in E. subst d. unfold dels in Hd. apply in_map_iff in Hd as ([i v'] & E & Ho).
        cbn in E. subst i. eauto.
      - intros (v' & Ho). exists id. split; [|apply Z.eqb_refl]. unfold dels. apply in_map_iff. exists (id, v'). auto. }
    assert (Hlk : forall id, lookup (fold_left del dels mc) id = if existsb (Z.eqb id) dels then None else lookup mc id).
    { intros id. apply (lookup_dels dels mc 0 id Ps). }
    constructor.
    + apply dels_sorted. exact Ps.
    + intros id v' [E|Hin].
      * inversion E; subst id v'. split; [|lia]. rewrite Hlk.
        destruct (existsb (Z.eqb k) dels) eqn:Ed; [|exact Hmck].
        apply Hdel in Ed as (v' & Ho). apply Hev in Ho as [Ho _]. exfalso. apply (Hnoid _ Ho). reflexivity.
      * apply Hkeep in Hin as [Hin Hni]. destruct (Pin id v' Hin) as [Hl Hlt]. split; [|lia].
        rewrite Hlk. destruct (existsb (Z.eqb id) dels) eqn:Ed; [|exact Hl].
        apply Hdel in Ed as (v'' & Ho). apply Hev in Ho as [Ho Hi].
        assert ((id, v'') = (id, v')) by (apply (same_id_same_elem c); auto).
        inversion H; subst v''. cbn [snd] in Hi, Hni. congruence.
    + intros id v' Hl Hlt. rewrite Hlk in Hl.
      destruct (existsb (Z.eqb id) dels) eqn:Ed; [discriminate|].
      destruct (Z.lt_ge_cases id b) as [Hb|Hb].
      * right. apply Hkeep. pose proof (Pall id v' Hl Hb) as Hin. split; [exact Hin|].
        destruct (intersects (snd (id, v')) v) eqn:Ei; [|reflexivity].
        assert (In (id, v') ev) by (apply Hev; auto).
        assert (existsb (Z.eqb id) dels = true) by (apply Hdel; eauto). congruence.
      * destruct (Hgap id v' Hl Hb Hlt) as [-> ->]. left. reflexivity.
    + intros id Hid. rewrite Hlk.
      destruct (existsb (Z.eqb id) dels) eqn:Ed; [|apply Prest; lia].
      apply Hdel in Ed as (v' & Ho). apply Hev in Ho as [Ho _]. destruct (Pin id v' Ho) as [_ Hlt]. lia.
    + unfold ids_distinct. cbn [map fst]. constructor.
      * intros Hin. apply in_map_iff in Hin as (o & E & Ho). apply filter_In in Ho as [Ho _]. apply (Hnoid o Ho). exact E.
      * apply filter_ids_distinct. exact Pids.
    + intros a a' [<-|Ha] [<-|Ha'] Hne; cbn [fst snd] in *.
      * congruence.
      * apply Hkeep in Ha' as [_ Hi]. rewrite intersects_sym. exact Hi.
      * apply Hkeep in Ha as [_ Hi]. exact Hi.
      * apply Hkeep in Ha as [Ha _]. apply Hkeep in Ha' as [Ha' _]. apply Pdisj; assumption.
  - (* rejected: the region itself is deleted from storage *)
    cbn [fold_left].
    constructor.
    + apply del_sorted. exact Ps.
    + intros id v' Hin. destruct (Pin id v' Hin) as [Hl Hlt]. split; [|lia].
      rewrite (lookup_del 0) by exact Ps. replace (id =? k) with false by (symmetry; lia). exact Hl.
    + intros id v' Hl Hlt. rewrite (lookup_del 0) in Hl by exact Ps.
      destruct (id =? k) eqn:E; [discriminate|]. apply Z.eqb_neq in E.
      destruct (Z.lt_ge_cases id b) as [Hb|Hb]; [apply Pall; assumption|].
      destruct (Hgap id v' Hl Hb Hlt) as [-> _]. congruence.
    + intros id Hid. rewrite (lookup_del 0) by exact Ps. replace (id =? k) with false by (symmetry; lia). apply Prest. lia.
    + exact Pids.
    + exact Pdisj.
Qed.

Lemma fold_prune m0 : forall items mc c b nx,
  PInv m0 mc c b -> sorted_from b items -> 0 <= b ->
  (forall k v, In (k, v) items -> lookup m0 k = Some v) ->
  (forall id v', lookup m0 id = Some v' -> b <= id -> In (id, v') items) ->
  let r := fold_left (step_item check_and_put no_rw) items (mc, c, nx) in
  exists b', PInv m0 (fst (fst r)) (snd (fst r)) b' /\ forall id, b' <= id -> lookup m0 id = None.
Proof.
  induction items as [|[k v] rest IH]; intros mc c b nx P Hs Hb Hin Hcover r; subst r; cbn [fold_left].
  - exists b. split; [exact P|]. intros id Hid. destruct (lookup m0 id) as [v'|] eqn:E; [|reflexivity].
    destruct (Hcover id v' E Hid).
  - destruct Hs as [Hbk Hsr].
    pose proof (step_prune m0 mc c b k v rest nx P Hbk (Hin k v (or_introl eq_refl)) Hcover (conj Hbk Hsr)) as P'.
    cbv zeta in P'.
    destruct (step_item check_and_put no_rw (mc, c, nx) (k, v)) as [[mc' c'] nx'] eqn:E. cbn [fst snd] in P'.
    apply (IH mc' c' (k + 1) nx' P' Hsr ltac:(lia)).
    + intros k' v' H. apply (Hin k' v'). right. exact H.
    + intros id v' Hl Hid. destruct (Hcover id v' Hl ltac:(lia)) as [Eq|H]; [inversion Eq; lia|exact H].
Qed.

Definition same_content (m : amap rv) (c : cache) : Prop := forall id v, lookup m id = Some v <-> In (id, v) c.

Theorem load_prunes_to_cache_pf (m : amap rv) :
  sorted_from 0 m -> (forall k v, In (k, v) m -> k < two64) ->
  let res := load_regions never_fails check_and_put m [] in
  fst (fst (fst res)) = RDone /\ same_content (snd (fst res)) (snd res) /\ disjoint (snd res) /\ ids_distinct (snd res) /\
  snd (fst (fst res)) = m.
Proof.
  intros Hs Hmax res.
  pose proof (page_loop_spec never_fails check_and_put region_limit_min region_min_pos Jcache Jcache_mono Jcache_step
                (fuel_for m region_limit0) m 0 region_limit0 O [] [] 0 Hs ltac:(lia)
                (fun o (H : In o []) => match H with end) region_limit0_pos (fuel_enough m 0 region_limit0)) as P.
  cbv zeta in P. fold (load_regions never_fails check_and_put m []) in P. fold res in P.
  pose proof (never_fails_not_failed check_and_put region_limit_min (fuel_for m region_limit0) m 0 region_limit0 O [] []) as NF.
  fold (load_regions never_fails check_and_put m []) in NF. fold res in NF.
  destruct P as (P1 & P2 & _).
  assert (Hd : fst (fst (fst res)) = RDone) by (destruct (fst (fst (fst res))); [reflexivity|contradiction|contradiction]).
  split; [exact Hd|]. destruct (P2 Hd) as [Hacc F].
  assert (Htodo : todo m 0 = m).
  { rewrite todo_from_zero by exact Hs. apply filter_all_below. exact Hmax. }
  rewrite Htodo in F. unfold final in F.
  assert (P0 : PInv m m [] 0).
  { constructor; [exact Hs|intros id v []| |reflexivity|constructor|intros a a' []].
    intros id v Hl Hlt. apply (in_lookup m 0 id v Hs) in Hl. apply (sorted_from_In _ _ _ _ Hs) in Hl. lia. }
  destruct (fold_prune m m m [] 0 0 P0 Hs ltac:(lia)
              (fun k v H => proj1 (in_lookup m 0 k v Hs) H)
              (fun id v' Hl _ => proj2 (in_lookup m 0 id v' Hs) Hl)) as (b' & [Qs Qin Qall Qrest Qids Qdisj] & Qnone).
  cbv zeta in *. rewrite <- F in *. cbn [fst snd] in *.
  split; [|split; [exact Qdisj|split; [exact Qids|rewrite Hacc, Htodo; reflexivity]]].
  intros id v. split.
  - intros Hl. destruct (Z.lt_ge_cases id b') as [Hb|Hb]; [apply Qall; assumption|].
    rewrite (Qrest id Hb), (Qnone id Hb) in Hl. discriminate.
  - intros Hin. exact (proj1 (Qin id v Hin)).
Qed.

(* ---------- the same at the level of the operation (either backend) ---------- *)
Lemma in_ins_sorted {V} (x y : Z * V) l : In x (ins_sorted y l) <-> x = y \/ In x l.
Proof.
  induction l as [|z l IH]; cbn [ins_sorted In]; [intuition|].
  destruct (fst y <=? fst z); cbn [In]; [intuition|]. rewrite IH. intuition.
Qed.
Lemma in_sort_by_id {V} (x : Z * V) l : In x (sort_by_id l) <-> In x l.
Proof.
  unfold sort_by_id. induction l as [|y l IH]; cbn [fold_right In]; [tauto|]. rewrite in_ins_sorted, IH. intuition.
Qed.

Theorem prune_op_pf s : SInv s -> (use_rs s = true \/ budget s = None) ->
  (forall k v, In (k, v) (regions_of s (use_rs s)) -> k < two64) ->
  exists c after,
    snd (run_op s OLoadIntoCache) = BCache RDone (regions_of s (use_rs s)) c after /\
    same_content after c /\ disjoint c /\
    regions_of (fst (run_op s OLoadIntoCache)) (use_rs s) = after /\
    (* nothing that was pruned is still waiting in the write-back batch *)
    (forall id, lookup (regions_of s (use_rs s)) id <> None -> lookup after id = None ->
                In id (map fst (batch (fst (run_op s OLoadIntoCache)))) -> use_rs s = false) /\
    (batch s = [] -> batch (fst (run_op s OLoadIntoCache)) = []).
Proof.
  intros I Hf Hb.
  assert (Hs : sorted_from 0 (regions_of s (use_rs s))) by (destruct I; unfold regions_of; destruct (use_rs s); assumption).
  assert (Hfaults : faults_of s (use_rs s) = never_fails).
  { unfold faults_of. destruct (use_rs s) eqn:E; [reflexivity|]. destruct Hf as [Hf|Hf]; [discriminate|]. rewrite Hf. reflexivity. }
  pose proof (load_prunes_to_cache_pf (regions_of s (use_rs s)) Hs Hb) as P. cbv zeta in P.
  cbn [run_op]. unfold load_into_cache. rewrite Hfaults.
  destruct (load_regions never_fails check_and_put (regions_of s (use_rs s)) []) as [[[st acc] m'] c]. cbn [fst snd] in *.
  destruct P as (P1 & P2 & P3 & _ & P5). subst st acc.
  exists (sort_by_id c), m'. split; [reflexivity|]. split.
  { intros id v. rewrite in_sort_by_id. apply P2. }
  split.
  { intros a a' Ha Ha' Hne. apply (proj1 (in_sort_by_id a c)) in Ha. apply (proj1 (in_sort_by_id a' c)) in Ha'. apply P3; assumption. }
  destruct (use_rs s) eqn:Ers; cbn [fst regions_of set_regions ldb base_r batch].
  - split; [reflexivity|]. split.
    + intros id Hin Hout Hbatch. exfalso. apply in_map_iff in Hbatch as ([k v] & E & Hk). cbn in E. subst k.
      apply filter_In in Hk as [_ Hk]. cbn [fst] in Hk.
      destruct (lookup (ldb s) id); [|contradiction]. rewrite Hout in Hk. discriminate.
    + intros ->. reflexivity.
  - split; [reflexivity|]. split; [intros; reflexivity|]. intros E. exact E.
Qed.
