(* Structural obligations on the code as it is now (regenerated gen/Gen_C04.v):
   the model in model/C04_IdAlloc.v was written against exactly this skeleton. *)
From PDV Require Import lib.Skel gen.Gen_C04.

(* Alloc holds the instance mutex from entry to return; rebases only when the window is used up;
   increments base and returns it. *)
Lemma skel_Alloc_ok : skel_Alloc =
  [Lock "alloc.mu"; DeferUnlock "alloc.mu";
   IfE "alloc.base == alloc.end" [Call "rebaseLocked"; IfE "err != nil" [Ret] []] [];
   Assign "alloc.base" "++"; Ret].
Proof. reflexivity. Qed.

Lemma skel_Rebase_ok : skel_Rebase = [Lock "alloc.mu"; DeferUnlock "alloc.mu"; Call "rebaseLocked"; Ret].
Proof. reflexivity. Qed.

(* rebaseLocked: one Get, one Txn; the window is adopted only after a succeeded commit *)
Lemma skel_rebaseLocked_ok : skel_rebaseLocked =
  [Call "GetValue"; IfE "err != nil" [Ret] [];
   IfE "value == nil" [] [Call "BytesToUint64"; Assign "end" "= typeutil.BytesToUint64(value)"; IfE "err != nil" [Ret] []];
   Assign "end" "+= allocStep"; Call "Commit"; IfE "err != nil" [Ret] []; IfE "!resp.Succeeded" [Ret] [];
   Assign "alloc.end" "= end"; Assign "alloc.base" "= end - allocStep"; Ret].
Proof. reflexivity. Qed.

(* the two guards of the window extension: value (or absence) CAS and leader record *)
Lemma rebase_cmps_ok : rebase_cmps =
  ["clientv3.CreateRevision(key) = 0"; "clientv3.Value(key) = string(value)"; "clientv3.Value(leaderPath) = alloc.member"].
Proof. reflexivity. Qed.

(* every id PD hands out (AllocID RPC, split handling) is drawn from this allocator *)
Lemma alloc_sites_ok :
  forall s, In s ["server/grpc_service.go:AllocID"; "server/cluster/cluster.go:AllocID";
                  "server/cluster/cluster_worker.go:HandleAskSplit"; "server/cluster/cluster_worker.go:HandleAskBatchSplit"] ->
            In s alloc_sites.
Proof. intros s H; cbn in H; cbn. repeat destruct H as [<-|H]; tauto. Qed.

(* the handlers that hand ids to TiKV: every id of a split answer comes from Alloc, and an Alloc that fails fails the
   whole request (no answer with a missing / zero id); AllocID validates the request (leader only) before it allocates *)
Lemma skel_HandleAskSplit_ok : skel_HandleAskSplit =
  [Call "ValidRequestRegion"; IfE "err != nil" [Ret] []; Call "Alloc"; Assign "newRegionID" ":= c.id.Alloc()"; IfE "err != nil" [Ret] []; Assign "peerIDs" ":= make([]uint64, len(request.Region.Peers))"; ForE [Call "Alloc"; IfE "err != nil" [Ret] []]; Ret].
Proof. reflexivity. Qed.

Lemma skel_HandleAskBatchSplit_ok : skel_HandleAskBatchSplit =
  [Call "ValidRequestRegion"; IfE "err != nil" [Ret] []; ForE [Call "Alloc"; Assign "newRegionID" ":= c.id.Alloc()"; IfE "err != nil" [Ret] []; Assign "peerIDs" ":= make([]uint64, len(request.Region.Peers))"; ForE [Call "Alloc"; IfE "err != nil" [Ret] []]]; Ret].
Proof. reflexivity. Qed.

Lemma skel_handler_AllocID_ok : skel_handler_AllocID =
  [IfE "!s.isLocalRequest(forwardedHost)" [IfE "err != nil" [Ret] []; Ret] []; Call "validateRequest"; IfE "err != nil" [Ret] []; Call "Alloc"; IfE "err != nil" [Ret] []; Ret].
Proof. reflexivity. Qed.

(* the key of the stored bound is named in one place only: nothing but the allocator's own guarded transaction reads or
   writes it (a recovery / admin / migration path to the same key would be a second way into the stored bound) *)
Lemma alloc_id_key_sites_ok : alloc_id_key_sites = ["server/id/id.go:getAllocIDPath"].
Proof. reflexivity. Qed.
