(* Structural obligations on the code as it is now (regenerated gen/Gen_C12.v): model/C12_Fit.v was
   written against exactly these tables and statement texts.  A change of the comparison order, of a
   role/operator case, of the search (fitRule / enumPeers / compareBest / updateOrphanPeers) or of the
   helper functions breaks a `reflexivity` below; the check then searches for a failing input
   (DESIGN.md section 4). *)
From Coq Require Import ZArith List String.
From PDV Require Import lib.Skel gen.Gen_C12.
Import ListNotations.
Open Scope string_scope.

Lemma replicaBaseScore_ok : replicaBaseScore =
  (100)%Z.
Proof. reflexivity. Qed.

Lemma rule_fit_order_ok : rule_fit_order =
  ["len(a.Peers) < len(b.Peers) => return -1"; "len(a.Peers) > len(b.Peers) => return 1"; "len(a.PeersWithDifferentRole) > len(b.PeersWithDifferentRole) => return -1"; "len(a.PeersWithDifferentRole) < len(b.PeersWithDifferentRole) => return 1"; "a.IsolationScore < b.IsolationScore => return -1"; "a.IsolationScore > b.IsolationScore => return 1"; "default => return 0"].
Proof. reflexivity. Qed.

Lemma region_fit_order_ok : region_fit_order =
  ["len(a.OrphanPeers) < len(b.OrphanPeers) => return 1"; "len(a.OrphanPeers) > len(b.OrphanPeers) => return -1"; "default => return 0"].
Proof. reflexivity. Qed.

Lemma role_strict_cases_ok : role_strict_cases =
  ["role == Voter => return !core.IsLearner(p.Peer)"; "role == Leader => return p.isLeader"; "role == Follower => return !core.IsLearner(p.Peer) && !p.isLeader"; "role == Learner => return core.IsLearner(p.Peer)"].
Proof. reflexivity. Qed.

Lemma compare_best_cases_ok : compare_best_cases =
  ["cmp == 1 => w.bestFit.RuleFits[index] = rf; for i := index + 1; i < len(w.rules); i++ { w.bestFit.RuleFits[i] = nil }; w.fitRule(index + 1); w.updateOrphanPeers(index + 1); return true"; "cmp == 0 => if w.fitRule(index + 1) { w.bestFit.RuleFits[index] = rf return true }"].
Proof. reflexivity. Qed.

Lemma match_store_cases_ok : match_store_cases =
  ["c.Op == In => label := store.GetLabelValue(c.Key); return label != """" && slice.AnyOf(c.Values, func(i int) bool { return c.Values[i] == label })"; "c.Op == NotIn => label := store.GetLabelValue(c.Key); return label == """" || slice.NoneOf(c.Values, func(i int) bool { return c.Values[i] == label })"; "c.Op == Exists => return store.GetLabelValue(c.Key) != """""; "c.Op == NotExists => return store.GetLabelValue(c.Key) == """""].
Proof. reflexivity. Qed.

Lemma body_RegionFit_IsSatisfied_ok : body_RegionFit_IsSatisfied =
  ["if len(f.RuleFits) == 0 { return false }"; "for _, r := range f.RuleFits { if !r.IsSatisfied() { return false } }"; "return len(f.OrphanPeers) == 0"].
Proof. reflexivity. Qed.

Lemma body_RuleFit_IsSatisfied_ok : body_RuleFit_IsSatisfied =
  ["return len(f.Peers) == f.Rule.Count && len(f.PeersWithDifferentRole) == 0"].
Proof. reflexivity. Qed.

Lemma body_CompareRegionFit_ok : body_CompareRegionFit =
  ["for i := range a.RuleFits { if i >= len(b.RuleFits) { break } if cmp := compareRuleFit(a.RuleFits[i], b.RuleFits[i]); cmp != 0 { return cmp } }"; "switch { case len(a.OrphanPeers) < len(b.OrphanPeers): return 1 case len(a.OrphanPeers) > len(b.OrphanPeers): return -1 default: return 0 }"].
Proof. reflexivity. Qed.

Lemma body_FitRegion_ok : body_FitRegion =
  ["w := newFitWorker(stores, region, rules)"; "w.run()"; "return &w.bestFit"].
Proof. reflexivity. Qed.

Lemma body_newFitWorker_ok : body_newFitWorker =
  ["regionPeers := region.GetPeers()"; "peers := make([]*fitPeer, 0, len(regionPeers))"; "for _, p := range regionPeers { peers = append(peers, &fitPeer{ Peer: p, store: stores.GetStore(p.GetStoreId()), isLeader: region.GetLeader().GetId() == p.GetId(), }) }"; "sort.Slice(peers, func(i, j int) bool { return peers[i].GetId() < peers[j].GetId() })"; "return &fitWorker{ stores: stores.GetStores(), bestFit: RegionFit{RuleFits: make([]*RuleFit, len(rules))}, peers: peers, rules: rules, }"].
Proof. reflexivity. Qed.

Lemma body_fitWorker_run_ok : body_fitWorker_run =
  ["w.fitRule(0)"; "w.updateOrphanPeers(0)"].
Proof. reflexivity. Qed.

Lemma body_fitWorker_fitRule_ok : body_fitWorker_fitRule =
  ["if index >= len(w.rules) { return false }"; "var candidates []*fitPeer"; "if checkRule(w.rules[index], w.stores) { for _, p := range w.peers { if MatchLabelConstraints(p.store, w.rules[index].LabelConstraints) && p.matchRoleLoose(w.rules[index].Role) && !p.selected { candidates = append(candidates, p) } } }"; "count := w.rules[index].Count"; "if len(candidates) < count { count = len(candidates) }"; "return w.enumPeers(candidates, nil, index, count)"].
Proof. reflexivity. Qed.

Lemma body_fitWorker_enumPeers_ok : body_fitWorker_enumPeers =
  ["if len(selected) == count { return w.compareBest(selected, index) }"; "var better bool"; "for i, p := range candidates { p.selected = true better = w.enumPeers(candidates[i+1:], append(selected, p), index, count) || better p.selected = false }"; "return better"].
Proof. reflexivity. Qed.

Lemma body_fitWorker_compareBest_ok : body_fitWorker_compareBest =
  ["rf := newRuleFit(w.rules[index], selected)"; "cmp := 1"; "if best := w.bestFit.RuleFits[index]; best != nil { cmp = compareRuleFit(rf, best) }"; "switch cmp { case 1: w.bestFit.RuleFits[index] = rf for i := index + 1; i < len(w.rules); i++ { w.bestFit.RuleFits[i] = nil } w.fitRule(index + 1) w.updateOrphanPeers(index + 1) return true case 0: if w.fitRule(index + 1) { w.bestFit.RuleFits[index] = rf return true } }"; "return false"].
Proof. reflexivity. Qed.

Lemma body_fitWorker_updateOrphanPeers_ok : body_fitWorker_updateOrphanPeers =
  ["if index != len(w.rules) { return }"; "w.bestFit.OrphanPeers = w.bestFit.OrphanPeers[:0]"; "for _, p := range w.peers { if !p.selected { w.bestFit.OrphanPeers = append(w.bestFit.OrphanPeers, p.Peer) } }"].
Proof. reflexivity. Qed.

Lemma body_newRuleFit_ok : body_newRuleFit =
  ["rf := &RuleFit{Rule: rule, IsolationScore: isolationScore(peers, rule.LocationLabels)}"; "for _, p := range peers { rf.Peers = append(rf.Peers, p.Peer) if !p.matchRoleStrict(rule.Role) { rf.PeersWithDifferentRole = append(rf.PeersWithDifferentRole, p.Peer) } }"; "return rf"].
Proof. reflexivity. Qed.

Lemma body_fitPeer_matchRoleLoose_ok : body_fitPeer_matchRoleLoose =
  ["return role != Learner || core.IsLearner(p.Peer)"].
Proof. reflexivity. Qed.

Lemma body_isolationScore_ok : body_isolationScore =
  ["var score float64"; "if len(labels) == 0 || len(peers) <= 1 { return 0 }"; "const replicaBaseScore = 100"; "for i, p1 := range peers { for _, p2 := range peers[i+1:] { if index := p1.store.CompareLocation(p2.store, labels); index != -1 { score += math.Pow(replicaBaseScore, float64(len(labels)-index-1)) } } }"; "return score"].
Proof. reflexivity. Qed.

Lemma body_isExclusiveLabel_ok : body_isExclusiveLabel =
  ["return strings.HasPrefix(key, ""$"") || slice.AnyOf(legacyExclusiveLabels, func(i int) bool { return key == legacyExclusiveLabels[i] })"].
Proof. reflexivity. Qed.

Lemma body_MatchLabelConstraints_ok : body_MatchLabelConstraints =
  ["if store == nil { return false }"; "for _, l := range store.GetLabels() { if isExclusiveLabel(l.GetKey()) && slice.NoneOf(constraints, func(i int) bool { return constraints[i].Key == l.GetKey() }) { return false } }"; "return slice.AllOf(constraints, func(i int) bool { return constraints[i].MatchStore(store) })"].
Proof. reflexivity. Qed.

Lemma body_checkRule_ok : body_checkRule =
  ["for _, store := range stores { if MatchLabelConstraints(store, rule.LabelConstraints) { return true } }"; "return false"].
Proof. reflexivity. Qed.

Lemma body_StoreInfo_GetLabelValue_ok : body_StoreInfo_GetLabelValue =
  ["for _, label := range s.GetLabels() { if strings.EqualFold(label.GetKey(), key) { return label.GetValue() } }"; "return """""].
Proof. reflexivity. Qed.

Lemma body_StoreInfo_CompareLocation_ok : body_StoreInfo_CompareLocation =
  ["for i, key := range labels { v1, v2 := s.GetLabelValue(key), other.GetLabelValue(key) if v1 != """" && v2 != """" && !strings.EqualFold(v1, v2) { return i } }"; "return -1"].
Proof. reflexivity. Qed.

Lemma legacy_exclusive_labels_ok : legacy_exclusive_labels =
  ["engine"; "exclusive"].
Proof. reflexivity. Qed.

Lemma exclusive_prefix_ok : exclusive_prefix =
  "$".
Proof. reflexivity. Qed.

Lemma role_voter_ok : role_voter =
  "voter".
Proof. reflexivity. Qed.

Lemma role_leader_ok : role_leader =
  "leader".
Proof. reflexivity. Qed.

Lemma role_follower_ok : role_follower =
  "follower".
Proof. reflexivity. Qed.

Lemma role_learner_ok : role_learner =
  "learner".
Proof. reflexivity. Qed.

Lemma op_in_ok : op_in =
  "in".
Proof. reflexivity. Qed.

Lemma op_notin_ok : op_notin =
  "notIn".
Proof. reflexivity. Qed.

Lemma op_exists_ok : op_exists =
  "exists".
Proof. reflexivity. Qed.

Lemma op_notexists_ok : op_notexists =
  "notExists".
Proof. reflexivity. Qed.
