(* Structural obligations on the code as it is now (regenerated gen/Gen_C12.v): model/C12_Fit.v was
   written against exactly these tables and statement texts.  A change of the comparison order, of a
   role/operator case, of the search (fitRule / enumPeers / compareBest / updateOrphanPeers) or of the
   helper functions breaks a `reflexivity` below; the check then searches for a failing input
   (DESIGN.md section 4). *)
From Coq Require Import ZArith List String.
From PDV Require Import lib.Skel gen.Gen_C12.
Import ListNotations.
Open Scope string_scope.

Lemma replicaBaseScore_ok : replicaBaseScore =
  (100)%Z.
Proof. reflexivity. Qed.

Lemma rule_fit_order_ok : rule_fit_order =
  ["len(_v0.Peers) < len(_v1.Peers) => return -1"; "len(_v0.Peers) > len(_v1.Peers) => return 1"; "len(_v0.PeersWithDifferentRole) > len(_v1.PeersWithDifferentRole) => return -1"; "len(_v0.PeersWithDifferentRole) < len(_v1.PeersWithDifferentRole) => return 1"; "_v0.IsolationScore < _v1.IsolationScore => return -1"; "_v0.IsolationScore > _v1.IsolationScore => return 1"; "default => return 0"].
Proof. reflexivity. Qed.

Lemma region_fit_order_ok : region_fit_order =
  ["len(_v0.OrphanPeers) < len(_v1.OrphanPeers) => return 1"; "len(_v0.OrphanPeers) > len(_v1.OrphanPeers) => return -1"; "default => return 0"].
Proof. reflexivity. Qed.

Lemma role_strict_cases_ok : role_strict_cases =
  ["_v1 == Voter => return !core.IsLearner(_v0.Peer)"; "_v1 == Leader => return _v0.isLeader"; "_v1 == Follower => return !core.IsLearner(_v0.Peer) && !_v0.isLeader"; "_v1 == Learner => return core.IsLearner(_v0.Peer)"].
Proof. reflexivity. Qed.

Lemma compare_best_cases_ok : compare_best_cases =
  ["_v4 == 1 => _v0.bestFit.RuleFits[_v2] = _v3; for _v6 := _v2 + 1; _v6 < len(_v0.rules); _v6++ { _v0.bestFit.RuleFits[_v6] = nil }; _v0.fitRule(_v2 + 1); _v0.updateOrphanPeers(_v2 + 1); return true"; "_v4 == 0 => if _v0.fitRule(_v2 + 1) { _v0.bestFit.RuleFits[_v2] = _v3 return true }"].
Proof. reflexivity. Qed.

Lemma match_store_cases_ok : match_store_cases =
  ["_v0.Op == In => _v2 := _v1.GetLabelValue(_v0.Key); return _v2 != """" && slice.AnyOf(_v0.Values, func(_v3 int) bool { return _v0.Values[_v3] == _v2 })"; "_v0.Op == NotIn => _v4 := _v1.GetLabelValue(_v0.Key); return _v4 == """" || slice.NoneOf(_v0.Values, func(_v5 int) bool { return _v0.Values[_v5] == _v4 })"; "_v0.Op == Exists => return _v1.GetLabelValue(_v0.Key) != """""; "_v0.Op == NotExists => return _v1.GetLabelValue(_v0.Key) == """""].
Proof. reflexivity. Qed.

Lemma body_RegionFit_IsSatisfied_ok : body_RegionFit_IsSatisfied =
  ["if len(_v0.RuleFits) == 0 { return false }"; "for _, _v1 := range _v0.RuleFits { if !_v1.IsSatisfied() { return false } }"; "return len(_v0.OrphanPeers) == 0"].
Proof. reflexivity. Qed.

Lemma body_RuleFit_IsSatisfied_ok : body_RuleFit_IsSatisfied =
  ["return len(_v0.Peers) == _v0.Rule.Count && len(_v0.PeersWithDifferentRole) == 0"].
Proof. reflexivity. Qed.

Lemma body_CompareRegionFit_ok : body_CompareRegionFit =
  ["for _v2 := range _v0.RuleFits { if _v2 >= len(_v1.RuleFits) { break } if _v3 := compareRuleFit(_v0.RuleFits[_v2], _v1.RuleFits[_v2]); _v3 != 0 { return _v3 } }"; "switch { case len(_v0.OrphanPeers) < len(_v1.OrphanPeers): return 1 case len(_v0.OrphanPeers) > len(_v1.OrphanPeers): return -1 default: return 0 }"].
Proof. reflexivity. Qed.

Lemma body_FitRegion_ok : body_FitRegion =
  ["_v3 := newFitWorker(_v0, _v1, _v2)"; "_v3.run()"; "return &_v3.bestFit"].
Proof. reflexivity. Qed.

Lemma body_newFitWorker_ok : body_newFitWorker =
  ["_v3 := _v1.GetPeers()"; "_v4 := make([]*fitPeer, 0, len(_v3))"; "for _, _v5 := range _v3 { _v4 = append(_v4, &fitPeer{ Peer: _v5, store: _v0.GetStore(_v5.GetStoreId()), isLeader: _v1.GetLeader().GetId() == _v5.GetId(), }) }"; "sort.Slice(_v4, func(_v6, _v7 int) bool { return _v4[_v6].GetId() < _v4[_v7].GetId() })"; "return &fitWorker{ _v0: _v0.GetStores(), bestFit: RegionFit{RuleFits: make([]*RuleFit, len(_v2))}, _v4: _v4, _v2: _v2, }"].
Proof. reflexivity. Qed.

Lemma body_fitWorker_run_ok : body_fitWorker_run =
  ["_v0.fitRule(0)"; "_v0.updateOrphanPeers(0)"].
Proof. reflexivity. Qed.

Lemma body_fitWorker_fitRule_ok : body_fitWorker_fitRule =
  ["if _v1 >= len(_v0.rules) { return false }"; "var _v2 []*fitPeer"; "if checkRule(_v0.rules[_v1], _v0.stores) { for _, _v3 := range _v0.peers { if MatchLabelConstraints(_v3.store, _v0.rules[_v1].LabelConstraints) && _v3.matchRoleLoose(_v0.rules[_v1].Role) && !_v3.selected { _v2 = append(_v2, _v3) } } }"; "_v4 := _v0.rules[_v1].Count"; "if len(_v2) < _v4 { _v4 = len(_v2) }"; "return _v0.enumPeers(_v2, nil, _v1, _v4)"].
Proof. reflexivity. Qed.

Lemma body_fitWorker_enumPeers_ok : body_fitWorker_enumPeers =
  ["if len(_v2) == _v4 { return _v0.compareBest(_v2, _v3) }"; "var _v5 bool"; "for _v6, _v7 := range _v1 { _v7.selected = true _v5 = _v0.enumPeers(_v1[_v6+1:], append(_v2, _v7), _v3, _v4) || _v5 _v7.selected = false }"; "return _v5"].
Proof. reflexivity. Qed.

Lemma body_fitWorker_compareBest_ok : body_fitWorker_compareBest =
  ["_v3 := newRuleFit(_v0.rules[_v2], _v1)"; "_v4 := 1"; "if _v5 := _v0.bestFit.RuleFits[_v2]; _v5 != nil { _v4 = compareRuleFit(_v3, _v5) }"; "switch _v4 { case 1: _v0.bestFit.RuleFits[_v2] = _v3 for _v6 := _v2 + 1; _v6 < len(_v0.rules); _v6++ { _v0.bestFit.RuleFits[_v6] = nil } _v0.fitRule(_v2 + 1) _v0.updateOrphanPeers(_v2 + 1) return true case 0: if _v0.fitRule(_v2 + 1) { _v0.bestFit.RuleFits[_v2] = _v3 return true } }"; "return false"].
Proof. reflexivity. Qed.

Lemma body_fitWorker_updateOrphanPeers_ok : body_fitWorker_updateOrphanPeers =
  ["if _v1 != len(_v0.rules) { return }"; "_v0.bestFit.OrphanPeers = _v0.bestFit.OrphanPeers[:0]"; "for _, _v2 := range _v0.peers { if !_v2.selected { _v0.bestFit.OrphanPeers = append(_v0.bestFit.OrphanPeers, _v2.Peer) } }"].
Proof. reflexivity. Qed.

Lemma body_newRuleFit_ok : body_newRuleFit =
  ["_v2 := &RuleFit{Rule: _v0, IsolationScore: isolationScore(_v1, _v0.LocationLabels)}"; "for _, _v3 := range _v1 { _v2.Peers = append(_v2.Peers, _v3.Peer) if !_v3.matchRoleStrict(_v0.Role) { _v2.PeersWithDifferentRole = append(_v2.PeersWithDifferentRole, _v3.Peer) } }"; "return _v2"].
Proof. reflexivity. Qed.

Lemma body_fitPeer_matchRoleLoose_ok : body_fitPeer_matchRoleLoose =
  ["return _v1 != Learner || core.IsLearner(_v0.Peer)"].
Proof. reflexivity. Qed.

Lemma body_isolationScore_ok : body_isolationScore =
  ["var _v2 float64"; "if len(_v1) == 0 || len(_v0) <= 1 { return 0 }"; "const replicaBaseScore = 100"; "for _v3, _v4 := range _v0 { for _, _v5 := range _v0[_v3+1:] { if _v6 := _v4.store.CompareLocation(_v5.store, _v1); _v6 != -1 { _v2 += math.Pow(replicaBaseScore, float64(len(_v1)-_v6-1)) } } }"; "return _v2"].
Proof. reflexivity. Qed.

Lemma body_isExclusiveLabel_ok : body_isExclusiveLabel =
  ["return strings.HasPrefix(_v0, ""$"") || slice.AnyOf(legacyExclusiveLabels, func(_v1 int) bool { return _v0 == legacyExclusiveLabels[_v1] })"].
Proof. reflexivity. Qed.

Lemma body_MatchLabelConstraints_ok : body_MatchLabelConstraints =
  ["if _v0 == nil { return false }"; "for _, _v2 := range _v0.GetLabels() { if isExclusiveLabel(_v2.GetKey()) && slice.NoneOf(_v1, func(_v3 int) bool { return _v1[_v3].Key == _v2.GetKey() }) { return false } }"; "return slice.AllOf(_v1, func(_v4 int) bool { return _v1[_v4].MatchStore(_v0) })"].
Proof. reflexivity. Qed.

Lemma body_checkRule_ok : body_checkRule =
  ["for _, _v2 := range _v1 { if MatchLabelConstraints(_v2, _v0.LabelConstraints) { return true } }"; "return false"].
Proof. reflexivity. Qed.

Lemma body_StoreInfo_GetLabelValue_ok : body_StoreInfo_GetLabelValue =
  ["for _, _v2 := range _v0.GetLabels() { if strings.EqualFold(_v2.GetKey(), _v1) { return _v2.GetValue() } }"; "return """""].
Proof. reflexivity. Qed.

Lemma body_StoreInfo_CompareLocation_ok : body_StoreInfo_CompareLocation =
  ["for _v3, _v4 := range _v2 { _v5, _v6 := _v0.GetLabelValue(_v4), _v1.GetLabelValue(_v4) if _v5 != """" && _v6 != """" && !strings.EqualFold(_v5, _v6) { return _v3 } }"; "return -1"].
Proof. reflexivity. Qed.

Lemma adjust_rule_guards_ok : adjust_rule_guards =
  ["_v4 != nil"; "_v4 != nil"; "len(_v1.EndKey) > 0 && bytes.Compare(_v1.EndKey, _v1.StartKey) <= 0"; "_v4 != nil"; "_v4 != nil"; "_v2 != _v1.GroupID"; "_v1.GroupID == """""; "_v1.ID == """""; "!validateRole(_v1.Role)"; "_v1.Count <= 0"; "_v1.Role == Leader && _v1.Count > 1"; "!validateOp(_v5.Op)"; "len(_v6) > 0 && !checkRule(_v1, _v6)"].
Proof. reflexivity. Qed.

Lemma legacy_exclusive_labels_ok : legacy_exclusive_labels =
  ["engine"; "exclusive"].
Proof. reflexivity. Qed.

Lemma exclusive_prefix_ok : exclusive_prefix =
  "$".
Proof. reflexivity. Qed.

Lemma role_voter_ok : role_voter =
  "voter".
Proof. reflexivity. Qed.

Lemma role_leader_ok : role_leader =
  "leader".
Proof. reflexivity. Qed.

Lemma role_follower_ok : role_follower =
  "follower".
Proof. reflexivity. Qed.

Lemma role_learner_ok : role_learner =
  "learner".
Proof. reflexivity. Qed.

Lemma op_in_ok : op_in =
  "in".
Proof. reflexivity. Qed.

Lemma op_notin_ok : op_notin =
  "notIn".
Proof. reflexivity. Qed.

Lemma op_exists_ok : op_exists =
  "exists".
Proof. reflexivity. Qed.

Lemma op_notexists_ok : op_notexists =
  "notExists".
Proof. reflexivity. Qed.

(* the guard that keeps non-positive counts away from FitRegion sits in RuleManager.adjustRule, which every
   rule a RuleManager serves has passed (SetRule / SetRules / Batch / bundles / loadRules): with a negative
   Count the search never calls compareBest and leaves a nil RuleFit (driver probe `negative-count`) *)
Lemma body_RuleManager_FitRegion_ok : body_RuleManager_FitRegion =
  ["_v3 := _v0.GetRulesForApplyRegion(_v2)"; "return FitRegion(_v1, _v2, _v3)"].
Proof. reflexivity. Qed.

Lemma count_guard_present : exists v, In (v ++ ".Count <= 0") adjust_rule_guards.
Proof. exists "_v1". vm_compute. tauto. Qed.
