(* C08 — one round of the non-joint loop: peerPlan's result, applied by buildStepsWithoutJointConsensus
   (transfer, add, promote, transfer, demote, remove), keeps the simulation and the pending-map invariant. *)
From Coq Require Import String Sorting.Sorted.
From PDV Require Import lib.Base gen.Gen_C08 model.C08_Steps model.C08_Builder
     proof.C08_ListFacts proof.C08_PmapFacts proof.C08_SimPhases proof.C08_NjPhases proof.C08_StepSpec proof.C08_NjSteps proof.C08_NjPlans
     proof.C08_Skel.
Local Open Scope list_scope.
Local Open Scope Z_scope.

(* ---------- counting through an injection on stores ---------- *)
Lemma count_inj (f g : peer -> bool) : forall A B, ND A -> ND B ->
  (forall p, In p A -> f p = true -> exists q, lk B (pstore p) = Some q /\ g q = true) ->
  countb f A <= countb g B.
Proof.
  induction A as [|p A IH]; intros B HA HB H.
  - unfold countb at 1. cbn. apply countb_nonneg.
  - unfold ND in HA. cbn [map] in HA. inversion HA as [|x0 l0 Hn Hd]; subst x0 l0.
    rewrite countb_cons. destruct (f p) eqn:Fp; cbn [b2z].
    + destruct (H p (or_introl eq_refl) Fp) as (q & Hq & Gq).
      rewrite (countb_remove g B (pstore p) q HB Hq) at 1 || idtac.
      assert (E : countb g B = countb g (remove_store B (pstore p)) + 1).
      { rewrite (countb_remove g B (pstore p) q HB Hq), Gq. cbn. lia. }
      rewrite E.
      assert (IH' : countb f A <= countb g (remove_store B (pstore p))).
      { apply IH; [exact Hd|apply ND_filter; exact HB|].
        intros p' Hp' Fp'. destruct (H p' (or_intror Hp') Fp') as (q' & Hq' & Gq'). exists q'. split; [|exact Gq'].
        rewrite lk_remove_store by exact HB.
        destruct (pstore p' =? pstore p) eqn:Es; [|exact Hq'].
        apply Z.eqb_eq in Es. exfalso. apply Hn. rewrite <- Es. apply in_map. exact Hp'. }
      lia.
    + assert (IH' : countb f A <= countb g B).
      { apply IH; [exact Hd|exact HB|]. intros p' Hp' Fp'. apply H; [right; exact Hp'|exact Fp']. }
      lia.
Qed.

Lemma count_inj_strict (f g : peer -> bool) A B s q0 : ND A -> ND B ->
  (forall p, In p A -> f p = true -> pstore p <> s /\ exists q, lk B (pstore p) = Some q /\ g q = true) ->
  lk B s = Some q0 -> g q0 = true ->
  countb f A + 1 <= countb g B.
Proof.
  intros HA HB H Hq0 Gq0.
  assert (E : countb g B = countb g (remove_store B s) + 1).
  { rewrite (countb_remove g B s q0 HB Hq0), Gq0. cbn. lia. }
  rewrite E.
  assert (X : countb f A <= countb g (remove_store B s)).
  { apply count_inj; [exact HA|apply ND_filter; exact HB|].
    intros p Hp Fp. destruct (H p Hp Fp) as (Hs & q & Hq & Gq). exists q. split; [|exact Gq].
    rewrite lk_remove_store by exact HB. destruct (pstore p =? s) eqn:Es; [apply Z.eqb_eq in Es; contradiction|exact Hq]. }
  lia.
Qed.

(* ---------- the six stages of one loop round ---------- *)
Definition maybe_transfer (b : bstate) (l : Z) : bstate :=
  if negb (l =? 0) && negb (l =? b_cur_leader b) then set_kinds (exec_transfer b l) true (b_kregion b) else b.
Definition do_add (b : bstate) (oa : option peer) : bstate :=
  match oa with Some a => let x := exec_add b a in set_kinds x (b_kleader x) true | None => b end.
Definition do_promote (b : bstate) (ox : option peer) : bstate := match ox with Some x => exec_promote b x | None => b end.
Definition do_demote (b : bstate) (ox : option peer) : bstate := match ox with Some x => exec_demote b x | None => b end.
Definition do_remove (b : bstate) (ox : option peer) : bstate :=
  match ox with Some x => let y := exec_remove b x in set_kinds y (b_kleader y) true | None => b end.

Lemma apply_plan_eq b p :
  apply_plan b p =
  do_remove (do_demote (maybe_transfer (do_promote (do_add (maybe_transfer b (lba p)) (p_add p)) (p_promote p)) (lbr p)) (p_demote p)) (p_remove p).
Proof. reflexivity. Qed.

Section Apply.
  Variables (T : pmap) (g : goal) (r0 : region).

  Lemma Sim_same b b' r :
    b_steps b' = b_steps b -> b_cur b' = b_cur b -> b_cur_leader b' = b_cur_leader b -> b_add b' = b_add b ->
    Sim g r0 b r -> Sim g r0 b' r.
  Proof.
    intros E1 E2 E3 E4 [S1 S2 S3 S4 S5 S6]. constructor; [ | exact S2 | exact S3 | | | ].
    - intros rest. rewrite E1. apply S1.
    - intros st. rewrite E2. apply S4.
    - rewrite E3. exact S5.
    - rewrite E4. exact S6.
  Qed.

  Lemma stage_transfer b r l :
    Sim g r0 b r -> PInv T b -> (l = 0 \/ exists q, pm_get (b_cur b) l = Some q /\ prole q = Voter) ->
    exists r', Sim g r0 (maybe_transfer b l) r' /\ PInv T (maybe_transfer b l)
               /\ voters_new (peers r') = voters_new (peers r)
               /\ leader r' = (if l =? 0 then leader r else l)
               /\ b_cur (maybe_transfer b l) = b_cur b /\ b_add (maybe_transfer b l) = b_add b
               /\ b_remove (maybe_transfer b l) = b_remove b /\ b_promote (maybe_transfer b l) = b_promote b
               /\ b_demote (maybe_transfer b l) = b_demote b.
  Proof.
    intros S P H. unfold maybe_transfer.
    destruct (l =? 0) eqn:E0; cbn [negb andb].
    - exists r. split; [exact S|split; [exact P|repeat split; auto]].
    - destruct (l =? b_cur_leader b) eqn:E1; cbn [negb].
      + exists r. apply Z.eqb_eq in E1. split; [exact S|split; [exact P|repeat split; auto]]. rewrite (sim_leader _ _ _ _ S). auto.
      + apply Z.eqb_neq in E0, E1. destruct H as [H|(q & Hq & Hro)]; [contradiction|].
        destruct (step_transfer T g r0 b r l q S P Hq Hro E1) as [S' P'].
        exists (set_leader r l). split; [|split; [|repeat split; auto]].
        * eapply Sim_same; [..|exact S']; reflexivity.
        * eapply PInv_same; [..|exact P']; reflexivity.
  Qed.

  Lemma stage_add b r oa :
    Sim g r0 b r -> PInv T b ->
    (forall a, oa = Some a -> pm_get (b_add b) (pstore a) = Some a /\ pm_get (b_cur b) (pstore a) = None) ->
    exists r', Sim g r0 (do_add b oa) r' /\ PInv T (do_add b oa)
               /\ voters_new (peers r') = voters_new (peers r) + b2z (match oa with Some a => negb (is_learner a) | None => false end)
               /\ leader r' = leader r
               /\ b_cur (do_add b oa) = (match oa with Some a => pm_set (b_cur b) a | None => b_cur b end)
               /\ b_remove (do_add b oa) = b_remove b /\ b_promote (do_add b oa) = b_promote b /\ b_demote (do_add b oa) = b_demote b
               /\ b_cur_leader (do_add b oa) = b_cur_leader b.
  Proof.
    intros S P H. destruct oa as [a|]; cbn [do_add].
    - destruct (H a eq_refl) as [Ha Hc]. destruct (step_add T g r0 b r a S P Ha Hc) as (r' & S' & P' & V' & L').
      exists r'. split; [|split; [|repeat split; auto]].
      + eapply Sim_same; [..|exact S']; reflexivity.
      + eapply PInv_same; [..|exact P']; reflexivity.
    - exists r. split; [exact S|split; [exact P|repeat split; auto]]. cbn. lia.
  Qed.

  Lemma stage_promote b r ox :
    Sim g r0 b r -> PInv T b -> (forall x, ox = Some x -> pm_get (b_promote b) (pstore x) = Some x) ->
    exists r', Sim g r0 (do_promote b ox) r' /\ PInv T (do_promote b ox)
               /\ voters_new (peers r') = voters_new (peers r) + b2z (is_some ox)
               /\ leader r' = leader r
               /\ b_cur (do_promote b ox) = (match ox with Some x => pm_set (b_cur b) x | None => b_cur b end)
               /\ b_remove (do_promote b ox) = b_remove b /\ b_demote (do_promote b ox) = b_demote b
               /\ b_cur_leader (do_promote b ox) = b_cur_leader b.
  Proof.
    intros S P H. destruct ox as [x|]; cbn [do_promote is_some].
    - destruct (step_promote T g r0 b r x S P (H x eq_refl)) as (r' & S' & P' & V' & L'). exists r'.
      split; [exact S'|split; [exact P'|repeat split; auto]].
    - exists r. split; [exact S|split; [exact P|repeat split; auto]]. cbn. lia.
  Qed.

  Lemma stage_demote b r ox :
    Sim g r0 b r -> PInv T b -> (forall x, ox = Some x -> pm_get (b_demote b) (pstore x) = Some x /\ leader r <> pstore x) ->
    g_min_voters g + b2z (is_some ox) <= voters_new (peers r) ->
    exists r', Sim g r0 (do_demote b ox) r' /\ PInv T (do_demote b ox)
               /\ voters_new (peers r') = voters_new (peers r) - b2z (is_some ox)
               /\ leader r' = leader r
               /\ b_remove (do_demote b ox) = b_remove b.
  Proof.
    intros S P H Hv. destruct ox as [x|]; cbn [do_demote is_some] in *.
    - destruct (H x eq_refl) as [Hx Hl].
      destruct (step_demote T g r0 b r x S P Hx Hl Hv) as (r' & S' & P' & V' & L'). exists r'.
      split; [exact S'|split; [exact P'|repeat split; auto]].
    - exists r. split; [exact S|split; [exact P|repeat split; auto]]. cbn. lia.
  Qed.

  Lemma stage_remove b r ox :
    Sim g r0 b r -> PInv T b -> (forall x, ox = Some x -> pm_get (b_remove b) (pstore x) = Some x /\ leader r <> pstore x) ->
    g_min_voters g + b2z (match ox with Some x => new_voter x | None => false end) <= voters_new (peers r) ->
    exists r', Sim g r0 (do_remove b ox) r' /\ PInv T (do_remove b ox).
  Proof.
    intros S P H Hv. destruct ox as [x|]; cbn [do_remove] in *.
    - destruct (H x eq_refl) as [Hx Hl].
      destruct (step_remove T g r0 b r x S P Hx Hl Hv) as (r' & S' & P' & V' & L'). exists r'. split.
      + eapply Sim_same; [..|exact S']; reflexivity.
      + eapply PInv_same; [..|exact P']; reflexivity.
    - exists r. auto.
  Qed.
End Apply.

(* ---------- one round ---------- *)
Definition up (p : splan) : Z :=
  b2z (match p_add p with Some a => negb (is_learner a) | None => false end) + b2z (is_some (p_promote p)).
Definition down (p : splan) : Z :=
  b2z (is_some (p_demote p)) + b2z (match p_remove p with Some x => new_voter x | None => false end).

Record PlanOK (g : goal) (b : bstate) (r : region) (p : splan) : Prop := {
  ok_lba : lba p = 0 \/ exists q, pm_get (b_cur b) (lba p) = Some q /\ prole q = Voter;
  ok_add : forall a, p_add p = Some a -> pm_get (b_add b) (pstore a) = Some a /\ pm_get (b_cur b) (pstore a) = None;
  ok_pro : forall x, p_promote p = Some x -> pm_get (b_promote b) (pstore x) = Some x;
  ok_dem : forall x, p_demote p = Some x -> pm_get (b_demote b) (pstore x) = Some x;
  ok_rem : forall x, p_remove p = Some x -> pm_get (b_remove b) (pstore x) = Some x;
  ok_lbr : (lbr p = 0 /\ p_demote p = None /\ p_remove p = None) \/
           (lbr p <> 0 /\ lbr p <> ostore (p_demote p) /\ lbr p <> ostore (p_remove p) /\
            ((exists q, pm_get (b_cur b) (lbr p) = Some q /\ prole q = Voter)
             \/ (exists x, p_promote p = Some x /\ pstore x = lbr p)
             \/ (exists a, p_add p = Some a /\ pstore a = lbr p /\ prole a = Voter)));
  ok_votes : g_min_voters g + down p <= voters_new (peers r) + up p
}.

Section Round.
  Variables (T : pmap) (g : goal) (r0 : region).

  Lemma b2z_nonneg c : 0 <= b2z c.
  Proof. destruct c; cbn; lia. Qed.

  Lemma apply_plan_ok b r p :
    Sim g r0 b r -> PInv T b -> PlanOK g b r p -> exists r', Sim g r0 (apply_plan b p) r' /\ PInv T (apply_plan b p).
  Proof.
    intros S P [Ka Kadd Kpro Kdem Krem Kl Kv]. rewrite apply_plan_eq.
    (* 1: transfer before the add *)
    destruct (stage_transfer T g r0 b r (lba p) S P Ka) as (r1 & S1 & P1 & V1 & L1 & Ec1 & Ea1 & Er1 & Ep1 & Ed1).
    set (b1 := maybe_transfer b (lba p)) in *.
    (* 2: add *)
    assert (H2 : forall a, p_add p = Some a -> pm_get (b_add b1) (pstore a) = Some a /\ pm_get (b_cur b1) (pstore a) = None).
    { intros a Ha. rewrite Ea1, Ec1. apply Kadd. exact Ha. }
    destruct (stage_add T g r0 b1 r1 (p_add p) S1 P1 H2) as (r2 & S2 & P2 & V2 & L2 & Ec2 & Er2 & Ep2 & Ed2 & El2).
    set (b2 := do_add b1 (p_add p)) in *.
    (* 3: promote *)
    assert (H3 : forall x, p_promote p = Some x -> pm_get (b_promote b2) (pstore x) = Some x).
    { intros x Hx. rewrite Ep2, Ep1. apply Kpro. exact Hx. }
    destruct (stage_promote T g r0 b2 r2 (p_promote p) S2 P2 H3) as (r3 & S3 & P3 & V3 & L3 & Ec3 & Er3 & Ed3 & El3).
    set (b3 := do_promote b2 (p_promote p)) in *.
    (* 4: transfer before demote / remove *)
    assert (H4 : lbr p = 0 \/ exists q, pm_get (b_cur b3) (lbr p) = Some q /\ prole q = Voter).
    { destruct Kl as [(Z0 & _)|(Nz & _ & _ & Hc)]; [left; exact Z0|right].
      rewrite Ec3, Ec2, Ec1.
      (* the promoted peer is a voter record *)
      assert (Hprole : forall x, p_promote p = Some x -> prole x = Voter /\ exists o, pm_get (b_cur b) (pstore x) = Some o).
      { intros x Hx. pose proof (pi_at _ _ P (pstore x)) as Q. unfold look, PIat in Q. rewrite (Kpro x Hx) in Q.
        destruct Q as (Qp & _). destruct (Qp x eq_refl) as (o & Ho & _ & En). split; [rewrite En; reflexivity|eauto]. }
      destruct Hc as [(q & Hq & Hro)|[(x & Hx & Hs)|(a & Ha & Hs & Hro)]].
      - (* a current voter *)
        destruct (p_promote p) as [x|] eqn:Epr.
        + rewrite get_set. destruct (lbr p =? pstore x) eqn:E1.
          * exists x. split; [reflexivity|]. apply (Hprole x eq_refl).
          * destruct (p_add p) as [a|] eqn:Ead.
            -- rewrite get_set. destruct (lbr p =? pstore a) eqn:E2.
               ++ apply Z.eqb_eq in E2. destruct (Kadd a eq_refl) as [_ C]. rewrite <- E2, Hq in C. discriminate.
               ++ eauto.
            -- eauto.
        + destruct (p_add p) as [a|] eqn:Ead.
          * rewrite get_set. destruct (lbr p =? pstore a) eqn:E2.
            -- apply Z.eqb_eq in E2. destruct (Kadd a eq_refl) as [_ C]. rewrite <- E2, Hq in C. discriminate.
            -- eauto.
          * eauto.
      - (* the promoted peer *)
        rewrite Hx. rewrite get_set, <- Hs, Z.eqb_refl. exists x. split; [reflexivity|]. apply (Hprole x Hx).
      - (* the added voter *)
        rewrite Ha. destruct (p_promote p) as [x|] eqn:Epr.
        + rewrite get_set. destruct (lbr p =? pstore x) eqn:E1.
          * exists x. split; [reflexivity|]. apply (Hprole x eq_refl).
          * rewrite get_set, <- Hs, Z.eqb_refl. eauto.
        + rewrite get_set, <- Hs, Z.eqb_refl. eauto. }
    destruct (stage_transfer T g r0 b3 r3 (lbr p) S3 P3 H4) as (r4 & S4 & P4 & V4 & L4 & Ec4 & Ea4 & Er4 & Ep4 & Ed4).
    set (b4 := maybe_transfer b3 (lbr p)) in *.
    assert (Hv4 : voters_new (peers r4) = voters_new (peers r) + up p) by (unfold up; lia).
    (* the leader is now away from whatever is demoted or removed *)
    assert (Hlead : forall x, (p_demote p = Some x \/ p_remove p = Some x) -> leader r4 <> pstore x).
    { intros x Hx. destruct Kl as [(Z0 & D0 & R0)|(Nz & N1 & N2 & _)].
      - destruct Hx as [Hx|Hx]; congruence.
      - rewrite L4. destruct (lbr p =? 0) eqn:E; [apply Z.eqb_eq in E; contradiction|].
        destruct Hx as [Hx|Hx]; [rewrite Hx in N1|rewrite Hx in N2]; cbn [ostore] in *; assumption. }
    (* 5: demote *)
    assert (H5 : forall x, p_demote p = Some x -> pm_get (b_demote b4) (pstore x) = Some x /\ leader r4 <> pstore x).
    { intros x Hx. split; [rewrite Ed4, Ed3, Ed2, Ed1; apply Kdem; exact Hx|apply Hlead; left; exact Hx]. }
    assert (Hv5 : g_min_voters g + b2z (is_some (p_demote p)) <= voters_new (peers r4)).
    { rewrite Hv4. unfold down in Kv. pose proof (b2z_nonneg (match p_remove p with Some x => new_voter x | None => false end)). lia. }
    destruct (stage_demote T g r0 b4 r4 (p_demote p) S4 P4 H5 Hv5) as (r5 & S5 & P5 & V5 & L5 & Er5).
    set (b5 := do_demote b4 (p_demote p)) in *.
    (* 6: remove *)
    assert (H6 : forall x, p_remove p = Some x -> pm_get (b_remove b5) (pstore x) = Some x /\ leader r5 <> pstore x).
    { intros x Hx. split; [rewrite Er5, Er4, Er3, Er2, Er1; apply Krem; exact Hx|rewrite L5; apply Hlead; right; exact Hx]. }
    assert (Hv6 : g_min_voters g + b2z (match p_remove p with Some x => new_voter x | None => false end) <= voters_new (peers r5)).
    { rewrite V5, Hv4. unfold down in Kv. lia. }
    exact (stage_remove T g r0 b5 r5 (p_remove p) S5 P5 H6 Hv6).
  Qed.
End Round.

(* ---------- peerPlan's result satisfies the conditions of a round ---------- *)
Section Kind.
  Variables (T : pmap) (g : goal) (r0 : region).
  Hypothesis HTs : PSorted T.
  Hypothesis HTnj : NJ T.
  Hypothesis HTv : g_min_voters g <= voters_new T.

  Lemma in_ids_get (m : pmap) l : In l (pm_ids m) -> exists q, pm_get m l = Some q.
  Proof.
    intros H. unfold pm_get. fold (lk m l). destruct (lk m l) as [q|] eqn:E; [eauto|].
    apply lk_None in E. contradiction.
  Qed.

  Lemma allow_role b q f : allow_leader b q f = true -> prole q = Voter \/ prole q = Incoming.
  Proof. unfold allow_leader. rewrite no_leader_roles_ok. destruct (prole q); cbn; intros H; try discriminate; auto. Qed.

  Lemma allowed_voter b l : PInv T b -> Allowed b l -> exists q, pm_get (b_cur b) l = Some q /\ prole q = Voter.
  Proof.
    intros P [Hin Ha]. destruct (in_ids_get _ _ Hin) as (q & Hq). rewrite Hq in Ha. cbn [allow_leader_o] in Ha.
    exists q. split; [exact Hq|]. pose proof (pi_at _ _ P l) as Q. unfold look, PIat in Q. rewrite Hq in Q.
    destruct Q as (_ & _ & _ & _ & _ & Qc). destruct (Qc q eq_refl) as (_ & _ & [R|R]); [exact R|].
    destruct (allow_role _ _ _ Ha) as [R'|R']; congruence.
  Qed.

  Lemma allowed_after_voter b la l : PInv T b -> AllowedAfter b la l -> exists q, pm_get (b_cur b) l = Some q /\ prole q = Voter.
  Proof.
    intros P [Hin Ha]. destruct (in_ids_get _ _ Hin) as (q & Hq). unfold allow_leader_after in Ha. rewrite Hq in Ha. cbn [allow_leader_o] in Ha.
    exists q. split; [exact Hq|]. pose proof (pi_at _ _ P l) as Q. unfold look, PIat in Q. rewrite Hq in Q.
    destruct Q as (_ & _ & _ & _ & _ & Qc). destruct (Qc q eq_refl) as (_ & _ & [R|R]); [exact R|].
    destruct (allow_role _ _ _ Ha) as [R'|R']; congruence.
  Qed.

  Lemma allowed_after_nonzero b la l : PInv T b -> AllowedAfter b la l -> l <> 0.
  Proof.
    intros P A. destruct (allowed_after_voter b la l P A) as (q & Hq & _).
    pose proof (pi_at _ _ P l) as Q. unfold look, PIat in Q. rewrite Hq in Q.
    destruct Q as (_ & _ & _ & _ & _ & Qc). destruct (Qc q eq_refl) as (N & _). exact N.
  Qed.

  Lemma allowed_nonzero b l : PInv T b -> Allowed b l -> l <> 0.
  Proof.
    intros P A. destruct (allowed_voter b l P A) as (q & Hq & _).
    pose proof (pi_at _ _ P l) as Q. unfold look, PIat in Q. rewrite Hq in Q.
    destruct Q as (_ & _ & _ & _ & _ & Qc). apply (Qc q eq_refl).
  Qed.

  Lemma in_get (m : pmap) x : PSorted m -> In x m -> pm_get m (pstore x) = Some x.
  Proof. intros H Hin. apply lk_In; [apply PSorted_ND; exact H|exact Hin]. Qed.

  Lemma cur_free_get b st : cur_free b st = true -> pm_get (b_cur b) st = None.
  Proof. unfold cur_free. destruct (pm_get (b_cur b) st); [discriminate|reflexivity]. Qed.

  (* roles of the pending entries *)
  Lemma add_facts b a : PInv T b -> In a (b_add b) ->
    pm_get (b_add b) (pstore a) = Some a /\ (prole a = Voter \/ prole a = Learner)
    /\ (is_learner a = false -> pm_get (b_cur b) (pstore a) = None).
  Proof.
    intros P Hin. pose proof (in_get _ _ (pi_add_s _ _ P) Hin) as Ha. split; [exact Ha|].
    pose proof (pi_at _ _ P (pstore a)) as Q. unfold look, PIat in Q. rewrite Ha in Q.
    destruct Q as (_ & _ & _ & Qa & _). destruct (Qa a eq_refl) as (_ & _ & Hro & _ & _ & Hc). split; [exact Hro|].
    intros Hl. destruct Hc as [Hc|(_ & R)]; [exact Hc|]. apply is_learner_role in R. congruence.
  Qed.

  Lemma remove_facts b x : PInv T b -> In x (b_remove b) ->
    pm_get (b_remove b) (pstore x) = Some x /\ pm_get (b_cur b) (pstore x) = Some x /\ (prole x = Voter \/ prole x = Learner).
  Proof.
    intros P Hin. pose proof (in_get _ _ (pi_rem_s _ _ P) Hin) as Hx. split; [exact Hx|].
    pose proof (pi_at _ _ P (pstore x)) as Q. unfold look, PIat in Q. rewrite Hx in Q.
    destruct Q as (_ & _ & Qr & _ & _ & Qc). destruct (Qr x eq_refl) as (Hc & _). split; [exact Hc|].
    rewrite Hc in Qc. apply (Qc x eq_refl).
  Qed.

  Lemma promote_facts b x : PInv T b -> In x (b_promote b) ->
    pm_get (b_promote b) (pstore x) = Some x /\ prole x = Voter /\ exists o, pm_get (b_cur b) (pstore x) = Some o /\ prole o = Learner.
  Proof.
    intros P Hin. pose proof (in_get _ _ (pi_pro_s _ _ P) Hin) as Hx. split; [exact Hx|].
    pose proof (pi_at _ _ P (pstore x)) as Q. unfold look, PIat in Q. rewrite Hx in Q.
    destruct Q as (Qp & _). destruct (Qp x eq_refl) as (o & Ho & Hro & En). split; [rewrite En; reflexivity|eauto].
  Qed.

  Lemma demote_facts b x : PInv T b -> In x (b_demote b) ->
    pm_get (b_demote b) (pstore x) = Some x /\ exists o, pm_get (b_cur b) (pstore x) = Some o /\ prole o = Voter.
  Proof.
    intros P Hin. pose proof (in_get _ _ (pi_dem_s _ _ P) Hin) as Hx. split; [exact Hx|].
    pose proof (pi_at _ _ P (pstore x)) as Q. unfold look, PIat in Q. rewrite Hx in Q.
    destruct Q as (_ & Qd & _). destruct (Qd x eq_refl) as (o & Ho & Hro & En). eauto.
  Qed.

  Lemma NJ_new_voter x : (prole x = Voter \/ prole x = Learner) -> new_voter x = negb (is_learner x).
  Proof. intros [R|R]; unfold new_voter, is_learner; rewrite R; reflexivity. Qed.

  (* a lone demotion / voter removal leaves at least the target's voters *)
  Lemma voters_bound b r s q0 :
    Sim g r0 b r -> PInv T b -> b_promote b = [] -> (forall a, In a (b_add b) -> is_learner a = true) ->
    pm_get (b_cur b) s = Some q0 -> prole q0 = Voter ->
    (pm_get (b_demote b) s <> None \/ pm_get (b_remove b) s <> None) ->
    g_min_voters g + 1 <= voters_new (peers r).
  Proof.
    intros S P Hp0 Hadd Hq0 Hro Hpend.
    assert (X : voters_new T + 1 <= voters_new (peers r)).
    { unfold voters_new. apply (count_inj_strict new_voter new_voter T (peers r) s q0).
      - apply PSorted_ND. exact HTs.
      - apply (inv_nd _ _ (sim_inv _ _ _ _ S)).
      - intros p Hp Fp.
        assert (Hvp : prole p = Voter).
        { destruct (HTnj p Hp) as [R|R]; [exact R|]. unfold new_voter in Fp. rewrite R in Fp. discriminate. }
        pose proof (in_get _ _ HTs Hp) as HTp.
        pose proof (pi_at _ _ P (pstore p)) as Q. unfold look, PIat in Q.
        destruct Q as (Qp & Qd & Qr & Qa & Qf & Qc). rewrite HTp in Qf. cbn [option_map] in Qf. rewrite Hvp in Qf.
        assert (Epro : pm_get (b_promote b) (pstore p) = None) by (rewrite Hp0; reflexivity).
        rewrite Epro in *.
        destruct (pm_get (b_add b) (pstore p)) as [a|] eqn:Ea.
        { exfalso. cbn in Qf. assert (Hin : In a (b_add b)) by (apply (lk_Some _ _ _ Ea)).
          specialize (Hadd a Hin). apply is_learner_role in Hadd. congruence. }
        destruct (pm_get (b_remove b) (pstore p)) as [x|] eqn:Er; [cbn in Qf; discriminate|].
        destruct (pm_get (b_demote b) (pstore p)) as [d|] eqn:Ed; [cbn in Qf; discriminate|].
        cbn in Qf. destruct (pm_get (b_cur b) (pstore p)) as [q|] eqn:Ec; [|discriminate].
        cbn in Qf. split.
        + intros C. rewrite C in Ed, Er. destruct Hpend as [H|H]; contradiction.
        + exists q. split; [rewrite (sim_cur _ _ _ _ S); exact Ec|]. inversion Qf as [R]. unfold new_voter. rewrite R. reflexivity.
      - rewrite (sim_cur _ _ _ _ S). exact Hq0.
      - unfold new_voter. rewrite Hro. reflexivity. }
    lia.
  Qed.

  Lemma plan_kind_ok b r p : Sim g r0 b r -> PInv T b -> PlanKind b p -> PlanOK g b r p.
  Proof.
    intros S P K. pose proof (inv_new _ _ (sim_inv _ _ _ _ S)) as Hv.
    destruct K as [(next & HB & (Hsb & HAa & N1 & N2 & Hlr))|x rest Hp Ep|Hre Hp0 (d & l & Hd & HAl & Nl & Ep)|Hre Hp0 (x & l & Hx & HAl & Nl & Ep)|(a & l & Ha & Hf & HAl & Ep)].
    - (* a replace plan *)
      destruct Hsb as (Eadd & Erem & Epro & Edem).
      assert (Hlba : exists q, pm_get (b_cur b) (lba p) = Some q /\ prole q = Voter) by (apply allowed_voter; assumption).
      assert (Hnz : lbr p <> 0 -> True) by auto.
      (* shape-independent part of the leader condition *)
      assert (Hlbr : forall (Hz : lbr p <> 0),
                 (exists q, pm_get (b_cur b) (lbr p) = Some q /\ prole q = Voter)
                 \/ (exists x, p_promote p = Some x /\ pstore x = lbr p)
                 \/ (exists a, p_add p = Some a /\ pstore a = lbr p /\ prole a = Voter)).
      { intros _. destruct Hlr as [HA|[(I1 & I2 & I3)|(I1 & I2 & I3)]].
        - left. eapply allowed_after_voter; eassumption.
        - right. left. rewrite Epro. destruct (p_promote next) as [x|]; [|discriminate]. exists x. cbn [ostore] in I2. auto.
        - right. right. rewrite Eadd. destruct (p_add next) as [a|] eqn:Ea; [|discriminate]. exists a. cbn [ostore allow_leader_o] in *.
          split; [reflexivity|split; [auto|]].
          assert (Hin : In a (b_add b)).
          { destruct HB as [(d & pr & _ & _ & ->)|[(d & a' & _ & Ha' & _ & ->)|[(a' & x & Ha' & _ & _ & _ & ->)|[(pr & a' & x & _ & Ha' & _ & _ & _ & _ & ->)|(d & x & a' & _ & _ & Ha' & _ & _ & _ & ->)]]]];
              cbn in Ea; try discriminate; inversion Ea; subst; assumption. }
          destruct (add_facts b a P Hin) as (_ & [R|R] & _); [exact R|].
          destruct (allow_role _ _ _ I3) as [R'|R']; congruence. }
      assert (Hlbr0 : lbr p <> 0).
      { destruct Hlr as [HA|[(I1 & I2 & I3)|(I1 & I2 & I3)]].
        - eapply (allowed_after_nonzero b); eassumption.
        - destruct (p_promote next) as [x|] eqn:Ex; [|discriminate]. cbn [ostore] in I2. rewrite I2.
          assert (Hin : In x (b_promote b)).
          { destruct HB as [(d & pr & _ & Hpr & ->)|[(d & a' & _ & _ & _ & ->)|[(a' & x' & _ & _ & _ & _ & ->)|[(pr & a' & x' & Hpr & _ & _ & _ & _ & _ & ->)|(d & x' & a' & _ & _ & _ & _ & _ & _ & ->)]]]];
              cbn in Ex; try discriminate; inversion Ex; subst; assumption. }
          destruct (promote_facts b x P Hin) as (_ & _ & o & Ho & _).
          pose proof (pi_at _ _ P (pstore x)) as Q. unfold look, PIat in Q. rewrite Ho in Q.
          destruct Q as (_ & _ & _ & _ & _ & Qc). apply (Qc o eq_refl).
        - destruct (p_add next) as [a|] eqn:Ea; [|discriminate]. cbn [ostore] in I2. rewrite I2.
          assert (Hin : In a (b_add b)).
          { destruct HB as [(d & pr & _ & _ & ->)|[(d & a' & _ & Ha' & _ & ->)|[(a' & x & Ha' & _ & _ & _ & ->)|[(pr & a' & x & _ & Ha' & _ & _ & _ & _ & ->)|(d & x & a' & _ & _ & Ha' & _ & _ & _ & ->)]]]];
              cbn in Ea; try discriminate; inversion Ea; subst; assumption. }
          destruct (add_facts b a P Hin) as (Hga & _).
          pose proof (pi_at _ _ P (pstore a)) as Q. unfold look, PIat in Q. rewrite Hga in Q.
          destruct Q as (_ & _ & _ & Qa & _). apply (Qa a eq_refl). }
      destruct HB as [(d & pr & Hd & Hpr & ->)|[(d & a & Hd & Ha & Hl & ->)|[(a & x & Ha & Hx & Hl & Hf & ->)|[(pr & a & x & Hpr & Ha & Hx & Hla & Hlx & Hf & ->)|(d & x & a & Hd & Hx & Ha & Hlx & Hla & Hne & ->)]]]];
        cbn [p_add p_remove p_promote p_demote ostore] in *.
      + (* promote + demote *)
        destruct (promote_facts b pr P Hpr) as (G1 & _). destruct (demote_facts b d P Hd) as (G2 & _).
        constructor; try (right; exact Hlba); try (intros ? C; rewrite ?Eadd, ?Erem, ?Epro, ?Edem in C; try discriminate C; inversion C; subst; auto).
        * right. rewrite Edem, Erem. cbn [ostore]. auto.
        * unfold up, down. rewrite Eadd, Erem, Epro, Edem. cbn. lia.
      + (* add voter + demote *)
        destruct (add_facts b a P Ha) as (G1 & _ & G3). destruct (demote_facts b d P Hd) as (G2 & _).
        constructor; try (right; exact Hlba); try (intros ? C; rewrite ?Eadd, ?Erem, ?Epro, ?Edem in C; try discriminate C; inversion C; subst; auto).
        * right. rewrite Edem, Erem. cbn [ostore]. auto.
        * unfold up, down. rewrite Eadd, Erem, Epro, Edem. cbn. rewrite Hl. cbn. lia.
      + (* add + remove of the same kind *)
        destruct (add_facts b a P Ha) as (G1 & Ra & _). destruct (remove_facts b x P Hx) as (G2 & _ & Rx).
        constructor; try (right; exact Hlba); try (intros ? C; rewrite ?Eadd, ?Erem, ?Epro, ?Edem in C; try discriminate C; inversion C; subst; auto).
        * split; [exact G1|apply cur_free_get; exact Hf].
        * right. rewrite Edem, Erem. cbn [ostore]. auto.
        * unfold up, down. rewrite Eadd, Erem, Epro, Edem. cbn. rewrite (NJ_new_voter x Rx).
          destruct Hl as [Hl|Hsingle]; [rewrite Hl; destruct (is_learner a); cbn; lia|].
          destruct (is_learner a) eqn:Ela, (is_learner x) eqn:Elx; cbn; try lia.
          (* a learner replaces a voter, and nothing else is pending: the target has one voter less than now *)
          unfold single_replace in Hsingle. apply andb_true_iff in Hsingle as [Hsingle S4]. apply andb_true_iff in Hsingle as [Hsingle S3].
          apply andb_true_iff in Hsingle as [S1 S2]. apply Nat.eqb_eq in S1, S3.
          assert (Hp0 : b_promote b = []) by (destruct (b_promote b); [reflexivity|discriminate S3]).
          assert (Hall : forall a', In a' (b_add b) -> is_learner a' = true).
          { intros a' Ha'. destruct (b_add b) as [|a0 [|a1 l]]; try discriminate S1. destruct Ha as [<-|[]]. destruct Ha' as [<-|[]]. exact Ela. }
          destruct (remove_facts b x P Hx) as (_ & Hcx & _).
          assert (Hxv : prole x = Voter).
          { destruct Rx as [R|R]; [exact R|]. apply is_learner_role in R. congruence. }
          assert (Hpend : pm_get (b_demote b) (pstore x) <> None \/ pm_get (b_remove b) (pstore x) <> None) by (right; rewrite G2; discriminate).
          pose proof (voters_bound b r (pstore x) x S P Hp0 Hall Hcx Hxv Hpend). lia.
      + (* add learner + promote + remove voter *)
        destruct (add_facts b a P Ha) as (G1 & _ & _). destruct (remove_facts b x P Hx) as (G2 & _ & Rx).
        destruct (promote_facts b pr P Hpr) as (G3 & _).
        constructor; try (right; exact Hlba); try (intros ? C; rewrite ?Eadd, ?Erem, ?Epro, ?Edem in C; try discriminate C; inversion C; subst; auto).
        * split; [exact G1|apply cur_free_get; exact Hf].
        * right. rewrite Edem, Erem. cbn [ostore]. auto.
        * unfold up, down. rewrite Eadd, Erem, Epro, Edem. cbn. rewrite (NJ_new_voter x Rx), Hla, Hlx. cbn. lia.
      + (* add voter + demote + remove learner *)
        destruct (add_facts b a P Ha) as (G1 & _ & G1'). destruct (remove_facts b x P Hx) as (G2 & _ & Rx).
        destruct (demote_facts b d P Hd) as (G3 & _).
        constructor; try (right; exact Hlba); try (intros ? C; rewrite ?Eadd, ?Erem, ?Epro, ?Edem in C; try discriminate C; inversion C; subst; auto).
        * right. rewrite Edem, Erem. cbn [ostore]. auto.
        * unfold up, down. rewrite Eadd, Erem, Epro, Edem. cbn. rewrite (NJ_new_voter x Rx), Hla, Hlx. cbn. lia.
    - (* promote alone *)
      subst p. assert (Hin : In x (b_promote b)) by (rewrite Hp; left; reflexivity).
      destruct (promote_facts b x P Hin) as (G1 & _).
      constructor; cbn [lba lbr p_add p_remove p_promote p_demote]; auto; try (intros ? C; try discriminate C; inversion C; subst; auto).
      unfold up, down; cbn. lia.
    - (* demote alone *)
      subst p. destruct (demote_facts b d P Hd) as (G1 & o & Ho & Hro).
      destruct (allowed_voter b l P HAl) as (q & Hq & Hqr).
      assert (Hl0 : l <> 0) by (apply (allowed_nonzero b); assumption).
      constructor; cbn [lba lbr p_add p_remove p_promote p_demote ostore]; auto; try (intros ? C; try discriminate C; inversion C; subst; auto).
      + right. repeat split; auto. left. eauto.
      + unfold up, down; cbn.
        assert (Hall : forall a, In a (b_add b) -> is_learner a = true).
        { intros a Ha. destruct (is_learner a) eqn:El; [reflexivity|]. exfalso.
          assert (X : NE (plan_replace b)).
          { apply plan_replace_NE_of. left. exists d, a, l, l. repeat split; auto; try apply HAl; apply allowed_after_self; exact HAl. }
          unfold NE in X. congruence. }
        pose proof (voters_bound b r (pstore d) o S P Hp0 Hall Ho Hro) as B.
        assert (Hpend : pm_get (b_demote b) (pstore d) <> None \/ pm_get (b_remove b) (pstore d) <> None) by (left; rewrite G1; discriminate).
        specialize (B Hpend). lia.
    - (* remove alone *)
      subst p. destruct (remove_facts b x P Hx) as (G1 & Hc & Rx).
      destruct (allowed_voter b l P HAl) as (q & Hq & Hqr).
      assert (Hl0 : l <> 0) by (apply (allowed_nonzero b); assumption).
      constructor; cbn [lba lbr p_add p_remove p_promote p_demote ostore]; auto; try (intros ? C; try discriminate C; inversion C; subst; auto).
      + right. repeat split; auto. left. eauto.
      + unfold up, down; cbn. rewrite (NJ_new_voter x Rx). destruct (is_learner x) eqn:Elx; cbn; [lia|].
        assert (Hall : forall a, In a (b_add b) -> is_learner a = true).
        { intros a Ha. destruct (is_learner a) eqn:El; [reflexivity|]. exfalso.
          destruct (add_facts b a P Ha) as (_ & _ & Gf).
          assert (X : NE (plan_replace b)).
          { apply plan_replace_NE_of. right. exists a, x, l, l. repeat split; auto; try apply HAl; try congruence; try (apply allowed_after_self; exact HAl).
            unfold cur_free. rewrite (Gf El). reflexivity. }
          unfold NE in X. congruence. }
        assert (Hxv : prole x = Voter).
        { destruct Rx as [R|R]; [exact R|]. apply is_learner_role in R. congruence. }
        pose proof (voters_bound b r (pstore x) x S P Hp0 Hall Hc Hxv) as B.
        assert (Hpend : pm_get (b_demote b) (pstore x) <> None \/ pm_get (b_remove b) (pstore x) <> None) by (right; rewrite G1; discriminate).
        specialize (B Hpend). lia.
    - (* add alone *)
      subst p. destruct (add_facts b a P Ha) as (G1 & _ & _).
      destruct (allowed_voter b l P HAl) as (q & Hq & Hqr).
      constructor; cbn [lba lbr p_add p_remove p_promote p_demote ostore]; auto; try (intros ? C; try discriminate C; inversion C; subst; auto).
      + right. eauto.
      + split; [exact G1|apply cur_free_get; exact Hf].
      + unfold up, down; cbn. pose proof (b2z_nonneg (negb (is_learner a))). lia.
  Qed.
End Kind.
