(* C06 — the statements of props/C06.v in closed form (from the initial state). *)
From Coq Require Import Sorting.Sorted.
From PDV Require Import lib.Base lib.C07_Key gen.Gen_C06 model.C07_BTreeSpec model.C07_Region
  proof.C07_Sorted proof.C07_Tree proof.C07_RegionProof proof.C07_Spec
  model.C06_Heartbeat proof.C06_HeartbeatProof proof.C06_Storage.
Local Open Scope Z_scope.

Definition reach (wb : bool) (ls : list hlabel) : hstate := exec hl_step (h_init wb) ls.

Lemma reach_inv wb ls : Inv (h_cache (reach wb ls)).
Proof. destruct (HInv_exec wb ls) as [I _]. exact I. Qed.

Theorem c_no_overlap wb ls :
  Forall validP (cached (h_cache (reach wb ls))) /\ StronglySorted before (cached (h_cache (reach wb ls))).
Proof. exact (no_overlap_pf wb ls). Qed.

Theorem c_epoch_step wb ls l h' id x x' :
  hl_step (reach wb ls) l = Some h' ->
  get_region (h_cache (reach wb ls)) id = Some x -> get_region (h_cache h') id = Some x' ->
  r_ver x <= r_ver x' /\ r_confver x <= r_confver x' /\ r_term x <= r_term x'.
Proof. apply epoch_monotone_step_pf. apply HInv_exec. Qed.

Theorem c_epochs_chain wb ls1 ls2 id x x' :
  always_served id (reach wb ls1) ls2 ->
  get_region (h_cache (reach wb ls1)) id = Some x ->
  get_region (h_cache (exec hl_step (reach wb ls1) ls2)) id = Some x' ->
  r_ver x <= r_ver x' /\ r_confver x <= r_confver x' /\ r_term x <= r_term x'.
Proof. apply epochs_monotone_chain_pf. apply HInv_exec. Qed.

Theorem c_ack_term wb ls t r :
  (forall h', begin (reach wb ls) t r = (h', HOk) ->
     exists x, get_region (h_cache h') (r_id r) = Some x /\ r_term r <= r_term x) /\
  (forall fl h' res, th_get (h_threads (reach wb ls)) t = Some (PLock r fl) -> 0 < r_term r ->
     step (reach wb ls) t = (h', res) -> res <> HErr ->
     exists x, get_region (h_cache h') (r_id r) = Some x /\ r_term r <= r_term x).
Proof.
  split.
  - intros h'. apply acknowledged_term_begin_pf.
  - intros fl h' res. apply acknowledged_term_step_pf. apply HInv_exec.
Qed.

Theorem c_precheck_is_stale wb ls r : valid_range r = true ->
  snd (precheck (h_cache (reach wb ls)) r) = stale_spec (cached (h_cache (reach wb ls))) r.
Proof. intros V. apply precheck_is_stale_pf; [apply reach_inv|exact V]. Qed.

Theorem c_stale_first wb ls t r :
  valid_range r = true -> th_get (h_threads (reach wb ls)) t = None ->
  stale_spec (cached (h_cache (reach wb ls))) r = true -> begin (reach wb ls) t r = (reach wb ls, HErr).
Proof. apply stale_rejected_begin_pf. apply HInv_exec. Qed.

Theorem c_stale_locked wb ls t r fl :
  th_get (h_threads (reach wb ls)) t = Some (PLock r fl) ->
  stale_spec (cached (h_cache (reach wb ls))) r = true ->
  exists h', step (reach wb ls) t = (h', HErr) /\ h_cache h' = h_cache (reach wb ls) /\ h_store h' = h_store (reach wb ls).
Proof. apply stale_rejected_step_pf. apply HInv_exec. Qed.

Theorem c_rejected_unchanged h t h' :
  (forall r, begin h t r = (h', HErr) -> h' = h) /\
  (step h t = (h', HErr) -> h_cache h' = h_cache h /\ h_store h' = h_store h).
Proof. split; [intros r; apply rejected_unchanged_begin_pf|apply rejected_unchanged_step_pf]. Qed.

Theorem c_displaced_cache wb ls r x :
  wf_region r = true -> In x (snd (put_region (h_cache (reach wb ls)) r)) ->
  get_region (fst (put_region (h_cache (reach wb ls)) r)) (r_id x) = None /\ In x (cached (h_cache (reach wb ls))).
Proof. apply displaced_gone_from_cache_put_pf. apply reach_inv. Qed.

Theorem c_storage_seq wb ops : Forall seq_op ops ->
  forall id, held (h_store (seq_ops wb ops)) id -> get_region (h_cache (seq_ops wb ops)) id <> None.
Proof. intros F. destruct (storage_subset_ops_pf wb ops F) as (_ & _ & (_ & S)). exact S. Qed.

Theorem c_storage_seq_load wb ops : Forall seq_op ops ->
  forall id x, load_region (h_store (seq_ops wb ops)) id = Some x -> get_region (h_cache (seq_ops wb ops)) id <> None.
Proof. intros F id x L. apply (c_storage_seq wb ops F). eapply load_held; eauto. Qed.

Theorem c_displaced_storage wb ops r x : Forall seq_op ops -> wf_region r = true ->
  get_region (h_cache (seq_ops wb ops)) (r_id x) <> None ->
  get_region (h_cache (fst (heartbeat (seq_ops wb ops) r))) (r_id x) = None ->
  load_region (h_store (fst (heartbeat (seq_ops wb ops) r))) (r_id x) = None /\ ~ held (h_store (fst (heartbeat (seq_ops wb ops) r))) (r_id x).
Proof.
  intros F W. destruct (storage_subset_ops_pf wb ops F) as (I & T & SS).
  apply displaced_gone_from_storage_seq_pf; auto. rewrite T. reflexivity.
Qed.
