(* C08 — what peerPlan can return: every candidate that reaches comparePlan satisfies the guards under which it
   was formed, and comparePlan returns one of its two arguments - so the chosen plan satisfies the guards of some
   candidate, whatever the preference functions say.  Also: when a replace candidate exists, planReplace is not
   empty (used to show that a lone demotion / voter removal happens only when no voter is waiting to be added). *)
From Coq Require Import String.
From PDV Require Import lib.Base gen.Gen_C08 model.C08_Steps model.C08_Builder proof.C08_ListFacts proof.C08_Skel.
Local Open Scope list_scope.
Local Open Scope Z_scope.

(* ---------- comparePlan returns one of its arguments ---------- *)
Lemma compare_by_cases b fs best next : compare_by b fs best next = best \/ compare_by b fs best next = next.
Proof.
  induction fs as [|f r IH]; cbn [compare_by]; [left; reflexivity|].
  destruct (plan_pref_of f b next <? plan_pref_of f b best); [left; reflexivity|].
  destruct (plan_pref_of f b best <? plan_pref_of f b next); [right; reflexivity|exact IH].
Qed.

Lemma compare_plan_cases b best next : compare_plan b best next = best \/ compare_plan b best next = next.
Proof. unfold compare_plan. destruct (plan_is_empty best); [right; reflexivity|apply compare_by_cases]. Qed.

Definition NE (p : splan) : Prop := plan_is_empty p = false.

Lemma compare_plan_NE b best next : NE next -> NE (compare_plan b best next).
Proof.
  intros H. unfold compare_plan. destruct (plan_is_empty best) eqn:E; [exact H|].
  destruct (compare_by_cases b plan_prefs best next) as [-> | ->]; assumption.
Qed.

Definition Chosen (Q : splan -> Prop) (best0 res : splan) : Prop := res = best0 \/ Q res.

Lemma chosen_refl Q a : Chosen Q a a.
Proof. left. reflexivity. Qed.

Lemma chosen_trans Q a b c : Chosen Q a b -> Chosen Q b c -> Chosen Q a c.
Proof. intros [->|H1] [->|H2]; unfold Chosen; auto. Qed.

Lemma chosen_mono (Q Q' : splan -> Prop) a b : (forall p, Q p -> Q' p) -> Chosen Q a b -> Chosen Q' a b.
Proof. intros H [->|H1]; unfold Chosen; auto. Qed.

Lemma compare_chosen (Q : splan -> Prop) b best next : Q next -> Chosen Q best (compare_plan b best next).
Proof. intros H. destruct (compare_plan_cases b best next) as [-> | ->]; unfold Chosen; auto. Qed.

Lemma fold_chosen {A} (Q : splan -> Prop) (f : splan -> A -> splan) l :
  (forall best x, In x l -> Chosen Q best (f best x)) -> forall best0, Chosen Q best0 (fold_left f l best0).
Proof.
  induction l as [|x r IH]; intros H best0; cbn [fold_left]; [apply chosen_refl|].
  eapply chosen_trans; [apply H; left; reflexivity|]. apply IH. intros best y Hy. apply H. right. exact Hy.
Qed.

Lemma fold_NE {A} (f : splan -> A -> splan) l :
  (forall best x, In x l -> NE best -> NE (f best x)) -> forall best0, NE best0 -> NE (fold_left f l best0).
Proof.
  induction l as [|x r IH]; intros H best0 H0; cbn [fold_left]; [exact H0|].
  apply IH; [intros best y Hy; apply H; right; exact Hy|]. apply H; [left; reflexivity|exact H0].
Qed.

Lemma fold_NE_hit {A} (f : splan -> A -> splan) l x0 :
  (forall best x, In x l -> NE best -> NE (f best x)) -> In x0 l -> (forall best, NE (f best x0)) ->
  forall best0, NE (fold_left f l best0).
Proof.
  induction l as [|x r IH]; intros H Hin Hhit best0; [contradiction|]. cbn [fold_left].
  destruct Hin as [->|Hin].
  - apply fold_NE; [intros best y Hy; apply H; right; exact Hy|apply Hhit].
  - apply IH; [intros best y Hy; apply H; right; exact Hy|exact Hin|exact Hhit].
Qed.

(* ---------- leaders ---------- *)
Definition Allowed (b : bstate) (l : Z) : Prop :=
  In l (pm_ids (b_cur b)) /\ allow_leader_o b (pm_get (b_cur b) l) false = true.

Definition AllowedAfter (b : bstate) (la l : Z) : Prop :=
  In l (pm_ids (b_cur b)) /\ allow_leader_after b (pm_get (b_cur b) l) la = true.

(* the store that leads after the first transfer is exempt from the store checks: it keeps the leadership *)
Lemma allowed_after_self b l : Allowed b l -> AllowedAfter b l l.
Proof.
  intros [Hin Ha]. split; [exact Hin|]. unfold allow_leader_after.
  destruct (pm_get (b_cur b) l) as [q|] eqn:Eq.
  - cbn [allow_leader_o] in *. unfold allow_leader in *. destruct (in_names (role_name (prole q)) no_leader_roles); [discriminate|].
    cbn [with_leader upd_exec b_cur_leader]. assert (Hs : pstore q = l) by (apply (lk_Some _ _ _ Eq)). rewrite Hs, Z.eqb_refl. reflexivity.
  - exfalso. unfold pm_get in Eq. fold (lk (b_cur b) l) in Eq. apply lk_None in Eq. contradiction.
Qed.

Definition same_body (p q : splan) : Prop :=
  p_add p = p_add q /\ p_remove p = p_remove q /\ p_promote p = p_promote q /\ p_demote p = p_demote q.

Lemma same_body_refl p : same_body p p.
Proof. repeat split. Qed.

Lemma NE_same_body p q : same_body p q -> NE q -> NE p.
Proof. intros (A & B & C & D). unfold NE, plan_is_empty. rewrite A, B, C, D. auto. Qed.

(* what planReplaceLeaders can make of a candidate *)
Definition QRL (b : bstate) (next p : splan) : Prop :=
  same_body p next /\ Allowed b (lba p)
  /\ lbr p <> ostore (p_demote next) /\ lbr p <> ostore (p_remove next)
  /\ (AllowedAfter b (lba p) (lbr p)
      \/ (is_some (p_promote next) = true /\ lbr p = ostore (p_promote next) /\ allow_leader_after b (p_promote next) (lba p) = true)
      \/ (is_some (p_add next) = true /\ lbr p = ostore (p_add next) /\ allow_leader_after b (p_add next) (lba p) = true)).

Lemma plan_replace_leaders_chosen b best next :
  Chosen (QRL b next) best (plan_replace_leaders b best next).
Proof.
  unfold plan_replace_leaders. apply fold_chosen. intros bst la Hla.
  destruct (negb (allow_leader_o b (pm_get (b_cur b) la) false)) eqn:Ea; [apply chosen_refl|].
  apply negb_false_iff in Ea.
  assert (HA : Allowed b la) by (split; assumption).
  cbv zeta.
  (* the inner loop over current peers *)
  match goal with |- Chosen _ _ (if _ then compare_plan _ (if _ then compare_plan _ ?F _ else _) _ else _) => set (F1 := F) end.
  assert (C1 : Chosen (QRL b next) bst F1).
  { unfold F1. apply (fold_chosen (QRL b next)). intros bs lr Hlr.
    match goal with |- Chosen _ _ (if ?c then _ else _) => destruct c eqn:G end; [|apply chosen_refl].
    apply compare_chosen. apply andb_true_iff in G as [G G3]. apply andb_true_iff in G as [G1 G2].
    apply negb_true_iff, Z.eqb_neq in G1, G2.
    unfold QRL. cbn [with_lbr with_lba lba lbr p_add p_remove p_promote p_demote] in *.
    repeat split; auto. all: try (left; split; assumption). }
  (* the promoted peer *)
  match goal with |- Chosen _ _ (if _ then compare_plan _ ?B _ else _) => set (B2 := B) end.
  assert (C2 : Chosen (QRL b next) bst B2).
  { unfold B2. match goal with |- Chosen _ _ (if ?c then _ else _) => destruct c eqn:G end; [|exact C1].
    eapply chosen_trans; [exact C1|]. apply compare_chosen.
    apply andb_true_iff in G as [G G4]. apply andb_true_iff in G as [G G3]. apply andb_true_iff in G as [G1 G2].
    apply negb_true_iff, Z.eqb_neq in G2, G3.
    unfold QRL. cbn [with_lbr with_lba lba lbr p_add p_remove p_promote p_demote] in *.
    repeat split; auto. all: try (right; left; auto). }
  (* the added peer *)
  match goal with |- Chosen _ _ (if ?c then _ else _) => destruct c eqn:G end; [|exact C2].
  eapply chosen_trans; [exact C2|]. apply compare_chosen.
  apply andb_true_iff in G as [G G4]. apply andb_true_iff in G as [G G3]. apply andb_true_iff in G as [G1 G2].
  apply negb_true_iff, Z.eqb_neq in G2, G3.
  unfold QRL. cbn [with_lbr with_lba lba lbr p_add p_remove p_promote p_demote] in *.
  repeat split; auto. all: try (right; right; auto).
Qed.

Lemma with_NE next la lr : NE next -> NE (with_lbr (with_lba next la) lr).
Proof. intros H. unfold NE, plan_is_empty in *. exact H. Qed.

Lemma plan_replace_leaders_NE_keep b best next : NE next -> NE best -> NE (plan_replace_leaders b best next).
Proof.
  intros Hn Hb. unfold plan_replace_leaders. apply fold_NE; [|exact Hb]. intros bst la _ Hbst.
  destruct (negb (allow_leader_o b (pm_get (b_cur b) la) false)); [exact Hbst|].
  assert (H1 : NE (fold_left (fun best0 lr =>
                 if negb (lr =? ostore (p_demote (with_lba next la))) && negb (lr =? ostore (p_remove (with_lba next la)))
                    && allow_leader_after b (pm_get (b_cur b) lr) la
                 then compare_plan b best0 (with_lbr (with_lba next la) lr) else best0) (pm_ids (b_cur b)) bst)).
  { apply fold_NE; [|exact Hbst]. intros bs lr _ Hbs.
    match goal with |- NE (if ?c then _ else _) => destruct c end; [apply compare_plan_NE, with_NE, Hn|exact Hbs]. }
  match goal with |- NE (if ?c then _ else ?e) => destruct c end.
  - apply compare_plan_NE, with_NE, Hn.
  - match goal with |- NE (if ?c then _ else _) => destruct c end; [apply compare_plan_NE, with_NE, Hn|exact H1].
Qed.

(* a pair of admissible leaders makes planReplaceLeaders return something *)
Lemma plan_replace_leaders_NE_hit b best next la lr :
  NE next -> Allowed b la -> AllowedAfter b la lr -> lr <> ostore (p_demote next) -> lr <> ostore (p_remove next) ->
  NE (plan_replace_leaders b best next).
Proof.
  intros Hn [Hla Ala] [Hlr Alr] N1 N2. unfold plan_replace_leaders.
  apply (fold_NE_hit _ _ la); [| exact Hla |].
  - intros bst x _ Hbst.
    destruct (negb (allow_leader_o b (pm_get (b_cur b) x) false)); [exact Hbst|].
    assert (H1 : NE (fold_left (fun best0 l =>
                   if negb (l =? ostore (p_demote (with_lba next x))) && negb (l =? ostore (p_remove (with_lba next x)))
                      && allow_leader_after b (pm_get (b_cur b) l) x
                   then compare_plan b best0 (with_lbr (with_lba next x) l) else best0) (pm_ids (b_cur b)) bst)).
    { apply fold_NE; [|exact Hbst]. intros bs l _ Hbs.
      match goal with |- NE (if ?c then _ else _) => destruct c end; [apply compare_plan_NE, with_NE, Hn|exact Hbs]. }
    match goal with |- NE (if ?c then _ else ?e) => destruct c end.
    + apply compare_plan_NE, with_NE, Hn.
    + match goal with |- NE (if ?c then _ else _) => destruct c end; [apply compare_plan_NE, with_NE, Hn|exact H1].
  - intros bst. rewrite Ala. cbn [negb].
    assert (H1 : NE (fold_left (fun best0 l =>
                   if negb (l =? ostore (p_demote (with_lba next la))) && negb (l =? ostore (p_remove (with_lba next la)))
                      && allow_leader_after b (pm_get (b_cur b) l) la
                   then compare_plan b best0 (with_lbr (with_lba next la) l) else best0) (pm_ids (b_cur b)) bst)).
    { apply (fold_NE_hit _ _ lr); [| exact Hlr |].
      - intros bs l _ Hbs.
        match goal with |- NE (if ?c then _ else _) => destruct c end; [apply compare_plan_NE, with_NE, Hn|exact Hbs].
      - intros bs. cbn [with_lba p_demote p_remove]. rewrite Alr.
        destruct (lr =? ostore (p_demote next)) eqn:E1; [apply Z.eqb_eq in E1; contradiction|].
        destruct (lr =? ostore (p_remove next)) eqn:E2; [apply Z.eqb_eq in E2; contradiction|].
        cbn [negb andb]. apply compare_plan_NE, with_NE, Hn. }
    match goal with |- NE (if ?c then _ else ?e) => destruct c end.
    + apply compare_plan_NE, with_NE, Hn.
    + match goal with |- NE (if ?c then _ else _) => destruct c end; [apply compare_plan_NE, with_NE, Hn|exact H1].
Qed.

(* ---------- planReplace ---------- *)
Definition Body (b : bstate) (next : splan) : Prop :=
  (exists d pr, In d (b_demote b) /\ In pr (b_promote b) /\ next = SPlan 0 0 None None (Some pr) (Some d))
  \/ (exists d a, In d (b_demote b) /\ In a (b_add b) /\ is_learner a = false /\ next = SPlan 0 0 (Some a) None None (Some d))
  \/ (exists a x, In a (b_add b) /\ In x (b_remove b) /\ (is_learner x = is_learner a \/ single_replace b = true)
                  /\ cur_free b (pstore a) = true /\ next = SPlan 0 0 (Some a) (Some x) None None)
  \/ (exists pr a x, In pr (b_promote b) /\ In a (b_add b) /\ In x (b_remove b) /\ is_learner a = true /\ is_learner x = false
                     /\ cur_free b (pstore a) = true /\ next = SPlan 0 0 (Some a) (Some x) (Some pr) None)
  \/ (exists d x a, In d (b_demote b) /\ In x (b_remove b) /\ In a (b_add b) /\ is_learner x = true /\ is_learner a = false
                    /\ pstore x <> pstore a /\ next = SPlan 0 0 (Some a) (Some x) None (Some d)).

Definition QR (b : bstate) (p : splan) : Prop := exists next, Body b next /\ QRL b next p.

Lemma prl_QR b best next : Body b next -> Chosen (QR b) best (plan_replace_leaders b best next).
Proof.
  intros HB. eapply chosen_mono; [|apply plan_replace_leaders_chosen]. intros p Hp. exists next. auto.
Qed.

Lemma fold_chosen' {A} (Q : splan -> Prop) (f : splan -> A -> splan) l a best0 :
  Chosen Q a best0 -> (forall best x, In x l -> Chosen Q best (f best x)) -> Chosen Q a (fold_left f l best0).
Proof. intros H0 H. eapply chosen_trans; [exact H0|apply fold_chosen; exact H]. Qed.

Lemma plan_replace_chosen b : Chosen (QR b) empty_plan (plan_replace b).
Proof.
  unfold plan_replace. cbv zeta.
  apply fold_chosen'; [apply fold_chosen'; [apply fold_chosen'; [apply fold_chosen'; [apply fold_chosen'; [apply chosen_refl|]|]|]|]|].
  - intros b1 d Hd. apply (fold_chosen (QR b)). intros b2 pr Hpr.
    apply prl_QR. left. eauto.
  - intros b1 d Hd. apply (fold_chosen (QR b)). intros b2 a Ha.
    destruct (negb (is_learner a)) eqn:E; [|apply chosen_refl]. apply negb_true_iff in E.
    apply prl_QR. right. left. exists d, a. auto.
  - intros b1 a Ha. apply (fold_chosen (QR b)). intros b2 x Hx.
    destruct ((Bool.eqb (is_learner x) (is_learner a) || single_replace b) && cur_free b (pstore a)) eqn:E; [|apply chosen_refl].
    apply andb_true_iff in E as [E1 E2].
    apply prl_QR. right. right. left. exists a, x. repeat split; auto.
    apply orb_true_iff in E1 as [E1|E1]; [left; apply Bool.eqb_prop; exact E1|right; exact E1].
  - intros b1 pr Hpr. apply (fold_chosen (QR b)). intros b2 a Ha.
    destruct (is_learner a) eqn:El; [|apply chosen_refl].
    apply (fold_chosen (QR b)). intros b3 x Hx.
    destruct (negb (is_learner x) && cur_free b (pstore a)) eqn:E; [|apply chosen_refl].
    apply andb_true_iff in E as [E1 E2]. apply negb_true_iff in E1.
    apply prl_QR. right. right. right. left. exists pr, a, x. auto 10.
  - intros b1 d Hd. apply (fold_chosen (QR b)). intros b2 x Hx.
    destruct (is_learner x) eqn:El; [|apply chosen_refl].
    apply (fold_chosen (QR b)). intros b3 a Ha.
    destruct (negb (is_learner a) && negb (pstore x =? pstore a)) eqn:E; [|apply chosen_refl].
    apply andb_true_iff in E as [E1 E2]. apply negb_true_iff in E1. apply negb_true_iff, Z.eqb_neq in E2.
    apply prl_QR. right. right. right. right. exists d, x, a. auto 10.
Qed.

(* every accumulator step of planReplace keeps a non-empty best *)
Lemma plan_replace_NE_of b :
  (exists d a la lr, In d (b_demote b) /\ In a (b_add b) /\ is_learner a = false
                     /\ Allowed b la /\ AllowedAfter b la lr /\ lr <> pstore d /\ lr <> 0)
  \/ (exists a x la lr, In a (b_add b) /\ In x (b_remove b) /\ is_learner x = is_learner a /\ cur_free b (pstore a) = true
                        /\ Allowed b la /\ AllowedAfter b la lr /\ lr <> pstore x /\ lr <> 0) ->
  NE (plan_replace b).
Proof.
  intros H. unfold plan_replace. cbv zeta.
  (* group steps keep non-emptiness *)
  assert (K3 : forall bst, NE bst -> NE (fold_left (fun best p => fold_left (fun best a =>
                  if is_learner a then
                    fold_left (fun best r =>
                      if negb (is_learner r) && cur_free b (pstore a)
                      then plan_replace_leaders b best (SPlan 0 0 (Some a) (Some r) (Some p) None) else best) (b_remove b) best
                  else best) (b_add b) best) (b_promote b) bst)).
  { intros bst Hb. apply fold_NE; [|exact Hb]. intros b1 p _ H1. apply fold_NE; [|exact H1]. intros b2 a _ H2.
    destruct (is_learner a); [|exact H2]. apply fold_NE; [|exact H2]. intros b3 r _ H3.
    match goal with |- NE (if ?c then _ else _) => destruct c end; [|exact H3].
    apply plan_replace_leaders_NE_keep; [reflexivity|exact H3]. }
  assert (K4 : forall bst, NE bst -> NE (fold_left (fun best d => fold_left (fun best r =>
      if is_learner r then
        fold_left (fun best a =>
          if negb (is_learner a) && negb (pstore r =? pstore a)
          then plan_replace_leaders b best (SPlan 0 0 (Some a) (Some r) None (Some d)) else best) (b_add b) best
      else best) (b_remove b) best) (b_demote b) bst)).
  { intros bst Hb. apply fold_NE; [|exact Hb]. intros b1 d _ H1. apply fold_NE; [|exact H1]. intros b2 r _ H2.
    destruct (is_learner r); [|exact H2]. apply fold_NE; [|exact H2]. intros b3 a _ H3.
    match goal with |- NE (if ?c then _ else _) => destruct c end; [|exact H3].
    apply plan_replace_leaders_NE_keep; [reflexivity|exact H3]. }
  assert (K2 : forall bst, NE bst -> NE (fold_left (fun best a => fold_left (fun best r =>
                  if (Bool.eqb (is_learner r) (is_learner a) || single_replace b) && cur_free b (pstore a)
                  then plan_replace_leaders b best (SPlan 0 0 (Some a) (Some r) None None) else best) (b_remove b) best)
                (b_add b) bst)).
  { intros bst Hb. apply fold_NE; [|exact Hb]. intros b1 a _ H1. apply fold_NE; [|exact H1]. intros b2 r _ H2.
    match goal with |- NE (if ?c then _ else _) => destruct c end; [|exact H2].
    apply plan_replace_leaders_NE_keep; [reflexivity|exact H2]. }
  apply K4, K3.
  destruct H as [(d & a & la & lr & Hd & Ha & El & A1 & A2 & N1 & N2)|(a & x & la & lr & Ha & Hx & El & Ef & A1 & A2 & N1 & N2)].
  - apply K2.
    apply (fold_NE_hit _ _ d); [| exact Hd |].
    + intros b1 d' _ H1. apply fold_NE; [|exact H1]. intros b2 a' _ H2.
      destruct (negb (is_learner a')); [|exact H2]. apply plan_replace_leaders_NE_keep; [reflexivity|exact H2].
    + intros b1. apply (fold_NE_hit _ _ a); [| exact Ha |].
      * intros b2 a' _ H2. destruct (negb (is_learner a')); [|exact H2]. apply plan_replace_leaders_NE_keep; [reflexivity|exact H2].
      * intros b2. rewrite El. cbn [negb].
        apply (plan_replace_leaders_NE_hit b b2 _ la lr); [reflexivity|exact A1|exact A2|exact N1|exact N2].
  - apply (fold_NE_hit _ _ a); [| exact Ha |].
    + intros b1 a' _ H1. apply fold_NE; [|exact H1]. intros b2 r _ H2.
      match goal with |- NE (if ?c then _ else _) => destruct c end; [|exact H2].
      apply plan_replace_leaders_NE_keep; [reflexivity|exact H2].
    + intros b1. apply (fold_NE_hit _ _ x); [| exact Hx |].
      * intros b2 r _ H2. match goal with |- NE (if ?c then _ else _) => destruct c end; [|exact H2].
        apply plan_replace_leaders_NE_keep; [reflexivity|exact H2].
      * intros b2. rewrite El, Ef. rewrite Bool.eqb_reflx. cbn [andb orb].
        apply (plan_replace_leaders_NE_hit b b2 _ la lr); [reflexivity|exact A1|exact A2|exact N2|exact N1].
Qed.

(* ---------- the single-change plans ---------- *)
Definition QD (b : bstate) (p : splan) : Prop :=
  exists d l, In d (b_demote b) /\ Allowed b l /\ l <> pstore d /\ p = SPlan 0 l None None None (Some d).
Definition QRm (b : bstate) (p : splan) : Prop :=
  exists x l, In x (b_remove b) /\ Allowed b l /\ l <> pstore x /\ p = SPlan 0 l None (Some x) None None.
Definition QA (b : bstate) (p : splan) : Prop :=
  exists a l, In a (b_add b) /\ cur_free b (pstore a) = true /\ Allowed b l /\ p = SPlan l 0 (Some a) None None None.

Lemma plan_demote_chosen b : Chosen (QD b) empty_plan (plan_demote_peer b).
Proof.
  unfold plan_demote_peer. apply (fold_chosen (QD b)). intros b1 d Hd. apply (fold_chosen (QD b)). intros b2 l Hl.
  match goal with |- Chosen _ _ (if ?c then _ else _) => destruct c eqn:G end; [|apply chosen_refl].
  apply andb_true_iff in G as [G1 G2]. apply negb_true_iff, Z.eqb_neq in G2.
  apply compare_chosen. exists d, l. repeat split; auto.
Qed.

Lemma plan_remove_chosen b : Chosen (QRm b) empty_plan (plan_remove_peer b).
Proof.
  unfold plan_remove_peer. apply (fold_chosen (QRm b)). intros b1 x Hx. apply (fold_chosen (QRm b)). intros b2 l Hl.
  match goal with |- Chosen _ _ (if ?c then _ else _) => destruct c eqn:G end; [|apply chosen_refl].
  apply andb_true_iff in G as [G1 G2]. apply negb_true_iff, Z.eqb_neq in G2.
  apply compare_chosen. exists x, l. repeat split; auto.
Qed.

Lemma plan_add_chosen b : Chosen (QA b) empty_plan (plan_add_peer b).
Proof.
  unfold plan_add_peer. apply (fold_chosen (QA b)). intros b1 a Ha.
  destruct (negb (cur_free b (pstore a))) eqn:Ef; [apply chosen_refl|]. apply negb_false_iff in Ef.
  apply (fold_chosen (QA b)). intros b2 l Hl.
  match goal with |- Chosen _ _ (if ?c then _ else _) => destruct c eqn:G end; [|apply chosen_refl].
  apply compare_chosen. exists a, l. repeat split; auto.
Qed.

Lemma chosen_from_empty Q p : Chosen Q empty_plan p -> NE p -> Q p.
Proof. intros [->|H] N; [discriminate N|exact H]. Qed.

(* ---------- peerPlan ---------- *)
Inductive PlanKind (b : bstate) (p : splan) : Prop :=
| PKReplace : QR b p -> PlanKind b p
| PKPromote x rest : b_promote b = x :: rest -> p = SPlan 0 0 None None (Some x) None -> PlanKind b p
| PKDemote : plan_is_empty (plan_replace b) = true -> b_promote b = [] -> QD b p -> PlanKind b p
| PKRemove : plan_is_empty (plan_replace b) = true -> b_promote b = [] -> QRm b p -> PlanKind b p
| PKAdd : QA b p -> PlanKind b p.

Lemma peer_plan_spec b : NE (peer_plan b) -> PlanKind b (peer_plan b).
Proof.
  unfold peer_plan. rewrite plan_order_ok. cbn [first_plan plan_fn_of String.eqb Ascii.eqb Bool.eqb].
  destruct (plan_is_empty (plan_replace b)) eqn:E1.
  2:{ intros _. apply PKReplace. apply (chosen_from_empty _ _ (plan_replace_chosen b)). exact E1. }
  destruct (plan_is_empty (plan_promote_peer b)) eqn:E2.
  2:{ intros _. unfold plan_promote_peer in *. destruct (b_promote b) as [|x rest] eqn:Ep; [discriminate E2|].
      eapply PKPromote; eauto. }
  assert (Ep : b_promote b = []).
  { unfold plan_promote_peer in E2. destruct (b_promote b); [reflexivity|discriminate E2]. }
  destruct (plan_is_empty (plan_demote_peer b)) eqn:E3.
  2:{ intros _. apply PKDemote; auto. apply (chosen_from_empty _ _ (plan_demote_chosen b)). exact E3. }
  destruct (plan_is_empty (plan_remove_peer b)) eqn:E4.
  2:{ intros _. apply PKRemove; auto. apply (chosen_from_empty _ _ (plan_remove_chosen b)). exact E4. }
  destruct (plan_is_empty (plan_add_peer b)) eqn:E5.
  2:{ intros _. apply PKAdd. apply (chosen_from_empty _ _ (plan_add_chosen b)). exact E5. }
  intros C. discriminate C.
Qed.
