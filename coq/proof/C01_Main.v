(* C01/C02: the combined invariant over step_r (= step: every storage outcome), and the statements. *)
From Coq Require Import ZArith List Bool Lia.
From PDV Require Import lib.Base gen.Gen_C01 model.C01_Tso proof.C01_Ctl proof.C01_Win proof.C01_Rec.
Import ListNotations.
Local Open Scope Z_scope.

Arguments Z.shiftr : simpl never.
Arguments Z.land : simpl never.
Arguments Z.ones : simpl never.
Arguments Z.div : simpl never.
Arguments save_txn : simpl never.
Arguments set_physical : simpl never.
Arguments need_save : simpl never.
Arguments busy : simpl never.
Arguments has_pending : simpl never.
Arguments save_busy : simpl never.
Arguments locked : simpl never.

Lemma save_txn_interval s m o t : interval (fst (save_txn s m o t)) = interval s /\ gap_ms (fst (save_txn s m o t)) = gap_ms s.
Proof. destruct (save_txn_shape s m o t) as [w ->]. auto. Qed.

Lemma interval_step0 s l s' : step0 s l = Some s' -> interval s' = interval s.
Proof.
  intros H. destruct l; cbn in H;
  repeat match type of H with
  | context [save_txn ?s ?m ?o ?t] =>
      let E := fresh "E" in
      destruct (save_txn s m o t) as [s1 a] eqn:E;
      let Hi := fresh "Hi" in pose proof (save_txn_interval s m o t) as [Hi _]; rewrite E in Hi; cbn in Hi
  | context [match ?x with _ => _ end] => destruct x; try discriminate
  end; inj; cbn; auto.
Qed.

(* fit of the logical part of granted ranges *)
Definition Gfit (s : state) : Prop := forall r te, In r (recs s) -> gst r = Granted te -> gL r < max_logical.

Lemma gfit_step0 s l s' : Gfit s -> step0 s l = Some s' -> Gfit s'.
Proof.
  intros I H.
  assert (Hsame : recs s' = recs s -> Gfit s') by (intros E r te; rewrite E; apply I).
  destruct l; cbn in H;
  try solve [ repeat match type of H with
              | context [save_txn ?s ?m ?o ?t] => destruct (save_txn_shape s m o t) as [w Hw]; destruct (save_txn s m o t) as [s1 a]; cbn in Hw; subst s1
              | context [match ?x with _ => _ end] => destruct x; try discriminate
              end; inj; apply Hsame; reflexivity ].
  - (* LGen *)
    destruct (phys (mems s m)); [|discriminate]. destruct (negb (locked (mems s m)) && (0 <? count)); [|discriminate]. inj.
    intros r te [<-|Hr]; cbn; [discriminate|apply I; exact Hr].
  - (* LRespond *)
    destruct (nth_error (recs s) i) as [r0|] eqn:En; [|discriminate].
    destruct (Nat.eqb (gm r0) m && is_pending r0); [|discriminate]. inj.
    intros r te Hr Hg. cbn in Hr. destruct (in_set_nth _ _ _ _ Hr) as [Hr1|(r1 & Hn1 & ->)]; [eapply I; eauto|].
    rewrite En in Hn1. inversion Hn1; subst r1. cbn in *.
    destruct (max_logical <=? gL r0) eqn:E; [discriminate|]. apply Z.leb_gt in E. exact E.
Qed.

Record Inv (s : state) : Prop := { i_ctl : Ctl s; i_cfg : Cfg s; i_win : Win s; i_rec : Rinv s; i_fit : Gfit s }.

Lemma ctl_bump s : Ctl s -> Ctl (bump s).
Proof. intros [E2 NONE FL SYN UR PEND]. constructor; auto. Qed.

Lemma win_bump s : Win s -> Win (bump s).
Proof. intros I. apply (win_ext s); auto 10. Qed.

Lemma step_bump s l s' : step s l = Some s' -> exists s1, step0 s l = Some s1 /\ s' = bump s1.
Proof. unfold step. destruct (step0 s l) as [s1|]; [|discriminate]. intros H; inj. exists s1. auto. Qed.

Lemma step_of_step_r s l s' : step_r s l = Some s' -> step s l = Some s'.
Proof. unfold step_r. auto. Qed.

Theorem inv_step_r s l s' : Inv s -> step_r s l = Some s' -> Inv s'.
Proof.
  intros [C G Wn R F] H. pose proof (step_of_step_r _ _ _ H) as H1.
  destruct (step_bump _ _ _ H1) as (s1 & H0 & ->).
  constructor.
  - apply ctl_bump. eapply ctl_step0; eauto.
  - unfold Cfg in *. cbn. rewrite (interval_step0 _ _ _ H0). exact G.
  - apply win_bump. eapply win_step0; eauto.
  - eapply rinv_step0; eauto.
  - intros r te. cbn. eapply gfit_step0; eauto.
Qed.

Lemma inv_init iv gap : guard < iv -> Inv (init iv gap).
Proof.
  intros H. constructor; [apply ctl_init|exact H|apply win_init|apply rinv_init|].
  intros r te Hr; destruct Hr.
Qed.

Theorem inv_exec iv gap ls : guard < iv -> Inv (exec step_r (init iv gap) ls).
Proof. intros H. apply invariant_exec; [exact inv_step_r|apply inv_init; exact H]. Qed.

(* ---------------- statements ---------------- *)

Lemma ordered_by_tb l :
  ordered l -> tb_sorted l ->
  forall r1 r2, In r1 l -> In r2 l -> glegit r1 = true -> glegit r2 = true -> (gtb r1 < gtb r2)%nat -> below r1 r2.
Proof.
  induction l as [|r0 t IH]; cbn; [tauto|].
  intros [Ho Hot] [Hs Hst] r1 r2 [<-|H1] [<-|H2] L1 L2 Hlt.
  - lia.
  - specialize (Hs _ H2). lia.
  - apply Ho; auto.
  - apply IH; auto.
Qed.

Lemma granted_ordered s r1 r2 te1 te2 :
  Inv s -> In r1 (recs s) -> In r2 (recs s) -> gst r1 = Granted te1 -> gst r2 = Granted te2 ->
  (gtb r1 < gtb r2)%nat -> below r1 r2.
Proof.
  intros [_ _ _ R _] H1 H2 G1 G2 Hlt.
  eapply ordered_by_tb; eauto using (r_ord _ R), (r_srt _ R), (r_g _ R).
Qed.

Lemma granted_realtime s r1 r2 te1 te2 :
  Inv s -> In r1 (recs s) -> In r2 (recs s) -> gst r1 = Granted te1 -> gst r2 = Granted te2 ->
  (te1 < gtb r2)%nat -> below r1 r2.
Proof.
  intros I H1 H2 G1 G2 Hlt. eapply granted_ordered; eauto.
  destruct (r_te _ (i_rec _ I) _ _ H1 G1). lia.
Qed.

Lemma granted_fits s r te :
  Inv s -> In r (recs s) -> gst r = Granted te -> 0 < gL r - gcount r + 1 /\ gL r < max_logical.
Proof.
  intros I H G. split; [|eapply (i_fit _ I); eauto]. destruct (r_cnt _ (i_rec _ I) _ H). lia.
Qed.

Lemma window_bound s r : Inv s -> In r (recs s) -> exists w, W s = Some w /\ gP r * ns_per_ms < w.
Proof. intros I H. apply (r_e1 _ (i_rec _ I) _ H). Qed.

Lemma window_monotone s l s' : Inv s -> step_r s l = Some s' -> opt_le (W s) (W s').
Proof.
  intros [C G Wn R F] H. pose proof (step_of_step_r _ _ _ H) as H1.
  destruct (step_bump _ _ _ H1) as (s1 & H0 & ->). cbn. eapply wmono_step0; eauto.
Qed.

(* tsoutil.ComposeTS on a range that fits: order preserving *)
Lemma land_ones_small l : 0 <= l < 2 ^ 18 -> Z.land l (Z.ones 18) = l.
Proof. intros H. rewrite Z.land_ones by lia. apply Z.mod_small. exact H. Qed.

Lemma land_shift_disjoint p l : 0 <= l < 2 ^ 18 -> Z.land (p * 2 ^ 18) l = 0.
Proof.
  intros Hl. apply Z.bits_inj'. intros n Hn. rewrite Z.land_spec, Z.bits_0.
  destruct (Z.lt_ge_cases n 18).
  - rewrite Z.mul_pow2_bits_low by lia. reflexivity.
  - destruct (Z.eq_dec l 0) as [->|Hne]; [rewrite Z.bits_0; apply andb_false_r|].
    rewrite (Z.bits_above_log2 l n); [apply andb_false_r|lia|].
    assert (Z.log2 l < 18) by (apply Z.log2_lt_pow2; lia). lia.
Qed.

Lemma compose_small p l : 0 <= p < 2 ^ 46 -> 0 <= l < 2 ^ 18 -> compose_ts p l = p * 2 ^ 18 + l.
Proof.
  intros Hp Hl. unfold compose_ts. rewrite (land_ones_small l Hl).
  rewrite Z.shiftl_mul_pow2 by lia.
  assert (E : (p * 2 ^ 18) mod 2 ^ 64 = p * 2 ^ 18).
  { apply Z.mod_small. change (2 ^ 46) with 70368744177664 in Hp. change (2 ^ 18) with 262144.
    change (2 ^ 64) with 18446744073709551616. lia. }
  rewrite E. pose proof (land_shift_disjoint p l Hl) as Hd.
  rewrite <- Z.lxor_lor by exact Hd. symmetry. apply Z.add_nocarry_lxor. exact Hd.
Qed.

Lemma compose_monotone p1 l1 p2 l2 :
  0 <= p1 < 2 ^ 46 -> 0 <= p2 < 2 ^ 46 -> 0 <= l1 < 2 ^ 18 -> 0 <= l2 < 2 ^ 18 ->
  lt_pl p1 l1 p2 l2 -> compose_ts p1 l1 < compose_ts p2 l2.
Proof.
  intros H1 H2 H3 H4 Hlt. rewrite !compose_small by assumption. unfold lt_pl in Hlt.
  change (2 ^ 18) with 262144 in *. lia.
Qed.

(* a window save changes nothing but the stored window: in particular a failed or unacknowledged save
   advances neither the physical nor the logical time; the step function then creates no pending
   setTSOPhysical for that call (SyncSave -> SIdle/CFailed, UpdSave -> UIdle, URSave -> RIdle) *)
Lemma save_keeps_memory s m o t : mems (fst (save_txn s m o t)) = mems s.
Proof. destruct (save_txn_shape s m o t) as [w ->]. reflexivity. Qed.

Lemma failed_upd_save_no_advance s m o s' :
  step0 s (LUpdSave m o) = Some s' -> (forall n, upd (mems s' m) <> UPendSet n) ->
  phys (mems s' m) = phys (mems s m) /\ logical (mems s' m) = logical (mems s m) /\ last_saved (mems s' m) = last_saved (mems s m).
Proof.
  cbn. destruct (upd (mems s m)) as [| |next|]; try discriminate.
  destruct (save_txn s m o (next + interval s)) as [s1 a] eqn:E.
  pose proof (save_keeps_memory s m o (next + interval s)) as Hm. rewrite E in Hm. cbn in Hm.
  destruct a; intros H Hn; inj; cbn in *; unfold upd_f in *; rewrite Nat.eqb_refl in *; cbn in *.
  - exfalso. eapply Hn. reflexivity.
  - auto.
Qed.
