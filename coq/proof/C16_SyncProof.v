(* C16 — the sync stream: what the follower decodes from the leader's messages, and what its region
   cache holds afterwards. *)
From Coq Require Import String ZifyBool ZifyNat.
From PDV Require Import lib.Base gen.Gen_C16 model.C16_Syncer proof.C16_BufferProof.
Local Open Scope Z_scope.
Local Open Scope list_scope.

(* ---------- decoding an aligned message gives back the leader's regions ---------- *)
(* the follower cannot tell "no leader" from a leader peer with id 0 *)
Definition norm (r : rinfo) : rinfo := RI (meta r) (norm_leader r) (stat r).
Definition leaders_valid (rs : list rinfo) : Prop :=
  forall r p, In r rs -> leader r = Some p -> p_id p <> 0.

Lemma norm_valid r : (forall p, leader r = Some p -> p_id p <> 0) -> norm r = r.
Proof.
  intros H. destruct r as [m l s]. unfold norm, norm_leader; cbn in *. f_equal.
  destruct l as [p|]; [|reflexivity]. specialize (H p eq_refl).
  destruct (p_id p =? 0) eqn:E; [lia|reflexivity].
Qed.

Lemma map_norm_valid rs : leaders_valid rs -> map norm rs = rs.
Proof.
  induction rs as [|r rs IH]; intros H; cbn [map]; [reflexivity|]. f_equal.
  - apply norm_valid. intros p Hp. apply (H r p); [left; reflexivity|exact Hp].
  - apply IH. intros r' p Hin. apply H. right. exact Hin.
Qed.

Definition aligned_msg (start : Z) (acc : list rinfo) : msg :=
  Msg start (map meta acc) (map stat acc) (map leader_or_zero acc).

Lemma decode_at_aligned start pre x post :
  decode_at (aligned_msg start (pre ++ x :: post)) (length pre) (meta x) = norm x.
Proof.
  unfold decode_at, aligned_msg; cbn [g_leaders g_stats g_regions].
  rewrite !map_length, Nat.eqb_refl.
  rewrite !map_app; cbn [map].
  rewrite nth_error_app2 by (rewrite map_length; lia).
  rewrite map_length, Nat.sub_diag; cbn [nth_error].
  rewrite app_nth2 by (rewrite map_length; lia).
  rewrite map_length, Nat.sub_diag; cbn [nth].
  unfold norm, norm_leader, leader_or_zero. f_equal.
  destruct (leader x) as [p|]; [reflexivity|]. reflexivity.
Qed.

Lemma decode_from_aligned start : forall post pre,
  decode_from (aligned_msg start (pre ++ post)) (length pre) (map meta post) = map norm post.
Proof.
  induction post as [|x post IH]; intros pre; cbn [map decode_from]; [reflexivity|].
  rewrite decode_at_aligned. f_equal.
  specialize (IH (pre ++ [x])). rewrite <- app_assoc in IH. cbn [app] in IH.
  rewrite app_length in IH. cbn [length] in IH. rewrite Nat.add_1_r in IH. exact IH.
Qed.

Lemma decode_aligned start acc : decode (aligned_msg start acc) = map norm acc.
Proof. exact (decode_from_aligned start acc []). Qed.

Lemma decode_incr start records : decode (incr_msg start records) = map norm records.
Proof. exact (decode_aligned start records). Qed.

Definition decode_all (ms : list msg) : list rinfo := concat (map decode ms).

(* ---------- full synchronisation ---------- *)
Definition all_truncated (trunc : list string) : Prop :=
  mem_str "Regions" trunc = true /\ mem_str "RegionStats" trunc = true /\ mem_str "RegionLeaders" trunc = true.

Lemma is_nil_false {X} (l : list X) : l <> [] -> (match l with [] => true | _ => false end) = false.
Proof. destruct l; [congruence|reflexivity]. Qed.

(* every accumulator reset after a send: the batches decode to the leader's regions, whatever the
   number of regions and the batch size *)
Lemma fs_loop_all_truncated trunc batch : all_truncated trunc ->
  forall rs acc metas stats leaders last, (rs <> [] \/ acc = []) ->
    metas = map meta acc -> stats = map stat acc -> leaders = map leader_or_zero acc ->
    decode_all (fs_loop trunc batch rs metas stats leaders last) = map norm (acc ++ rs).
Proof.
  intros (Hm & Hs & Hl). induction rs as [|r rest IH]; intros acc metas stats leaders last Hne -> -> ->.
  - destruct Hne as [Hne| ->]; [congruence|]. reflexivity.
  - cbn [fs_loop].
    replace (map meta acc ++ [meta r]) with (map meta (acc ++ [r])) by (rewrite map_app; reflexivity).
    replace (map stat acc ++ [stat r]) with (map stat (acc ++ [r])) by (rewrite map_app; reflexivity).
    replace (map leader_or_zero acc ++ [leader_or_zero r]) with (map leader_or_zero (acc ++ [r])) by (rewrite map_app; reflexivity).
    destruct ((Z.of_nat (length (map meta (acc ++ [r]))) <? batch) &&
              negb (match rest with [] => true | _ => false end)) eqn:E.
    + apply andb_true_iff in E as [_ E]. apply negb_true_iff in E.
      assert (Hr : rest <> []) by (destruct rest; [discriminate|congruence]).
      rewrite (IH (acc ++ [r]) _ _ _ last (or_introl Hr) eq_refl eq_refl eq_refl). rewrite <- app_assoc. reflexivity.
    + unfold keep. rewrite Hm, Hs, Hl.
      assert (Htail : forall l0, decode_all (fs_loop trunc batch rest [] [] [] l0) = map norm rest).
      { intros l0. destruct rest as [|r2 rest2]; [reflexivity|].
        change (r2 :: rest2) with ([] ++ r2 :: rest2) at 2.
        apply (IH [] [] [] [] l0); [left; discriminate|reflexivity..]. }
      fold (aligned_msg last (acc ++ [r])).
      unfold decode_all in *. cbn [map concat]. rewrite Htail, decode_aligned.
      rewrite <- map_app, <- app_assoc. reflexivity.
Qed.

(* at most one batch: a single aligned message, whichever accumulators are reset *)
Lemma fs_loop_single trunc batch : forall rs acc metas stats leaders last, rs <> [] ->
  Z.of_nat (length acc + length rs) <= batch ->
  metas = map meta acc -> stats = map stat acc -> leaders = map leader_or_zero acc ->
  fs_loop trunc batch rs metas stats leaders last = [aligned_msg last (acc ++ rs)].
Proof.
  induction rs as [|r rest IH]; intros acc metas stats leaders last Hne Hlen -> -> ->; [congruence|].
  cbn [fs_loop].
  replace (map meta acc ++ [meta r]) with (map meta (acc ++ [r])) by (rewrite map_app; reflexivity).
  replace (map stat acc ++ [stat r]) with (map stat (acc ++ [r])) by (rewrite map_app; reflexivity).
  replace (map leader_or_zero acc ++ [leader_or_zero r]) with (map leader_or_zero (acc ++ [r])) by (rewrite map_app; reflexivity).
  destruct rest as [|r2 rest2].
  - rewrite andb_false_r. cbn [fs_loop]. reflexivity.
  - assert (E : (Z.of_nat (length (map meta (acc ++ [r]))) <? batch) = true).
    { rewrite map_length, app_length. cbn [length] in *. lia. }
    rewrite E. cbn [negb andb].
    rewrite (IH (acc ++ [r]) _ _ _ last ltac:(discriminate)); [|rewrite app_length; cbn [length] in *; lia|reflexivity..].
    rewrite <- app_assoc. reflexivity.
Qed.

Theorem full_sync_decodes_all_truncated trunc batch rs : all_truncated trunc ->
  decode_all (full_sync trunc batch rs) = map norm rs.
Proof.
  intros H. unfold full_sync.
  destruct rs as [|r rest]; [reflexivity|].
  change (r :: rest) with ([] ++ r :: rest) at 2.
  apply (fs_loop_all_truncated trunc batch H (r :: rest) [] [] [] [] 0); [left; discriminate|reflexivity..].
Qed.

Theorem full_sync_decodes_one_batch trunc batch rs :
  Z.of_nat (length rs) <= batch -> decode_all (full_sync trunc batch rs) = map norm rs.
Proof.
  intros H. unfold full_sync. destruct rs as [|r rest]; [reflexivity|].
  rewrite (fs_loop_single trunc batch (r :: rest) [] [] [] [] 0 ltac:(discriminate) H eq_refl eq_refl eq_refl).
  unfold decode_all. cbn [map concat app]. rewrite app_nil_r. apply decode_aligned.
Qed.

(* ---------- the follower ---------- *)
Lemma cache_apply_regions rs : forall f,
  f_cache (fold_left apply_region rs f) = fold_left check_and_put rs (f_cache f).
Proof. induction rs as [|r rs IH]; intros f; cbn [fold_left]; [reflexivity|]. rewrite IH. reflexivity. Qed.

Lemma cache_apply_msg f m : f_cache (apply_msg f m) = fold_left check_and_put (decode m) (f_cache f).
Proof.
  unfold apply_msg. rewrite cache_apply_regions.
  destruct (next_index (buf (f_hist f)) =? g_start m); reflexivity.
Qed.

Lemma cache_apply_msgs ms : forall f,
  f_cache (fold_left apply_msg ms f) = fold_left check_and_put (decode_all ms) (f_cache f).
Proof.
  induction ms as [|m ms IH]; intros f; cbn [fold_left]; [reflexivity|].
  rewrite IH, cache_apply_msg. unfold decode_all. cbn [map concat]. rewrite fold_left_app. reflexivity.
Qed.

(* the follower's index after a message: start index of the message + number of regions in it *)
Lemma index_record {A} (s : bstate A) r ok : index (buf (record s r ok)) = index (buf s) + 1.
Proof. unfold record. destruct (flushc (buf s) - 1 <=? 0); reflexivity. Qed.

Lemma index_apply_regions rs : forall f,
  index (buf (f_hist (fold_left apply_region rs f))) = index (buf (f_hist f)) + Z.of_nat (length rs).
Proof.
  induction rs as [|r rs IH]; intros f; cbn [fold_left length]; [lia|].
  rewrite IH. unfold apply_region; cbn [f_hist]. rewrite index_record. lia.
Qed.

Lemma decode_from_length m : forall rs i, length (decode_from m i rs) = length rs.
Proof. induction rs as [|r rs IH]; intros i; cbn; [reflexivity|]. rewrite IH. reflexivity. Qed.

Theorem follower_index_after_msg f m :
  next_index (buf (f_hist (apply_msg f m))) = g_start m + Z.of_nat (length (g_regions m)).
Proof.
  unfold apply_msg, next_index.
  destruct (index (buf (f_hist f)) =? g_start m) eqn:E;
    rewrite index_apply_regions; unfold decode; rewrite decode_from_length.
  - apply Z.eqb_eq in E. rewrite E. reflexivity.
  - reflexivity.
Qed.

(* ---------- region sets and the cache ---------- *)
(* a valid region set, as GetRegions() of a BasicCluster returns it: distinct ids, disjoint ranges *)
Fixpoint region_set (rs : list rinfo) : Prop :=
  match rs with
  | [] => True
  | r :: rest => (forall o, In o rest -> m_id (meta o) <> m_id (meta r) /\ intersects (meta r) (meta o) = false) /\
                 region_set rest
  end.

Lemma intersects_sym a b : intersects a b = intersects b a.
Proof. unfold intersects. apply andb_comm. Qed.

Lemma put_all_disjoint : forall rs c,
  (forall o r, In o c -> In r rs -> m_id (meta o) <> m_id (meta r) /\ intersects (meta o) (meta r) = false) ->
  region_set rs ->
  fold_left check_and_put rs c = rev rs ++ c.
Proof.
  induction rs as [|r rs IH]; intros c Hc Hs; cbn [fold_left rev]; [reflexivity|].
  destruct Hs as [Hr Hs].
  assert (Hnone : forall o, In o c -> m_id (meta o) <> m_id (meta r) /\ intersects (meta o) (meta r) = false).
  { intros o Ho. apply Hc; [exact Ho|left; reflexivity]. }
  assert (Hfind : find_id c (m_id (meta r)) = None).
  { unfold find_id. destruct (find _ c) as [o|] eqn:E; [|reflexivity].
    apply find_some in E as [Hin E]. apply Z.eqb_eq in E. destruct (Hnone o Hin) as [Hne _]. contradiction. }
  assert (Hflt : filter (fun o => intersects (meta o) (meta r)) c = []).
  { clear - Hnone. induction c as [|o c IH]; cbn [filter]; [reflexivity|].
    destruct (Hnone o (or_introl eq_refl)) as [_ ->]. apply IH. intros o' Ho'. apply Hnone. right. exact Ho'. }
  assert (Hkeep : filter (fun o => negb (m_id (meta o) =? m_id (meta r)) && negb (intersects (meta o) (meta r))) c = c).
  { clear - Hnone. induction c as [|o c IH]; cbn [filter]; [reflexivity|].
    destruct (Hnone o (or_introl eq_refl)) as [Hne ->].
    replace (m_id (meta o) =? m_id (meta r)) with false by (symmetry; apply Z.eqb_neq; exact Hne).
    cbn [negb andb]. f_equal. apply IH. intros o' Ho'. apply Hnone. right. exact Ho'. }
  assert (Hcp : check_and_put c r = r :: c).
  { unfold check_and_put, accepts, put. rewrite Hfind, Hflt. cbn [existsb]. rewrite Hkeep. reflexivity. }
  rewrite Hcp. rewrite IH; [rewrite <- app_assoc; reflexivity| |exact Hs].
  intros o r' [<-|Ho] Hr'.
  - destruct (Hr r' Hr') as [Hne Hi]. split; [congruence|exact Hi].
  - apply Hc; [exact Ho|right; exact Hr'].
Qed.

Lemma find_id_in_set : forall rs r, region_set rs -> In r rs ->
  find_id (rev rs) (m_id (meta r)) = Some r.
Proof.
  unfold find_id. induction rs as [|x rs IH]; intros r Hs Hin; [contradiction|].
  destruct Hs as [Hx Hs]. cbn [rev].
  destruct Hin as [->|Hin].
  - (* r is the last element of rev (r :: rs); nothing before it has its id *)
    assert (Hnone : find (fun o => m_id (meta o) =? m_id (meta r)) (rev rs) = None).
    { destruct (find _ (rev rs)) as [o|] eqn:E; [|reflexivity].
      apply find_some in E as [Ho E]. apply in_rev in Ho. apply Z.eqb_eq in E.
      destruct (Hx o Ho) as [Hne _]. contradiction. }
    revert Hnone. generalize (rev rs) as l. induction l as [|y l IHl]; cbn [find app]; intros Hn.
    + rewrite Z.eqb_refl. reflexivity.
    + destruct (m_id (meta y) =? m_id (meta r)); [discriminate|]. apply IHl. exact Hn.
  - specialize (IH r Hs Hin).
    revert IH. generalize (rev rs) as l. induction l as [|y l IHl]; cbn [find app]; intros Hf; [discriminate|].
    destruct (m_id (meta y) =? m_id (meta r)); [exact Hf|]. apply IHl. exact Hf.
Qed.

(* an empty follower that applies aligned messages for a valid region set holds exactly that set *)
Theorem follower_holds_decoded cap kv ms rs :
  decode_all ms = rs -> region_set rs ->
  let f := fold_left apply_msg ms (finit cap kv) in
  f_cache f = rev rs /\ forall r, In r rs -> find_id (f_cache f) (m_id (meta r)) = Some r.
Proof.
  intros Hd Hs f. unfold f. rewrite cache_apply_msgs, Hd. cbn [finit f_cache].
  rewrite put_all_disjoint; [|intros o r []|exact Hs]. rewrite app_nil_r.
  split; [reflexivity|]. intros r Hin. apply find_id_in_set; assumption.
Qed.

Theorem follower_equals_leader_one_batch_pf cap kv regions :
  region_set regions -> leaders_valid regions ->
  Z.of_nat (length regions) <= Gen_C16.maxSyncRegionBatchSize ->
  let f := fold_left apply_msg (full_sync_impl regions) (finit cap kv) in
  forall r, In r regions -> find_id (f_cache f) (m_id (meta r)) = Some r.
Proof.
  intros Hs Hv Hl f. apply follower_holds_decoded; [|exact Hs].
  unfold full_sync_impl. rewrite full_sync_decodes_one_batch by exact Hl. apply map_norm_valid. exact Hv.
Qed.

Theorem follower_equals_leader_if_all_truncated_pf trunc batch cap kv regions :
  all_truncated trunc -> region_set regions -> leaders_valid regions ->
  let f := fold_left apply_msg (full_sync trunc batch regions) (finit cap kv) in
  forall r, In r regions -> find_id (f_cache f) (m_id (meta r)) = Some r.
Proof.
  intros Ht Hs Hv f. apply follower_holds_decoded; [|exact Hs].
  rewrite full_sync_decodes_all_truncated by exact Ht. apply map_norm_valid. exact Hv.
Qed.

(* ---------- incremental synchronisation: the follower replays the leader's change sequence ---------- *)
Theorem incremental_sync_replays_pf start records f : leaders_valid records ->
  f_cache (apply_msg f (incr_msg start records)) = fold_left check_and_put records (f_cache f).
Proof. intros Hv. rewrite cache_apply_msg, decode_incr, map_norm_valid by exact Hv. reflexivity. Qed.

Theorem incremental_sync_converges_pf c0 pre suf start f : leaders_valid suf ->
  f_cache f = fold_left check_and_put pre c0 ->
  f_cache (apply_msg f (incr_msg start suf)) = fold_left check_and_put (pre ++ suf) c0.
Proof. intros Hv Hf. rewrite incremental_sync_replays_pf by exact Hv. rewrite Hf, fold_left_app. reflexivity. Qed.

Lemma somes_map_Some {X} (l : list X) : somes (map Some l) = l.
Proof. induction l as [|x l IH]; cbn; [reflexivity|]. rewrite IH. reflexivity. Qed.

(* which branch syncHistoryRegion takes, in terms of the log specification of the leader's buffer *)
Theorem sync_history_incremental_pf cap ops regions start :
  let s := run_state brun_op (binit cap) ops in
  let a := run_state (@arun_op rinfo) (ainit cap) ops in
  a_first a <= start < a_next a ->
  sync_history (buf s) regions start =
  (KIncr, [incr_msg start (skipn (Z.to_nat (start - a_base a)) (a_log a))]).
Proof.
  intros s a Hw. destruct (records_from_exact_pf cap ops start) as (Hn & Hf & Hin & _).
  fold s a in Hn, Hf, Hin. unfold sync_history. rewrite (Hin Hw).
  assert (Hlen : (Z.to_nat (start - a_base a) < length (a_log a))%nat).
  { unfold a_first, a_next in Hw. lia. }
  destruct (skipn (Z.to_nat (start - a_base a)) (a_log a)) as [|x l] eqn:E.
  - apply (f_equal (@length _)) in E. rewrite skipn_length in E. cbn in E. lia.
  - cbn [map]. rewrite <- (somes_map_Some (x :: l)) at 1. reflexivity.
Qed.

Theorem sync_history_full_pf cap ops regions :
  let s := run_state brun_op (binit cap) ops in
  let a := run_state (@arun_op rinfo) (ainit cap) ops in
  0 < a_first a ->
  sync_history (buf s) regions 0 = (KFull, full_sync_impl regions).
Proof.
  intros s a Hw. destruct (records_from_exact_pf cap ops 0) as (Hn & Hf & _ & Hout).
  fold s a in Hn, Hf, Hout. unfold sync_history. rewrite Hout by lia.
  rewrite Hn. replace (a_next a =? 0) with false; [reflexivity|].
  pose proof (r_cap _ _ (proj2 (sim_run ops _ _ (rel_init cap)))) as Hc. fold a in Hc.
  symmetry. apply Z.eqb_neq. unfold a_first, a_next in *. lia.
Qed.

(* ---------- the witness of the misalignment on the code as it is (S7) ---------- *)
Definition mk_region (i : Z) : rinfo :=
  RI (Meta i i (i + 1) 1 1 [Peer (1000 + i) 1 false; Peer (2000 + i) 2 false])
     (Some (Peer (1000 + i) 1 false)) (Stat i 0 0 0).
Definition witness_regions : list rinfo := map (fun n => mk_region (Z.of_nat n)) (seq 1 101).

Lemma witness_region_set : region_set witness_regions.
Proof.
  assert (G : forall n k, region_set (map (fun n => mk_region (Z.of_nat n)) (seq k n))).
  { induction n as [|n IH]; intros k; cbn [seq map region_set]; [exact I|]. split; [|apply IH].
    intros o Ho. apply in_map_iff in Ho as (j & <- & Hj). apply in_seq in Hj.
    unfold mk_region, intersects; cbn. split; lia. }
  apply G.
Qed.

Lemma witness_leaders_valid : leaders_valid witness_regions.
Proof.
  intros r p Hin Hl. apply in_map_iff in Hin as (j & Hr & Hj). apply in_seq in Hj. subst r.
  unfold mk_region in Hl; cbn [leader] in Hl.
  replace p with (Peer (1000 + Z.of_nat j) 1 false) by congruence. cbn [p_id]. lia.
Qed.

(* the former misalignment witness (S7, fixed): region 101 of the second batch now keeps its own leader *)
Lemma witness_aligned :
  let f := fold_left apply_msg (full_sync_impl witness_regions) (finit 10000 None) in
  option_map leader (find_id (f_cache f) 101) = Some (Some (Peer 1101 1 false)).
Proof. vm_compute. reflexivity. Qed.

(* ---------- the broadcast path: RunServer's batches decode to the notified regions ---------- *)
Lemma run_server_decodes : forall fuel next pending, (length pending <= fuel)%nat ->
  decode_all (run_server_batches fuel next pending) = map norm pending.
Proof.
  induction fuel as [|fuel IH]; intros next pending Hf.
  - destruct pending; [reflexivity|cbn in Hf; lia].
  - destruct pending as [|first rest]; [reflexivity|].
    cbn [run_server_batches].
    set (k := Z.to_nat (Z.min (Z.of_nat (length rest)) maxSyncRegionBatchSize)).
    change (Msg next (map meta (first :: firstn k rest)) (map stat (first :: firstn k rest))
                (map (fun r => match leader r with Some p => p | None => zero_peer end) (first :: firstn k rest)))
      with (aligned_msg next (first :: firstn k rest)).
    unfold decode_all in *. cbn [map concat]. rewrite decode_aligned.
    rewrite IH.
    + rewrite <- map_app. cbn [app]. rewrite firstn_skipn. reflexivity.
    + rewrite skipn_length. cbn [length] in Hf. lia.
Qed.

Theorem broadcast_decodes_pf next pending : leaders_valid pending ->
  decode_all (run_server_batches (S (length pending)) next pending) = pending.
Proof. intros Hv. rewrite run_server_decodes by lia. apply map_norm_valid. exact Hv. Qed.

Theorem broadcast_replays_pf next pending f : leaders_valid pending ->
  f_cache (fold_left apply_msg (run_server_batches (S (length pending)) next pending) f) =
  fold_left check_and_put pending (f_cache f).
Proof. intros Hv. rewrite cache_apply_msgs, broadcast_decodes_pf by exact Hv. reflexivity. Qed.

(* ---------- full synchronisation into a follower that already holds older versions of the same regions ---------- *)
Definition rid (r : rinfo) : Z := m_id (meta r).

Lemma region_set_spec : forall l, region_set l ->
  NoDup (map rid l) /\
  forall a b, In a l -> In b l -> rid a <> rid b -> intersects (meta a) (meta b) = false.
Proof.
  induction l as [|r l IH]; intros H; [split; [constructor|intros a b []]|].
  destruct H as [Hr Hl]. destruct (IH Hl) as [N P]. split.
  - cbn [map]. constructor; [|exact N]. intros Hin. apply in_map_iff in Hin as (o & E & Ho).
    destruct (Hr o Ho) as [Hne _]. unfold rid in E. congruence.
  - intros a b [<-|Ha] [<-|Hb] Hne.
    + congruence.
    + exact (proj2 (Hr b Hb)).
    + rewrite intersects_sym. exact (proj2 (Hr a Ha)).
    + apply P; assumption.
Qed.

Lemma intersects_same_range a a' b : same_range a a' = true ->
  intersects a b = intersects a' b /\ intersects b a = intersects b a'.
Proof.
  unfold same_range, intersects. intros H. apply andb_true_iff in H as [H1 H2].
  apply Z.eqb_eq in H1. apply Z.eqb_eq in H2. rewrite H1, H2. split; reflexivity.
Qed.

(* every old entry is an older version (same id, same range, epochs not larger) of a region the leader holds *)
Definition older_versions (old regions : list rinfo) : Prop :=
  forall o, In o old -> exists r, In r regions /\ rid o = rid r /\ same_range (meta o) (meta r) = true /\
                                  m_version (meta o) <= m_version (meta r) /\ m_confver (meta o) <= m_confver (meta r).

Definition not_in (done : list rinfo) (o : rinfo) : bool := negb (existsb (fun d => rid d =? rid o) done).

Lemma find_id_none c id : (forall x, In x c -> rid x <> id) -> find_id c id = None.
Proof.
  intros H. unfold find_id. destruct (find _ c) as [x|] eqn:E; [|reflexivity].
  apply find_some in E as [Hx E]. apply Z.eqb_eq in E. exfalso. exact (H x Hx E).
Qed.

Lemma filter_none {X} (f : X -> bool) l : (forall x, In x l -> f x = false) -> filter f l = [].
Proof.
  induction l as [|x l IH]; intros H; cbn [filter]; [reflexivity|].
  rewrite (H x (or_introl eq_refl)). apply IH. intros y Hy. apply H. right. exact Hy.
Qed.

Lemma stale_cache_step regions old done r rest :
  regions = done ++ r :: rest -> region_set regions -> region_set old -> older_versions old regions ->
  let c := rev done ++ filter (not_in done) old in
  check_and_put c r = rev (done ++ [r]) ++ filter (not_in (done ++ [r])) old.
Proof.
  intros Ereg Hrs Hold Holder c.
  destruct (region_set_spec regions Hrs) as [Nreg Preg]. destruct (region_set_spec old Hold) as [Nold Pold].
  assert (Hr_in : In r regions) by (rewrite Ereg; apply in_or_app; right; left; reflexivity).
  assert (Hdone_in : forall x, In x done -> In x regions) by (intros x Hx; rewrite Ereg; apply in_or_app; left; exact Hx).
  assert (Hdone_ne : forall x, In x done -> rid x <> rid r).
  { intros x Hx E. rewrite Ereg, map_app in Nreg. cbn [map] in Nreg. apply NoDup_remove_2 in Nreg.
    apply Nreg. apply in_or_app. left. rewrite <- E. apply in_map. exact Hx. }
  (* an old entry with r's id is an older version of r itself *)
  assert (Hsame : forall o, In o old -> rid o = rid r ->
                   same_range (meta o) (meta r) = true /\ m_version (meta o) <= m_version (meta r) /\ m_confver (meta o) <= m_confver (meta r)).
  { intros o Ho E. destruct (Holder o Ho) as (r' & Hr' & Eid & Hsr & Hv & Hc).
    assert (r' = r).
    { destruct (Z.eq_dec (rid r') (rid r)) as [E2|E2]; [|congruence].
      clear - Nreg Hr' Hr_in E2. induction regions as [|x l IH]; [contradiction|].
      cbn [map] in Nreg. inversion Nreg as [|? ? Hnot Hn]; subst.
      destruct Hr' as [<-|Hr']; destruct Hr_in as [<-|Hr_in]; auto.
      - exfalso. apply Hnot. rewrite E2. apply in_map. exact Hr_in.
      - exfalso. apply Hnot. rewrite <- E2. apply in_map. exact Hr'. }
    subst r'. auto. }
  (* everything in the cache with another id does not intersect r *)
  assert (Hdis : forall x, In x c -> rid x <> rid r -> intersects (meta x) (meta r) = false).
  { intros x Hx Hne. unfold c in Hx. apply in_app_or in Hx as [Hx|Hx].
    - apply in_rev in Hx. apply Preg; auto.
    - apply filter_In in Hx as [Hx _]. destruct (Holder x Hx) as (r' & Hr' & Eid & Hsr & _ & _).
      rewrite (proj1 (intersects_same_range (meta x) (meta r') (meta r) Hsr)). apply Preg; auto. congruence. }
  assert (Hacc : accepts c r = true).
  { unfold accepts. destruct (find_id c (m_id (meta r))) as [o|] eqn:Ef.
    - unfold find_id in Ef. apply find_some in Ef as [Ho Eo]. apply Z.eqb_eq in Eo.
      assert (Ho_old : In o old).
      { unfold c in Ho. apply in_app_or in Ho as [Ho|Ho]; [|apply filter_In in Ho as [Ho _]; exact Ho].
        apply in_rev in Ho. exfalso. exact (Hdone_ne o Ho Eo). }
      destruct (Hsame o Ho_old Eo) as (Hsr & Hv & Hc). rewrite Hsr. cbn [existsb].
      apply negb_true_iff. apply orb_false_iff. split; lia.
    - rewrite filter_none; [reflexivity|].
      intros x Hx. apply Hdis; [exact Hx|]. intros E.
      unfold find_id in Ef. apply (find_none _ _ Ef) in Hx. apply Z.eqb_neq in Hx. exact (Hx E). }
  unfold check_and_put. rewrite Hacc. unfold put.
  assert (Hfilter : filter (fun o => negb (m_id (meta o) =? m_id (meta r)) && negb (intersects (meta o) (meta r))) c =
                    rev done ++ filter (not_in (done ++ [r])) old).
  { unfold c. rewrite filter_app. f_equal.
    - (* done regions are all kept *)
      assert (G : forall l, (forall x, In x l -> In x done) ->
                filter (fun o => negb (m_id (meta o) =? m_id (meta r)) && negb (intersects (meta o) (meta r))) l = l).
      { induction l as [|x l IHl]; intros Hl; cbn [filter]; [reflexivity|].
        assert (Hx : In x done) by (apply Hl; left; reflexivity).
        replace (m_id (meta x) =? m_id (meta r)) with false by (symmetry; apply Z.eqb_neq; apply (Hdone_ne x Hx)).
        rewrite (Preg x r (Hdone_in x Hx) Hr_in (Hdone_ne x Hx)). cbn. f_equal. apply IHl. intros y Hy. apply Hl. right. exact Hy. }
      apply G. intros x Hx. apply in_rev. exact Hx.
    - (* old entries: exactly those with r's id go *)
      clear Hacc. induction old as [|o old' IHo]; cbn [filter]; [reflexivity|].
      assert (IH' : filter (fun o0 => negb (m_id (meta o0) =? m_id (meta r)) && negb (intersects (meta o0) (meta r))) (filter (not_in done) old') =
                    filter (not_in (done ++ [r])) old').
      { apply IHo.
        - destruct Hold as [_ H]. exact H.
        - intros x Hx. apply Holder. right. exact Hx.
        - cbn [map] in Nold. inversion Nold; assumption.
        - intros a b Ha Hb. apply Pold; right; assumption.
        - intros x Hx. apply Hsame. right. exact Hx.
        - intros x Hx. apply Hdis. unfold c in *. apply in_app_or in Hx as [Hx|Hx]; apply in_or_app; [left; exact Hx|right].
          apply filter_In in Hx as [Hx Hf]. apply filter_In. split; [right; exact Hx|exact Hf]. }
      assert (Enot : not_in (done ++ [r]) o = not_in done o && negb (rid r =? rid o)).
      { unfold not_in. rewrite existsb_app. cbn [existsb]. rewrite orb_false_r, negb_orb. reflexivity. }
      rewrite Enot. destruct (not_in done o) eqn:Ed; cbn [andb].
      + cbn [filter]. fold (rid o) (rid r).
        destruct (rid r =? rid o) eqn:Er.
        * apply Z.eqb_eq in Er. replace (rid o =? rid r) with true by (symmetry; lia). cbn [negb andb]. exact IH'.
        * apply Z.eqb_neq in Er. replace (rid o =? rid r) with false by (symmetry; lia). cbn [negb andb].
          rewrite Hdis; [cbn [negb]; f_equal; exact IH'| |congruence].
          unfold c. apply in_or_app. right. apply filter_In. split; [left; reflexivity|exact Ed].
      + exact IH'. }
  rewrite Hfilter. rewrite rev_app_distr. cbn [rev app]. reflexivity.
Qed.

Lemma stale_cache_fold regions old : region_set regions -> region_set old -> older_versions old regions ->
  forall rest done, regions = done ++ rest ->
    fold_left check_and_put rest (rev done ++ filter (not_in done) old) =
    rev regions ++ filter (not_in regions) old.
Proof.
  intros Hrs Hold Holder. induction rest as [|r rest IH]; intros done E; cbn [fold_left].
  - rewrite app_nil_r in E. subst done. reflexivity.
  - rewrite (stale_cache_step regions old done r rest E Hrs Hold Holder).
    apply IH. rewrite <- app_assoc. exact E.
Qed.

Lemma find_id_app l1 l2 id : find_id (l1 ++ l2) id = match find_id l1 id with Some x => Some x | None => find_id l2 id end.
Proof.
  unfold find_id. induction l1 as [|x l1 IH]; cbn [app find]; [reflexivity|].
  destruct (m_id (meta x) =? id); [reflexivity|exact IH].
Qed.

Theorem full_sync_over_stale_cache_pf trunc batch cap kv regions old :
  all_truncated trunc -> region_set regions -> leaders_valid regions ->
  older_versions old regions -> region_set old ->
  let f0 := finit cap kv in
  let f := fold_left apply_msg (full_sync trunc batch regions) (FS old (f_saved f0) (f_hist f0)) in
  forall r, In r regions -> find_id (f_cache f) (m_id (meta r)) = Some r.
Proof.
  intros Ht Hrs Hv Holder Hold f0 f r Hin. unfold f.
  rewrite cache_apply_msgs. cbn [f_cache].
  rewrite full_sync_decodes_all_truncated by exact Ht. rewrite map_norm_valid by exact Hv.
  pose proof (stale_cache_fold regions old Hrs Hold Holder regions [] eq_refl) as F.
  cbn [rev app] in F.
  assert (Eold : filter (not_in []) old = old).
  { clear. induction old as [|o l IH]; cbn; [reflexivity|]. f_equal. exact IH. }
  rewrite Eold in F. rewrite F. rewrite find_id_app. rewrite (find_id_in_set regions r Hrs Hin). reflexivity.
Qed.

(* the code as it is truncates all three accumulators (regenerated list) *)
Lemma code_all_truncated : all_truncated Gen_C16.full_sync_truncated.
Proof. repeat split. Qed.

Theorem follower_equals_leader_for_sent_pf cap kv regions :
  region_set regions -> leaders_valid regions ->
  let f := fold_left apply_msg (full_sync_impl regions) (finit cap kv) in
  forall r, In r regions -> find_id (f_cache f) (m_id (meta r)) = Some r.
Proof.
  intros Hs Hv. exact (follower_equals_leader_if_all_truncated_pf _ _ cap kv regions code_all_truncated Hs Hv).
Qed.

Theorem full_sync_impl_over_stale_cache_pf cap kv regions old :
  region_set regions -> leaders_valid regions -> older_versions old regions -> region_set old ->
  let f0 := finit cap kv in
  let f := fold_left apply_msg (full_sync_impl regions) (FS old (f_saved f0) (f_hist f0)) in
  forall r, In r regions -> find_id (f_cache f) (m_id (meta r)) = Some r.
Proof.
  intros Hs Hv Ho Hold. exact (full_sync_over_stale_cache_pf _ _ cap kv regions old code_all_truncated Hs Hv Ho Hold).
Qed.


(* ---------- stream faults: connections cut between messages, reconnects, failing follower saves ---------- *)
Lemma cache_apply_regions_ok ros : forall f,
  f_cache (fold_left apply_region_ok ros f) = fold_left check_and_put (map fst ros) (f_cache f).
Proof.
  induction ros as [|[r ok] ros IH]; intros f; cbn [fold_left map fst]; [reflexivity|].
  rewrite IH. destruct ok; reflexivity.
Qed.

Lemma with_oks_fst rs : forall oks, map fst (with_oks rs oks) = rs.
Proof. induction rs as [|r rs IH]; intros oks; cbn [with_oks map fst]; [reflexivity|]. rewrite IH. reflexivity. Qed.

(* whichever of its own saves fail, the follower's cache is the replay of what the message carried *)
Lemma cache_apply_msg_ok f m oks : f_cache (apply_msg_ok f m oks) = fold_left check_and_put (decode m) (f_cache f).
Proof.
  unfold apply_msg_ok. rewrite cache_apply_regions_ok, with_oks_fst.
  destruct (next_index (buf (f_hist f)) =? g_start m); reflexivity.
Qed.

Lemma cache_run_msgs_ok (oks : msg -> list bool) ms : forall f,
  f_cache (fold_left (fun f m => apply_msg_ok f m (oks m)) ms f) = fold_left check_and_put (decode_all ms) (f_cache f).
Proof.
  induction ms as [|m ms IH]; intros f; cbn [fold_left]; [reflexivity|].
  rewrite IH, cache_apply_msg_ok. unfold decode_all. cbn [map concat]. rewrite fold_left_app. reflexivity.
Qed.

Definition delivered (s : session) : list rinfo := decode_all (firstn (s_delivered s) (s_msgs s)).

(* any number of sessions, each cut after any number of messages, any save failures: the follower's cache is the
   replay, in order, of exactly the regions that were delivered *)
Theorem sessions_replay_pf ss : forall f,
  f_cache (fold_left run_session ss f) = fold_left check_and_put (concat (map delivered ss)) (f_cache f).
Proof.
  induction ss as [|s ss IH]; intros f; cbn [fold_left map concat]; [reflexivity|].
  rewrite IH. unfold run_session. rewrite cache_run_msgs_ok. rewrite fold_left_app. reflexivity.
Qed.

Lemma decode_all_app a b : decode_all (a ++ b) = decode_all a ++ decode_all b.
Proof. unfold decode_all. rewrite map_app, concat_app. reflexivity. Qed.

(* what a cut stream has delivered is a prefix of what the complete stream carries *)
Lemma delivered_is_prefix ms rs k : decode_all ms = rs ->
  decode_all (firstn k ms) = firstn (length (decode_all (firstn k ms))) rs.
Proof.
  intros <-. rewrite <- (firstn_skipn k ms) at 3. rewrite decode_all_app.
  rewrite firstn_app, Nat.sub_diag, firstn_all. cbn [firstn]. rewrite app_nil_r. reflexivity.
Qed.

Lemma in_firstn {X} : forall n (l : list X) x, In x (firstn n l) -> In x l.
Proof.
  induction n as [|n IH]; intros [|y l] x H; cbn [firstn] in H; try contradiction.
  destruct H as [->|H]; [left; reflexivity|right; apply IH; exact H].
Qed.

Lemma region_set_firstn j : forall rs, region_set rs -> region_set (firstn j rs).
Proof.
  induction j as [|j IH]; intros [|r rs] H; cbn [firstn region_set]; auto.
  destruct H as [H1 H2]. split; [|apply IH; exact H2].
  intros o Ho. apply H1. apply (in_firstn j). exact Ho.
Qed.

(* a full synchronisation cut after any number of batches, into an empty follower, whatever saves fail: the follower
   holds exactly a prefix of the leader's region list, each region with the leader's range, peers, leader and statistics *)
Theorem cut_full_sync_pf cap kv regions k fails :
  region_set regions -> leaders_valid regions ->
  let f := run_session (finit cap kv) (Sess (full_sync_impl regions) k fails) in
  exists j, f_cache f = rev (firstn j regions) /\
            forall r, In r (firstn j regions) -> find_id (f_cache f) (m_id (meta r)) = Some r.
Proof.
  intros Hs Hv f. unfold f, run_session. cbn [s_delivered s_msgs s_fails].
  rewrite cache_run_msgs_ok. cbn [finit f_cache].
  assert (Hall : decode_all (full_sync_impl regions) = regions).
  { unfold full_sync_impl. rewrite full_sync_decodes_all_truncated by exact code_all_truncated. apply map_norm_valid. exact Hv. }
  rewrite (delivered_is_prefix _ _ k Hall).
  set (j := length (decode_all (firstn k (full_sync_impl regions)))). exists j.
  pose proof (region_set_firstn j regions Hs) as Hsj.
  rewrite put_all_disjoint; [|intros o r []|exact Hsj]. rewrite app_nil_r.
  split; [reflexivity|]. intros r Hin. apply find_id_in_set; assumption.
Qed.

Lemma older_versions_prefix j regions : older_versions (rev (firstn j regions)) regions.
Proof.
  intros o Ho. apply in_rev in Ho. exists o. split; [apply (in_firstn j); exact Ho|].
  split; [reflexivity|]. split; [|lia]. unfold same_range. rewrite !Z.eqb_refl. reflexivity.
Qed.

Lemma region_set_rev_firstn j regions : region_set regions -> region_set (rev (firstn j regions)).
Proof.
  intros Hs. pose proof (region_set_firstn j regions Hs) as H. destruct (region_set_spec _ H) as [N P].
  set (l := firstn j regions) in *. clearbody l. clear H Hs.
  assert (G : forall l', (forall x, In x l' -> In x l) -> NoDup (map rid l') -> region_set l').
  { induction l' as [|x l' IH]; intros Hin Hn; [exact I|]. cbn [map] in Hn. inversion Hn as [|? ? Hnot Hn']; subst.
    split; [|apply IH; [intros y Hy; apply Hin; right; exact Hy|exact Hn']].
    intros o Ho. assert (Hne : rid o <> rid x).
    { intros E. apply Hnot. rewrite <- E. apply in_map. exact Ho. }
    split; [exact Hne|]. apply P; [apply Hin; left; reflexivity|apply Hin; right; exact Ho|congruence]. }
  apply G.
  - intros x Hx. apply in_rev. exact Hx.
  - rewrite map_rev. apply NoDup_rev. exact N.
Qed.

(* convergence after reconnection: wherever the first full synchronisation was cut and whichever saves failed, a later
   full synchronisation that runs to completion leaves the follower with every region of the leader *)
Theorem reconnect_full_sync_converges_pf cap kv regions k fails fails2 :
  region_set regions -> leaders_valid regions ->
  let f1 := run_session (finit cap kv) (Sess (full_sync_impl regions) k fails) in
  let ms := full_sync_impl regions in
  let f2 := run_session f1 (Sess ms (length ms) fails2) in
  forall r, In r regions -> find_id (f_cache f2) (m_id (meta r)) = Some r.
Proof.
  intros Hs Hv f1 ms f2 r Hin.
  destruct (cut_full_sync_pf cap kv regions k fails Hs Hv) as (j & Hc & _). fold f1 in Hc.
  unfold f2, run_session. cbn [s_delivered s_msgs s_fails]. rewrite firstn_all, cache_run_msgs_ok, Hc.
  unfold ms, full_sync_impl. rewrite full_sync_decodes_all_truncated by exact code_all_truncated.
  rewrite map_norm_valid by exact Hv.
  pose proof (stale_cache_fold regions (rev (firstn j regions)) Hs (region_set_rev_firstn j regions Hs)
                (older_versions_prefix j regions) regions [] eq_refl) as F.
  cbn [rev app] in F.
  assert (Eold : forall old, filter (not_in []) old = old).
  { clear. induction old as [|o l IH]; cbn; [reflexivity|]. f_equal. exact IH. }
  rewrite Eold in F. rewrite F, find_id_app, (find_id_in_set regions r Hs Hin). reflexivity.
Qed.

(* the follower's index after a message, with failing saves: the message's start index plus the saves that succeeded *)
Lemma index_apply_regions_ok ros : forall f,
  index (buf (f_hist (fold_left apply_region_ok ros f))) =
  index (buf (f_hist f)) + Z.of_nat (length (filter snd ros)).
Proof.
  induction ros as [|[r ok] ros IH]; intros f; cbn [fold_left filter snd length]; [lia|].
  rewrite IH. destruct ok; cbn [apply_region_ok filter snd length f_hist].
  - unfold apply_region; cbn [f_hist]. rewrite index_record. lia.
  - reflexivity.
Qed.

Theorem follower_index_after_msg_ok_pf f m oks :
  next_index (buf (f_hist (apply_msg_ok f m oks))) =
  g_start m + Z.of_nat (length (filter snd (with_oks (decode m) oks))).
Proof.
  unfold apply_msg_ok, next_index.
  destruct (index (buf (f_hist f)) =? g_start m) eqn:E; rewrite index_apply_regions_ok.
  - apply Z.eqb_eq in E. rewrite E. reflexivity.
  - reflexivity.
Qed.
