(* C08 — list-level facts about regions (lookup by store, the ways the store model edits the peer list,
   counting) used by the general proof of the joint build path. *)
From Coq Require Import String.
From PDV Require Import lib.Base gen.Gen_C08 model.C08_Steps.
Local Open Scope list_scope.
Local Open Scope Z_scope.

Definition lk (ps : list peer) (st : Z) : option peer := find (on_store st) ps.
Definition ND (ps : list peer) : Prop := NoDup (map pstore ps).

Lemma on_store_true st p : on_store st p = true <-> pstore p = st.
Proof. unfold on_store. apply Z.eqb_eq. Qed.

Lemma lk_Some ps st p : lk ps st = Some p -> In p ps /\ pstore p = st.
Proof. unfold lk. intros H. apply find_some in H as [A B]. apply on_store_true in B. auto. Qed.

Lemma lk_None ps st : lk ps st = None <-> ~ In st (map pstore ps).
Proof.
  unfold lk. split.
  - intros H C. apply in_map_iff in C as (p & Hp & Hin). pose proof (find_none _ _ H _ Hin) as N.
    unfold on_store in N. rewrite Hp, Z.eqb_refl in N. discriminate.
  - intros H. destruct (find (on_store st) ps) as [p|] eqn:E; [|reflexivity].
    apply find_some in E as [A B]. apply on_store_true in B. exfalso. apply H. apply in_map_iff. eauto.
Qed.

Lemma lk_In ps p : ND ps -> In p ps -> lk ps (pstore p) = Some p.
Proof.
  unfold ND, lk. induction ps as [|q r IH]; cbn [map find]; intros Hnd Hin; [contradiction|].
  inversion Hnd as [|? ? Hn Hd]; subst. unfold on_store at 1. destruct (pstore q =? pstore p) eqn:E.
  - apply Z.eqb_eq in E. destruct Hin as [->|Hin]; [reflexivity|].
    exfalso. apply Hn. rewrite E. apply in_map. exact Hin.
  - destruct Hin as [->|Hin]; [rewrite Z.eqb_refl in E; discriminate|]. apply IH; auto.
Qed.

(* ---- append ---- *)
Lemma lk_app ps qs st : lk (ps ++ qs) st = match lk ps st with Some q => Some q | None => lk qs st end.
Proof.
  unfold lk. induction ps as [|q r IH]; cbn [app find]; [reflexivity|].
  destruct (on_store st q); [reflexivity|exact IH].
Qed.

Lemma ND_app ps qs : ND ps -> ND qs -> (forall q, In q qs -> lk ps (pstore q) = None) -> ND (ps ++ qs).
Proof.
  unfold ND. intros H1 H2 H3. rewrite map_app. induction ps as [|p r IH]; cbn [map app]; [exact H2|].
  inversion H1 as [|? ? Hn Hd]; subst. constructor.
  - intros C. apply in_app_or in C as [C|C]; [contradiction|].
    apply in_map_iff in C as (q & Hq & Hin). specialize (H3 q Hin). unfold lk in H3. cbn [find] in H3.
    unfold on_store in H3 at 1. rewrite Hq, Z.eqb_refl in H3. discriminate.
  - apply IH; [exact Hd|]. intros q Hin. specialize (H3 q Hin). unfold lk in *. cbn [find] in H3.
    destruct (on_store (pstore q) p); [discriminate|exact H3].
Qed.

(* ---- map that keeps the store ---- *)
Lemma lk_map f ps st : (forall p, pstore (f p) = pstore p) -> lk (map f ps) st = option_map f (lk ps st).
Proof.
  intros Hf. unfold lk. induction ps as [|q r IH]; cbn [map find option_map]; [reflexivity|].
  unfold on_store at 1 3. rewrite Hf. destruct (pstore q =? st); [reflexivity|exact IH].
Qed.

Lemma ND_map f ps : (forall p, pstore (f p) = pstore p) -> ND ps -> ND (map f ps).
Proof.
  intros Hf. unfold ND. rewrite map_map. intros H. erewrite map_ext; [exact H|]. intros a. apply Hf.
Qed.

(* ---- filter ---- *)
Lemma lk_filter g ps st : ND ps ->
  lk (filter g ps) st = match lk ps st with Some p => if g p then Some p else None | None => None end.
Proof.
  unfold ND, lk. induction ps as [|q r IH]; cbn [map filter find]; intros Hnd; [reflexivity|].
  inversion Hnd as [|? ? Hn Hd]; subst. destruct (on_store st q) eqn:E.
  - destruct (g q) eqn:G; cbn [find]; [rewrite E; reflexivity|].
    apply on_store_true in E.
    destruct (find (on_store st) (filter g r)) as [x|] eqn:F; [|reflexivity].
    apply find_some in F as [F1 F2]. apply filter_In in F1 as [F1 _]. apply on_store_true in F2.
    exfalso. apply Hn. rewrite E, <- F2. apply in_map. exact F1.
  - destruct (g q); cbn [find]; [rewrite E|]; apply IH; exact Hd.
Qed.

Lemma ND_filter g ps : ND ps -> ND (filter g ps).
Proof.
  unfold ND. induction ps as [|q r IH]; cbn [map filter]; intros H; [constructor|].
  inversion H as [|? ? Hn Hd]; subst. destruct (g q); cbn [map]; [|auto].
  constructor; [|auto]. intros C. apply Hn. apply in_map_iff in C as (y & Hy & Hin).
  apply filter_In in Hin as [Hin _]. apply in_map_iff. eauto.
Qed.

(* the getters of C08_Steps in terms of lk *)
Lemma get_store_peer_lk r st : get_store_peer r st = lk (peers r) st.
Proof. reflexivity. Qed.

Lemma get_store_voter_lk r st : ND (peers r) ->
  get_store_voter r st = match lk (peers r) st with Some p => if is_learner p then None else Some p | None => None end.
Proof.
  intros H. unfold get_store_voter. change (find (on_store st) (filter (fun p => negb (is_learner p)) (peers r)))
    with (lk (filter (fun p => negb (is_learner p)) (peers r)) st).
  rewrite lk_filter by exact H. destruct (lk (peers r) st) as [p|]; [|reflexivity]. destruct (is_learner p); reflexivity.
Qed.

Lemma get_store_learner_lk r st : ND (peers r) ->
  get_store_learner r st = match lk (peers r) st with Some p => if is_learner p then Some p else None | None => None end.
Proof.
  intros H. unfold get_store_learner. change (find (on_store st) (filter is_learner (peers r))) with (lk (filter is_learner (peers r)) st).
  rewrite lk_filter by exact H. reflexivity.
Qed.

Lemma nodup_stores_ND ps : nodup_stores ps = true <-> ND ps.
Proof.
  unfold ND. induction ps as [|p r IH]; cbn [nodup_stores map]; [split; [constructor|reflexivity]|].
  rewrite andb_true_iff, negb_true_iff, IH. split.
  - intros [H1 H2]. constructor; [|exact H2]. intros C. apply in_map_iff in C as (q & Hq & Hin).
    assert (E : existsb (on_store (pstore p)) r = true) by (apply existsb_exists; exists q; split; [exact Hin|apply on_store_true; exact Hq]).
    congruence.
  - intros H. inversion H as [|? ? Hn Hd]; subst. split; [|exact Hd].
    destruct (existsb (on_store (pstore p)) r) eqn:E; [|reflexivity].
    apply existsb_exists in E as (q & Hq & Hs). apply on_store_true in Hs. exfalso. apply Hn. apply in_map_iff. eauto.
Qed.

(* ---- counting ---- *)
Lemma countb_app {A} (f : A -> bool) l1 l2 : countb f (l1 ++ l2) = countb f l1 + countb f l2.
Proof. unfold countb. rewrite filter_app, app_length. lia. Qed.

Lemma countb_map {A B} (f : B -> bool) (g : A -> B) l : countb f (map g l) = countb (fun x => f (g x)) l.
Proof.
  unfold countb. induction l as [|x r IH]; cbn [map filter]; [reflexivity|].
  destruct (f (g x)); cbn [length]; lia.
Qed.

Lemma countb_ext {A} (f g : A -> bool) l : (forall x, In x l -> f x = g x) -> countb f l = countb g l.
Proof.
  unfold countb. induction l as [|x r IH]; intros H; cbn [filter]; [reflexivity|].
  rewrite (H x (or_introl eq_refl)).
  assert (IH' := IH (fun y Hy => H y (or_intror Hy))).
  destruct (g x); cbn [length]; lia.
Qed.

Lemma countb_nonneg {A} (f : A -> bool) l : 0 <= countb f l.
Proof. unfold countb. lia. Qed.

Lemma countb_zero {A} (f : A -> bool) l : (forall x, In x l -> f x = false) -> countb f l = 0.
Proof.
  unfold countb. induction l as [|x r IH]; intros H; cbn [filter]; [reflexivity|].
  rewrite (H x (or_introl eq_refl)). apply IH. intros y Hy. apply H. right. exact Hy.
Qed.

Lemma countb_filter {A} (f g : A -> bool) l : countb f (filter g l) = countb (fun x => g x && f x) l.
Proof.
  unfold countb. induction l as [|x r IH]; cbn [filter]; [reflexivity|].
  destruct (g x); cbn [filter andb]; [destruct (f x); cbn [length]; lia|exact IH].
Qed.

(* splitting a count by a second predicate *)
Lemma countb_split {A} (f g : A -> bool) l : countb f l = countb (fun x => f x && g x) l + countb (fun x => f x && negb (g x)) l.
Proof.
  unfold countb. induction l as [|x r IH]; cbn [filter]; [reflexivity|].
  destruct (f x), (g x); cbn [andb negb length]; lia.
Qed.
