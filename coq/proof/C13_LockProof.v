(* C13 — every public method of RuleManager is one locked section.
   From the regenerated skeletons (gen/Gen_C13.v): before the first Lock/RLock a method only validates its
   arguments (adjustRule — which reads the argument, keyType and the store informer, never ruleConfig /
   ruleList / the storage); then it takes m's mutex, defers the unlock, and never locks or unlocks again.
   Hence concurrent calls are serialised by the mutex: an execution of overlapping calls is an execution of
   the same calls' locked sections in some order — the histories `list op` of model/C13_Rules.v, whose `step`
   is one locked section.  The driver's overlap class checks it on the real code (a second update waits
   while the first is parked inside its storage write; the outcome is A then B). *)
From Coq Require Import String List Bool.
From PDV Require Import lib.Skel gen.Gen_C13.
Import ListNotations.
Open Scope string_scope.

Section EvAny.
  Variable p : ev -> bool.
  Fixpoint ev_any (e : ev) : bool :=
    p e || match e with
           | IfE _ a b => existsb ev_any a || existsb ev_any b
           | ForE b | GoE b | DeferE b => existsb ev_any b
           | SwitchE cs => existsb (existsb ev_any) cs
           | _ => false
           end.
End EvAny.

Definition is_lock_ev (e : ev) : bool :=
  match e with Lock _ | Unlock _ | RLock _ | RUnlock _ | DeferUnlock _ | DeferRUnlock _ => true | _ => false end.

(* anything that reads or writes the manager's state or the storage *)
Definition state_calls : list string :=
  ["adjust"; "buildRuleList"; "trim"; "savePatch"; "commit"; "beginPatch"; "tryCommitPatch"; "setRule"; "deleteRule";
   "setGroup"; "deleteGroup"; "iterateRules"; "SaveRule"; "DeleteRule"; "SaveRuleGroup"; "DeleteRuleGroup";
   "LoadRules"; "LoadRuleGroups"; "loadRules"; "loadGroups"].
Definition touches_state (e : ev) : bool :=
  match e with
  | Call f => existsb (String.eqb f) state_calls
  | Assign _ _ => true
  | _ => false
  end.

Fixpoint split_at_lock (l : list ev) : list ev * list ev :=
  match l with
  | [] => ([], [])
  | e :: r => if is_lock_ev e then ([], l) else let '(a, b) := split_at_lock r in (e :: a, b)
  end.

Definition one_locked_section (skel : list ev) : bool :=
  let '(pre, post) := split_at_lock skel in
  negb (existsb (ev_any (fun e => touches_state e || is_lock_ev e)) pre) &&
  match post with
  | Lock m :: DeferUnlock m' :: rest => String.eqb m m' && negb (existsb (ev_any is_lock_ev) rest)
  | RLock m :: DeferRUnlock m' :: rest =>
      String.eqb m m' && negb (existsb (ev_any is_lock_ev) rest)
      && negb (existsb (ev_any (fun e => match e with Assign _ _ => true | _ => false end)) rest)   (* readers do not assign *)
  | _ => false
  end.

(* the updates, Initialize and SetKeyType: exclusive lock *)
Lemma updates_are_one_locked_section :
  forallb one_locked_section
    [skel_Initialize; skel_SetRule; skel_DeleteRule; skel_SetRules; skel_Batch; skel_SetRuleGroup; skel_DeleteRuleGroup;
     skel_SetAllGroupBundles; skel_SetGroupBundle; skel_DeleteGroupBundle; skel_SetKeyType] = true.
Proof. vm_compute. reflexivity. Qed.

(* the readers: shared lock, no assignment *)
Lemma readers_are_one_locked_section :
  forallb one_locked_section
    [skel_GetRule; skel_GetSplitKeys; skel_GetAllRules; skel_GetRulesByGroup; skel_GetRulesByKey;
     skel_GetRulesForApplyRegion; skel_GetRuleGroup; skel_GetRuleGroups; skel_GetAllGroupBundles; skel_GetGroupBundle;
     skel_IsInitialized] = true.
Proof. vm_compute. reflexivity. Qed.

(* the internal helpers never touch the mutex (so they cannot release it in the middle of an update) *)
Lemma helpers_do_not_lock :
  forallb (fun s => negb (existsb (ev_any is_lock_ev) s)) [skel_tryCommitPatch; skel_savePatch; skel_loadRules; skel_loadGroups] = true.
Proof. vm_compute. reflexivity. Qed.
