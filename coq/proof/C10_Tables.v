(* C10 — obligations on the tables, literals and skeletons the translator regenerates from /repo on
   every run (gen/Gen_C10.v).  The model consumes conds / temp_conds / *_dispatch / the flag sets / the
   comparison operators / the cascade order directly; the facts below are what the theorems need from
   them.  Everything the model transcribes by hand is pinned to the source text it was written against. *)
From PDV Require Import lib.Skel lib.C10_Cluster gen.Gen_C10 model.C10_Checker.
Local Open Scope string_scope.

(* ---------- the StoreStateFilter condition table ---------- *)
(* which dispatch row a MoveRegion (non-scatter) filter takes, and that both filter values of
   SelectStoreToAdd satisfy its guards *)
Lemma region_target_row : In ([(MoveRegion, true); (ScatterRegion, false)], regionTarget) Gen_C10.target_dispatch.
Proof. cbv. tauto. Qed.
Lemma first_flags_guards : forallb (guard_holds Gen_C10.sel_add_first_flags) [(MoveRegion, true); (ScatterRegion, false)] = true.
Proof. reflexivity. Qed.
Lemma strict_flags_guards : forallb (guard_holds Gen_C10.sel_add_strict_flags) [(MoveRegion, true); (ScatterRegion, false)] = true.
Proof. reflexivity. Qed.

(* membership facts: deleting a condition from the Go table breaks exactly the clause that needs it *)
Lemma rt_tombstone : In isTombstone (Gen_C10.conds regionTarget). Proof. cbv; tauto. Qed.
Lemma rt_offline : In isOffline (Gen_C10.conds regionTarget). Proof. cbv; tauto. Qed.
Lemma rt_down : In isDown (Gen_C10.conds regionTarget). Proof. cbv; tauto. Qed.
Lemma rt_disconnected : In isDisconnected (Gen_C10.conds regionTarget). Proof. cbv; tauto. Qed.
Lemma rt_busy : In isBusy (Gen_C10.conds regionTarget). Proof. cbv; tauto. Qed.
Lemma rt_add_limit : In exceedAddLimit (Gen_C10.conds regionTarget). Proof. cbv; tauto. Qed.
Lemma rt_snapshots : In tooManySnapshots (Gen_C10.conds regionTarget). Proof. cbv; tauto. Qed.
Lemma rt_pending : In tooManyPendingPeers (Gen_C10.conds regionTarget). Proof. cbv; tauto. Qed.

(* the permanent conditions are not switched off by AllowTemporaryStates (first filter) *)
Lemma first_keeps c : In c [isTombstone; isOffline; isDown] ->
  has_flag Gen_C10.sel_add_first_flags AllowTemporaryStates && mem_cond c Gen_C10.temp_conds = false.
Proof. intros H; cbn in H. repeat destruct H as [<-|H]; try reflexivity; contradiction. Qed.
(* the strict filter does not allow temporary states at all *)
Lemma strict_keeps c : has_flag Gen_C10.sel_add_strict_flags AllowTemporaryStates && mem_cond c Gen_C10.temp_conds = false.
Proof. reflexivity. Qed.

(* leader targets (Builder.allowLeader, RuleChecker.allowLeader): the row and the conditions *)
Lemma leader_target_row : In ([(TransferLeader, true)], leaderTarget) Gen_C10.target_dispatch.
Proof. cbv. tauto. Qed.
Lemma lt_conds : incl [isTombstone; isOffline; isDown; pauseLeaderTransfer; isDisconnected; isBusy; hasRejectLeaderProperty] (Gen_C10.conds leaderTarget).
Proof. intros c H; cbn in H; cbv. repeat destruct H as [<-|H]; tauto. Qed.

(* removal sources (SelectStoreToRemove) *)
Lemma region_source_row : In ([(MoveRegion, true)], regionSource) Gen_C10.source_dispatch.
Proof. cbv. tauto. Qed.
Lemma remove_flags_guards : forallb (guard_holds Gen_C10.sel_remove_flags) [(MoveRegion, true)] = true.
Proof. reflexivity. Qed.

(* what every condition function reads (model: cond_raw in lib/C10_Cluster.v) *)
Lemma cond_src_ok : Gen_C10.cond_src =
  [(exceedAddLimit, "!store.IsAvailable(storelimit.AddPeer)"); (exceedRemoveLimit, "!store.IsAvailable(storelimit.RemovePeer)");
   (hasRejectLeaderProperty, "opts.CheckLabelProperty(opt.RejectLeader, store.GetLabels())"); (isBusy, "store.IsBusy()");
   (isDisconnected, "store.IsDisconnected()"); (isDown, "store.DownTime() > opt.GetMaxStoreDownTime()"); (isOffline, "store.IsOffline()");
   (isTombstone, "store.IsTombstone()"); (pauseLeaderTransfer, "!store.AllowLeaderTransfer()");
   (tooManyPendingPeers, "opt.GetMaxPendingPeerCount() > 0 && store.GetPendingPeerCount() > int(opt.GetMaxPendingPeerCount())");
   (tooManySnapshots, "(uint64(store.GetSendingSnapCount()) > opt.GetMaxSnapshotCount() || uint64(store.GetReceivingSnapCount()) > opt.GetMaxSnapshotCount())")].
Proof. reflexivity. Qed.
Lemma state_kinds_ok : Gen_C10.state_kinds = ["leaderSource"; "regionSource"; "leaderTarget"; "regionTarget"; "scatterRegionTarget"].
Proof. reflexivity. Qed.
Lemma base_score_ok : (1 < Gen_C10.replicaBaseScore)%Z.
Proof. reflexivity. Qed.

(* ---------- SelectStoreToAdd / Fix / Improve / Remove ---------- *)
Lemma sel_add_filters_ok : Gen_C10.sel_add_filters =
  ["filter.NewExcludedFilter(s.checkerName, nil, s.region.GetStoreIds())"; "filter.NewStorageThresholdFilter(s.checkerName)";
   "filter.NewSpecialUseFilter(s.checkerName)"; "&filter.StoreStateFilter{ActionScope: s.checkerName, MoveRegion: true, AllowTemporaryStates: true}"].
Proof. reflexivity. Qed.
Lemma skel_fix_ok : Gen_C10.skel_SelectStoreToFix = [Call "swapStoreToFirst"; Call "SelectStoreToAdd"; Ret]
  /\ Gen_C10.ret_SelectStoreToFix = ["SelectStoreToAdd(coLocationStores[1:])"].
Proof. split; reflexivity. Qed.

(* ---------- the hand-transcribed filters, pinned to their source ---------- *)

(* ---------- the replica checker ---------- *)
Lemma replica_order_ok : Gen_C10.replica_check_order =
  ["checkDownPeer"; "checkOfflinePeer"; "checkMakeUpReplica"; "checkRemoveExtraReplica"; "checkLocationReplacement"].
Proof. reflexivity. Qed.
(* "removes only when voters exceed max-replicas": the three guards *)
Lemma fix_peer_op_ok : Gen_C10.fix_peer_surplus_op = CGt /\ Gen_C10.fix_peer_surplus_op_src = "len(region.GetVoters()) > r.opts.GetMaxReplicas()".
Proof. split; reflexivity. Qed.
Lemma remove_extra_op_ok : Gen_C10.remove_extra_skip_op = CLe /\ Gen_C10.remove_extra_skip_op_src = "len(region.GetVoters()) <= r.opts.GetMaxReplicas()".
Proof. split; reflexivity. Qed.
Lemma make_up_op_ok : Gen_C10.make_up_skip_op = CGe /\ Gen_C10.make_up_skip_op_src = "len(region.GetPeers()) >= r.opts.GetMaxReplicas()".
Proof. split; reflexivity. Qed.

(* ---------- the rule checker ---------- *)

(* ---------- the builder requests behind the three operator kinds ---------- *)
Lemma chains_ok :
  Gen_C10.chain_CreateAddPeerOperator = ["NewBuilder(desc, cluster, region)"; "AddPeer(peer)"; "Build(kind)"]
  /\ Gen_C10.chain_CreateRemovePeerOperator = ["NewBuilder(desc, cluster, region)"; "RemovePeer(storeID)"; "Build(kind)"]
  /\ Gen_C10.chain_CreateMovePeerOperator = ["NewBuilder(desc, cluster, region)"; "RemovePeer(oldStore)"; "AddPeer(peer)"; "Build(kind)"]
  /\ Gen_C10.chain_CreateReplaceLeaderPeerOperator =
       ["NewBuilder(desc, cluster, region)"; "RemovePeer(oldStore)"; "AddPeer(peer)"; "SetLeader(leader.GetStoreId())"; "Build(kind)"].
Proof. repeat split; reflexivity. Qed.

(* ---------- CheckerController.CheckRegion: joint-state checker first; rule checker, or learner checker then replica
   checker; each behind the replica schedule limit; merge checker last ---------- *)
