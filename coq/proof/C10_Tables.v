(* C10 — obligations on the tables, literals and skeletons the translator regenerates from /repo on
   every run (gen/Gen_C10.v).  The model consumes conds / temp_conds / *_dispatch / the flag sets / the
   comparison operators / the cascade order directly; the facts below are what the theorems need from
   them.  Everything the model transcribes by hand is pinned to the source text it was written against. *)
From PDV Require Import lib.Skel lib.C10_Cluster gen.Gen_C10 model.C10_Checker.
Local Open Scope string_scope.

(* ---------- the StoreStateFilter condition table ---------- *)
(* which dispatch row a MoveRegion (non-scatter) filter takes, and that both filter values of
   SelectStoreToAdd satisfy its guards *)
Lemma region_target_row : In ([(MoveRegion, true); (ScatterRegion, false)], regionTarget) Gen_C10.target_dispatch.
Proof. cbv. tauto. Qed.
Lemma first_flags_guards : forallb (guard_holds Gen_C10.sel_add_first_flags) [(MoveRegion, true); (ScatterRegion, false)] = true.
Proof. reflexivity. Qed.
Lemma strict_flags_guards : forallb (guard_holds Gen_C10.sel_add_strict_flags) [(MoveRegion, true); (ScatterRegion, false)] = true.
Proof. reflexivity. Qed.

(* membership facts: deleting a condition from the Go table breaks exactly the clause that needs it *)
Lemma rt_tombstone : In isTombstone (Gen_C10.conds regionTarget). Proof. cbv; tauto. Qed.
Lemma rt_offline : In isOffline (Gen_C10.conds regionTarget). Proof. cbv; tauto. Qed.
Lemma rt_down : In isDown (Gen_C10.conds regionTarget). Proof. cbv; tauto. Qed.
Lemma rt_disconnected : In isDisconnected (Gen_C10.conds regionTarget). Proof. cbv; tauto. Qed.
Lemma rt_busy : In isBusy (Gen_C10.conds regionTarget). Proof. cbv; tauto. Qed.
Lemma rt_add_limit : In exceedAddLimit (Gen_C10.conds regionTarget). Proof. cbv; tauto. Qed.
Lemma rt_snapshots : In tooManySnapshots (Gen_C10.conds regionTarget). Proof. cbv; tauto. Qed.
Lemma rt_pending : In tooManyPendingPeers (Gen_C10.conds regionTarget). Proof. cbv; tauto. Qed.

(* the permanent conditions are not switched off by AllowTemporaryStates (first filter) *)
Lemma first_keeps c : In c [isTombstone; isOffline; isDown] ->
  has_flag Gen_C10.sel_add_first_flags AllowTemporaryStates && mem_cond c Gen_C10.temp_conds = false.
Proof. intros H; cbn in H. repeat destruct H as [<-|H]; try reflexivity; contradiction. Qed.
(* the strict filter does not allow temporary states at all *)
Lemma strict_keeps c : has_flag Gen_C10.sel_add_strict_flags AllowTemporaryStates && mem_cond c Gen_C10.temp_conds = false.
Proof. reflexivity. Qed.

(* leader targets (Builder.allowLeader, RuleChecker.allowLeader): the row and the conditions *)
Lemma leader_target_row : In ([(TransferLeader, true)], leaderTarget) Gen_C10.target_dispatch.
Proof. cbv. tauto. Qed.
Lemma lt_conds : incl [isTombstone; isOffline; isDown; pauseLeaderTransfer; isDisconnected; isBusy; hasRejectLeaderProperty] (Gen_C10.conds leaderTarget).
Proof. intros c H; cbn in H; cbv. repeat destruct H as [<-|H]; tauto. Qed.

(* removal sources (SelectStoreToRemove) *)
Lemma region_source_row : In ([(MoveRegion, true)], regionSource) Gen_C10.source_dispatch.
Proof. cbv. tauto. Qed.
Lemma remove_flags_guards : forallb (guard_holds Gen_C10.sel_remove_flags) [(MoveRegion, true)] = true.
Proof. reflexivity. Qed.

(* what every condition function reads (model: cond_raw in lib/C10_Cluster.v) *)
Lemma cond_src_ok : Gen_C10.cond_src =
  [(exceedAddLimit, "!store.IsAvailable(storelimit.AddPeer)"); (exceedRemoveLimit, "!store.IsAvailable(storelimit.RemovePeer)");
   (hasRejectLeaderProperty, "opts.CheckLabelProperty(opt.RejectLeader, store.GetLabels())"); (isBusy, "store.IsBusy()");
   (isDisconnected, "store.IsDisconnected()"); (isDown, "store.DownTime() > opt.GetMaxStoreDownTime()"); (isOffline, "store.IsOffline()");
   (isTombstone, "store.IsTombstone()"); (pauseLeaderTransfer, "!store.AllowLeaderTransfer()");
   (tooManyPendingPeers, "opt.GetMaxPendingPeerCount() > 0 && store.GetPendingPeerCount() > int(opt.GetMaxPendingPeerCount())");
   (tooManySnapshots, "(uint64(store.GetSendingSnapCount()) > opt.GetMaxSnapshotCount() || uint64(store.GetReceivingSnapCount()) > opt.GetMaxSnapshotCount())")].
Proof. reflexivity. Qed.
Lemma state_kinds_ok : Gen_C10.state_kinds = ["leaderSource"; "regionSource"; "leaderTarget"; "regionTarget"; "scatterRegionTarget"].
Proof. reflexivity. Qed.
Lemma base_score_ok : (1 < Gen_C10.replicaBaseScore)%Z.
Proof. reflexivity. Qed.

(* ---------- SelectStoreToAdd / Fix / Improve / Remove ---------- *)
Lemma sel_add_filters_ok : Gen_C10.sel_add_filters =
  ["filter.NewExcludedFilter(s.checkerName, nil, s.region.GetStoreIds())"; "filter.NewStorageThresholdFilter(s.checkerName)";
   "filter.NewSpecialUseFilter(s.checkerName)"; "&filter.StoreStateFilter{ActionScope: s.checkerName, MoveRegion: true, AllowTemporaryStates: true}"].
Proof. reflexivity. Qed.
Lemma sel_add_chain_ok : Gen_C10.sel_add_chain =
  ["NewCandidates(s.cluster.GetStores())"; "FilterTarget(s.cluster.GetOpts(), filters...)"; "Sort(isolationComparer)"; "Reverse()";
   "Top(isolationComparer)"; "Sort(filter.RegionScoreComparer(s.cluster.GetOpts()))"; "FilterTarget(s.cluster.GetOpts(), strictStateFilter)"; "PickFirst()"].
Proof. reflexivity. Qed.
Lemma skel_add_ok : Gen_C10.skel_SelectStoreToAdd =
  [IfE "len(s.locationLabels) > 0 && s.isolationLevel != """"" [Call "NewIsolationFilter"] []; Call "IsolationComparer"; Call "NewCandidates";
   Call "FilterTarget"; Call "Sort"; Call "Reverse"; Call "Top"; Call "Sort"; Call "FilterTarget"; Call "PickFirst"; IfE "target == nil" [Ret] []; Ret].
Proof. reflexivity. Qed.
Lemma skel_fix_ok : Gen_C10.skel_SelectStoreToFix = [Call "swapStoreToFirst"; Call "SelectStoreToAdd"; Ret]
  /\ Gen_C10.ret_SelectStoreToFix = ["SelectStoreToAdd(coLocationStores[1:])"].
Proof. split; reflexivity. Qed.
Lemma skel_improve_ok : Gen_C10.skel_SelectStoreToImprove =
  [Call "swapStoreToFirst"; Call "NewLocationImprover"; IfE "len(s.locationLabels) > 0 && s.isolationLevel != """"" [Call "NewIsolationFilter"] [];
   Call "SelectStoreToAdd"; Ret]
  /\ Gen_C10.ret_SelectStoreToImprove = ["SelectStoreToAdd(coLocationStores[1:], filters...)"]
  /\ Gen_C10.sel_improve_filters = ["filter.NewLocationImprover(s.checkerName, s.locationLabels, coLocationStores, s.cluster.GetStore(old))"].
Proof. repeat split; reflexivity. Qed.
Lemma sel_remove_ok : Gen_C10.sel_remove_chain =
  ["NewCandidates(coLocationStores)"; "FilterSource(s.cluster.GetOpts(), &filter.StoreStateFilter{ActionScope: replicaCheckerName, MoveRegion: true})";
   "Sort(isolationComparer)"; "Top(isolationComparer)"; "Sort(filter.RegionScoreComparer(s.cluster.GetOpts()))"; "Reverse()"; "PickFirst()"].
Proof. reflexivity. Qed.

(* ---------- the hand-transcribed filters, pinned to their source ---------- *)
Lemma src_filters_ok :
  Gen_C10.src_excludedFilter_Target = "{ _, ok := f.targets[store.GetID()] return !ok }"
  /\ Gen_C10.src_storageThresholdFilter_Target = "{ return !store.IsLowSpace(opt.GetLowSpaceRatio()) }"
  /\ Gen_C10.src_specialUseFilter_Target = "{ return !f.constraint.MatchStore(store) }"
  /\ Gen_C10.src_labelConstraintFilter_Target = "{ return placement.MatchLabelConstraints(store, f.constraints) }"
  /\ Gen_C10.src_isolationFilter_Target = "{ if len(f.constraintSet) <= 0 { return true } for _, constrainList := range f.constraintSet { match := true for idx, constraint := range constrainList { match = store.GetLabelValue(f.locationLabels[idx]) == constraint && match } if len(constrainList) > 0 && match { return false } } return true }"
  /\ Gen_C10.src_distinctScoreFilter_Target = "{ score := core.DistinctScore(f.labels, f.stores, store) switch f.policy { case locationSafeguard: return score >= f.safeScore case locationImprove: return score > f.safeScore default: return false } }".
Proof. repeat split; reflexivity. Qed.
Lemma src_isolation_ctor_ok : Gen_C10.src_NewIsolationFilter =
  "{ isolationFilter := &isolationFilter{ scope: scope, locationLabels: locationLabels, constraintSet: make([][]string, 0), } // Get which idx this isolationLevel at according to locationLabels var isolationLevelIdx int for level, label := range locationLabels { if label == isolationLevel { isolationLevelIdx = level break } } for _, regionStore := range regionStores { var constraintList []string for i := 0; i <= isolationLevelIdx; i++ { constraintList = append(constraintList, regionStore.GetLabelValue(locationLabels[i])) } isolationFilter.constraintSet = append(isolationFilter.constraintSet, constraintList) } return isolationFilter }".
Proof. reflexivity. Qed.
Lemma src_distinct_ctor_ok : Gen_C10.src_newDistinctScoreFilter =
  "{ newStores := make([]*core.StoreInfo, 0, len(stores)-1) for _, s := range stores { if s.GetID() == source.GetID() { continue } newStores = append(newStores, s) } return &distinctScoreFilter{ scope: scope, labels: labels, stores: newStores, safeScore: core.DistinctScore(labels, newStores, source), policy: policy, srcStore: source.GetID(), } }".
Proof. reflexivity. Qed.
Lemma src_special_ctor_ok : Gen_C10.src_NewSpecialUseFilter =
  "{ var values []string for _, v := range allSpecialUses { if slice.NoneOf(allowUses, func(i int) bool { return allowUses[i] == v }) { values = append(values, v) } } return &specialUseFilter{ scope: scope, constraint: placement.LabelConstraint{Key: SpecialUseKey, Op: ""in"", Values: values}, } }".
Proof. reflexivity. Qed.
Lemma src_store_ok :
  Gen_C10.src_DistinctScore = "{ var score float64 for _, s := range stores { if s.GetID() == other.GetID() { continue } if index := s.CompareLocation(other, labels); index != -1 { score += math.Pow(replicaBaseScore, float64(len(labels)-index-1)) } } return score }"
  /\ Gen_C10.src_CompareLocation = "{ for i, key := range labels { v1, v2 := s.GetLabelValue(key), other.GetLabelValue(key) if v1 != """" && v2 != """" && !strings.EqualFold(v1, v2) { return i } } return -1 }"
  /\ Gen_C10.src_GetLabelValue = "{ for _, label := range s.GetLabels() { if strings.EqualFold(label.GetKey(), key) { return label.GetValue() } } return """" }".
Proof. repeat split; reflexivity. Qed.
Lemma src_constraints_ok :
  Gen_C10.src_MatchStore = "{ switch c.Op { case In: label := store.GetLabelValue(c.Key) return label != """" && slice.AnyOf(c.Values, func(i int) bool { return c.Values[i] == label }) case NotIn: label := store.GetLabelValue(c.Key) return label == """" || slice.NoneOf(c.Values, func(i int) bool { return c.Values[i] == label }) case Exists: return store.GetLabelValue(c.Key) != """" case NotExists: return store.GetLabelValue(c.Key) == """" } return false }"
  /\ Gen_C10.src_MatchLabelConstraints = "{ if store == nil { return false } for _, l := range store.GetLabels() { if isExclusiveLabel(l.GetKey()) && slice.NoneOf(constraints, func(i int) bool { return constraints[i].Key == l.GetKey() }) { return false } } return slice.AllOf(constraints, func(i int) bool { return constraints[i].MatchStore(store) }) }"
  /\ Gen_C10.src_isExclusiveLabel = "{ return strings.HasPrefix(key, ""$"") || slice.AnyOf(legacyExclusiveLabels, func(i int) bool { return key == legacyExclusiveLabels[i] }) }"
  /\ Gen_C10.src_RuleFit_IsSatisfied = "{ return len(f.Peers) == f.Rule.Count && len(f.PeersWithDifferentRole) == 0 }".
Proof. repeat split; reflexivity. Qed.

(* ---------- the replica checker ---------- *)
Lemma replica_order_ok : Gen_C10.replica_check_order =
  ["checkDownPeer"; "checkOfflinePeer"; "checkMakeUpReplica"; "checkRemoveExtraReplica"; "checkLocationReplacement"].
Proof. reflexivity. Qed.
(* "removes only when voters exceed max-replicas": the three guards *)
Lemma fix_peer_op_ok : Gen_C10.fix_peer_surplus_op = CGt /\ Gen_C10.fix_peer_surplus_op_src = "len(region.GetVoters()) > r.opts.GetMaxReplicas()".
Proof. split; reflexivity. Qed.
Lemma remove_extra_op_ok : Gen_C10.remove_extra_skip_op = CLe /\ Gen_C10.remove_extra_skip_op_src = "len(region.GetVoters()) <= r.opts.GetMaxReplicas()".
Proof. split; reflexivity. Qed.
Lemma make_up_op_ok : Gen_C10.make_up_skip_op = CGe /\ Gen_C10.make_up_skip_op_src = "len(region.GetPeers()) >= r.opts.GetMaxReplicas()".
Proof. split; reflexivity. Qed.
Lemma skel_replica_ok :
  Gen_C10.skel_replica_Check =
    [Call "checkDownPeer"; IfE "op != nil" [Ret] []; Call "checkOfflinePeer"; IfE "op != nil" [Ret] []; Call "checkMakeUpReplica"; IfE "op != nil" [Ret] [];
     Call "checkRemoveExtraReplica"; IfE "op != nil" [Ret] []; Call "checkLocationReplacement"; IfE "op != nil" [Ret] []; Ret]
  /\ Gen_C10.skel_replica_checkDownPeer =
    [Call "IsRemoveDownReplicaEnabled"; IfE "!r.opts.IsRemoveDownReplicaEnabled()" [Ret] []; Call "GetDownPeers"; ForE [IfE "store == nil" [Ret] []; Call "fixPeer"; Ret]; Ret]
  /\ Gen_C10.skel_replica_checkOfflinePeer =
    [Call "IsReplaceOfflineReplicaEnabled"; IfE "!r.opts.IsReplaceOfflineReplicaEnabled()" [Ret] []; Call "GetLearners"; IfE "len(region.GetLearners()) != 0" [Ret] [];
     ForE [IfE "store == nil" [Ret] []; Call "IsUp"; Call "fixPeer"; Ret]; Ret]
  /\ Gen_C10.skel_replica_checkMakeUpReplica =
    [Call "IsMakeUpReplicaEnabled"; IfE "!r.opts.IsMakeUpReplicaEnabled()" [Ret] []; IfE "len(region.GetPeers()) >= r.opts.GetMaxReplicas()" [Ret] [];
     Call "GetRegionStores"; Call "SelectStoreToAdd"; IfE "target == 0" [Ret] []; Call "CreateAddPeerOperator"; IfE "err != nil" [Ret] []; Ret]
  /\ Gen_C10.skel_replica_checkRemoveExtraReplica =
    [Call "IsRemoveExtraReplicaEnabled"; IfE "!r.opts.IsRemoveExtraReplicaEnabled()" [Ret] []; IfE "len(region.GetVoters()) <= r.opts.GetMaxReplicas()" [Ret] [];
     Call "GetRegionStores"; Call "SelectStoreToRemove"; IfE "old == 0" [Ret] []; Call "CreateRemovePeerOperator"; IfE "err != nil" [Ret] []; Ret]
  /\ Gen_C10.skel_replica_checkLocationReplacement =
    [Call "IsLocationReplacementEnabled"; IfE "!r.opts.IsLocationReplacementEnabled()" [Ret] []; Call "GetRegionStores"; Call "SelectStoreToRemove";
     IfE "oldStore == 0" [Ret] []; Call "SelectStoreToImprove"; IfE "newStore == 0" [Ret] []; Call "CreateMovePeerOperator"; IfE "err != nil" [Ret] []; Ret]
  /\ Gen_C10.skel_replica_fixPeer =
    [IfE "len(region.GetVoters()) > r.opts.GetMaxReplicas()" [Call "CreateRemovePeerOperator"; IfE "err != nil" [Ret] []; Ret] [];
     Call "GetRegionStores"; Call "SelectStoreToFix"; IfE "target == 0" [Ret] []; Call "CreateMovePeerOperator"; IfE "err != nil" [Ret] []; Ret].
Proof. repeat split; reflexivity. Qed.

(* ---------- the rule checker ---------- *)
Lemma skel_rule_ok :
  Gen_C10.skel_rule_Check =
    [Call "FitRegion"; IfE "len(fit.RuleFits) == 0" [Call "fixRange"; Ret] []; Call "fixOrphanPeers"; IfE "err == nil && op != nil" [Ret] [];
     ForE [Call "fixRulePeer"; IfE "op != nil" [Ret] []]; Ret]
  /\ Gen_C10.skel_rule_fixRulePeer =
    [IfE "len(rf.Peers) < rf.Rule.Count" [Call "addRulePeer"; Ret] [];
     ForE [Call "isDownPeer"; IfE "c.isDownPeer(region, peer)" [Call "replaceUnexpectRulePeer"; Ret] []; Call "isOfflinePeer";
           IfE "c.isOfflinePeer(peer)" [Call "replaceUnexpectRulePeer"; Ret] []];
     ForE [Call "fixLooseMatchPeer"; IfE "err != nil" [Ret] []; IfE "op != nil" [Ret] []]; Call "fixBetterLocation"; Ret]
  /\ Gen_C10.skel_rule_addRulePeer =
    [Call "getRuleFitStores"; Call "SelectStoreToAdd"; IfE "store == 0" [Ret] []; Call "CreateAddPeerOperator"; IfE "err != nil" [Ret] []; Ret]
  /\ Gen_C10.skel_rule_fixBetterLocation =
    [IfE "len(rf.Rule.LocationLabels) == 0 || rf.Rule.Count <= 1" [Ret] []; Call "getRuleFitStores"; Call "SelectStoreToRemove"; IfE "oldStore == 0" [Ret] [];
     Call "SelectStoreToImprove"; IfE "newStore == 0" [Ret] []; Call "CreateMovePeerOperator"; Ret]
  /\ Gen_C10.skel_rule_fixOrphanPeers =
    [IfE "len(fit.OrphanPeers) == 0" [Ret] []; ForE [Call "IsSatisfied"; IfE "!rf.IsSatisfied()" [Ret] []]; Call "CreateRemovePeerOperator"; Ret]
  /\ Gen_C10.skel_rule_strategy = [Call "NewLabelConstaintFilter"; Ret]
  (* fixLooseMatchPeer: a region without a leader is given up before the leader is dereferenced *)
  /\ Gen_C10.skel_rule_fixLooseMatchPeer =
    [IfE "region.GetLeader() == nil" [Ret] [];
     IfE "core.IsLearner(peer) && rf.Rule.Role != placement.Learner" [Call "CreatePromoteLearnerOperator"; Ret] [];
     IfE "region.GetLeader().GetId() != peer.GetId() && rf.Rule.Role == placement.Leader"
         [Call "allowLeader"; IfE "c.allowLeader(fit, peer)" [Call "CreateTransferLeaderOperator"; Ret] []; Ret] [];
     IfE "region.GetLeader().GetId() == peer.GetId() && rf.Rule.Role == placement.Follower"
         [ForE [Call "allowLeader"; IfE "c.allowLeader(fit, p)" [Call "CreateTransferLeaderOperator"; Ret] []]; Ret] [];
     Ret].
Proof. repeat split; reflexivity. Qed.

(* ---------- the builder requests behind the three operator kinds ---------- *)
Lemma chains_ok :
  Gen_C10.chain_CreateAddPeerOperator = ["NewBuilder(desc, cluster, region)"; "AddPeer(peer)"; "Build(kind)"]
  /\ Gen_C10.chain_CreateRemovePeerOperator = ["NewBuilder(desc, cluster, region)"; "RemovePeer(storeID)"; "Build(kind)"]
  /\ Gen_C10.chain_CreateMovePeerOperator = ["NewBuilder(desc, cluster, region)"; "RemovePeer(oldStore)"; "AddPeer(peer)"; "Build(kind)"]
  /\ Gen_C10.chain_CreateReplaceLeaderPeerOperator =
       ["NewBuilder(desc, cluster, region)"; "RemovePeer(oldStore)"; "AddPeer(peer)"; "SetLeader(leader.GetStoreId())"; "Build(kind)"].
Proof. repeat split; reflexivity. Qed.

(* ---------- CheckerController.CheckRegion: joint-state checker first; rule checker, or learner checker then replica
   checker; each behind the replica schedule limit; merge checker last ---------- *)
Lemma skel_CheckRegion_ok : Gen_C10.skel_CheckRegion =
  [Call "Check"; IfE "op != nil" [Ret] []; Call "IsPlacementRulesEnabled"; IfE "c.opts.IsPlacementRulesEnabled()" [Call "Check"; IfE "op != nil" [Call "OperatorCount"; Call "GetReplicaScheduleLimit"; IfE "opController.OperatorCount(operator.OpReplica) < c.opts.GetReplicaScheduleLimit()" [Ret] []] []] [Call "Check"; IfE "op != nil" [Ret] []; Call "Check"; IfE "op != nil" [Call "OperatorCount"; Call "GetReplicaScheduleLimit"; IfE "opController.OperatorCount(operator.OpReplica) < c.opts.GetReplicaScheduleLimit()" [Ret] []] []]; IfE "c.mergeChecker != nil" [Call "OperatorCount"; Call "GetMergeScheduleLimit"; IfE "!allowed" [] [Call "Check"; IfE "ops != nil" [Ret] []]] []; Ret].
Proof. reflexivity. Qed.
