(* C06 — storage clauses: heartbeats handled one at a time. *)
From Coq Require Import Permutation Sorting.Sorted.
From PDV Require Import lib.Base lib.C07_Key gen.Gen_C06 model.C07_BTreeSpec model.C07_Region
  proof.C07_Sorted proof.C07_Tree proof.C07_RegionProof proof.C07_Spec model.C06_Heartbeat proof.C06_HeartbeatProof.
Local Open Scope Z_scope.

(* ---- thread table ---- *)
Lemma th_get_set l t p : th_get (th_set l t p) t = Some p.
Proof. unfold th_set. cbn. rewrite Z.eqb_refl. reflexivity. Qed.
Lemma th_del_set l t p : th_del (th_set l t p) t = th_del l t.
Proof. unfold th_set. cbn. rewrite Z.eqb_refl. reflexivity. Qed.
Lemma th_del_none l t : th_get l t = None -> th_del l t = l.
Proof.
  induction l as [|[k v] l IH]; cbn; [reflexivity|]. destruct (k =? t); [discriminate|]. intros H. rewrite IH; auto.
Qed.
Lemma th_get_del l t : th_get (th_del l t) t = None -> th_del (th_del l t) t = th_del l t.
Proof. apply th_del_none. Qed.

(* ---- running the storage operations of a thread to the end ---- *)
Lemma finish_store todo : forall fuel h t,
  (length todo < fuel)%nat -> th_get (h_threads h) t = Some (PStore todo) ->
  finish fuel h t = (HState (h_cache h) (fold_left apply_sop todo (h_store h)) (th_del (h_threads h) t), HOk).
Proof.
  induction todo as [|o rest IH]; intros fuel h t F TG; (destruct fuel as [|fuel]; [cbn in F; lia|]); cbn [finish].
  - unfold step. rewrite TG. reflexivity.
  - unfold step. rewrite TG. destruct rest as [|o2 rest2].
    + reflexivity.
    + rewrite IH; cbn [h_cache h_store h_threads].
      * rewrite th_del_set. reflexivity.
      * cbn in F |- *. lia.
      * apply th_get_set.
Qed.

Lemma finish_S fuel h t :
  finish (S fuel) h t = let '(h', res) := step h t in match res with HParked => finish fuel h' t | _ => (h', res) end.
Proof. reflexivity. Qed.

(* ---- the sequential heartbeat, unfolded ---- *)
Definition seq_result (h : hstate) (r : region) : hstate * hres :=
  let '(origin, err) := precheck (h_cache h) r in
  if err then (h, HErr)
  else
    let fl := compute_flags r origin in
    if negb (f_kv fl) && negb (f_cache fl) && negb (f_new fl) then (h, HOk)
    else if f_cache fl then
      let '(c', ov) := set_region (h_cache h) r in
      (HState c' (fold_left apply_sop (store_ops ov r fl) (h_store h)) (h_threads h), HOk)
    else (HState (h_cache h) (fold_left apply_sop (store_ops [] r fl) (h_store h)) (h_threads h), HOk).

Lemma store_ops_len ov r fl : (length (store_ops ov r fl) <= S (length ov))%nat.
Proof. unfold store_ops. rewrite app_length, map_length. destruct (f_kv fl); cbn; lia. Qed.

Lemma set_region_ov_len c r : Inv c -> wf_region r = true ->
  (length (snd (set_region c r)) <= length (items (tree c)))%nat.
Proof.
  intros I W. destruct (Inv_set c r I W) as (_ & _ & E). rewrite E. unfold displaced, cached.
  clear. induction (items (tree c)) as [|a l IH]; cbn; [lia|]. destruct (_ && _); cbn; lia.
Qed.

Lemma heartbeat_seq h r : Inv (h_cache h) -> wf_region r = true -> th_get (h_threads h) (-1) = None ->
  heartbeat h r = seq_result h r.
Proof.
  intros I W TG. unfold heartbeat, seq_result, begin. rewrite TG.
  destruct (precheck (h_cache h) r) as [origin err] eqn:PC. destruct err; [reflexivity|].
  destruct (negb _ && negb _ && negb _) eqn:ND; [reflexivity|].
  set (fl := compute_flags r origin).
  set (h1 := HState (h_cache h) (h_store h) (th_set (h_threads h) (-1) (PLock r fl))).
  assert (TG1 : th_get (h_threads h1) (-1) = Some (PLock r fl)) by apply th_get_set.
  unfold fuel_of. rewrite TG1. rewrite finish_S. unfold step at 1. rewrite TG1. cbn [h_cache h_store h_threads h1].
  destruct (f_cache fl) eqn:FC.
  - rewrite PC. pose proof (set_region_ov_len _ r I W) as OL.
    destruct (set_region (h_cache h) r) as [c' ov] eqn:SR. cbn [snd] in OL.
    pose proof (store_ops_len ov r fl) as SL.
    destruct (store_ops ov r fl) as [|o todo] eqn:SO.
    + cbv beta iota. cbn [fold_left]. rewrite th_del_set, (th_del_none _ _ TG). reflexivity.
    + cbv beta iota. rewrite (finish_store (o :: todo)); cbn [h_cache h_store h_threads].
      * rewrite !th_del_set, (th_del_none _ _ TG). reflexivity.
      * cbn in SL |- *. lia.
      * apply th_get_set.
  - destruct (store_ops [] r fl) as [|o todo] eqn:SO.
    + cbv beta iota. cbn [fold_left]. rewrite th_del_set, (th_del_none _ _ TG). reflexivity.
    + pose proof (store_ops_len [] r fl) as SL. rewrite SO in SL. cbv beta iota.
      rewrite (finish_store (o :: todo)); cbn [h_cache h_store h_threads].
      * rewrite !th_del_set, (th_del_none _ _ TG). reflexivity.
      * cbn in SL |- *. lia.
      * apply th_get_set.
Qed.

(* ---- direct backend: storage never holds a region that is not served ---- *)
Definition store_sub (h : hstate) : Prop :=
  s_wb (h_store h) = false /\ NoDup (map fst (s_kv (h_store h))) /\
  forall id x, load_region (h_store h) id = Some x -> get_region (h_cache h) id <> None.

Lemma flags_kv_cache r origin : f_kv (compute_flags r origin) = true -> f_cache (compute_flags r origin) = true.
Proof.
  destruct origin as [o|]; cbn; [|reflexivity]. intros H.
  apply orb_true_iff in H as [H|H]; [apply orb_true_iff in H as [H|H]|]; rewrite H; rewrite ?orb_true_r; reflexivity.
Qed.

Lemma fold_dels s ov : s_wb s = false -> NoDup (map fst (s_kv s)) ->
  let s' := fold_left apply_sop (map SDel ov) s in
  s_wb s' = false /\ NoDup (map fst (s_kv s')) /\
  forall id x, load_region s' id = Some x <-> (load_region s id = Some x /\ ~ In id (map r_id ov)).
Proof.
  revert s. induction ov as [|o ov IH]; intros s W N; cbn.
  - split; [exact W|]. split; [exact N|]. intros id x. tauto.
  - set (s1 := delete_region s o).
    assert (W1 : s_wb s1 = false) by exact W.
    assert (N1 : NoDup (map fst (s_kv s1))) by (apply regs_del_nodup, N).
    destruct (IH s1 W1 N1) as (A & B & C). split; [exact A|]. split; [exact B|].
    intros id x. rewrite C. unfold load_region, s1, delete_region, kv_del. cbn [s_kv].
    rewrite !(regs_get_in _ _ _ N), (regs_get_in _ _ _ (regs_del_nodup _ _ N)), (regs_del_in _ _ _ _ N).
    split; [intros [[NE H] NI]; split; [exact H|intros [E|H']; [congruence|contradiction]]
           |intros [H NI]; split; [split; [intros E; apply NI; left; congruence|exact H]|intros H'; apply NI; right; exact H']].
Qed.

Theorem storage_subset_seq_pf h r : Inv (h_cache h) -> wf_region r = true -> th_get (h_threads h) (-1) = None ->
  store_sub h -> store_sub (fst (heartbeat h r)).
Proof.
  intros I W TG (WB & N & SUB). rewrite (heartbeat_seq _ _ I W TG). unfold seq_result.
  destruct (precheck (h_cache h) r) as [origin err]. destruct err; [cbn; split; [exact WB|split; [exact N|exact SUB]]|].
  cbv zeta. set (fl := compute_flags r origin).
  destruct (negb (f_kv fl) && negb (f_cache fl) && negb (f_new fl)); [cbn; split; [exact WB|split; [exact N|exact SUB]]|].
  destruct (f_cache fl) eqn:FC.
  - destruct (Inv_set _ r I W) as (I' & ET & EO).
    destruct (set_region (h_cache h) r) as [c' ov] eqn:SR. cbn [fst snd] in *.
    unfold store_ops. rewrite fold_left_app.
    destruct (fold_dels (h_store h) ov WB N) as (A & B & C).
    set (s1 := fold_left apply_sop (map SDel ov) (h_store h)) in *.
    assert (KEEP : forall id x, load_region s1 id = Some x -> get_region c' id <> None).
    { intros id x L. apply C in L as [L NI]. specialize (SUB id x L).
      destruct (get_region (h_cache h) id) as [y|] eqn:GY; [|congruence]. clear SUB.
      destruct I as (_ & HR & (_ & _ & _)). destruct I' as (_ & HR' & _).
      apply (regs_rep_get _ _ _ _ HR) in GY as [Hy Ey]. fold (cached (h_cache h)) in Hy.
      destruct (Z.eqb_spec id (r_id r)) as [E|NE].
      - intros GN. apply (regs_rep_get_none _ _ _ HR' GN r); [|congruence].
        fold (cached c'). rewrite ET. apply spec_tree_in. left; reflexivity.
      - intros GN. apply (regs_rep_get_none _ _ _ HR' GN y); [|exact Ey].
        fold (cached c'). rewrite ET. apply spec_tree_in. right. split; [exact Hy|].
        unfold keep. rewrite Ey. replace (id =? r_id r) with false by (symmetry; apply Z.eqb_neq, NE). cbn.
        destruct (overlaps y r) eqn:O; [|reflexivity]. exfalso. apply NI. rewrite EO.
        apply in_map_iff. exists y. split; [exact Ey|]. unfold displaced. apply filter_In. split; [exact Hy|].
        rewrite Ey. replace (id =? r_id r) with false by (symmetry; apply Z.eqb_neq, NE). exact O. }
    destruct (f_kv fl); cbn [fold_left h_cache h_store].
    + unfold apply_sop, save_region. rewrite A. split; [reflexivity|]. cbn [s_kv s_wb]. split; [apply regs_put_nodup, B|].
      intros id x L. unfold load_region in L. cbn [s_kv] in L. unfold kv_put in L.
      apply (regs_get_in _ _ _ (regs_put_nodup _ _ _ B)) in L. apply (regs_put_in _ _ _ _ _ B) in L as [[-> ->]|[NE L]].
      * destruct I' as (_ & HR' & _). intros GN. apply (regs_rep_get_none _ _ _ HR' GN r); [|reflexivity].
        fold (cached c'). rewrite ET. apply spec_tree_in. left; reflexivity.
      * apply (KEEP id x). unfold load_region. apply (regs_get_in _ _ _ B). exact L.
    + split; [exact A|]. split; [exact B|exact KEEP].
  - assert (FK : f_kv fl = false).
    { destruct (f_kv fl) eqn:FK; [|reflexivity]. unfold fl in FK, FC. rewrite (flags_kv_cache _ _ FK) in FC. discriminate. }
    unfold store_ops. rewrite FK. cbn. split; [exact WB|split; [exact N|exact SUB]].
Qed.

(* the regions displaced by an accepted sequential heartbeat are gone from storage when it returns *)
Theorem displaced_gone_from_storage_seq_pf h r x :
  Inv (h_cache h) -> wf_region r = true -> th_get (h_threads h) (-1) = None -> store_sub h ->
  get_region (h_cache h) (r_id x) <> None -> get_region (h_cache (fst (heartbeat h r))) (r_id x) = None ->
  load_region (h_store (fst (heartbeat h r))) (r_id x) = None.
Proof.
  intros I W TG SS _ GN. destruct (storage_subset_seq_pf h r I W TG SS) as (_ & _ & SUB).
  destruct (load_region _ (r_id x)) as [y|] eqn:L; [|reflexivity]. exfalso. eapply SUB; eauto.
Qed.

(* ---- write-back backend: the clause is false (DeleteRegion does not look at the batch) ---- *)
Definition storage_subset_full : Prop :=
  forall wb rs, Forall (fun r => wf_region r = true) rs ->
  let h := fold_left (fun h o => fst (h_step h o)) (map OHb rs ++ [OFlush]) (h_init wb) in
  forall id x, load_region (h_store h) id = Some x -> get_region (h_cache h) id <> None.

Definition witness_writeback : list region :=
  [Region 1 (K [97]) (K [99]) [Peer 11 1 false; Peer 12 2 false] 11 [] 10 1 1 1 1;
   Region 2 (K [97]) (K [99]) [Peer 21 1 false; Peer 22 2 false] 21 [] 10 2 1 1 2].

Theorem storage_subset_refuted_pf : ~ storage_subset_full.
Proof.
  intros H. specialize (H true witness_writeback).
  assert (W : Forall (fun r => wf_region r = true) witness_writeback) by (repeat constructor).
  specialize (H W 1). cbn zeta in H.
  set (h := fold_left _ _ _) in H.
  assert (E : load_region (h_store h) 1 = Some (Region 1 (K [97]) (K [99]) [Peer 11 1 false; Peer 12 2 false] 11 [] 10 1 1 1 1)) by (vm_compute; reflexivity).
  specialize (H _ E). apply H. vm_compute. reflexivity.
Qed.

(* ---- any number of heartbeats handled one at a time, direct backend ---- *)
Definition seq_run (wb : bool) (rs : list region) : hstate :=
  fold_left (fun h r => fst (heartbeat h r)) rs (h_init wb).

Lemma seq_result_keeps h r : Inv (h_cache h) -> wf_region r = true ->
  Inv (h_cache (fst (seq_result h r))) /\ h_threads (fst (seq_result h r)) = h_threads h.
Proof.
  intros I W. unfold seq_result. destruct (precheck (h_cache h) r) as [origin err]. destruct err; [auto|].
  cbv zeta. destruct (negb _ && negb _ && negb _); [auto|].
  destruct (f_cache (compute_flags r origin)); [|auto].
  destruct (Inv_set _ r I W) as (I' & _ & _). destruct (set_region (h_cache h) r) as [c' ov]. auto.
Qed.

Theorem storage_subset_run_pf rs : Forall (fun r => wf_region r = true) rs ->
  let h := seq_run false rs in
  Inv (h_cache h) /\ h_threads h = [] /\ store_sub h.
Proof.
  unfold seq_run.
  assert (G : forall rs h, Forall (fun r => wf_region r = true) rs ->
              Inv (h_cache h) -> h_threads h = [] -> store_sub h ->
              let h' := fold_left (fun h r => fst (heartbeat h r)) rs h in
              Inv (h_cache h') /\ h_threads h' = [] /\ store_sub h').
  { clear rs. induction rs as [|r rs IH]; intros h F I T S; cbn; [auto|]. inversion F as [|? ? W F']; subst.
    assert (TG : th_get (h_threads h) (-1) = None) by (rewrite T; reflexivity).
    apply IH; auto.
    - rewrite (heartbeat_seq _ _ I W TG). apply (seq_result_keeps _ _ I W).
    - rewrite (heartbeat_seq _ _ I W TG). rewrite (proj2 (seq_result_keeps _ _ I W)). exact T.
    - apply storage_subset_seq_pf; auto. }
  intros F. apply G; auto.
  - apply Inv_empty.
  - split; [reflexivity|]. split; [constructor|]. intros id x H. discriminate H.
Qed.
