(* C06 — storage clauses: heartbeats handled one at a time. *)
From Coq Require Import Permutation Sorting.Sorted.
From PDV Require Import lib.Base lib.C07_Key gen.Gen_C06 model.C07_BTreeSpec model.C07_Region
  proof.C07_Sorted proof.C07_Tree proof.C07_RegionProof proof.C07_Spec model.C06_Heartbeat proof.C06_HeartbeatProof.
Local Open Scope Z_scope.

(* ---- thread table ---- *)
Lemma th_get_set l t p : th_get (th_set l t p) t = Some p.
Proof. unfold th_set. cbn. rewrite Z.eqb_refl. reflexivity. Qed.
Lemma th_del_set l t p : th_del (th_set l t p) t = th_del l t.
Proof. unfold th_set. cbn. rewrite Z.eqb_refl. reflexivity. Qed.
Lemma th_del_none l t : th_get l t = None -> th_del l t = l.
Proof.
  induction l as [|[k v] l IH]; cbn; [reflexivity|]. destruct (k =? t); [discriminate|]. intros H. rewrite IH; auto.
Qed.
Lemma th_get_del l t : th_get (th_del l t) t = None -> th_del (th_del l t) t = th_del l t.
Proof. apply th_del_none. Qed.

(* ---- running the storage operations of a thread to the end ---- *)
Lemma finish_store todo : forall fuel h t,
  (length todo < fuel)%nat -> th_get (h_threads h) t = Some (PStore todo) ->
  finish fuel h t = (HState (h_cache h) (fold_left apply_sop todo (h_store h)) (th_del (h_threads h) t), HOk).
Proof.
  induction todo as [|o rest IH]; intros fuel h t F TG; (destruct fuel as [|fuel]; [cbn in F; lia|]); cbn [finish].
  - unfold step. rewrite TG. reflexivity.
  - unfold step. rewrite TG. destruct rest as [|o2 rest2].
    + reflexivity.
    + rewrite IH; cbn [h_cache h_store h_threads].
      * rewrite th_del_set. reflexivity.
      * cbn in F |- *. lia.
      * apply th_get_set.
Qed.

Lemma finish_S fuel h t :
  finish (S fuel) h t = let '(h', res) := step h t in match res with HParked => finish fuel h' t | _ => (h', res) end.
Proof. reflexivity. Qed.

(* ---- the sequential heartbeat, unfolded ---- *)
Definition seq_result (h : hstate) (r : region) : hstate * hres :=
  let '(origin, err) := precheck (h_cache h) r in
  if err then (h, HErr)
  else
    let fl := compute_flags r origin in
    if negb (f_kv fl) && negb (f_cache fl) && negb (f_new fl) then (h, HOk)
    else if f_cache fl then
      let '(c', ov) := put_region (h_cache h) r in
      (HState c' (fold_left apply_sop (store_ops ov r fl) (h_store h)) (h_threads h), HOk)
    else (HState (h_cache h) (fold_left apply_sop (store_ops [] r fl) (h_store h)) (h_threads h), HOk).

Lemma store_ops_len ov r fl : (length (store_ops ov r fl) <= S (length ov))%nat.
Proof. unfold store_ops. rewrite app_length, map_length. destruct (f_kv fl); cbn; lia. Qed.

Lemma set_region_ov_len c r : Inv c -> wf_region r = true ->
  (length (snd (put_region c r)) <= length (items (tree c)))%nat.
Proof.
  intros I W. destruct (Inv_put c r I W) as (_ & _ & E). rewrite E. unfold displaced, cached.
  clear. induction (items (tree c)) as [|a l IH]; cbn; [lia|]. destruct (_ && _); cbn; lia.
Qed.

Lemma heartbeat_seq h r : Inv (h_cache h) -> wf_region r = true -> th_get (h_threads h) (-1) = None ->
  heartbeat h r = seq_result h r.
Proof.
  intros I W TG. unfold heartbeat, seq_result, begin. rewrite TG.
  destruct (precheck (h_cache h) r) as [origin err] eqn:PC. destruct err; [reflexivity|].
  destruct (negb _ && negb _ && negb _) eqn:ND; [reflexivity|].
  set (fl := compute_flags r origin).
  set (h1 := HState (h_cache h) (h_store h) (th_set (h_threads h) (-1) (PLock r fl))).
  assert (TG1 : th_get (h_threads h1) (-1) = Some (PLock r fl)) by apply th_get_set.
  unfold fuel_of. rewrite TG1. rewrite finish_S. unfold step at 1. rewrite TG1. cbn [h_cache h_store h_threads h1].
  destruct (f_cache fl) eqn:FC.
  - rewrite PC. pose proof (set_region_ov_len _ r I W) as OL.
    destruct (put_region (h_cache h) r) as [c' ov] eqn:SR. cbn [snd] in OL.
    pose proof (store_ops_len ov r fl) as SL.
    destruct (store_ops ov r fl) as [|o todo] eqn:SO.
    + cbv beta iota. cbn [fold_left]. rewrite th_del_set, (th_del_none _ _ TG). reflexivity.
    + cbv beta iota. rewrite (finish_store (o :: todo)); cbn [h_cache h_store h_threads].
      * rewrite !th_del_set, (th_del_none _ _ TG). reflexivity.
      * cbn in SL |- *. lia.
      * apply th_get_set.
  - destruct (store_ops [] r fl) as [|o todo] eqn:SO.
    + cbv beta iota. cbn [fold_left]. rewrite th_del_set, (th_del_none _ _ TG). reflexivity.
    + pose proof (store_ops_len [] r fl) as SL. rewrite SO in SL. cbv beta iota.
      rewrite (finish_store (o :: todo)); cbn [h_cache h_store h_threads].
      * rewrite !th_del_set, (th_del_none _ _ TG). reflexivity.
      * cbn in SL |- *. lia.
      * apply th_get_set.
Qed.

(* ---- storage never holds a region that is not served (either backend) ---- *)
(* what the storage holds or is about to write: the keys of the kv and of the write-back batch *)
Definition keys (l : kvmap) : list Z := map fst l.
Definition kc (l : kvmap) : Prop := forall k v, In (k, v) l -> k = r_id v.
Definition held (s : storage) (id : Z) : Prop := In id (keys (s_kv s)) \/ In id (keys (s_batch s)).
Definition store_ok (s : storage) : Prop :=
  (s_wb s = false -> s_batch s = []) /\ NoDup (keys (s_kv s)) /\ NoDup (keys (s_batch s)) /\ kc (s_batch s).
Definition store_sub (h : hstate) : Prop :=
  store_ok (h_store h) /\ forall id, held (h_store h) id -> get_region (h_cache h) id <> None.

Lemma keys_iff (l : kvmap) k : In k (keys l) <-> exists v, In (k, v) l.
Proof.
  unfold keys. rewrite in_map_iff. split.
  - intros [[k' v] [E H]]. cbn in E. subst. eauto.
  - intros [v H]. exists (k, v). auto.
Qed.

Lemma keys_del l id k : NoDup (keys l) -> (In k (keys (regs_del l id)) <-> k <> id /\ In k (keys l)).
Proof.
  intros N. rewrite !keys_iff. split.
  - intros [v H]. apply (regs_del_in _ _ _ _ N) in H as [NE H]. eauto.
  - intros [NE [v H]]. exists v. apply (regs_del_in _ _ _ _ N). auto.
Qed.

Lemma keys_put l id r k : NoDup (keys l) -> (In k (keys (regs_put l id r)) <-> k = id \/ In k (keys l)).
Proof.
  intros N. rewrite !keys_iff. split.
  - intros [v H]. apply (regs_put_in _ _ _ _ _ N) in H as [[E _]|[NE H]]; eauto.
  - intros H. destruct (Z.eq_dec k id) as [E|NE].
    + exists r. apply (regs_put_in _ _ _ _ _ N). auto.
    + destruct H as [E|[v H]]; [contradiction|]. exists v. apply (regs_put_in _ _ _ _ _ N). auto.
Qed.

Lemma kc_put l r : NoDup (keys l) -> kc l -> kc (kv_put l r).
Proof. intros N KC k v H. apply (regs_put_in _ _ _ _ _ N) in H as [[E1 E2]|[_ H]]; [subst; reflexivity|auto]. Qed.
Lemma kc_del l id : NoDup (keys l) -> kc l -> kc (kv_del l id).
Proof. intros N KC k v H. apply (regs_del_in _ _ _ _ N) in H as [_ H]. auto. Qed.

Lemma load_held s id x : load_region s id = Some x -> held s id.
Proof.
  unfold load_region. intros H. left. apply keys_iff. exists x. revert H.
  induction (s_kv s) as [|[k v] l IH]; cbn; [discriminate|]. destruct (Z.eqb_spec k id) as [->|NE].
  - intros E. inversion E. auto.
  - auto.
Qed.

Lemma flush_keys batch : forall m, NoDup (keys m) -> kc batch ->
  let m' := fold_left (fun m kv => kv_put m (snd kv)) batch m in
  NoDup (keys m') /\ forall k, In k (keys m') -> In k (keys m) \/ In k (keys batch).
Proof.
  induction batch as [|[k0 v0] b IH]; intros m N KC; cbn.
  - auto.
  - assert (KC' : kc b) by (intros k v H; apply KC; right; exact H).
    assert (E0 : k0 = r_id v0) by (apply KC; left; reflexivity).
    destruct (IH (kv_put m v0) (regs_put_nodup _ _ _ N) KC') as [N' SUB]. split; [exact N'|].
    intros k H. apply SUB in H as [H|H]; [|right; right; exact H].
    unfold kv_put in H. apply (keys_put _ _ _ _ N) in H as [H|H]; [right; left; cbn; congruence|left; exact H].
Qed.

Lemma flush_ok s : store_ok s -> store_ok (flush s) /\ forall id, held (flush s) id -> held s id.
Proof.
  intros (WB & N1 & N2 & KC). destruct (flush_keys (s_batch s) (s_kv s) N1 KC) as [N' SUB].
  split.
  - unfold flush, store_ok. cbn [s_wb s_kv s_batch]. split; [reflexivity|]. split; [exact N'|]. split; [constructor|].
    intros k v H; destruct H.
  - intros id [H|H]; [|destruct H]. unfold flush in H. cbn [s_kv] in H. apply SUB in H. exact H.
Qed.

Lemma delete_ok s r : store_ok s ->
  store_ok (delete_region s r) /\ s_wb (delete_region s r) = s_wb s /\
  forall id, held (delete_region s r) id <-> (held s id /\ id <> r_id r).
Proof.
  intros (WB & N1 & N2 & KC). unfold delete_region, held, store_ok. cbn [s_wb s_kv s_batch].
  destruct (s_wb s) eqn:W.
  - split; [|split; [reflexivity|]].
    + split; [discriminate|]. split; [apply regs_del_nodup, N1|]. split; [apply regs_del_nodup, N2|apply kc_del; auto].
    + intros id. unfold kv_del. rewrite (keys_del _ _ _ N1), (keys_del _ _ _ N2). tauto.
  - rewrite (WB eq_refl). split; [|split; [reflexivity|]].
    + split; [reflexivity|]. split; [apply regs_del_nodup, N1|]. split; [constructor|]. intros k v H; destruct H.
    + intros id. unfold kv_del. rewrite (keys_del _ _ _ N1). cbn. tauto.
Qed.

Lemma save_ok s r : store_ok s ->
  store_ok (save_region s r) /\ forall id, held (save_region s r) id -> id = r_id r \/ held s id.
Proof.
  intros OK. pose proof OK as (WB & N1 & N2 & KC). unfold save_region.
  destruct (s_wb s) eqn:W.
  - set (s1 := Storage true (s_kv s) (kv_put (s_batch s) r) (s_count s)).
    assert (OK1 : forall c, store_ok (Storage true (s_kv s) (kv_put (s_batch s) r) c)).
    { intros c. split; [discriminate|]. split; [exact N1|]. split; [apply regs_put_nodup, N2|apply kc_put; auto]. }
    assert (H1 : forall c id, held (Storage true (s_kv s) (kv_put (s_batch s) r) c) id -> id = r_id r \/ held s id).
    { intros c id [H|H]; cbn [s_kv s_batch] in H; [right; left; exact H|].
      apply (keys_put _ _ _ _ N2) in H as [H|H]; [auto|right; right; exact H]. }
    destruct (s_count s <? batch_size - 1).
    + split; [apply OK1|apply H1].
    + destruct (flush_ok _ (OK1 (s_count s))) as [A B]. split; [exact A|]. intros id H. apply B in H. apply H1 in H. exact H.
  - split.
    + split; [intros _; apply WB; reflexivity|]. split; [apply regs_put_nodup, N1|]. split; [exact N2|exact KC].
    + intros id [H|H]; cbn [s_kv s_batch] in H; [|right; right; exact H].
      apply (keys_put _ _ _ _ N1) in H as [H|H]; [auto|right; left; exact H].
Qed.

Lemma fold_dels s ov : store_ok s ->
  let s' := fold_left apply_sop (map SDel ov) s in
  store_ok s' /\ forall id, held s' id <-> (held s id /\ ~ In id (map r_id ov)).
Proof.
  revert s. induction ov as [|o ov IH]; intros s OK; cbn.
  - split; [exact OK|]. intros id. tauto.
  - destruct (delete_ok s o OK) as (OK1 & _ & H1).
    destruct (IH (delete_region s o) OK1) as (A & C). split; [exact A|].
    intros id. rewrite C, H1. split.
    + intros [[H NE] NI]. split; [exact H|]. intros [E|H']; [congruence|contradiction].
    + intros [H NI]. split; [split; [exact H|intros E; apply NI; left; congruence]|intros H'; apply NI; right; exact H'].
Qed.

Theorem storage_subset_seq_pf h r : Inv (h_cache h) -> wf_region r = true -> th_get (h_threads h) (-1) = None ->
  store_sub h -> store_sub (fst (heartbeat h r)).
Proof.
  intros I W TG (OK & SUB). rewrite (heartbeat_seq _ _ I W TG). unfold seq_result.
  destruct (precheck (h_cache h) r) as [origin err]. destruct err; [cbn; split; [exact OK|exact SUB]|].
  cbv zeta. set (fl := compute_flags r origin).
  destruct (negb (f_kv fl) && negb (f_cache fl) && negb (f_new fl)); [cbn; split; [exact OK|exact SUB]|].
  destruct (f_cache fl) eqn:FC.
  - destruct (Inv_put _ r I W) as (I' & ET & EO).
    destruct (put_region (h_cache h) r) as [c' ov] eqn:SR. cbn [fst snd] in *.
    unfold store_ops. rewrite fold_left_app.
    destruct (fold_dels (h_store h) ov OK) as (A & C).
    set (s1 := fold_left apply_sop (map SDel ov) (h_store h)) in *.
    assert (KEEP : forall id, held s1 id -> get_region c' id <> None).
    { intros id L. apply C in L as [L NI]. specialize (SUB id L).
      destruct (get_region (h_cache h) id) as [y|] eqn:GY; [|congruence]. clear SUB.
      destruct I as (_ & HR & (_ & _ & _)). destruct I' as (_ & HR' & _).
      apply (regs_rep_get _ _ _ _ HR) in GY as [Hy Ey]. fold (cached (h_cache h)) in Hy.
      destruct (Z.eqb_spec id (r_id r)) as [E|NE].
      - intros GN. apply (regs_rep_get_none _ _ _ HR' GN (keep_term (h_cache h) r)); [|rewrite keep_term_id; congruence].
        fold (cached c'). rewrite ET. apply spec_tree_in. left; reflexivity.
      - intros GN. apply (regs_rep_get_none _ _ _ HR' GN y); [|exact Ey].
        fold (cached c'). rewrite ET. apply spec_tree_in. right. split; [exact Hy|].
        rewrite keep_keep_term. unfold keep. rewrite Ey. replace (id =? r_id r) with false by (symmetry; apply Z.eqb_neq, NE). cbn.
        destruct (overlaps y r) eqn:O; [|reflexivity]. exfalso. apply NI. rewrite EO.
        apply in_map_iff. exists y. split; [exact Ey|]. unfold displaced. apply filter_In. split; [exact Hy|].
        rewrite Ey. replace (id =? r_id r) with false by (symmetry; apply Z.eqb_neq, NE). exact O. }
    destruct (f_kv fl); cbn [fold_left h_cache h_store].
    + unfold apply_sop. destruct (save_ok s1 r A) as [A' B']. split; [exact A'|].
      intros id L. apply B' in L as [->|L]; [|apply KEEP, L].
      destruct I' as (_ & HR' & _). intros GN. apply (regs_rep_get_none _ _ _ HR' GN (keep_term (h_cache h) r)); [|apply keep_term_id].
      fold (cached c'). rewrite ET. apply spec_tree_in. left; reflexivity.
    + split; [exact A|exact KEEP].
  - assert (FK : f_kv fl = false).
    { destruct (f_kv fl) eqn:FK; [|reflexivity]. unfold fl in FK, FC. rewrite (flags_kv_cache _ _ FK) in FC. discriminate. }
    unfold store_ops. rewrite FK. cbn. split; [exact OK|exact SUB].
Qed.

(* the regions displaced by an accepted sequential heartbeat are gone from storage (and from the pending batch)
   when it returns *)
Theorem displaced_gone_from_storage_seq_pf h r x :
  Inv (h_cache h) -> wf_region r = true -> th_get (h_threads h) (-1) = None -> store_sub h ->
  get_region (h_cache h) (r_id x) <> None -> get_region (h_cache (fst (heartbeat h r))) (r_id x) = None ->
  load_region (h_store (fst (heartbeat h r))) (r_id x) = None /\ ~ held (h_store (fst (heartbeat h r))) (r_id x).
Proof.
  intros I W TG SS _ GN. destruct (storage_subset_seq_pf h r I W TG SS) as (_ & SUB).
  assert (NH : ~ held (h_store (fst (heartbeat h r))) (r_id x)) by (intros H; exact (SUB _ H GN)).
  split; [|exact NH].
  destruct (load_region _ (r_id x)) as [y|] eqn:L; [|reflexivity]. exfalso. apply NH. eapply load_held; eauto.
Qed.

(* ---- any number of heartbeats handled one at a time, flushes anywhere, either backend ---- *)
Definition seq_op (o : hop) : Prop :=
  match o with OHb r => wf_region r = true | OFlush => True | _ => False end.
Definition seq_ops (wb : bool) (ops : list hop) : hstate :=
  fold_left (fun h o => fst (h_step h o)) ops (h_init wb).
Definition seq_run (wb : bool) (rs : list region) : hstate :=
  fold_left (fun h r => fst (heartbeat h r)) rs (h_init wb).

Lemma seq_result_keeps h r : Inv (h_cache h) -> wf_region r = true ->
  Inv (h_cache (fst (seq_result h r))) /\ h_threads (fst (seq_result h r)) = h_threads h.
Proof.
  intros I W. unfold seq_result. destruct (precheck (h_cache h) r) as [origin err]. destruct err; [auto|].
  cbv zeta. destruct (negb _ && negb _ && negb _); [auto|].
  destruct (f_cache (compute_flags r origin)); [|auto].
  destruct (Inv_put _ r I W) as (I' & _ & _). destruct (put_region (h_cache h) r) as [c' ov]. auto.
Qed.

Lemma hb_step_fst h r : fst (h_step h (OHb r)) = fst (heartbeat h r).
Proof. cbn. destruct (heartbeat h r). reflexivity. Qed.

Theorem storage_subset_ops_pf wb ops : Forall seq_op ops ->
  let h := seq_ops wb ops in
  Inv (h_cache h) /\ h_threads h = [] /\ store_sub h.
Proof.
  unfold seq_ops.
  assert (G : forall ops h, Forall seq_op ops ->
              Inv (h_cache h) -> h_threads h = [] -> store_sub h ->
              let h' := fold_left (fun h o => fst (h_step h o)) ops h in
              Inv (h_cache h') /\ h_threads h' = [] /\ store_sub h').
  { clear ops. induction ops as [|o ops IH]; intros h F I T SS; cbn [fold_left]; [auto|].
    inversion F as [|? ? W F']; subst.
    destruct o as [r| | | | | | | |]; cbn in W; try contradiction.
    - assert (TG : th_get (h_threads h) (-1) = None) by (rewrite T; reflexivity).
      rewrite hb_step_fst. apply IH; auto.
      + rewrite (heartbeat_seq _ _ I W TG). apply (seq_result_keeps _ _ I W).
      + rewrite (heartbeat_seq _ _ I W TG). rewrite (proj2 (seq_result_keeps _ _ I W)). exact T.
      + apply storage_subset_seq_pf; auto.
    - apply IH; auto. cbn. destruct SS as [OK SUB]. destruct (flush_ok _ OK) as [A B].
      split; [exact A|]. cbn [h_store h_cache]. intros id H. apply SUB, B, H. }
  intros F. apply G; auto.
  - apply Inv_empty.
  - split.
    + cbn. split; [reflexivity|]. split; [constructor|]. split; [constructor|]. intros k v H; destruct H.
    + intros id [[]|[]].
Qed.

Lemma seq_run_ops wb rs : seq_run wb rs = seq_ops wb (map OHb rs).
Proof.
  unfold seq_run, seq_ops. generalize (h_init wb). induction rs as [|r rs IH]; intros h; cbn [map fold_left]; [reflexivity|].
  rewrite hb_step_fst. apply IH.
Qed.

Theorem storage_subset_run_pf wb rs : Forall (fun r => wf_region r = true) rs ->
  let h := seq_run wb rs in
  Inv (h_cache h) /\ h_threads h = [] /\ store_sub h.
Proof.
  intros F. cbv zeta. rewrite seq_run_ops. apply storage_subset_ops_pf.
  apply Forall_forall. intros o H. apply in_map_iff in H as [r [<- H]]. cbn. exact (proj1 (Forall_forall _ _) F r H).
Qed.

(* ---- the clause that was false before commit 8a5de01 (DeleteRegion did not look at the write-back batch):
        heartbeats one at a time on either backend, then a flush: storage holds served regions only ---- *)
Definition storage_subset_full : Prop :=
  forall wb rs, Forall (fun r => wf_region r = true) rs ->
  let h := fold_left (fun h o => fst (h_step h o)) (map OHb rs ++ [OFlush]) (h_init wb) in
  forall id x, load_region (h_store h) id = Some x -> get_region (h_cache h) id <> None.

Theorem storage_subset_full_pf : storage_subset_full.
Proof.
  intros wb rs F. cbv zeta. intros id x L.
  assert (FO : Forall seq_op (map OHb rs ++ [OFlush])).
  { apply Forall_app. split; [|repeat constructor].
    apply Forall_forall. intros o H. apply in_map_iff in H as [r [<- H]]. cbn. exact (proj1 (Forall_forall _ _) F r H). }
  destruct (storage_subset_ops_pf wb _ FO) as (_ & _ & (_ & SUB)). apply SUB. eapply load_held; eauto.
Qed.

(* regression case: the history that refuted the clause before the repair (region 1 saved to the batch, displaced
   by region 2, flush) now leaves only region 2 in storage *)
Definition witness_writeback : list region :=
  [Region 1 (K [97]) (K [99]) [Peer 11 1 false; Peer 12 2 false] 11 [] 10 1 1 1 1;
   Region 2 (K [97]) (K [99]) [Peer 21 1 false; Peer 22 2 false] 21 [] 10 2 1 1 2].

Example witness_writeback_behaves :
  let h := fold_left (fun h o => fst (h_step h o)) (map OHb witness_writeback ++ [OFlush]) (h_init true) in
  load_region (h_store h) 1 = None /\ map fst (s_kv (h_store h)) = [2] /\ map r_id (cached (h_cache h)) = [2].
Proof. vm_compute. auto. Qed.
