(* C01 for an allocator that differentiates its logical part (a Local TSO Allocator, or the Global one when
   dc-locations are configured): generateTSO returns  raw << b + sfx  (tso.go differentiateLogical), getTS drops the
   answer unless THAT value is below maxLogical, and a response with count n stands for the n values
   differentiate (raw - i) for i < n (client: addLogical(logical, -count+1, suffixBits), stride 2^b).

   The memory, the window and the raw counter evolve exactly as in model/C01_Tso.v (the counter is advanced before the
   check, whatever the check says), and the suffixed check is stricter than the raw one (raw <= raw << b + sfx), so a
   run of the suffixed allocator is a run of the model in which some more answers are dropped: everything the model
   proves about granted records holds for the answers the suffixed allocator hands out.  This file transports those
   facts through the differentiation: it is strictly monotone, so order and disjointness survive, and the check on
   the differentiated value is what makes every value of the answer fit the 18-bit field. *)
From Coq Require Import ZArith List Lia.
From PDV Require Import lib.Base model.C01_Tso proof.C01_Rec proof.C01_Main.
Local Open Scope Z_scope.

Definition differentiate (raw b sfx : Z) : Z := Z.shiftl raw b + sfx.

(* the i-th value (from the top) of an answer *)
Definition value_of (b sfx : Z) (r : rec) (i : Z) : Z * Z := (gP r, differentiate (gL r - i) b sfx).
(* the check of getTS on the differentiated logical part *)
Definition passes (b sfx : Z) (r : rec) : Prop := differentiate (gL r) b sfx < max_logical.

Lemma differentiate_eq raw b sfx : 0 <= b -> differentiate raw b sfx = raw * 2 ^ b + sfx.
Proof. intros Hb. unfold differentiate. rewrite Z.shiftl_mul_pow2 by exact Hb. reflexivity. Qed.

Lemma differentiate_mono b sfx x y : 0 <= b -> x < y -> differentiate x b sfx < differentiate y b sfx.
Proof.
  intros Hb Hxy. rewrite !differentiate_eq by exact Hb.
  assert (0 < 2 ^ b) by (apply Z.pow_pos_nonneg; lia). nia.
Qed.

Lemma differentiate_mono_le b sfx x y : 0 <= b -> x <= y -> differentiate x b sfx <= differentiate y b sfx.
Proof.
  intros Hb Hxy. rewrite !differentiate_eq by exact Hb.
  assert (0 < 2 ^ b) by (apply Z.pow_pos_nonneg; lia). nia.
Qed.

(* the suffixed check is stricter than the raw one *)
Lemma passes_raw b sfx r : 0 <= b -> 0 <= sfx -> 0 <= gL r -> passes b sfx r -> gL r < max_logical.
Proof.
  intros Hb Hs Hl H. unfold passes in H. rewrite differentiate_eq in H by exact Hb.
  assert (1 <= 2 ^ b) by (assert (0 < 2 ^ b) by (apply Z.pow_pos_nonneg; lia); lia). nia.
Qed.

(* every value of an answer that passed the check fits the field and is positive *)
Lemma values_fit b sfx r i :
  0 <= b -> 0 <= sfx -> 0 < gL r - gcount r + 1 -> passes b sfx r -> 0 <= i < gcount r ->
  0 < snd (value_of b sfx r i) + 1 /\ snd (value_of b sfx r i) < max_logical.
Proof.
  intros Hb Hs Hlo Hp Hi. cbn [value_of snd]. split.
  - rewrite differentiate_eq by exact Hb. assert (0 < 2 ^ b) by (apply Z.pow_pos_nonneg; lia). nia.
  - eapply Z.le_lt_trans; [|exact Hp]. apply differentiate_mono_le; [exact Hb|lia].
Qed.

(* order: if the raw range of r1 lies below the raw range of r2, every value of r1 is below every value of r2 *)
Lemma values_ordered b sfx r1 r2 i j :
  0 <= b -> below r1 r2 -> 0 <= i -> 0 <= j < gcount r2 ->
  lt_pl (fst (value_of b sfx r1 i)) (snd (value_of b sfx r1 i)) (fst (value_of b sfx r2 j)) (snd (value_of b sfx r2 j)).
Proof.
  intros Hb Hbel Hi Hj. unfold below, le_pl in Hbel. unfold lt_pl. cbn [value_of fst snd].
  destruct Hbel as [Hlt|[Heq Hle]]; [left; exact Hlt|right]. split; [exact Heq|].
  apply differentiate_mono; [exact Hb|lia].
Qed.

(* two different values of one answer are different *)
Lemma values_distinct_within b sfx r i j : 0 <= b -> i < j -> snd (value_of b sfx r j) < snd (value_of b sfx r i).
Proof. intros Hb Hij. cbn [value_of snd]. apply differentiate_mono; [exact Hb|lia]. Qed.

(* the Global allocator's width grows when dc-locations join and never shrinks (GetSuffixBits = CalSuffixBits of a maximum
   that is only ever raised; the plain path of GenerateTSO uses it too): a later, larger raw value differentiated with an
   equal or larger width is larger - also for the first value of a later batch *)
Lemma differentiate_mono_width x y b1 b2 : 0 <= b1 <= b2 -> 0 <= x < y -> differentiate x b1 0 < differentiate y b2 0.
Proof.
  intros [Hb1 Hb12] [Hx Hxy]. rewrite !differentiate_eq by lia. rewrite !Z.add_0_r.
  assert (H1 : 0 < 2 ^ b1) by (apply Z.pow_pos_nonneg; lia).
  assert (H2 : 2 ^ b1 <= 2 ^ b2) by (apply Z.pow_le_mono_r; lia).
  nia.
Qed.

(* ... and it is false when the width shrinks: raw 52 at width 2 is 208, raw 53 at width 0 is 53 *)
Example width_must_not_shrink : differentiate 52 2 0 = 208 /\ differentiate 53 0 0 = 53.
Proof. split; reflexivity. Qed.

(* The client library (client/client.go): a response (highest value `logical`, count n, width b) is turned into the values of
   the n waiting callers by  firstLogical = addLogical(logical, -n+1, b)  and, for caller k < n,  addLogical(firstLogical, k, b),
   where addLogical(l, c, b) = l + c << b.  The k-th caller's value is the (n-1-k)-th value from the top of the answer: the
   client hands out exactly the n values the answer stands for, each once, lowest first. *)
Definition add_logical (l c b : Z) : Z := l + Z.shiftl c b.
Definition client_value (b sfx : Z) (r : rec) (k : Z) : Z * Z :=
  (gP r, add_logical (add_logical (differentiate (gL r) b sfx) (- gcount r + 1) b) k b).

Lemma add_logical_eq l c b : 0 <= b -> add_logical l c b = l + c * 2 ^ b.
Proof. intros Hb. unfold add_logical. rewrite Z.shiftl_mul_pow2 by exact Hb. reflexivity. Qed.

Lemma client_value_is_value_of b sfx r k : 0 <= b -> client_value b sfx r k = value_of b sfx r (gcount r - 1 - k).
Proof.
  intros Hb. unfold client_value, value_of. f_equal.
  rewrite !add_logical_eq, !differentiate_eq by exact Hb. ring.
Qed.

(* two callers of one batch get different values, in caller order *)
Lemma client_values_increase b sfx r j k : 0 <= b -> j < k -> snd (client_value b sfx r j) < snd (client_value b sfx r k).
Proof.
  intros Hb Hjk. rewrite !client_value_is_value_of by exact Hb. apply values_distinct_within; [exact Hb|lia].
Qed.

