(* C08 — the parameters of the joint script, as computed by prepareBuild and build_joint from an origin
   peer list and a target map, satisfy the conditions of joint_script_ok. *)
From Coq Require Import String Sorting.Sorted.
From PDV Require Import lib.Base gen.Gen_C08 model.C08_Steps model.C08_Builder
     proof.C08_ListFacts proof.C08_PmapFacts proof.C08_SimPhases proof.C08_JointScript proof.C08_PrepareFacts proof.C08_JointBuild.
Local Open Scope list_scope.
Local Open Scope Z_scope.

Lemma peer_eta p : Peer (pstore p) (pid p) (prole p) = p.
Proof. destruct p; reflexivity. Qed.

Section Facts.
  Variables (ps0 : list peer) (target : pmap) (alloc : list (Z * Z)).
  Hypotheses (Hnd0 : ND ps0) (Hnj0 : NJ ps0) (Hst : PSorted target) (Hnjt : NJ target).

  Let origin := pm_of_list ps0.
  Let rem := cfold (f_rem target true) origin [].
  Let pro := cfold (f_pro target) origin [].
  Let dem := cfold (f_dem target true) origin [].
  Let add := cfold (f_add origin true alloc) target [].
  Let pro1 := cfold f_voter_add add pro.
  Let dem3 := cfold f_voter_rem rem dem.

  Definition o_at (st : Z) : option peer := lk ps0 st.
  Definition t_at (st : Z) : option peer := pm_get target st.

  Lemma origin_get st : pm_get origin st = lk ps0 st.
  Proof. apply pm_of_list_get. exact Hnd0. Qed.

  Lemma origin_sorted : PSorted origin.
  Proof. apply pm_of_list_sorted. Qed.

  Lemma origin_nd : ND origin.
  Proof. apply PSorted_ND, origin_sorted. Qed.

  Lemma target_nd : ND target.
  Proof. apply PSorted_ND, Hst. Qed.

  Lemma lk_store l st p : lk l st = Some p -> pstore p = st.
  Proof. intros H. apply lk_Some in H. tauto. Qed.

  (* ---- toRemove ---- *)
  Lemma rem_get st : pm_get rem st = match lk ps0 st with
                                     | Some p => if is_some (pm_get target st) then None else Some p
                                     | None => None end.
  Proof.
    unfold rem. rewrite cfold_get; [| |apply origin_nd].
    - fold (pm_get origin st). rewrite origin_get. destruct (lk ps0 st) as [p|] eqn:E; [|reflexivity].
      unfold f_rem. rewrite (lk_store _ _ _ E).
      destruct (pm_get target st) as [n0|]; [|reflexivity]. cbn [is_some].
      destruct (is_learner p); [reflexivity|]. destruct (is_learner (retarget p n0)); reflexivity.
    - intros o n. unfold f_rem. destruct (pm_get target (pstore o)); [|intros H; inversion H; reflexivity].
      destruct (is_learner o); [discriminate|]. destruct (is_learner (retarget o p)); discriminate.
  Qed.

  Lemma pro_get st : pm_get pro st = match lk ps0 st, pm_get target st with
                                     | Some p, Some n0 => if is_learner p && negb (is_learner n0) then Some (Peer st (pid p) (prole n0)) else None
                                     | _, _ => None end.
  Proof.
    unfold pro. rewrite cfold_get; [| |apply origin_nd].
    - fold (pm_get origin st). rewrite origin_get. destruct (lk ps0 st) as [p|] eqn:E; [|reflexivity].
      unfold f_pro. rewrite (lk_store _ _ _ E).
      destruct (pm_get target st) as [n0|] eqn:Et; [|reflexivity].
      rewrite retarget_learner. destruct (is_learner p); cbn [andb]; [|reflexivity].
      destruct (is_learner n0); cbn [negb]; [reflexivity|].
      rewrite retarget_eta by (rewrite (lk_store _ _ _ Et), (lk_store _ _ _ E); reflexivity). rewrite (lk_store _ _ _ E). reflexivity.
    - intros o n. unfold f_pro. destruct (pm_get target (pstore o)) as [n0|] eqn:Et; [|discriminate].
      destruct (is_learner o); [|discriminate]. destruct (negb (is_learner (retarget o n0))); [|discriminate].
      intros H; inversion H. apply retarget_store. apply (lk_store _ _ _ Et).
  Qed.

  Lemma dem_get st : pm_get dem st = match lk ps0 st, pm_get target st with
                                     | Some p, Some n0 => if negb (is_learner p) && is_learner n0 then Some (Peer st (pid p) (prole n0)) else None
                                     | _, _ => None end.
  Proof.
    unfold dem. rewrite cfold_get; [| |apply origin_nd].
    - fold (pm_get origin st). rewrite origin_get. destruct (lk ps0 st) as [p|] eqn:E; [|reflexivity].
      unfold f_dem. rewrite (lk_store _ _ _ E).
      destruct (pm_get target st) as [n0|] eqn:Et; [|reflexivity].
      rewrite retarget_learner. destruct (is_learner p); cbn [andb negb]; [reflexivity|].
      destruct (is_learner n0); [|reflexivity].
      rewrite retarget_eta by (rewrite (lk_store _ _ _ Et), (lk_store _ _ _ E); reflexivity). rewrite (lk_store _ _ _ E). reflexivity.
    - intros o n. unfold f_dem. destruct (pm_get target (pstore o)) as [n0|] eqn:Et; [|discriminate].
      destruct (is_learner o); [discriminate|]. destruct (is_learner (retarget o n0)); [|discriminate].
      intros H; inversion H. apply retarget_store. apply (lk_store _ _ _ Et).
  Qed.

  Definition add_id (n : peer) : Z := if pid n =? 0 then alloc_of alloc (pstore n) else pid n.

  Lemma add_get st : pm_get add st = match pm_get target st with
                                     | Some n => if is_some (lk ps0 st) then None else Some (Peer st (add_id n) (prole n))
                                     | None => None end.
  Proof.
    unfold add. rewrite cfold_get; [| |apply target_nd].
    - change (lk target st) with (pm_get target st). destruct (pm_get target st) as [n|] eqn:E; [|reflexivity].
      unfold f_add. rewrite origin_get, (lk_store _ _ _ E). cbn [negb andb orb]. rewrite orb_false_r.
      destruct (is_some (lk ps0 st)); cbn [negb]; [reflexivity|]. rewrite orb_false_r.
      unfold add_id. rewrite (lk_store _ _ _ E). destruct (pid n =? 0); [reflexivity|].
      rewrite <- (lk_store _ _ _ E). rewrite peer_eta. reflexivity.
    - intros o n. unfold f_add. destruct (negb (is_some (pm_get origin (pstore o))) || _); [|discriminate].
      intros H; inversion H. destruct ((pid o =? 0) || is_some (pm_get origin (pstore o))); reflexivity.
  Qed.

  Lemma rem_sorted : PSorted rem. Proof. apply cfold_sorted. constructor. Qed.
  Lemma pro_sorted : PSorted pro. Proof. apply cfold_sorted. constructor. Qed.
  Lemma dem_sorted : PSorted dem. Proof. apply cfold_sorted. constructor. Qed.
  Lemma add_sorted : PSorted add. Proof. apply cfold_sorted. constructor. Qed.
  Lemma pro1_sorted : PSorted pro1. Proof. apply cfold_sorted, pro_sorted. Qed.
  Lemma dem3_sorted : PSorted dem3. Proof. apply cfold_sorted, dem_sorted. Qed.
End Facts.

Lemma memst_pairs m st : memst st (pairs_of m) = is_some (lk m st).
Proof.
  unfold memst, pairs_of, lk. induction m as [|p r IH]; cbn [map existsb find]; [reflexivity|].
  cbn [fst]. unfold on_store at 1. destruct (pstore p =? st); [reflexivity|exact IH].
Qed.

Lemma learner_of_store a : pstore (learner_of a) = pstore a.
Proof. reflexivity. Qed.

Lemma is_learner_role p : is_learner p = true <-> prole p = Learner.
Proof. unfold is_learner. destruct (prole p); cbn; split; intros H; try reflexivity; discriminate. Qed.

Lemma NJ_voter ps p : NJ ps -> In p ps -> is_learner p = false -> prole p = Voter.
Proof.
  intros H Hin Hl. destruct (H p Hin) as [E|E]; [exact E|]. apply is_learner_role in E. congruence.
Qed.

Lemma lk_remove_all : forall R ps st, ND ps ->
  lk (remove_all ps R) st = if existsb (fun p => pstore p =? st) R then None else lk ps st.
Proof.
  unfold remove_all. induction R as [|p R IH]; intros ps st Hnd; cbn [fold_left existsb]; [reflexivity|].
  rewrite IH by (apply ND_filter; exact Hnd). rewrite lk_remove_store by exact Hnd.
  rewrite (Z.eqb_sym (pstore p) st). destruct (st =? pstore p); cbn [orb].
  - destruct (existsb (fun p0 => pstore p0 =? st) R); reflexivity.
  - reflexivity.
Qed.

Lemma existsb_store_lk m st : existsb (fun p => pstore p =? st) m = is_some (lk m st).
Proof.
  unfold lk. induction m as [|p r IH]; cbn [existsb find]; [reflexivity|].
  unfold on_store at 1. destruct (pstore p =? st); [reflexivity|exact IH].
Qed.

(* ---------- counting through equal role lookups ---------- *)
Lemma filter_not_on_store st : forall r, ~ In st (map pstore r) -> filter (fun q => negb (on_store st q)) r = r.
Proof.
  induction r as [|y r IH]; intros Hn; cbn [filter]; [reflexivity|].
  destruct (on_store st y) eqn:E2.
  - apply on_store_true in E2. exfalso. apply Hn. cbn. left. exact E2.
  - cbn [negb]. f_equal. apply IH. intros C. apply Hn. right. exact C.
Qed.

Lemma countb_remove_one (g : peer -> bool) ps st q :
  ND ps -> lk ps st = Some q -> countb g ps = countb g (remove_store ps st) + b2z (g q).
Proof.
  unfold ND, lk, remove_store, countb. induction ps as [|p r IH]; cbn [map find filter]; intros Hnd Hq; [discriminate|].
  inversion Hnd as [|? ? Hn Hd]; subst. destruct (on_store st p) eqn:E; cbn [negb].
  - inversion Hq; subst q. apply on_store_true in E. rewrite E in Hn.
    rewrite (filter_not_on_store st r Hn).
    destruct (g p); cbn [length b2z]; lia.
  - cbn [filter]. specialize (IH Hd Hq). destruct (g p); cbn [length]; lia.
Qed.

Lemma countb_same_lookup (f : role -> bool) : forall l1 l2,
  ND l1 -> ND l2 -> (forall st, option_map prole (lk l1 st) = option_map prole (lk l2 st)) ->
  countb (fun p => f (prole p)) l1 = countb (fun p => f (prole p)) l2.
Proof.
  induction l1 as [|p r1 IH]; intros l2 H1 H2 Hl.
  - destruct l2 as [|q r2]; [reflexivity|]. specialize (Hl (pstore q)). unfold lk in Hl. cbn in Hl.
    unfold on_store in Hl. rewrite Z.eqb_refl in Hl. discriminate.
  - assert (Hp : lk (p :: r1) (pstore p) = Some p) by (unfold lk; cbn; unfold on_store; rewrite Z.eqb_refl; reflexivity).
    pose proof (Hl (pstore p)) as Hq. rewrite Hp in Hq. cbn [option_map] in Hq.
    destruct (lk l2 (pstore p)) as [q|] eqn:Eq; [|discriminate]. cbn [option_map] in Hq. inversion Hq as [Hrole].
    rewrite (countb_remove_one _ l2 (pstore p) q H2 Eq).
    unfold countb at 1. cbn [filter]. rewrite Hrole.
    unfold ND in H1. cbn [map] in H1. inversion H1 as [|? ? Hn Hd]; subst.
    assert (IH' : countb (fun p0 => f (prole p0)) r1 = countb (fun p0 => f (prole p0)) (remove_store l2 (pstore p))).
    { apply IH; [exact Hd|apply ND_filter; exact H2|]. intros st. rewrite lk_remove_store by exact H2.
      specialize (Hl st). unfold lk at 1 in Hl. cbn [find] in Hl. unfold on_store at 1 in Hl.
      destruct (st =? pstore p) eqn:E.
      - apply Z.eqb_eq in E. subst st. destruct (lk r1 (pstore p)) as [x|] eqn:Ex; [|reflexivity].
        apply lk_Some in Ex as [Ex1 Ex2]. exfalso. apply Hn. rewrite <- Ex2. apply in_map. exact Ex1.
      - rewrite (Z.eqb_sym (pstore p) st), E in Hl. exact Hl. }
    unfold countb in IH' |- *. destruct (f (prole q)); cbn [length b2z]; lia.
Qed.

Lemma same_placement_lookup l1 l2 :
  ND l1 -> ND l2 -> (forall st, option_map prole (lk l1 st) = option_map prole (lk l2 st)) ->
  same_placement (placement l1) (placement l2) = true.
Proof.
  intros H1 H2 Hl.
  assert (G : forall a b, ND a -> (forall st, option_map prole (lk a st) = option_map prole (lk b st)) ->
                          forallb (fun x => existsb (pl_eqb x) (placement b)) (placement a) = true).
  { intros a b Ha Hab. apply forallb_forall. intros x Hx. unfold placement in Hx. apply in_map_iff in Hx as (p & <- & Hp).
    pose proof (Hab (pstore p)) as E. rewrite (lk_In _ _ Ha Hp) in E. cbn [option_map] in E.
    destruct (lk b (pstore p)) as [q|] eqn:Eq; [|discriminate]. cbn [option_map] in E. inversion E as [Er].
    apply existsb_exists. exists (pstore q, prole q). split; [unfold placement; apply in_map_iff; exists q; split; [reflexivity|apply (lk_Some _ _ _ Eq)]|].
    unfold pl_eqb; cbn [fst snd]. rewrite (proj2 (lk_Some _ _ _ Eq)), Z.eqb_refl, Er. destruct (prole q); reflexivity. }
  unfold same_placement. rewrite (G l1 l2 H1 Hl). rewrite (G l2 l1 H2 (fun st => eq_sym (Hl st))). reflexivity.
Qed.

Lemma countb_remove_all (g : peer -> bool) : forall R ps,
  ND ps -> (forall p, In p R -> forall q, lk ps (pstore p) = Some q -> g q = false) ->
  countb g (remove_all ps R) = countb g ps.
Proof.
  unfold remove_all. induction R as [|p R IH]; intros ps Hnd H; cbn [fold_left]; [reflexivity|].
  rewrite IH.
  - apply countb_remove_false. intros x Hx Hs. apply (H p (or_introl eq_refl)). rewrite <- Hs. apply lk_In; assumption.
  - apply ND_filter. exact Hnd.
  - intros q Hq x Hxl. rewrite lk_remove_store in Hxl by exact Hnd. destruct (pstore q =? pstore p); [discriminate|].
    apply (H q (or_intror Hq) x Hxl).
Qed.

Section Derived.
  Variables (ps0 : list peer) (target : pmap) (alloc : list (Z * Z)).
  Hypotheses (Hnd0 : ND ps0) (Hnj0 : NJ ps0) (Hst : PSorted target) (Hnjt : NJ target).

  Let origin := pm_of_list ps0.
  Let rem := cfold (f_rem target true) origin [].
  Let pro := cfold (f_pro target) origin [].
  Let dem := cfold (f_dem target true) origin [].
  Let add := cfold (f_add origin true alloc) target [].
  Let pro1 := cfold f_voter_add add pro.
  Let dem3 := cfold f_voter_rem rem dem.
  Let P := pairs_of pro1.
  Let D := pairs_of dem3.
  Let ps1 := ps0 ++ map learner_of add.
  Let ps4 := post_joint P D ps1.
  Let psF := remove_all ps4 rem.

  Let Rget := rem_get ps0 target Hnd0.
  Let Pget := pro_get ps0 target Hnd0.
  Let Dget := dem_get ps0 target Hnd0.
  Let Aget := add_get ps0 target alloc Hnd0 Hst.

  Lemma add_nd : ND add. Proof. apply PSorted_ND, add_sorted. Qed.
  Lemma rem_nd : ND rem. Proof. apply PSorted_ND, rem_sorted. Qed.
  Lemma pro1_nd : ND pro1. Proof. apply PSorted_ND, pro1_sorted. Qed.
  Lemma dem3_nd : ND dem3. Proof. apply PSorted_ND, dem3_sorted. Qed.

  Lemma pro1_get st : pm_get pro1 st = match pm_get add st with
                                       | Some a => if is_learner a then pm_get pro st else Some a
                                       | None => pm_get pro st end.
  Proof.
    unfold pro1. rewrite cfold_get; [| |apply add_nd].
    - change (lk add st) with (pm_get add st). destruct (pm_get add st) as [a|]; [|reflexivity].
      unfold f_voter_add. destruct (is_learner a); reflexivity.
    - intros o n. unfold f_voter_add. destruct (is_learner o); [discriminate|]. intros H; inversion H; reflexivity.
  Qed.

  Lemma dem3_get st : pm_get dem3 st = match pm_get rem st with
                                       | Some p => if is_learner p then pm_get dem st else Some (Peer (pstore p) (pid p) Learner)
                                       | None => pm_get dem st end.
  Proof.
    unfold dem3. rewrite cfold_get; [| |apply rem_nd].
    - change (lk rem st) with (pm_get rem st). destruct (pm_get rem st) as [p|]; [|reflexivity].
      unfold f_voter_rem. destruct (is_learner p); reflexivity.
    - intros o n. unfold f_voter_rem. destruct (is_learner o); [discriminate|]. intros H; inversion H; reflexivity.
  Qed.

  Lemma lk_ps1 st : lk ps1 st = match lk ps0 st with Some p => Some p | None => option_map learner_of (pm_get add st) end.
  Proof.
    unfold ps1. rewrite lk_app. destruct (lk ps0 st); [reflexivity|]. apply lk_map. intros p. reflexivity.
  Qed.

  (* ---- the adds ---- *)
  Lemma HA_fresh a : In a add -> lk ps0 (pstore a) = None.
  Proof.
    intros Hin. apply (pm_In_get _ _ add_nd) in Hin. rewrite Aget in Hin.
    destruct (pm_get target (pstore a)); [|discriminate]. destruct (lk ps0 (pstore a)); [discriminate|reflexivity].
  Qed.

  Lemma HA_nd : ND (map learner_of add).
  Proof. apply ND_map; [intros p; reflexivity|apply add_nd]. Qed.

  (* ---- promotions ---- *)
  Lemma HP_char x : In x P -> lk ps1 (fst x) = Some (Peer (fst x) (snd x) Learner).
  Proof.
    destruct x as [st id]. cbn [fst snd]. intros Hin. apply pairs_of_In in Hin as (p & Hp & Hs & Hi).
    apply (pm_In_get _ _ pro1_nd) in Hp. rewrite Hs in Hp. rewrite pro1_get in Hp. rewrite lk_ps1.
    destruct (pm_get add st) as [a|] eqn:Ea.
    - assert (Hnone : lk ps0 st = None).
      { rewrite Aget in Ea. destruct (pm_get target st); [|discriminate]. destruct (lk ps0 st); [discriminate|reflexivity]. }
      rewrite Hnone. destruct (is_learner a).
      + rewrite Pget, Hnone in Hp. discriminate.
      + inversion Hp; subst a. cbn [option_map]. unfold learner_of. rewrite Hs, Hi. reflexivity.
    - rewrite Pget in Hp. destruct (lk ps0 st) as [q|] eqn:Eq; [|discriminate].
      destruct (pm_get target st) as [n0|]; [|discriminate].
      destruct (is_learner q) eqn:El; cbn [andb] in Hp; [|discriminate].
      destruct (negb (is_learner n0)); [|discriminate]. inversion Hp; subst p. cbn [pid] in Hi. subst id.
      apply is_learner_role in El. rewrite <- El, <- (lk_store _ _ _ Eq). rewrite peer_eta. reflexivity.
  Qed.

  (* ---- demotions ---- *)
  Lemma HD_char x : In x D -> lk ps1 (fst x) = Some (Peer (fst x) (snd x) Voter).
  Proof.
    destruct x as [st id]. cbn [fst snd]. intros Hin. apply pairs_of_In in Hin as (p & Hp & Hs & Hi).
    apply (pm_In_get _ _ dem3_nd) in Hp. rewrite Hs in Hp. rewrite dem3_get in Hp. rewrite lk_ps1.
    assert (G : forall q, lk ps0 st = Some q -> is_learner q = false -> pid q = id -> Some q = Some (Peer st id Voter)).
    { intros q Eq El Ei. rewrite <- Ei, <- (lk_store _ _ _ Eq). rewrite <- (NJ_voter ps0 q Hnj0 (proj1 (lk_Some _ _ _ Eq)) El). rewrite peer_eta. reflexivity. }
    destruct (pm_get rem st) as [q|] eqn:Er.
    - rewrite Rget in Er. destruct (lk ps0 st) as [q'|] eqn:Eq; [|discriminate].
      destruct (is_some (pm_get target st)) eqn:Et; [discriminate|]. inversion Er; subst q'.
      destruct (is_learner q) eqn:El.
      + rewrite Dget, Eq in Hp. destruct (pm_get target st); [discriminate|discriminate].
      + inversion Hp; subst p. cbn [pid] in Hi. apply G; auto.
    - rewrite Dget in Hp. destruct (lk ps0 st) as [q|] eqn:Eq; [|discriminate].
      destruct (pm_get target st) as [n0|]; [|discriminate].
      destruct (is_learner q) eqn:El; cbn [negb andb] in Hp; [discriminate|].
      destruct (is_learner n0); [|discriminate]. inversion Hp; subst p. cbn [pid] in Hi. apply G; auto.
  Qed.

  Lemma HP_nodup : NoDup (map fst P).
  Proof. unfold P. rewrite pairs_of_fst. apply pro1_nd. Qed.
  Lemma HD_nodup : NoDup (map fst D).
  Proof. unfold D. rewrite pairs_of_fst. apply dem3_nd. Qed.

  Lemma HPD_disjoint x : In x D -> ~ In (fst x) (map fst P).
  Proof.
    intros Hd Hp. apply in_map_iff in Hp as (y & Hy & Hyin).
    pose proof (HD_char x Hd) as E1. pose proof (HP_char y Hyin) as E2. rewrite Hy in E2. rewrite E1 in E2. discriminate.
  Qed.

  (* ---- lookups after the joint transition ---- *)
  Lemma ps1_nd : ND ps1.
  Proof.
    unfold ps1. apply ND_app; [exact Hnd0|apply HA_nd|].
    intros q Hq. apply in_map_iff in Hq as (a & <- & Ha). change (pstore (learner_of a)) with (pstore a). apply HA_fresh. exact Ha.
  Qed.

  Lemma lk_ps4 st : lk ps4 st = option_map (fun p => leave_role (enter_role P D p)) (lk ps1 st).
  Proof.
    unfold ps4, post_joint. rewrite lk_map by apply leave_role_store. rewrite lk_map by (intros q; apply enter_role_store).
    destruct (lk ps1 st); reflexivity.
  Qed.

  Lemma ps4_nd : ND ps4.
  Proof.
    unfold ps4, post_joint. apply ND_map; [apply leave_role_store|]. apply ND_map; [intros q; apply enter_role_store|apply ps1_nd].
  Qed.

  Lemma memP st : memst st P = is_some (pm_get pro1 st).
  Proof. apply memst_pairs. Qed.
  Lemma memD st : memst st D = is_some (pm_get dem3 st).
  Proof. apply memst_pairs. Qed.

  (* ---- removals: learners by then ---- *)
  Lemma HR_char p : In p rem -> lk ps4 (pstore p) = Some (Peer (pstore p) (pid p) Learner) /\ pm_get target (pstore p) = None.
  Proof.
    intros Hin. apply (pm_In_get _ _ rem_nd) in Hin. pose proof Hin as Hr. rewrite Rget in Hin.
    destruct (lk ps0 (pstore p)) as [q|] eqn:Eq; [|discriminate].
    destruct (pm_get target (pstore p)) eqn:Et; [discriminate|]. cbn [is_some] in Hin. inversion Hin; subst q.
    split; [|reflexivity].
    rewrite lk_ps4, lk_ps1, Eq. cbn [option_map]. unfold enter_role. rewrite memP, memD.
    assert (Ea : pm_get add (pstore p) = None) by (rewrite Aget, Et; reflexivity).
    assert (Epro : pm_get pro (pstore p) = None) by (rewrite Pget, Eq, Et; reflexivity).
    assert (Edem : pm_get dem (pstore p) = None) by (rewrite Dget, Eq, Et; reflexivity).
    rewrite pro1_get, Ea, Epro. cbn [is_some]. rewrite dem3_get, Hr.
    destruct (is_learner p) eqn:El.
    - rewrite Edem. cbn [is_some]. unfold leave_role. apply is_learner_role in El. rewrite El. rewrite <- El. rewrite peer_eta. reflexivity.
    - cbn [is_some]. reflexivity.
  Qed.

  (* ---- the final placement, store by store ---- *)
  Lemma final_lookup st : option_map prole (lk psF st) = option_map prole (pm_get target st).
  Proof.
    unfold psF. rewrite lk_remove_all by apply ps4_nd. rewrite existsb_store_lk. change (lk rem st) with (pm_get rem st).
    rewrite Rget. rewrite lk_ps4, lk_ps1.
    destruct (lk ps0 st) as [p|] eqn:Eo; destruct (pm_get target st) as [n|] eqn:Et; cbn [is_some].
    - (* kept store *)
      cbn [option_map]. unfold enter_role. rewrite (lk_store _ _ _ Eo), memP, memD.
      assert (Ea : pm_get add st = None) by (rewrite Aget, Et, Eo; reflexivity).
      assert (Er : pm_get rem st = None) by (rewrite Rget, Eo, Et; reflexivity).
      rewrite pro1_get, Ea, dem3_get, Er, Pget, Dget, Eo, Et.
      pose proof (Hnjt n (proj1 (lk_Some _ _ _ Et))) as Hn.
      destruct (is_learner p) eqn:Elp; destruct (is_learner n) eqn:Eln; cbn [andb negb is_some].
      + apply is_learner_role in Elp, Eln. destruct p as [sp ip rp]; cbn in Elp; subst rp. cbn. rewrite Eln. reflexivity.
      + cbn. destruct Hn as [E|E]; [rewrite E; reflexivity|apply is_learner_role in E; congruence].
      + cbn. apply is_learner_role in Eln. rewrite Eln. reflexivity.
      + pose proof (NJ_voter ps0 p Hnj0 (proj1 (lk_Some _ _ _ Eo)) Elp) as Ev.
        destruct p as [sp ip rp]; cbn in Ev; subst rp. cbn.
        destruct Hn as [E|E]; [rewrite E; reflexivity|apply is_learner_role in E; congruence].
    - reflexivity.
    - (* new store *)
      assert (Ea : pm_get add st = Some (Peer st (add_id alloc n) (prole n))) by (rewrite Aget, Et, Eo; reflexivity).
      assert (Er : pm_get rem st = None) by (rewrite Rget, Eo; reflexivity).
      rewrite Ea. cbn [option_map]. unfold enter_role, learner_of. cbn [pstore pid]. rewrite memP, memD.
      rewrite pro1_get, Ea, dem3_get, Er, Pget, Dget, Eo.
      pose proof (Hnjt n (proj1 (lk_Some _ _ _ Et))) as Hn.
      unfold is_learner at 1. cbn [prole]. destruct Hn as [E|E]; rewrite E; cbn; reflexivity.
    - assert (Ea : pm_get add st = None) by (rewrite Aget, Et; reflexivity). rewrite Ea. reflexivity.
  Qed.

  (* ---- where the leader may be ---- *)
  Definition tvoter (st : Z) : bool := match pm_get target st with Some p => negb (is_learner p) | None => false end.
  Definition ovoter (st : Z) : bool := match lk ps0 st with Some p => negb (is_learner p) | None => false end.

  Lemma D_not_tvoter st : In st (map fst D) -> tvoter st = false.
  Proof.
    intros Hin. unfold D in Hin. rewrite pairs_of_fst in Hin. apply in_map_iff in Hin as (p & Hs & Hp).
    apply (pm_In_get _ _ dem3_nd) in Hp. rewrite Hs in Hp. rewrite dem3_get in Hp. unfold tvoter.
    destruct (pm_get rem st) as [q|] eqn:Er.
    - rewrite Rget in Er. destruct (lk ps0 st); [|discriminate]. destruct (pm_get target st); [discriminate|reflexivity].
    - rewrite Dget in Hp. destruct (lk ps0 st) as [q|]; [|discriminate]. destruct (pm_get target st) as [n0|]; [|reflexivity].
      destruct (is_learner n0); [reflexivity|]. rewrite andb_false_r in Hp. discriminate.
  Qed.

  Lemma P_when st : ovoter st = false -> tvoter st = true -> In st (map fst P).
  Proof.
    unfold ovoter, tvoter. intros Ho Ht. unfold P. rewrite pairs_of_fst.
    destruct (pm_get target st) as [n|] eqn:Et; [|discriminate]. apply negb_true_iff in Ht.
    assert (E : exists p, pm_get pro1 st = Some p).
    { rewrite pro1_get, Aget, Et. destruct (lk ps0 st) as [q|] eqn:Eq; cbn [is_some].
      - rewrite Pget, Eq, Et. apply negb_false_iff in Ho. rewrite Ho, Ht. cbn. eauto.
      - unfold is_learner at 1. cbn [prole]. fold (is_learner n). rewrite Ht. eauto. }
    destruct E as (p & Hp). apply in_map_iff. exists p. split; [apply (lk_store _ _ _ Hp)|apply (lk_Some _ _ _ Hp)].
  Qed.

  Lemma ps4_at_voter st : tvoter st = true -> exists q, lk ps4 st = Some q /\ prole q = Voter.
  Proof.
    intros Ht. pose proof (final_lookup st) as F. unfold tvoter in Ht.
    destruct (pm_get target st) as [n|] eqn:Et; [|discriminate]. cbn [option_map] in F.
    unfold psF in F. rewrite lk_remove_all in F by apply ps4_nd.
    destruct (existsb (fun p => pstore p =? st) rem); [discriminate|].
    destruct (lk ps4 st) as [q|]; [|discriminate]. cbn [option_map] in F. inversion F as [Fr].
    exists q. split; [reflexivity|]. rewrite Fr. apply negb_true_iff in Ht.
    destruct (Hnjt n (proj1 (lk_Some _ _ _ Et))) as [E|E]; [exact E|apply is_learner_role in E; congruence].
  Qed.

  Lemma ps1_at_ovoter st : ovoter st = true -> exists q, lk ps1 st = Some q /\ prole q = Voter.
  Proof.
    unfold ovoter. intros Ho. destruct (lk ps0 st) as [q|] eqn:Eq; [|discriminate].
    exists q. split; [rewrite lk_ps1, Eq; reflexivity|]. apply negb_true_iff in Ho.
    apply (NJ_voter ps0 q Hnj0 (proj1 (lk_Some _ _ _ Eq)) Ho).
  Qed.

  Lemma rem_not_target p : In p rem -> pm_get target (pstore p) = None.
  Proof. intros H. apply (HR_char p H). Qed.

  Lemma psF_nd : ND psF.
  Proof.
    unfold psF, remove_all. generalize ps4_nd. generalize ps4. induction rem as [|p R IH]; intros l Hl; cbn [fold_left]; [exact Hl|].
    apply IH. apply ND_filter. exact Hl.
  Qed.

  Lemma voters_new_enter : voters_new (map (enter_role P D) ps1) = voters_new target.
  Proof.
    transitivity (voters_new ps4).
    { unfold ps4, post_joint, voters_new. rewrite (countb_map new_voter leave_role). apply countb_ext. intros q _.
      unfold leave_role, new_voter. destruct (prole q) eqn:E; cbn [prole]; rewrite ?E; reflexivity. }
    transitivity (voters_new psF).
    { unfold psF, voters_new. symmetry. apply countb_remove_all; [apply ps4_nd|].
      intros p Hp q Hq. destruct (HR_char p Hp) as (E & _). rewrite E in Hq. inversion Hq. reflexivity. }
    unfold voters_new.
    change new_voter with (fun p => (fun ro => match ro with Voter | Incoming => true | _ => false end) (prole p)).
    apply countb_same_lookup; [apply psF_nd|apply target_nd; exact Hst|]. intros st. apply final_lookup.
  Qed.
End Derived.
