(* C10/C11 — facts about the step semantics of lib/C10_Cluster.v (TiKV's conf-change rules):
   at most one peer per store is an invariant of every accepted step, and the verified checker
   `balanced_from`: a step list whose every prefix adds at least as many peers as it removes never
   takes the region below its initial peer count, on ANY region on which the steps are accepted. *)
From PDV Require Import lib.C10_Cluster lib.C10_StepFacts gen.Gen_C10 model.C10_Checker.
Local Open Scope list_scope.
Local Open Scope Z_scope.

(* the verified checker: with `bal` spare peers at the start, no state of the run is more than `bal`
   peers below the start *)
Theorem balanced_sound xs : forall s tr bal,
  run_steps s xs = Some tr -> NoDup (stores_of (rs_peers s)) -> 0 <= bal -> balanced_from bal xs = true ->
  Forall (fun s' => Z.of_nat (List.length (rs_peers s)) - bal <= Z.of_nat (List.length (rs_peers s'))) tr.
Proof.
  induction xs as [|x xs IH]; intros s tr bal H Hn Hb Hbal; cbn in H.
  - inversion H; subst. constructor; [lia|constructor].
  - destruct (apply_step s x) as [s1|] eqn:E; [|discriminate].
    destruct (run_steps s1 xs) as [t|] eqn:E2; [|discriminate]. inversion H; subst.
    constructor; [lia|].
    cbn [balanced_from] in Hbal. apply andb_true_iff in Hbal as [Hb1 Hb2]. apply Z.leb_le in Hb1.
    pose proof (apply_step_length _ _ _ E Hn) as L.
    assert (D : (match x with AddPeerS _ _ | AddLearnerS _ _ => bal + 1 | RemovePeerS _ => bal - 1 | _ => bal end) = bal + step_delta x).
    { destruct x; cbn; lia. }
    rewrite D in Hb1, Hb2.
    specialize (IH s1 t (bal + step_delta x) E2 (apply_step_nodup _ _ _ E Hn) Hb1 Hb2).
    eapply Forall_impl; [|exact IH]. cbn. intros a Ha. lia.
Qed.

Corollary balanced_never_dips xs s tr :
  run_steps s xs = Some tr -> NoDup (stores_of (rs_peers s)) -> balanced_prefixes xs = true ->
  Forall (fun s' => (List.length (rs_peers s) <= List.length (rs_peers s'))%nat) tr.
Proof.
  intros H Hn Hb. pose proof (balanced_sound xs s tr 0 H Hn (Z.le_refl 0) Hb) as F.
  eapply Forall_impl; [|exact F]. cbn. intros a Ha. lia.
Qed.

(* ---------- the plan shapes of the model ---------- *)
(* replace: the new peer is added before the old one is removed, with and without joint consensus, whatever the kinds of
   the two peers *)
Lemma plan_replace_balanced joint r old new lrn id pl :
  plan_of joint r (AReplace old new lrn) id = Some pl -> balanced_prefixes pl = true.
Proof.
  intros H. cbn in H. destruct (peer_on (peers r) old) as [po|]; [|discriminate]. destruct joint.
  - inversion H; reflexivity.
  - destruct lrn; inversion H; reflexivity.
Qed.

(* regression: the old witness (no joint consensus, learner on store 2 replaced by a voter on store 9) is add-first now *)
Lemma plan_replace_mixed_regression :
  let r := Region [Peer 1 1 Voter; Peer 2 2 Learner; Peer 3 3 Voter] (Some (Peer 1 1 Voter)) [] [] in
  plan_of false r (AReplace 2 9 false) 100 = Some [AddLearnerS 9 100; PromoteLearnerS 9 100; RemovePeerS 2].
Proof. reflexivity. Qed.

Lemma plan_add_balanced joint r t lrn id pl :
  plan_of joint r (AAdd t lrn) id = Some pl -> balanced_prefixes pl = true.
Proof. cbn. destruct lrn; intros H; inversion H; subst; reflexivity. Qed.
