(* C10/C11 — facts about the step semantics of lib/C10_Cluster.v (TiKV's conf-change rules):
   at most one peer per store is an invariant of every accepted step, and the verified checker
   `balanced_from`: a step list whose every prefix adds at least as many peers as it removes never
   takes the region below its initial peer count, on ANY region on which the steps are accepted. *)
From PDV Require Import lib.C10_Cluster gen.Gen_C10 model.C10_Checker.
Local Open Scope list_scope.
Local Open Scope Z_scope.

Lemma stores_set_role ps st r : stores_of (set_role ps st r) = stores_of ps.
Proof.
  unfold stores_of, set_role. rewrite map_map. apply map_ext. intros p.
  destruct (p_store p =? st); reflexivity.
Qed.

Lemma length_set_role ps st r : List.length (set_role ps st r) = List.length ps.
Proof. unfold set_role. apply map_length. Qed.

Lemma stores_fold_set_role (l : list (Z * Z)) r : forall ps,
  stores_of (fold_left (fun acc x => set_role acc (fst x) r) l ps) = stores_of ps.
Proof. induction l as [|x l IH]; intros ps; cbn [fold_left]; [reflexivity|]. rewrite IH. apply stores_set_role. Qed.

Lemma peer_on_None ps st : peer_on ps st = None -> ~ In st (stores_of ps).
Proof.
  unfold peer_on, stores_of. intros H Hin. apply in_map_iff in Hin as (p & Hp & Hin).
  eapply find_none in H; [|exact Hin]. cbn in H. rewrite Hp, Z.eqb_refl in H. discriminate.
Qed.

Lemma NoDup_app_one (l : list Z) x : NoDup l -> ~ In x l -> NoDup (l ++ [x]).
Proof.
  induction l as [|y l IH]; intros Hn Hx; cbn; [constructor; [tauto|constructor]|].
  inversion Hn as [|? ? Hy Hl]; subst. constructor.
  - rewrite in_app_iff; cbn. intros [H|[H|[]]]; [tauto|]. subst; apply Hx; left; reflexivity.
  - apply IH; [exact Hl|]. intros H; apply Hx; right; exact H.
Qed.

Lemma NoDup_map_filter {A} (f : A -> Z) (p : A -> bool) l : NoDup (map f l) -> NoDup (map f (filter p l)).
Proof.
  induction l as [|a l IH]; cbn; intros H; [constructor|].
  inversion H as [|? ? Ha Hl]; subst. destruct (p a); cbn; [constructor|auto].
  - intros Hin. apply Ha. apply in_map_iff in Hin as (b & Hb & Hin). apply filter_In in Hin as [Hin _].
    apply in_map_iff. exists b; auto.
  - auto.
Qed.

Definition leave_role (p : peer) : peer :=
  match p_role p with
  | Incoming => Peer (p_id p) (p_store p) Voter
  | Demoting => Peer (p_id p) (p_store p) Learner
  | _ => p
  end.
Lemma stores_leave ps : stores_of (map leave_role ps) = stores_of ps.
Proof.
  unfold stores_of. rewrite map_map. apply map_ext. intros p. unfold leave_role. destruct (p_role p); reflexivity.
Qed.

(* how a step changes the peer list: stores and length *)
Inductive step_effect (ps ps' : list peer) : Z -> Prop :=
| eff_same : stores_of ps' = stores_of ps -> step_effect ps ps' 0
| eff_add st p : ~ In st (stores_of ps) -> p_store p = st -> ps' = ps ++ [p] -> step_effect ps ps' 1
| eff_remove st : ps' = filter (fun p => negb (p_store p =? st)) ps -> step_effect ps ps' (-1).

Definition step_delta (x : step) : Z :=
  match x with AddPeerS _ _ | AddLearnerS _ _ => 1 | RemovePeerS _ => -1 | _ => 0 end.

Lemma apply_step_effect s x s' : apply_step s x = Some s' -> step_effect (rs_peers s) (rs_peers s') (step_delta x).
Proof.
  destruct s as [ps ld]. destruct x; cbn [apply_step rs_peers rs_leader step_delta]; intros H.
  - destruct (peer_on ps to) as [p|]; [|discriminate]. destruct (p_role p); inversion H; subst; apply eff_same; reflexivity.
  - destruct (peer_on ps st) eqn:E; [discriminate|]. inversion H; subst; cbn.
    eapply eff_add; [apply peer_on_None; exact E| |reflexivity]. reflexivity.
  - destruct (peer_on ps st) eqn:E; [discriminate|]. inversion H; subst; cbn.
    eapply eff_add; [apply peer_on_None; exact E| |reflexivity]. reflexivity.
  - destruct (has_role ps st id Learner); inversion H; subst; cbn. apply eff_same. apply stores_set_role.
  - destruct (has_role ps st id Voter && negb (st =? ld)); inversion H; subst; cbn. apply eff_same. apply stores_set_role.
  - destruct (st =? ld); inversion H; subst; cbn. eapply eff_remove. reflexivity.
  - destruct (in_joint ps); [discriminate|].
    destruct (forallb _ promote && forallb _ demote); inversion H; subst; cbn.
    apply eff_same. rewrite stores_fold_set_role. apply stores_fold_set_role.
  - destruct (peer_on ps ld) as [l|]; [|discriminate]. destruct (p_role l); inversion H; subst; cbn;
      apply eff_same; apply (stores_leave ps).
  - inversion H; subst. apply eff_same. reflexivity.
Qed.

(* at most one peer per store is preserved by every accepted step *)
Lemma apply_step_nodup s x s' :
  apply_step s x = Some s' -> NoDup (stores_of (rs_peers s)) -> NoDup (stores_of (rs_peers s')).
Proof.
  intros H Hn. apply apply_step_effect in H. inversion H as [E | st p Hst Hp E | st E].
  - rewrite E. exact Hn.
  - rewrite E. unfold stores_of. rewrite map_app. cbn. apply NoDup_app_one; [exact Hn|]. rewrite Hp. exact Hst.
  - rewrite E. apply NoDup_map_filter. exact Hn.
Qed.

Lemma filter_one_length ps st :
  NoDup (stores_of ps) ->
  Nat.le (List.length ps) (S (List.length (filter (fun p => negb (p_store p =? st)) ps))).
Proof.
  induction ps as [|p ps IH]; cbn; intros Hn; [lia|].
  inversion Hn as [|? ? Hp Hl]; subst.
  destruct (p_store p =? st) eqn:E; cbn.
  - apply Z.eqb_eq in E.
    assert (F : filter (fun q => negb (p_store q =? st)) ps = ps).
    { clear IH Hn Hl. induction ps as [|q ps IHp]; cbn; [reflexivity|].
      destruct (p_store q =? st) eqn:E2; cbn.
      - exfalso. apply Hp. left. apply Z.eqb_eq in E2. congruence.
      - f_equal. apply IHp. intros Hin. apply Hp. right. exact Hin. }
    rewrite F. lia.
  - specialize (IH Hl). lia.
Qed.

Lemma apply_step_length s x s' :
  apply_step s x = Some s' -> NoDup (stores_of (rs_peers s)) ->
  Z.of_nat (List.length (rs_peers s)) + step_delta x <= Z.of_nat (List.length (rs_peers s')).
Proof.
  intros H Hn. apply apply_step_effect in H. inversion H as [E | st p Hst Hp E | st E].
  - assert (L : List.length (rs_peers s') = List.length (rs_peers s)).
    { unfold stores_of in E. rewrite <- (map_length p_store (rs_peers s')), E. apply map_length. }
    lia.
  - rewrite E, app_length. cbn. lia.
  - rewrite E. pose proof (filter_one_length (rs_peers s) st Hn). lia.
Qed.

Lemma run_steps_nodup xs : forall s tr,
  run_steps s xs = Some tr -> NoDup (stores_of (rs_peers s)) -> Forall (fun s' => NoDup (stores_of (rs_peers s'))) tr.
Proof.
  induction xs as [|x xs IH]; intros s tr H Hn; cbn in H.
  - inversion H; subst. constructor; [exact Hn|constructor].
  - destruct (apply_step s x) as [s1|] eqn:E; [|discriminate].
    destruct (run_steps s1 xs) as [t|] eqn:E2; [|discriminate]. inversion H; subst.
    constructor; [exact Hn|]. eapply IH; [exact E2|]. eapply apply_step_nodup; eauto.
Qed.

(* the verified checker: with `bal` spare peers at the start, no state of the run is more than `bal`
   peers below the start *)
Theorem balanced_sound xs : forall s tr bal,
  run_steps s xs = Some tr -> NoDup (stores_of (rs_peers s)) -> 0 <= bal -> balanced_from bal xs = true ->
  Forall (fun s' => Z.of_nat (List.length (rs_peers s)) - bal <= Z.of_nat (List.length (rs_peers s'))) tr.
Proof.
  induction xs as [|x xs IH]; intros s tr bal H Hn Hb Hbal; cbn in H.
  - inversion H; subst. constructor; [lia|constructor].
  - destruct (apply_step s x) as [s1|] eqn:E; [|discriminate].
    destruct (run_steps s1 xs) as [t|] eqn:E2; [|discriminate]. inversion H; subst.
    constructor; [lia|].
    cbn [balanced_from] in Hbal. apply andb_true_iff in Hbal as [Hb1 Hb2]. apply Z.leb_le in Hb1.
    pose proof (apply_step_length _ _ _ E Hn) as L.
    assert (D : (match x with AddPeerS _ _ | AddLearnerS _ _ => bal + 1 | RemovePeerS _ => bal - 1 | _ => bal end) = bal + step_delta x).
    { destruct x; cbn; lia. }
    rewrite D in Hb1, Hb2.
    specialize (IH s1 t (bal + step_delta x) E2 (apply_step_nodup _ _ _ E Hn) Hb1 Hb2).
    eapply Forall_impl; [|exact IH]. cbn. intros a Ha. lia.
Qed.

Corollary balanced_never_dips xs s tr :
  run_steps s xs = Some tr -> NoDup (stores_of (rs_peers s)) -> balanced_prefixes xs = true ->
  Forall (fun s' => (List.length (rs_peers s) <= List.length (rs_peers s'))%nat) tr.
Proof.
  intros H Hn Hb. pose proof (balanced_sound xs s tr 0 H Hn (Z.le_refl 0) Hb) as F.
  eapply Forall_impl; [|exact F]. cbn. intros a Ha. lia.
Qed.

(* ---------- the plan shapes of the model ---------- *)
(* replace: add-before-remove holds for the joint-consensus plan and for the plain plan when old and
   new peer have the same kind (voter/voter, learner/learner) *)
Lemma plan_replace_balanced joint r old new lrn id pl po :
  plan_of joint r (AReplace old new lrn) id = Some pl ->
  peer_on (peers r) old = Some po ->
  (joint = true \/ is_learner po = lrn) ->
  balanced_prefixes pl = true.
Proof.
  intros H Hp Hc. cbn in H. rewrite Hp in H. destruct joint.
  - inversion H; reflexivity.
  - destruct Hc as [Hc|Hc]; [discriminate|]. rewrite Hc in H.
    rewrite Bool.eqb_reflx in H. destruct lrn; inversion H; reflexivity.
Qed.

(* ... and fails otherwise: without joint consensus a learner replaced by a voter (or a voter by a learner)
   is removed first *)
Lemma plan_replace_unbalanced_witness :
  let r := Region [Peer 1 1 Voter; Peer 2 2 Learner; Peer 3 3 Voter] (Some (Peer 1 1 Voter)) [] [] in
  exists pl, plan_of false r (AReplace 2 9 false) 100 = Some pl /\ balanced_prefixes pl = false.
Proof. cbn. eexists; split; reflexivity. Qed.

Lemma plan_add_balanced joint r t lrn id pl :
  plan_of joint r (AAdd t lrn) id = Some pl -> balanced_prefixes pl = true.
Proof. cbn. destruct lrn; intros H; inversion H; subst; reflexivity. Qed.
