(* C13 — proofs about model/C13_Rules.v.
   Part 1: orders (keys, compareRule), sorted lists.
   Part 2: buildRuleList: the sweep emits one range per distinct boundary key, in ascending order, and
           the rules of a range are exactly the configured rules covering its start key, in compareRule
           order, whatever the order of points with equal keys                [rules_by_key_exact ...]
   Part 3: prepareRulesForApply = the override specification.                 [prepare_eq_override_spec] *)
From Coq Require Import String Permutation Sorting.Sorted.
From PDV Require Import lib.Base lib.C12_Order gen.Gen_C13 model.C13_Rules.
Local Open Scope list_scope.

(* ---------- Part 1: orders ---------- *)
Lemma good_N : good N.compare.
Proof.
  constructor.
  - intros; apply N.compare_antisym.
  - intros a b d x H1 H2. destruct x.
    + apply N.compare_eq in H1, H2. subst. apply N.compare_refl.
    + rewrite N.compare_lt_iff in *. lia.
    + rewrite N.compare_gt_iff in *. lia.
  - intros a b d H. apply N.compare_eq in H. subst. reflexivity.
Qed.

Lemma good_key : good key_cmp.
Proof. apply good_lexlist, good_N. Qed.

Lemma key_cmp_eq a : forall b, key_cmp a b = Eq -> a = b.
Proof.
  unfold key_cmp. induction a as [|x a IH]; intros [|y b] H; cbn in H; try discriminate; [reflexivity|].
  apply lexc_eq in H as [H1 H2]. apply N.compare_eq in H1. f_equal; auto.
Qed.
Lemma key_cmp_refl a : key_cmp a a = Eq.
Proof. apply (g_refl _ good_key). Qed.

Lemma key_eqb_eq a b : key_eqb a b = true <-> a = b.
Proof.
  unfold key_eqb. split.
  - destruct (key_cmp a b) eqn:E; try discriminate. intros _. apply key_cmp_eq; exact E.
  - intros ->. rewrite key_cmp_refl. reflexivity.
Qed.

Definition key_le (a b : key) : Prop := key_cmp a b <> Gt.
Definition key_lt (a b : key) : Prop := key_cmp a b = Lt.

Lemma key_gtb_lt a b : key_gtb a b = true <-> key_lt b a.
Proof.
  unfold key_gtb, key_lt. rewrite (g_anti _ good_key a b). destruct (key_cmp a b); cbn; split; congruence.
Qed.
Lemma key_ltb_lt a b : key_ltb a b = true <-> key_lt a b.
Proof. unfold key_ltb, key_lt. destruct (key_cmp a b); split; congruence. Qed.

Lemma key_lt_trans a b c : key_lt a b -> key_lt b c -> key_lt a c.
Proof. unfold key_lt. intros. eapply (g_trans _ good_key); eauto. Qed.
Lemma key_lt_irrefl a : ~ key_lt a a.
Proof. unfold key_lt. rewrite key_cmp_refl. discriminate. Qed.
Lemma key_le_lt_trans a b c : key_le a b -> key_lt b c -> key_lt a c.
Proof.
  unfold key_le, key_lt. intros H1 H2.
  destruct (key_cmp a b) eqn:E; try congruence.
  - apply key_cmp_eq in E. subst. exact H2.
  - eapply (g_trans _ good_key); eauto.
Qed.
Lemma key_lt_le_trans a b c : key_lt a b -> key_le b c -> key_lt a c.
Proof.
  unfold key_le, key_lt. intros H1 H2.
  destruct (key_cmp b c) eqn:E; try congruence.
  - apply key_cmp_eq in E. subst. exact H1.
  - eapply (g_trans _ good_key); eauto.
Qed.
Lemma key_le_trans a b c : key_le a b -> key_le b c -> key_le a c.
Proof.
  unfold key_le. intros H1 H2 H3.
  destruct (key_cmp a b) eqn:E; try congruence.
  - apply key_cmp_eq in E. subst. congruence.
  - assert (key_lt a c) by (eapply key_lt_le_trans; eauto). unfold key_lt in *. congruence.
Qed.
Lemma key_le_refl a : key_le a a.
Proof. unfold key_le. rewrite key_cmp_refl. discriminate. Qed.
Lemma key_lt_le a b : key_lt a b -> key_le a b.
Proof. unfold key_lt, key_le. congruence. Qed.
Lemma key_not_lt_le a b : ~ key_lt a b <-> key_le b a.
Proof.
  unfold key_lt, key_le. rewrite (g_anti _ good_key a b). destruct (key_cmp a b); cbn; split; congruence.
Qed.
Lemma key_le_cases a b : key_le a b -> a = b \/ key_lt a b.
Proof.
  unfold key_le, key_lt. destruct (key_cmp a b) eqn:E; intros H; try congruence; [left; apply key_cmp_eq; exact E|right; reflexivity].
Qed.
Lemma key_total a b : key_lt a b \/ a = b \/ key_lt b a.
Proof.
  unfold key_lt. destruct (key_cmp a b) eqn:E; [right; left; apply key_cmp_eq; exact E|left; reflexivity|].
  right; right. apply (g_gt_lt _ good_key); exact E.
Qed.
Lemma nil_least k : key_le [] k.
Proof. unfold key_le, key_cmp. destruct k; cbn; discriminate. Qed.

Lemma good_compare_rule : good compare_rule.
Proof.
  unfold compare_rule.
  apply (good_lex (fun a b => Z.compare (group_index a) (group_index b))
                  (fun a b => lexc (key_cmp (r_gid a) (r_gid b)) (lexc (Z.compare (r_index a) (r_index b)) (key_cmp (r_id a) (r_id b))))).
  - apply (good_pull group_index Z.compare good_Z).
  - apply (good_lex (fun a b => key_cmp (r_gid a) (r_gid b))
                    (fun a b => lexc (Z.compare (r_index a) (r_index b)) (key_cmp (r_id a) (r_id b)))).
    + apply (good_pull r_gid key_cmp good_key).
    + apply (good_lex (fun a b => Z.compare (r_index a) (r_index b)) (fun a b => key_cmp (r_id a) (r_id b))).
      * apply (good_pull r_index Z.compare good_Z).
      * apply (good_pull r_id key_cmp good_key).
Qed.

Lemma compare_rule_eq_key a b : compare_rule a b = Eq -> rkey a = rkey b.
Proof.
  unfold compare_rule, rkey. intros H.
  apply lexc_eq in H as [_ H]. apply lexc_eq in H as [H1 H]. apply lexc_eq in H as [_ H2].
  apply key_cmp_eq in H1, H2. congruence.
Qed.

Lemma pair_eqb_eq a b : pair_eqb a b = true <-> a = b.
Proof.
  unfold pair_eqb, pair_cmp. destruct a as [a1 a2], b as [b1 b2]. cbn. split.
  - destruct (key_cmp a1 b1) eqn:E1; cbn; try discriminate.
    destruct (key_cmp a2 b2) eqn:E2; try discriminate. intros _.
    apply key_cmp_eq in E1, E2. congruence.
  - intros H. inversion H; subst. rewrite !key_cmp_refl. reflexivity.
Qed.

Definition rule_lt (a b : rule) : Prop := compare_rule a b = Lt.

(* a list strictly sorted by a good comparison is determined by its elements *)
Lemma sorted_unique {A} (c : A -> A -> comparison) (G : good c) (l1 : list A) :
  forall l2, StronglySorted (fun a b => c a b = Lt) l1 -> StronglySorted (fun a b => c a b = Lt) l2 ->
  (forall x, In x l1 <-> In x l2) -> l1 = l2.
Proof.
  induction l1 as [|x r IH]; intros l2 S1 S2 H.
  - destruct l2 as [|y r2]; [reflexivity|]. exfalso. apply (H y). left; reflexivity.
  - destruct l2 as [|y r2]; [exfalso; apply (H x); left; reflexivity|].
    inversion S1 as [|? ? S1' F1]; inversion S2 as [|? ? S2' F2]; subst.
    assert (x = y).
    { destruct (proj1 (H x) (or_introl eq_refl)) as [E|Hin]; [congruence|].
      destruct (proj2 (H y) (or_introl eq_refl)) as [E|Hin2]; [congruence|].
      rewrite Forall_forall in F1, F2. pose proof (F1 _ Hin2) as L1. pose proof (F2 _ Hin) as L2.
      rewrite (g_anti c G y x), L2 in L1. discriminate. }
    subst y. f_equal. apply IH; [assumption|assumption|].
    rewrite Forall_forall in F1, F2.
    intros z; split; intros Hz.
    + destruct (proj1 (H z) (or_intror Hz)) as [E|Hin]; [|exact Hin].
      subst z. pose proof (F1 _ Hz) as L. rewrite (g_refl c G) in L. discriminate.
    + destruct (proj2 (H z) (or_intror Hz)) as [E|Hin]; [|exact Hin].
      subst z. pose proof (F2 _ Hz) as L. rewrite (g_refl c G) in L. discriminate.
Qed.

(* insertion sort by a good comparison *)
Lemma insert_by_In {A} (c : A -> A -> comparison) x l : forall y, In y (insert_by c x l) <-> y = x \/ In y l.
Proof.
  induction l as [|z r IH]; intros y; cbn; [intuition|].
  destruct (c x z); cbn; rewrite ?IH; intuition.
Qed.
Lemma sort_by_In {A} (c : A -> A -> comparison) l : forall y, In y (sort_by c l) <-> In y l.
Proof.
  induction l as [|x r IH]; intros y; cbn; [tauto|]. rewrite insert_by_In, IH. intuition.
Qed.
Lemma insert_by_perm {A} (c : A -> A -> comparison) x l : Permutation (insert_by c x l) (x :: l).
Proof.
  induction l as [|z r IH]; cbn; [apply Permutation_refl|].
  destruct (c x z); try apply Permutation_refl;
    (eapply Permutation_trans; [apply perm_skip; exact IH|apply perm_swap]).
Qed.
Lemma sort_by_perm {A} (c : A -> A -> comparison) l : Permutation (sort_by c l) l.
Proof.
  induction l as [|x r IH]; cbn; [constructor|].
  eapply Permutation_trans; [apply insert_by_perm|apply perm_skip; exact IH].
Qed.

(* weakly sorted: no element is greater than a later one *)
Definition le_of {A} (c : A -> A -> comparison) (a b : A) : Prop := c a b <> Gt.
Lemma insert_by_sorted {A} (c : A -> A -> comparison) (G : good c) x l :
  StronglySorted (le_of c) l -> StronglySorted (le_of c) (insert_by c x l).
Proof.
  induction 1 as [|z r S IH F]; cbn; [repeat constructor|].
  rewrite Forall_forall in F.
  destruct (c x z) eqn:E.
  - constructor; [exact IH|]. rewrite Forall_forall. intros y Hy. apply insert_by_In in Hy as [->|Hy]; [|auto].
    unfold le_of. rewrite (g_anti c G x z), E. discriminate.
  - constructor; [constructor; [exact S|rewrite Forall_forall; exact F]|].
    rewrite Forall_forall. intros y [->|Hy]; unfold le_of; [congruence|].
    specialize (F _ Hy). unfold le_of in F. intros Hgt.
    (* x < z <= y *) assert (c x y = Lt).
    { destruct (c z y) eqn:Ezy; try congruence.
      - rewrite <- (g_eq_r c G z y x Ezy). exact E.
      - eapply (g_trans c G); eauto. }
    congruence.
  - constructor; [exact IH|]. rewrite Forall_forall. intros y Hy. apply insert_by_In in Hy as [->|Hy]; [|auto].
    unfold le_of. rewrite (g_anti c G x z), E. discriminate.
Qed.
Lemma sort_by_sorted {A} (c : A -> A -> comparison) (G : good c) l : StronglySorted (le_of c) (sort_by c l).
Proof. induction l as [|x r IH]; cbn; [constructor|]. apply insert_by_sorted; assumption. Qed.

(* ---------- Part 2: buildRuleList ---------- *)
Lemma insert_rule_In r sr : forall y, In y (insert_rule r sr) <-> y = r \/ In y sr.
Proof.
  induction sr as [|x rest IH]; intros y; cbn; [intuition|].
  destruct (compare_rule x r); cbn; rewrite ?IH; intuition.
Qed.
Lemma insert_rule_perm r sr : Permutation (insert_rule r sr) (r :: sr).
Proof.
  induction sr as [|x rest IH]; cbn; [apply Permutation_refl|].
  destruct (compare_rule x r); try apply Permutation_refl;
    (eapply Permutation_trans; [apply perm_skip; exact IH|apply perm_swap]).
Qed.
Lemma insert_rule_sorted r sr :
  StronglySorted rule_lt sr -> (forall x, In x sr -> rkey x <> rkey r) -> StronglySorted rule_lt (insert_rule r sr).
Proof.
  induction 1 as [|x rest S IH F]; intros Hk; cbn; [repeat constructor|].
  rewrite Forall_forall in F.
  assert (Hx : compare_rule x r <> Eq).
  { intros E. apply compare_rule_eq_key in E. apply (Hk x); [left; reflexivity|exact E]. }
  destruct (compare_rule x r) eqn:E; try congruence.
  - (* x < r *)
    constructor; [apply IH; intros y Hy; apply Hk; right; exact Hy|].
    rewrite Forall_forall. intros y Hy. apply insert_rule_In in Hy as [->|Hy]; [exact E|auto].
  - (* x > r *)
    assert (Erx : rule_lt r x) by (apply (g_gt_lt _ good_compare_rule); exact E).
    constructor; [constructor; [exact S|rewrite Forall_forall; exact F]|].
    rewrite Forall_forall. intros y [->|Hy]; [exact Erx|].
    unfold rule_lt in *. eapply (g_trans _ good_compare_rule); [exact Erx|apply F; exact Hy].
Qed.

Lemma delete_rule_In r sr : NoDup (map rkey sr) -> forall y, In y (delete_rule r sr) <-> In y sr /\ rkey y <> rkey r.
Proof.
  induction sr as [|x rest IH]; intros Hnd y; cbn; [tauto|].
  cbn in Hnd. inversion Hnd as [|? ? Hn Hr]; subst.
  destruct (pair_eqb (rkey x) (rkey r)) eqn:E.
  - apply pair_eqb_eq in E. split.
    + intros Hy. split; [right; exact Hy|]. intros Ey. apply Hn. rewrite E, <- Ey. apply in_map; exact Hy.
    + intros [[->|Hy] Hne]; [congruence|exact Hy].
  - assert (Ne : rkey x <> rkey r) by (intros H; apply pair_eqb_eq in H; congruence).
    cbn. rewrite (IH Hr). split.
    + intros [->|[Hy Hne]]; auto.
    + intros [[->|Hy] Hne]; auto.
Qed.
Lemma delete_rule_sublist r sr : forall y, In y (delete_rule r sr) -> In y sr.
Proof.
  induction sr as [|x rest IH]; intros y; cbn; [tauto|].
  destruct (pair_eqb (rkey x) (rkey r)); cbn; [auto|]. intros [->|H]; auto.
Qed.
Lemma delete_rule_nodup r sr : NoDup (map rkey sr) -> NoDup (map rkey (delete_rule r sr)).
Proof.
  induction sr as [|x rest IH]; intros Hnd; cbn; [constructor|].
  cbn in Hnd. inversion Hnd as [|? ? Hn Hr]; subst.
  destruct (pair_eqb (rkey x) (rkey r)); [exact Hr|]. cbn. constructor; [|auto].
  intros Hin. apply Hn. apply in_map_iff in Hin as [y [E Hy]]. apply in_map_iff. exists y. split; [exact E|].
  eapply delete_rule_sublist; exact Hy.
Qed.
Lemma delete_rule_sorted r sr : StronglySorted rule_lt sr -> StronglySorted rule_lt (delete_rule r sr).
Proof.
  induction 1 as [|x rest S IH F]; cbn; [constructor|].
  destruct (pair_eqb (rkey x) (rkey r)); [exact S|]. constructor; [exact IH|].
  rewrite Forall_forall in *. intros y Hy. apply F. eapply delete_rule_sublist; exact Hy.
Qed.

Definition start_pt (r : rule) : point := Point TStart (r_start r) r.
Definition end_pt (r : rule) : point := Point TEnd (r_end r) r.
Definition run_points (L : list point) (sr : list rule) : list rule := fold_left (fun s p => apply_point p s) L sr.

Record wf_rules (rules : list rule) : Prop := {
  wf_nodup : NoDup (map rkey rules);
  wf_range : forall r, In r rules -> r_end r = [] \/ key_lt (r_start r) (r_end r)
}.

Lemma in_points_of rules p :
  In p (points_of rules) <->
  In (p_rule p) rules /\ (p = start_pt (p_rule p) \/ (p = end_pt (p_rule p) /\ r_end (p_rule p) <> [])).
Proof.
  unfold points_of. rewrite in_flat_map. split.
  - intros [r [Hr Hp]]. destruct Hp as [Hp|Hp].
    + subst p. cbn. split; [exact Hr|left; reflexivity].
    + destruct (r_end r) eqn:E; cbn in Hp; [destruct Hp|]. destruct Hp as [Hp|[]]. subst p. cbn.
      split; [exact Hr|right]. unfold end_pt. rewrite E. split; [reflexivity|discriminate].
  - intros [Hr [Hp|[Hp Hne]]]; exists (p_rule p); split; try exact Hr.
    + left. symmetry. exact Hp.
    + right. destruct (r_end (p_rule p)) eqn:E; [congruence|]. cbn. left. rewrite Hp at 2. unfold end_pt. rewrite E. reflexivity.
Qed.

Lemma NoDup_app_intro {A} (a b : list A) :
  NoDup a -> NoDup b -> (forall x, In x a -> In x b -> False) -> NoDup (a ++ b).
Proof.
  induction a as [|x r IH]; cbn; intros Ha Hb H; [exact Hb|].
  inversion Ha as [|? ? Hn Hr]; subst. constructor.
  - intros Hin. apply in_app_or in Hin as [Hin|Hin]; [auto|]. apply (H x); [left; reflexivity|exact Hin].
  - apply IH; [exact Hr|exact Hb|]. intros y Hy. apply H. right; exact Hy.
Qed.

Lemma points_nodup rules : NoDup (map rkey rules) -> NoDup (points_of rules).
Proof.
  induction rules as [|r rest IH]; cbn; intros H; [constructor|].
  inversion H as [|? ? Hn Hr]; subst. specialize (IH Hr).
  assert (Hnot : forall p, In p (points_of rest) -> p_rule p <> r).
  { intros p Hp E. apply in_points_of in Hp as [Hin _]. apply Hn. rewrite <- E. apply in_map; exact Hin. }
  constructor.
  - intros Hin. apply in_app_or in Hin as [Hin|Hin].
    + destruct (r_end r); cbn in Hin; [destruct Hin|]. destruct Hin as [Hin|[]]. discriminate.
    + apply (Hnot _ Hin). reflexivity.
  - apply NoDup_app_intro; [| exact IH |].
    + destruct (r_end r); cbn; repeat constructor. intros [].
    + intros p Hp Hq. destruct (r_end r); cbn in Hp; [destruct Hp|]. destruct Hp as [Hp|[]]. subst p.
      apply (Hnot _ Hq). reflexivity.
Qed.

Lemma ssorted_app_rel {A} (R : A -> A -> Prop) l1 : forall l2,
  StronglySorted R (l1 ++ l2) -> forall a b, In a l1 -> In b l2 -> R a b.
Proof.
  induction l1 as [|x r IH]; intros l2 H a b Ha Hb; [destruct Ha|].
  cbn in H. inversion H as [|? ? S F]; subst. rewrite Forall_forall in F.
  destruct Ha as [->|Ha]; [apply F; apply in_or_app; right; exact Hb|]. eapply IH; eauto.
Qed.
Lemma ssorted_app_r {A} (R : A -> A -> Prop) l1 : forall l2, StronglySorted R (l1 ++ l2) -> StronglySorted R l2.
Proof. induction l1 as [|x r IH]; intros l2 H; [exact H|]. cbn in H. inversion H; subst. apply IH; assumption. Qed.

Section Sweep.
  Variables (rules : list rule) (pts : list point).
  Hypothesis Hwf : wf_rules rules.
  Hypothesis Hmem : forall p, In p pts <-> In p (points_of rules).
  Hypothesis Hnd : NoDup pts.
  Hypothesis Hsorted : StronglySorted (fun a b => key_le (p_key a) (p_key b)) pts.

  Lemma rule_of_key x y : In x rules -> In y rules -> rkey x = rkey y -> x = y.
  Proof.
    intros Hx Hy E. pose proof (wf_nodup _ Hwf) as N. clear -Hx Hy E N.
    induction rules as [|z r IH]; [destruct Hx|]. cbn in N. inversion N as [|? ? Hn Hr]; subst.
    destruct Hx as [->|Hx], Hy as [->|Hy]; auto.
    - exfalso. apply Hn. rewrite E. apply in_map; exact Hy.
    - exfalso. apply Hn. rewrite <- E. apply in_map; exact Hx.
  Qed.

  Lemma start_in_pts y : In (start_pt y) pts <-> In y rules.
  Proof.
    rewrite Hmem, in_points_of. cbn. split; [tauto|]. intros H. split; [exact H|left; reflexivity].
  Qed.
  Lemma end_in_pts y : In (end_pt y) pts <-> In y rules /\ r_end y <> [].
  Proof.
    rewrite Hmem, in_points_of. cbn. split.
    - intros [H [E|[_ Hne]]]; [discriminate|tauto].
    - intros [H Hne]. split; [exact H|right; split; [reflexivity|exact Hne]].
  Qed.

  (* the sorted-rules slice after the points L, for every prefix L of the sorted point list *)
  Record prefix_inv (L : list point) : Prop := {
    pi_nodup : NoDup (map rkey (run_points L []));
    pi_sorted : StronglySorted rule_lt (run_points L []);
    pi_mem : forall y, In y (run_points L []) <-> In (start_pt y) L /\ ~ In (end_pt y) L
  }.

  Lemma prefix_inv_holds L : forall R, L ++ R = pts -> prefix_inv L.
  Proof.
    induction L as [|p L IH] using rev_ind; intros R E.
    - constructor; cbn; [constructor|constructor|tauto].
    - rewrite <- app_assoc in E. cbn in E. specialize (IH _ E). destruct IH as [I1 I2 I3].
      assert (Erun : run_points (L ++ [p]) [] = apply_point p (run_points L [])).
      { unfold run_points. rewrite fold_left_app. reflexivity. }
      set (S := run_points L []) in *.
      assert (Hp : In p pts) by (rewrite <- E; apply in_or_app; right; left; reflexivity).
      assert (HLp : forall q, In q L -> key_le (p_key q) (p_key p)).
      { intros q Hq. rewrite <- E in Hsorted.
        apply (ssorted_app_rel (fun a b : point => key_le (p_key a) (p_key b)) L (p :: R) Hsorted q p Hq). left; reflexivity. }
      assert (HpL : ~ In p L).
      { rewrite <- E in Hnd. apply NoDup_remove_2 in Hnd. intros H. apply Hnd. apply in_or_app. left; exact H. }
      assert (HLpts : forall q, In q L -> In q pts) by (intros q Hq; rewrite <- E; apply in_or_app; left; exact Hq).
      pose proof (proj1 (Hmem p) Hp) as Hpo. apply in_points_of in Hpo as [Hr Hshape].
      destruct Hshape as [Hs|[He Hne]].
      + (* a start point: insertRule *)
        assert (Erun' : run_points (L ++ [p]) [] = insert_rule (p_rule p) S).
        { rewrite Erun. unfold apply_point. rewrite Hs. reflexivity. }
        set (r := p_rule p) in *.
        assert (Hfresh : forall x, In x S -> rkey x <> rkey r).
        { intros x Hx Ek. apply I3 in Hx as [Hx _]. assert (x = r).
          { apply rule_of_key; [apply start_in_pts; apply HLpts; exact Hx|exact Hr|exact Ek]. }
          subst x. apply HpL. rewrite Hs. exact Hx. }
        constructor; rewrite Erun'.
        * eapply Permutation_NoDup; [apply Permutation_sym, Permutation_map, insert_rule_perm|].
          cbn. constructor; [|exact I1]. intros Hin. apply in_map_iff in Hin as [x [Ek Hx]]. apply (Hfresh x Hx Ek).
        * apply insert_rule_sorted; assumption.
        * intros y. rewrite insert_rule_In, I3, !in_app_iff. cbn [In]. split.
          -- intros [->|[H1 H2]].
             ++ split; [right; left; exact Hs|]. intros [Hin|[Hin|[]]]; [|rewrite Hs in Hin; discriminate].
                (* the end point of r cannot precede its start point *)
                pose proof (HLp _ Hin) as Hle. cbn in Hle. rewrite Hs in Hle. cbn in Hle.
                destruct (wf_range _ Hwf r Hr) as [En|Hlt].
                ** apply HLpts, end_in_pts in Hin as [_ Hne]. congruence.
                ** unfold key_le in Hle. unfold key_lt in Hlt. rewrite (g_anti _ good_key (r_start r) (r_end r)), Hlt in Hle.
                   cbn in Hle. congruence.
             ++ split; [left; exact H1|]. intros [Hin|[Hin|[]]]; [auto|rewrite Hs in Hin; discriminate].
          -- intros [[H1|[H1|[]]] H2].
             ++ right. split; [exact H1|]. intros H; apply H2; left; exact H.
             ++ left. rewrite Hs in H1. inversion H1. reflexivity.
      + (* an end point: deleteRule *)
        assert (Erun' : run_points (L ++ [p]) [] = delete_rule (p_rule p) S).
        { rewrite Erun. unfold apply_point. rewrite He. reflexivity. }
        set (r := p_rule p) in *.
        constructor; rewrite Erun'.
        * apply delete_rule_nodup; exact I1.
        * apply delete_rule_sorted; exact I2.
        * intros y. rewrite (delete_rule_In r S I1), I3, !in_app_iff. cbn [In]. split.
          -- intros [[H1 H2] Hne']. split; [left; exact H1|]. intros [Hin|[Hin|[]]]; [auto|].
             rewrite He in Hin. inversion Hin as [[Ek Ey]]. apply Hne'. rewrite Ey. reflexivity.
          -- intros [[H1|[H1|[]]] H2]; [|rewrite He in H1; discriminate].
             split; [split; [exact H1|intros H; apply H2; left; exact H]|].
             intros Ek. assert (y = r).
             { apply rule_of_key; [apply start_in_pts; apply HLpts; exact H1|exact Hr|exact Ek]. }
             subst y. apply H2. right; left. exact He.
  Qed.

  (* after all points with key <= k and none with a greater key: exactly the rules covering k *)
  Lemma covers_iff y k :
    covers y k = true <-> key_le (r_start y) k /\ ~ (r_end y <> [] /\ key_le (r_end y) k).
  Proof.
    unfold covers. rewrite andb_true_iff, orb_true_iff, negb_true_iff.
    assert (G : key_gtb (r_start y) k = false <-> key_le (r_start y) k).
    { unfold key_gtb, key_le. destruct (key_cmp (r_start y) k); split; congruence. }
    rewrite G, key_ltb_lt. split.
    - intros [H1 [H2|H2]]; split; try exact H1.
      + destruct (r_end y); [intros [X _]; congruence|discriminate].
      + intros [_ H3]. apply key_not_lt_le in H3. contradiction.
    - intros [H1 H2]. split; [exact H1|].
      destruct (r_end y) as [|b e] eqn:E; [left; reflexivity|right].
      destruct (key_total k (b :: e)) as [H|[H|H]]; [exact H| |].
      + exfalso. apply H2. split; [discriminate|]. rewrite <- H. apply key_le_refl.
      + exfalso. apply H2. split; [discriminate|apply key_lt_le; exact H].
  Qed.

  Lemma cut_mem L R k :
    L ++ R = pts -> (forall q, In q L -> key_le (p_key q) k) -> (forall q, In q R -> key_lt k (p_key q)) ->
    forall y, In y (run_points L []) <-> In y rules /\ covers y k = true.
  Proof.
    intros E HL HR y. rewrite (pi_mem _ (prefix_inv_holds L R E)), covers_iff.
    assert (Hin : forall q, In q pts -> In q L \/ In q R) by (intros q Hq; rewrite <- E in Hq; apply in_app_or; exact Hq).
    assert (HLpts : forall q, In q L -> In q pts) by (intros q Hq; rewrite <- E; apply in_or_app; left; exact Hq).
    split.
    - intros [H1 H2]. pose proof (proj1 (start_in_pts y) (HLpts _ H1)) as Hy. split; [exact Hy|].
      split; [exact (HL _ H1)|]. intros [Hne Hle]. apply H2.
      destruct (Hin (end_pt y)) as [H|H]; [apply end_in_pts; tauto|exact H|].
      apply HR in H. cbn in H. exfalso. eapply key_lt_irrefl. eapply key_lt_le_trans; eauto.
    - intros [Hy [H1 H2]]. split.
      + destruct (Hin (start_pt y)) as [H|H]; [apply start_in_pts; exact Hy|exact H|].
        apply HR in H. cbn in H. exfalso. eapply key_lt_irrefl. eapply key_lt_le_trans; eauto.
      + intros H. apply H2. split; [apply (end_in_pts y), HLpts, H|exact (HL _ H)].
  Qed.
End Sweep.

Fixpoint emit_keys (R : list point) : list key :=
  match R with
  | [] => []
  | p :: rest => match rest with
                 | [] => [p_key p]
                 | q :: _ => if key_eqb (p_key p) (p_key q) then emit_keys rest else p_key p :: emit_keys rest
                 end
  end.

Lemma emit_keys_In R : forall k, In k (emit_keys R) <-> exists p, In p R /\ p_key p = k.
Proof.
  induction R as [|p rest IH]; intros k; [cbn; split; [tauto|intros [? [[] _]]]|].
  cbn [emit_keys]. destruct rest as [|q rest'].
  - cbn. split; [intros [<-|[]]; exists p; auto|intros [x [[->|[]] <-]]; auto].
  - destruct (key_eqb (p_key p) (p_key q)) eqn:E.
    + rewrite IH. apply key_eqb_eq in E. split.
      * intros [x [Hx Ek]]. exists x. split; [right; exact Hx|exact Ek].
      * intros [x [[->|Hx] Ek]]; [exists q; split; [left; reflexivity|congruence]|exists x; auto].
    + cbn [In]. rewrite IH. split.
      * intros [<-|[x [Hx Ek]]]; [exists p; split; [left; reflexivity|reflexivity]|exists x; split; [right; exact Hx|exact Ek]].
      * intros [x [[->|Hx] Ek]]; [left; exact Ek|right; exists x; auto].
Qed.

Lemma emit_keys_sorted R :
  StronglySorted (fun a b => key_le (p_key a) (p_key b)) R -> StronglySorted key_lt (emit_keys R).
Proof.
  induction R as [|p rest IH]; intros S; [constructor|].
  inversion S as [|? ? S' F]; subst. specialize (IH S'). rewrite Forall_forall in F.
  cbn [emit_keys]. destruct rest as [|q rest']; [repeat constructor|].
  destruct (key_eqb (p_key p) (p_key q)) eqn:E; [exact IH|].
  constructor; [exact IH|]. rewrite Forall_forall. intros k Hk. apply emit_keys_In in Hk as [x [Hx <-]].
  assert (Hpq : key_lt (p_key p) (p_key q)).
  { destruct (key_le_cases _ _ (F q (or_introl eq_refl))) as [Heq|Hlt]; [|exact Hlt].
    apply key_eqb_eq in Heq. congruence. }
  destruct Hx as [->|Hx]; [exact Hpq|].
  inversion S' as [|? ? _ F']; subst. rewrite Forall_forall in F'.
  eapply key_lt_le_trans; [exact Hpq|apply F'; exact Hx].
Qed.

Section Sweep2.
  Variables (rules : list rule) (pts : list point).
  Hypothesis Hwf : wf_rules rules.
  Hypothesis Hmem : forall p, In p pts <-> In p (points_of rules).
  Hypothesis Hnd : NoDup pts.
  Hypothesis Hsorted : StronglySorted (fun a b => key_le (p_key a) (p_key b)) pts.

  Definition range_ok (g : range) : Prop :=
    StronglySorted rule_lt (rg_rules g) /\
    (forall y, In y (rg_rules g) <-> In y rules /\ covers y (rg_start g) = true) /\
    rg_rules g <> [] /\
    rg_apply g = prepare_rules_for_apply (rg_rules g) /\
    check_apply_rules (rg_apply g) = None.

  Lemma sweep_gen R : forall L rl,
    L ++ R = pts -> sweep R (run_points L []) = inr rl ->
    Forall range_ok rl /\ map rg_start rl = emit_keys R.
  Proof.
    induction R as [|p rest IH]; intros L rl E H.
    - cbn in H. injection H as <-. split; [constructor|reflexivity].
    - assert (E' : (L ++ [p]) ++ rest = pts) by (rewrite <- app_assoc; exact E).
      assert (Erun : apply_point p (run_points L []) = run_points (L ++ [p]) []).
      { unfold run_points. rewrite fold_left_app. reflexivity. }
      cbn [sweep] in H. rewrite Erun in H. cbn [emit_keys].
      assert (HLp : forall q, In q (L ++ [p]) -> key_le (p_key q) (p_key p)).
      { intros q Hq. apply in_app_or in Hq as [Hq|[->|[]]]; [|apply key_le_refl].
        rewrite <- E in Hsorted.
        apply (ssorted_app_rel (fun a b : point => key_le (p_key a) (p_key b)) L (p :: rest) Hsorted q p Hq). left; reflexivity. }
      assert (Srest : StronglySorted (fun a b : point => key_le (p_key a) (p_key b)) (p :: rest)).
      { rewrite <- E in Hsorted. eapply ssorted_app_r; exact Hsorted. }
      destruct rest as [|q rest'].
      + (* last point: always emits *)
        destruct (run_points (L ++ [p]) []) as [|x xs] eqn:Esr; [discriminate|]. rewrite <- Esr in *.
        destruct (check_apply_rules (prepare_rules_for_apply (run_points (L ++ [p]) []))) eqn:Ec; [discriminate|].
        cbn in H. injection H as <-. split; [|reflexivity]. constructor; [|constructor].
        pose proof (prefix_inv_holds rules pts Hwf Hmem Hnd Hsorted (L ++ [p]) [] E') as [_ I2 _].
        unfold range_ok. cbn [rg_rules rg_start rg_apply]. split; [exact I2|]. split.
        * apply (cut_mem rules pts Hwf Hmem Hnd Hsorted (L ++ [p]) [] (p_key p) E' HLp). intros ? [].
        * split; [rewrite Esr; discriminate|]. split; [reflexivity|exact Ec].
      + destruct (key_eqb (p_key p) (p_key q)) eqn:Ek; cbn [negb] in H.
        * apply (IH (L ++ [p]) rl E' H).
        * destruct (run_points (L ++ [p]) []) as [|x xs] eqn:Esr; [discriminate|]. rewrite <- Esr in *.
          destruct (check_apply_rules (prepare_rules_for_apply (run_points (L ++ [p]) []))) eqn:Ec; [discriminate|].
          destruct (sweep (q :: rest') (run_points (L ++ [p]) [])) as [e|l] eqn:Es; [discriminate|].
          injection H as <-. destruct (IH (L ++ [p]) l E' Es) as [F Em].
          split; [|cbn [map rg_start]; rewrite Em; reflexivity]. constructor; [|exact F].
          pose proof (prefix_inv_holds rules pts Hwf Hmem Hnd Hsorted (L ++ [p]) (q :: rest') E') as [_ I2 _].
          unfold range_ok. cbn [rg_rules rg_start rg_apply]. split; [exact I2|]. split.
          -- apply (cut_mem rules pts Hwf Hmem Hnd Hsorted (L ++ [p]) (q :: rest') (p_key p) E' HLp).
             inversion Srest as [|? ? S' F' [Ea Eb]]. rewrite Forall_forall in F'.
             assert (Hpq : key_lt (p_key p) (p_key q)).
             { destruct (key_le_cases _ _ (F' q (or_introl eq_refl))) as [Heq|Hlt]; [|exact Hlt].
               apply key_eqb_eq in Heq. congruence. }
             intros z [->|Hz]; [exact Hpq|].
             inversion S' as [|? ? _ F'' [Ec' Ed']]. rewrite Forall_forall in F''.
             eapply key_lt_le_trans; [exact Hpq|apply F''; exact Hz].
          -- split; [rewrite Esr; discriminate|]. split; [reflexivity|exact Ec].
  Qed.

  (* a boundary: a start key or a non-empty end key of a configured rule *)
  Definition boundary (k : key) : Prop :=
    exists y, In y rules /\ (k = r_start y \/ (k = r_end y /\ r_end y <> [])).

  Lemma boundary_iff_point k : boundary k <-> exists p, In p pts /\ p_key p = k.
  Proof.
    split.
    - intros [y [Hy [->|[-> Hne]]]].
      + exists (start_pt y). split; [apply (start_in_pts rules pts Hmem); exact Hy|reflexivity].
      + exists (end_pt y). split; [apply (end_in_pts rules pts Hmem); tauto|reflexivity].
    - intros [p [Hp <-]]. apply Hmem, in_points_of in Hp as [Hr [Hs|[He Hne]]]; exists (p_rule p); split; try exact Hr.
      + left. rewrite Hs at 1. reflexivity.
      + right. split; [rewrite He at 1; reflexivity|exact Hne].
  Qed.

  Theorem sweep_ranges rl :
    sweep pts [] = inr rl ->
    Forall range_ok rl /\ StronglySorted key_lt (map rg_start rl) /\ (forall k, In k (map rg_start rl) <-> boundary k).
  Proof.
    intros H. destruct (sweep_gen pts [] rl eq_refl H) as [F E]. split; [exact F|]. rewrite E. split.
    - apply emit_keys_sorted; exact Hsorted.
    - intros k. rewrite emit_keys_In, boundary_iff_point. tauto.
  Qed.
End Sweep2.

(* ---------- lookups on a list of ranges with strictly ascending start keys ---------- *)
Lemma search_gt_spec k rl : forall before,
  exists pre f, search_gt k before rl = (rev pre ++ before, f) /\ rl = pre ++ f /\
                (forall g, In g pre -> key_le (rg_start g) k) /\
                (match f with [] => True | g :: _ => key_lt k (rg_start g) end).
Proof.
  induction rl as [|g rest IH]; intros before.
  - exists [], []. cbn. repeat split. intros g [].
  - cbn [search_gt]. destruct (key_gtb (rg_start g) k) eqn:E.
    + exists [], (g :: rest). cbn. repeat split; [intros x []|apply key_gtb_lt; exact E].
    + destruct (IH (g :: before)) as (pre & f & E1 & E2 & H1 & H2).
      exists (g :: pre), f. rewrite E1. cbn [rev]. rewrite <- app_assoc. cbn. repeat split; [congruence| |exact H2].
      intros x [<-|Hx]; [|auto].
      unfold key_le. unfold key_gtb in E. destruct (key_cmp (rg_start g) k); congruence.
Qed.

Section Lookup.
  Variables (rules : list rule) (rl : list range).
  Hypothesis Hwf : wf_rules rules.
  Hypothesis Hok : Forall (range_ok rules) rl.
  Hypothesis Hasc : StronglySorted key_lt (map rg_start rl).
  Hypothesis Hbnd : forall k, In k (map rg_start rl) <-> boundary rules k.

  Lemma asc_split pre f : rl = pre ++ f ->
    forall a b, In a pre -> In b f -> key_lt (rg_start a) (rg_start b).
  Proof.
    intros E a b Ha Hb. rewrite E, map_app in Hasc.
    apply (ssorted_app_rel key_lt _ _ Hasc); apply in_map; assumption.
  Qed.

  (* a boundary is either <= the start of the last range not after k, or > k *)
  Lemma boundary_cases k pre f g b :
    rl = (pre ++ [g]) ++ f -> (forall x, In x (pre ++ [g]) -> key_le (rg_start x) k) ->
    (forall x, In x f -> key_lt k (rg_start x)) ->
    boundary rules b -> key_le b (rg_start g) \/ key_lt k b.
  Proof.
    intros E H1 H2 Hb. apply Hbnd in Hb. apply in_map_iff in Hb as [x [<- Hx]].
    rewrite E in Hx. apply in_app_or in Hx as [Hx|Hx]; [|right; apply H2; exact Hx].
    left. apply in_app_or in Hx as [Hx|[->|[]]]; [|apply key_le_refl].
    apply key_lt_le. rewrite <- app_assoc in E. cbn in E.
    apply (asc_split pre (g :: f) E); [exact Hx|left; reflexivity].
  Qed.

  Lemma f_all_gt k pre f :
    rl = pre ++ f -> (match f with [] => True | g :: _ => key_lt k (rg_start g) end) ->
    forall x, In x f -> key_lt k (rg_start x).
  Proof.
    intros E Hh x Hx. destruct f as [|g f']; [destruct Hx|].
    destruct Hx as [->|Hx]; [exact Hh|].
    eapply key_lt_trans; [exact Hh|].
    rewrite E, map_app in Hasc. apply ssorted_app_r in Hasc. cbn in Hasc.
    inversion Hasc as [|? ? _ F]; subst. rewrite Forall_forall in F. apply F. apply in_map; exact Hx.
  Qed.

  Lemma covers_same_segment k pre f g y :
    rl = (pre ++ [g]) ++ f -> (forall x, In x (pre ++ [g]) -> key_le (rg_start x) k) ->
    (forall x, In x f -> key_lt k (rg_start x)) ->
    In y rules -> covers y k = covers y (rg_start g).
  Proof.
    intros E H1 H2 Hy.
    assert (Hg : key_le (rg_start g) k) by (apply H1; apply in_or_app; right; left; reflexivity).
    assert (Hs : boundary rules (r_start y)) by (exists y; auto).
    assert (Iff : covers y k = true <-> covers y (rg_start g) = true).
    { rewrite !covers_iff. split.
      - intros [A B]. split.
        + destruct (boundary_cases k pre f g _ E H1 H2 Hs) as [H|H]; [exact H|].
          exfalso. eapply key_lt_irrefl. eapply key_lt_le_trans; eauto.
        + intros [Hne Hle]. apply B. split; [exact Hne|eapply key_le_trans; eauto].
      - intros [A B]. split; [eapply key_le_trans; eauto|].
        intros [Hne Hle]. apply B. split; [exact Hne|].
        assert (He : boundary rules (r_end y)) by (exists y; auto).
        destruct (boundary_cases k pre f g _ E H1 H2 He) as [H|H]; [exact H|].
        exfalso. eapply key_lt_irrefl. eapply key_lt_le_trans; eauto. }
    destruct (covers y k), (covers y (rg_start g)); try reflexivity; [symmetry|]; apply Iff; reflexivity.
  Qed.

  (* GetRulesByKey: exactly the configured rules whose range contains the key, in compareRule order *)
  Theorem rules_by_key_exact_pf k :
    StronglySorted rule_lt (get_rules_by_key rl k) /\
    (forall y, In y (get_rules_by_key rl k) <-> In y rules /\ covers y k = true).
  Proof.
    unfold get_rules_by_key.
    destruct (search_gt_spec k rl []) as (pre & f & E1 & E2 & H1 & H2). rewrite E1. cbn [fst]. rewrite app_nil_r.
    pose proof (f_all_gt k pre f E2 H2) as H2'.
    destruct (rev pre) as [|g pr] eqn:Er.
    - (* k is below every boundary: nothing covers it *)
      assert (pre = []) by (destruct pre; [reflexivity|]; cbn in Er; destruct (rev pre); discriminate). subst pre.
      split; [constructor|]. intros y. split; [intros []|]. intros [Hy Hc]. apply covers_iff in Hc as [Hc _].
      assert (Hs : boundary rules (r_start y)) by (exists y; auto).
      apply Hbnd in Hs. apply in_map_iff in Hs as [x [Ex Hx]]. cbn in E2. rewrite E2 in Hx.
      apply H2' in Hx. rewrite Ex in Hx. eapply key_lt_irrefl. eapply key_lt_le_trans; eauto.
    - assert (Epre : pre = rev pr ++ [g]) by (rewrite <- (rev_involutive pre), Er; reflexivity).
      rewrite Epre in E2, H1.
      assert (Hg : In g rl) by (rewrite E2; apply in_or_app; left; apply in_or_app; right; left; reflexivity).
      rewrite Forall_forall in Hok. destruct (Hok g Hg) as (S & M & _).
      split; [exact S|]. intros y. rewrite M. split; intros [Hy Hc]; (split; [exact Hy|]).
      + rewrite (covers_same_segment k (rev pr) f g y E2 H1 H2' Hy). exact Hc.
      + rewrite <- (covers_same_segment k (rev pr) f g y E2 H1 H2' Hy). exact Hc.
  Qed.

  (* GetSplitKeys: exactly the boundaries strictly inside (s, e), ascending *)
  Lemma take_split_spec e l :
    StronglySorted key_lt (map rg_start l) ->
    StronglySorted key_lt (take_split e l) /\
    (forall k, In k (take_split e l) <-> In k (map rg_start l) /\ (e = [] \/ key_lt k e)).
  Proof.
    induction l as [|g rest IH]; intros S; cbn [take_split map]; [split; [constructor|cbn; tauto]|].
    cbn in S. inversion S as [|? ? S' F]; subst. rewrite Forall_forall in F. destruct (IH S') as [I1 I2].
    destruct (is_nil e || key_ltb (rg_start g) e) eqn:C.
    - assert (C' : e = [] \/ key_lt (rg_start g) e).
      { apply orb_true_iff in C as [C|C]; [left; destruct e; [reflexivity|discriminate]|right; apply key_ltb_lt; exact C]. }
      split.
      + constructor; [exact I1|]. rewrite Forall_forall. intros k Hk. apply I2 in Hk as [Hk _]. apply F; exact Hk.
      + intros k. cbn [In]. rewrite I2. split; [intros [<-|[A B]]; auto|intros [[<-|A] B]; auto].
    - split; [constructor|]. intros k. cbn [In]. split; [intros []|]. intros [[<-|A] B].
      + apply orb_false_iff in C as [C1 C2]. destruct B as [->|B]; [discriminate|].
        apply key_ltb_lt in B. congruence.
      + apply orb_false_iff in C as [C1 C2]. destruct B as [->|B]; [discriminate|].
        assert (key_lt (rg_start g) e) by (eapply key_lt_trans; [apply F; exact A|exact B]).
        apply key_ltb_lt in H. congruence.
  Qed.

  Theorem split_keys_exact_pf s e :
    StronglySorted key_lt (get_split_keys rl s e) /\
    (forall k, In k (get_split_keys rl s e) <-> boundary rules k /\ key_lt s k /\ (e = [] \/ key_lt k e)).
  Proof.
    unfold get_split_keys.
    destruct (search_gt_spec s rl []) as (pre & f & E1 & E2 & H1 & H2). rewrite E1. cbn [snd].
    pose proof (f_all_gt s pre f E2 H2) as H2'.
    assert (Sf : StronglySorted key_lt (map rg_start f)).
    { rewrite E2, map_app in Hasc. eapply ssorted_app_r; exact Hasc. }
    destruct (take_split_spec e f Sf) as [T1 T2]. split; [exact T1|].
    intros k. rewrite T2, <- Hbnd, E2, map_app, in_app_iff. split.
    - intros [Hk He]. split; [right; exact Hk|]. split; [|exact He].
      apply in_map_iff in Hk as [x [<- Hx]]. apply H2'; exact Hx.
    - intros [[Hk|Hk] [Hs He]]; [|split; assumption].
      exfalso. apply in_map_iff in Hk as [x [<- Hx]]. apply H1 in Hx.
      eapply key_lt_irrefl. eapply key_lt_le_trans; eauto.
  Qed.

  (* GetRulesForApplyRegion: the override-filtered rules of the segment containing the start key,
     if no boundary lies strictly inside the region; none otherwise *)
  Theorem apply_region_exact_pf s e :
    match get_rules_for_apply_region rl s e with
    | Some rs =>
        rs = prepare_rules_for_apply (get_rules_by_key rl s) /\ get_rules_by_key rl s <> [] /\
        check_apply_rules rs = None /\
        ~ (exists k, boundary rules k /\ key_lt s k /\ (e = [] \/ key_lt k e))
    | None =>
        get_rules_by_key rl s = [] \/ (exists k, boundary rules k /\ key_lt s k /\ (e = [] \/ key_lt k e))
    end.
  Proof.
    unfold get_rules_for_apply_region, get_rules_by_key.
    destruct (search_gt_spec s rl []) as (pre & f & E1 & E2 & H1 & H2). rewrite E1. cbn [fst]. rewrite app_nil_r.
    pose proof (f_all_gt s pre f E2 H2) as H2'.
    destruct (rev pre) as [|g pr] eqn:Er; [left; reflexivity|].
    assert (Epre : pre = rev pr ++ [g]) by (rewrite <- (rev_involutive pre), Er; reflexivity).
    assert (Hg : In g rl) by (rewrite E2, Epre; apply in_or_app; left; apply in_or_app; right; left; reflexivity).
    rewrite Forall_forall in Hok. destruct (Hok g Hg) as (_ & _ & Hne & Ha & Hc).
    assert (Hnone : forall k, boundary rules k -> key_lt s k -> In k (map rg_start f)).
    { intros k Hk Hs. apply Hbnd in Hk. rewrite E2, map_app in Hk. apply in_app_or in Hk as [Hk|Hk]; [|exact Hk].
      exfalso. apply in_map_iff in Hk as [x [<- Hx]]. apply H1 in Hx. eapply key_lt_irrefl. eapply key_lt_le_trans; eauto. }
    destruct f as [|nxt f'].
    - split; [exact Ha|]. split; [exact Hne|]. split; [rewrite Ha in Hc; rewrite Ha; exact Hc|].
      intros [k [Hk [Hs _]]]. destruct (Hnone k Hk Hs).
    - destruct (is_nil e || key_gtb e (rg_start nxt)) eqn:C.
      + right. exists (rg_start nxt). split; [apply Hbnd; rewrite E2, map_app; apply in_or_app; right; left; reflexivity|].
        split; [exact H2|]. apply orb_true_iff in C as [C|C]; [left; destruct e; [reflexivity|discriminate]|right; apply key_gtb_lt; exact C].
      + split; [exact Ha|]. split; [exact Hne|]. split; [rewrite Ha; rewrite Ha in Hc; exact Hc|].
        intros [k [Hk [Hs He]]]. apply orb_false_iff in C as [C1 C2].
        destruct He as [->|He]; [discriminate|].
        pose proof (Hnone k Hk Hs) as Hin. cbn in Hin.
        assert (Hle : key_le (rg_start nxt) k).
        { destruct Hin as [<-|Hin]; [apply key_le_refl|]. apply key_lt_le.
          assert (Sf : StronglySorted key_lt (map rg_start (nxt :: f'))).
          { rewrite E2, map_app in Hasc. eapply ssorted_app_r; exact Hasc. }
          cbn in Sf. inversion Sf as [|? ? _ F]; subst. rewrite Forall_forall in F. apply F; exact Hin. }
        assert (key_lt (rg_start nxt) e) by (eapply key_le_lt_trans; eauto).
        apply key_gtb_lt in H. congruence.
  Qed.
End Lookup.

(* ---------- buildRuleList as a whole ---------- *)
Lemma sort_points_facts rules :
  NoDup (map rkey rules) ->
  (forall p, In p (sort_points (points_of rules)) <-> In p (points_of rules)) /\
  NoDup (sort_points (points_of rules)) /\
  StronglySorted (fun a b => key_le (p_key a) (p_key b)) (sort_points (points_of rules)).
Proof.
  intros H. split; [intros p; apply sort_by_In|]. split.
  - eapply Permutation_NoDup; [apply Permutation_sym, sort_by_perm|apply points_nodup; exact H].
  - apply (sort_by_sorted (fun a b => key_cmp (p_key a) (p_key b)) (good_pull p_key key_cmp good_key)).
Qed.

Theorem build_ok rules rl :
  wf_rules rules -> build_rule_list rules = inr rl ->
  Forall (range_ok rules) rl /\ StronglySorted key_lt (map rg_start rl) /\
  (forall k, In k (map rg_start rl) <-> boundary rules k).
Proof.
  intros Hwf H. unfold build_rule_list in H.
  destruct (sort_points_facts rules (wf_nodup _ Hwf)) as (A & B & C).
  destruct (points_of rules) as [|p0 ps] eqn:E; [discriminate|]. rewrite <- E in *. cbv zeta in H.
  destruct (sort_points (points_of rules)) as [|p sp] eqn:Es; [discriminate|].
  destruct (is_nil (p_key p)); [|discriminate]. rewrite <- Es in *.
  apply (sweep_ranges rules (sort_points (points_of rules)) Hwf A B C rl H).
Qed.

(* since the fix 4f573f0: an accepted rule set has a rule that starts at the empty key *)
Lemma build_first_boundary_empty rules rl :
  build_rule_list rules = inr rl -> boundary rules [].
Proof.
  intros H. unfold build_rule_list in H.
  destruct (points_of rules) as [|p0 ps] eqn:E; [discriminate|]. rewrite <- E in *. cbv zeta in H.
  destruct (sort_points (points_of rules)) as [|p sp] eqn:Es; [discriminate|].
  destruct (is_nil (p_key p)) eqn:En; [|discriminate].
  assert (Hk : p_key p = []) by (destruct (p_key p); [reflexivity|discriminate]).
  assert (Hp : In p (points_of rules)).
  { apply (sort_by_In (fun a b => key_cmp (p_key a) (p_key b))). unfold sort_points in Es. rewrite Es. left; reflexivity. }
  apply in_points_of in Hp as [Hr [Hs|[He Hne]]]; exists (p_rule p); split; try exact Hr.
  - left. rewrite <- Hk. rewrite Hs at 1. reflexivity.
  - right. split; [rewrite <- Hk; rewrite He at 1; reflexivity|exact Hne].
Qed.

(* which of several points with the same key is processed first does not matter: any sorted
   arrangement of the points gives the same answers *)
Theorem sweep_order_irrelevant rules pts1 pts2 rl1 rl2 :
  wf_rules rules ->
  (forall p, In p pts1 <-> In p (points_of rules)) -> NoDup pts1 ->
  StronglySorted (fun a b => key_le (p_key a) (p_key b)) pts1 ->
  (forall p, In p pts2 <-> In p (points_of rules)) -> NoDup pts2 ->
  StronglySorted (fun a b => key_le (p_key a) (p_key b)) pts2 ->
  sweep pts1 [] = inr rl1 -> sweep pts2 [] = inr rl2 ->
  forall k, get_rules_by_key rl1 k = get_rules_by_key rl2 k.
Proof.
  intros Hwf A1 B1 C1 A2 B2 C2 H1 H2 k.
  destruct (sweep_ranges rules pts1 Hwf A1 B1 C1 rl1 H1) as (O1 & S1 & K1).
  destruct (sweep_ranges rules pts2 Hwf A2 B2 C2 rl2 H2) as (O2 & S2 & K2).
  destruct (rules_by_key_exact_pf rules rl1 O1 S1 K1 k) as [X1 Y1].
  destruct (rules_by_key_exact_pf rules rl2 O2 S2 K2 k) as [X2 Y2].
  apply (sorted_unique compare_rule good_compare_rule); [exact X1|exact X2|].
  intros y. rewrite Y1, Y2. tauto.
Qed.

(* ---------- Part 3: prepareRulesForApply = the override specification ---------- *)
(* on lists written newest first: keep elements up to and including the first one satisfying p *)
Fixpoint take_until {A} (p : A -> bool) (m : list A) : list A :=
  match m with
  | [] => []
  | x :: r => if p x then [x] else x :: take_until p r
  end.
(* the suffix of l that starts at its last element satisfying p (l itself if there is none) *)
Definition from_last {A} (p : A -> bool) (l : list A) : list A := rev (take_until p (rev l)).

(* maximal runs of equal group id, of a list written newest first (runs and their elements newest first) *)
Fixpoint runs_rev (m : list rule) : list (list rule) :=
  match m with
  | [] => []
  | x :: r => match runs_rev r with
              | (y :: run) :: more => if key_eqb (r_gid x) (r_gid y) then (x :: y :: run) :: more
                                      else [x] :: (y :: run) :: more
              | _ => [[x]]
              end
  end.
Fixpoint last_opt {A} (l : list A) : option A :=
  match l with [] => None | [x] => Some x | _ :: r => last_opt r end.
(* the group of a run overrides: the flag the loop reads is the one of the first rule of the group *)
Definition run_overrides (run : list rule) : bool :=
  match last_opt run with Some x => group_overrides x | None => false end.

(* "drop everything before the last overriding group, and inside each remaining group everything
   before its last overriding rule" *)
Definition override_spec (rules : list rule) : list rule :=
  rev (concat (map (take_until r_override) (take_until run_overrides (runs_rev (rev rules))))).

Definition pstep (st : list rule * list rule) (ri : rule) : list rule * list rule :=
  let '(res, seg) := st in
  let '(res1, seg1) :=
    match seg with
    | rj :: _ => if negb (key_eqb (r_gid rj) (r_gid ri))
                 then ((if group_overrides ri then [] else res ++ seg), [])
                 else (res, seg)
    | [] => (res, seg)
    end in
  (res1, (if r_override ri then [] else seg1) ++ [ri]).

Lemma prepare_loop_fold rest : forall res seg,
  prepare_loop res seg rest = let '(r, s) := fold_left pstep rest (res, seg) in r ++ s.
Proof.
  induction rest as [|ri rest IH]; intros res seg; [reflexivity|].
  cbn [prepare_loop fold_left]. unfold pstep at 2.
  destruct seg as [|rj seg']; [apply IH|].
  destruct (negb (key_eqb (r_gid rj) (r_gid ri))); apply IH.
Qed.

(* state of the loop after the rules `rev m` (m newest first, non-empty) *)
Fixpoint pst (m : list rule) : list rule * list rule :=
  match m with
  | [] => ([], [])
  | [x] => ([], [x])
  | x :: r => pstep (pst r) x
  end.

Lemma fold_pstep_pst l : forall x,
  fold_left pstep l ([], [x]) = pst (rev l ++ [x]).
Proof.
  induction l as [|y l IH] using rev_ind; intros x; [reflexivity|].
  rewrite fold_left_app, IH. cbn [fold_left]. rewrite rev_app_distr. cbn [rev app].
  destruct (rev l ++ [x]) eqn:E; [destruct (rev l); discriminate|]. reflexivity.
Qed.

Lemma seg_gid_inv m : m <> [] ->
  exists y run more sx segr,
    runs_rev m = (y :: run) :: more /\ rev (snd (pst m)) = sx :: segr /\
    r_gid sx = r_gid y /\ (forall z, In z (snd (pst m)) -> r_gid z = r_gid y) /\
    sx :: segr = take_until r_override (y :: run) /\
    rev (fst (pst m)) = concat (map (take_until r_override) (tl (take_until run_overrides ((y :: run) :: more)))) /\
    (forall z, In z (y :: run) -> r_gid z = r_gid y).
Proof.
  induction m as [|x r IH]; [congruence|]. intros _.
  destruct r as [|x' r'].
  - exists x, [], [], x, []. cbn. repeat split; try reflexivity.
    + intros z [<-|[]]; reflexivity.
    + destruct (r_override x); reflexivity.
    + destruct (group_overrides x); reflexivity.
    + intros z [<-|[]]; reflexivity.
  - destruct IH as (y & run & more & sx & segr & Er & Es & Eg & Hall & Etu & Eres & Hrun); [discriminate|].
    set (r := x' :: r') in *.
    change (pst (x :: r)) with (pstep (pst r) x).
    cbn [runs_rev]. fold r. rewrite Er.
    destruct (pst r) as [res seg] eqn:Ep. cbn [fst snd] in *.
    assert (Hseg : seg = rev segr ++ [sx]).
    { rewrite <- (rev_involutive seg), Es. reflexivity. }
    (* the head of seg (rules[j]) has the group id of the current run *)
    assert (Hhd : exists rj seg', seg = rj :: seg' /\ r_gid rj = r_gid y).
    { destruct seg as [|rj seg']; [destruct (rev segr); discriminate|]. exists rj, seg'. split; [reflexivity|].
      apply Hall. left; reflexivity. }
    destruct Hhd as (rj & seg' & Eseg & Egj).
    unfold pstep. rewrite Eseg.
    assert (Ekey : key_eqb (r_gid rj) (r_gid x) = key_eqb (r_gid x) (r_gid y)).
    { rewrite Egj. destruct (key_eqb (r_gid y) (r_gid x)) eqn:A; destruct (key_eqb (r_gid x) (r_gid y)) eqn:B; try reflexivity.
      - apply key_eqb_eq in A. rewrite A, (proj2 (key_eqb_eq _ _) eq_refl) in B. discriminate.
      - apply key_eqb_eq in B. rewrite B, (proj2 (key_eqb_eq _ _) eq_refl) in A. discriminate. }
    rewrite Ekey. destruct (key_eqb (r_gid x) (r_gid y)) eqn:Eq; cbn [negb].
    + (* same group: the run grows *)
      apply key_eqb_eq in Eq. rewrite <- Eseg.
      destruct (r_override x) eqn:Eo.
      * exists x, (y :: run), more, x, []. cbn [fst snd app rev]. repeat split.
        -- intros z [<-|[]]; reflexivity.
        -- cbn [take_until]. rewrite Eo. reflexivity.
        -- rewrite Eres. cbn [take_until].
           assert (Ero : run_overrides (x :: y :: run) = run_overrides (y :: run)) by reflexivity.
           rewrite Ero. destruct (run_overrides (y :: run)); reflexivity.
        -- intros z [<-|Hz]; [reflexivity|]. rewrite Eq. apply Hrun; exact Hz.
      * exists x, (y :: run), more, x, (sx :: segr). cbn [fst snd]. rewrite rev_app_distr, Es. cbn [rev app]. repeat split.
        -- intros z Hz. apply in_app_or in Hz as [Hz|[<-|[]]]; [rewrite Eq; apply Hall; exact Hz|reflexivity].
        -- change (take_until r_override (x :: y :: run))
             with (if r_override x then [x] else x :: take_until r_override (y :: run)).
           rewrite Eo, <- Etu. reflexivity.
        -- rewrite Eres. cbn [take_until].
           assert (Ero : run_overrides (x :: y :: run) = run_overrides (y :: run)) by reflexivity.
           rewrite Ero. destruct (run_overrides (y :: run)); reflexivity.
        -- intros z [<-|Hz]; [reflexivity|]. rewrite Eq. apply Hrun; exact Hz.
    + (* a new group starts *)
      assert (Etx : take_until r_override [x] = [x]) by (cbn; destruct (r_override x); reflexivity).
      exists x, [], ((y :: run) :: more), x, [].
      assert (Esegx : (if r_override x then [] else @nil rule) ++ [x] = [x]) by (destruct (r_override x); reflexivity).
      cbn [fst snd]. rewrite Esegx. cbn [rev app]. repeat split.
      * intros z [<-|[]]; reflexivity.
      * rewrite Etx. reflexivity.
      * change (take_until run_overrides ([x] :: (y :: run) :: more))
          with (if run_overrides [x] then [[x]] else [x] :: take_until run_overrides ((y :: run) :: more)).
        assert (Ero : run_overrides [x] = group_overrides x) by reflexivity. rewrite Ero.
        destruct (group_overrides x); [reflexivity|]. cbn [tl].
        rewrite <- Eseg, rev_app_distr, Es, Eres.
        destruct (take_until run_overrides ((y :: run) :: more)) as [|hd tlr] eqn:Et.
        { cbn in Et. destruct (run_overrides (y :: run)); discriminate. }
        assert (hd = y :: run) by (cbn in Et; destruct (run_overrides (y :: run)); inversion Et; reflexivity).
        subst hd. cbn [map concat tl]. rewrite <- Etu. reflexivity.
      * intros z [<-|[]]; reflexivity.
Qed.

Theorem prepare_eq_override_spec_pf rules : prepare_rules_for_apply rules = override_spec rules.
Proof.
  destruct rules as [|r0 rest]; [reflexivity|].
  unfold prepare_rules_for_apply, override_spec. rewrite prepare_loop_fold, fold_pstep_pst.
  assert (Em : rev (r0 :: rest) = rev rest ++ [r0]) by reflexivity. rewrite Em.
  set (m := rev rest ++ [r0]).
  assert (Hne : m <> []) by (subst m; destruct (rev rest); discriminate).
  destruct (seg_gid_inv m Hne) as (y & run & more & sx & segr & Er & Es & _ & _ & Etu & Eres & _).
  destruct (pst m) as [res seg]. cbn [fst snd] in *. rewrite Er.
  rewrite <- (rev_involutive (res ++ seg)). f_equal. rewrite rev_app_distr, Es, Eres, Etu.
  destruct (take_until run_overrides ((y :: run) :: more)) as [|hd tlr] eqn:Et.
  { cbn in Et. destruct (run_overrides (y :: run)); discriminate. }
  assert (hd = y :: run) by (cbn in Et; destruct (run_overrides (y :: run)); inversion Et; reflexivity).
  subst hd. reflexivity.
Qed.

(* ---------- every key at or above the first boundary has a valid rule set ---------- *)
Theorem covered_above_first_boundary rules rl k :
  wf_rules rules -> build_rule_list rules = inr rl ->
  (exists b, boundary rules b /\ key_le b k) ->
  get_rules_by_key rl k <> [] /\ check_apply_rules (prepare_rules_for_apply (get_rules_by_key rl k)) = None.
Proof.
  intros Hwf H [b [Hb Hle]]. destruct (build_ok rules rl Hwf H) as (Hok & Hasc & Hbnd).
  unfold get_rules_by_key.
  destruct (search_gt_spec k rl []) as (pre & f & E1 & E2 & H1 & H2). rewrite E1. cbn [fst]. rewrite app_nil_r.
  pose proof (f_all_gt rules rl Hok Hasc Hbnd k pre f E2 H2) as H2'.
  destruct (rev pre) as [|g pr] eqn:Er.
  - exfalso. assert (pre = []) by (destruct pre; [reflexivity|]; cbn in Er; destruct (rev pre); discriminate). subst pre.
    apply Hbnd in Hb. apply in_map_iff in Hb as [x [Ex Hx]]. cbn in E2. rewrite E2 in Hx. apply H2' in Hx.
    rewrite Ex in Hx. eapply key_lt_irrefl. eapply key_lt_le_trans; eauto.
  - assert (Epre : pre = rev pr ++ [g]) by (rewrite <- (rev_involutive pre), Er; reflexivity).
    assert (Hg : In g rl) by (rewrite E2, Epre; apply in_or_app; left; apply in_or_app; right; left; reflexivity).
    rewrite Forall_forall in Hok. destruct (Hok g Hg) as (_ & _ & Hne & Ha & Hc).
    split; [exact Hne|]. rewrite <- Ha. exact Hc.
Qed.

(* an accepted rule set leaves no key without a valid rule set *)
Theorem accepted_covers_every_key_pf rules rl k :
  wf_rules rules -> build_rule_list rules = inr rl ->
  get_rules_by_key rl k <> [] /\ check_apply_rules (prepare_rules_for_apply (get_rules_by_key rl k)) = None.
Proof.
  intros Hwf H. apply (covered_above_first_boundary rules rl k Hwf H).
  exists []. split; [eapply build_first_boundary_empty; exact H|apply nil_least].
Qed.

(* ---------- ruleConfig.adjust ---------- *)
Definition strip (r : rule) : rule := set_group r None.
Definition strip_rules (m : rmap) : rmap := map (fun kr => (fst kr, strip (snd kr))) m.

Lemma set_group_strip r g : set_group (strip r) g = set_group r g.
Proof. destruct r; reflexivity. Qed.
Lemma set_group_twice r a b : set_group (set_group r a) b = set_group r b.
Proof. destruct r; reflexivity. Qed.
Lemma r_gid_set_group r g : r_gid (set_group r g) = r_gid r.
Proof. destruct r; reflexivity. Qed.

Definition add_default (gs : gmap) (kr : (id * id) * rule) : gmap :=
  match gget (r_gid (snd kr)) gs with
  | Some _ => gs
  | None => mset key_cmp (r_gid (snd kr)) (default_group (r_gid (snd kr))) gs
  end.

Lemma config_adjust_unfold c :
  config_adjust c =
  let g1 := fold_left add_default (c_rules c) (filter (fun kg => negb (is_default (snd kg))) (c_groups c)) in
  Config (map (fun kr => (fst kr, set_group (snd kr) (gget (r_gid (snd kr)) g1))) (c_rules c)) g1.
Proof. reflexivity. Qed.

Lemma fold_add_default_map (f : rule -> rule) (Hf : forall r, r_gid (f r) = r_gid r) l : forall g,
  fold_left add_default (map (fun kr => (fst kr, f (snd kr))) l) g = fold_left add_default l g.
Proof.
  induction l as [|[k r] rest IH]; intros g; [reflexivity|]. cbn [map fold_left].
  unfold add_default at 2 4. cbn [fst snd]. rewrite Hf. apply IH.
Qed.

(* adjust() does not read the group pointers *)
Lemma config_adjust_via_strip c :
  config_adjust c = config_adjust (Config (strip_rules (c_rules c)) (c_groups c)).
Proof.
  rewrite !config_adjust_unfold. cbn [c_rules c_groups]. unfold strip_rules.
  rewrite (fold_add_default_map strip (fun r => r_gid_set_group r None)). cbv zeta. f_equal.
  rewrite map_map. apply map_ext. intros [k r]. cbn [fst snd]. unfold strip at 2.
  rewrite r_gid_set_group, set_group_strip. reflexivity.
Qed.

Lemma filter_nd_twice (m : gmap) :
  filter (fun kg => negb (is_default (snd kg))) (filter (fun kg => negb (is_default (snd kg))) m) =
  filter (fun kg => negb (is_default (snd kg))) m.
Proof.
  induction m as [|x r IH]; cbn; [reflexivity|].
  destruct (negb (is_default (snd x))) eqn:E; cbn; rewrite ?E, IH; reflexivity.
Qed.

Lemma filter_nd_add_default_step gs kr :
  filter (fun kg => negb (is_default (snd kg))) (add_default gs kr) =
  filter (fun kg : id * group => negb (is_default (snd kg))) gs.
Proof.
  unfold add_default. destruct (gget (r_gid (snd kr)) gs) eqn:E; [reflexivity|].
  set (gid := r_gid (snd kr)) in *. clearbody gid. unfold gget in E.
  induction gs as [|[k' g'] r IH]; cbn; [reflexivity|]. cbn in E.
  destruct (key_cmp gid k') eqn:Ec; [discriminate| |].
  - cbn. reflexivity.
  - cbn. rewrite (IH E). reflexivity.
Qed.

Lemma filter_nd_fold_add_default l : forall gs,
  filter (fun kg => negb (is_default (snd kg))) (fold_left add_default l gs) =
  filter (fun kg : id * group => negb (is_default (snd kg))) gs.
Proof.
  induction l as [|kr rest IH]; intros gs; [reflexivity|]. cbn [fold_left].
  rewrite IH. apply filter_nd_add_default_step.
Qed.

(* adjust() is idempotent: every configuration a RuleManager serves is a fixed point of it *)
Theorem config_adjust_idem c : config_adjust (config_adjust c) = config_adjust c.
Proof.
  rewrite (config_adjust_unfold c). cbv zeta.
  set (g0 := filter (fun kg => negb (is_default (snd kg))) (c_groups c)).
  set (g1 := fold_left add_default (c_rules c) g0).
  rewrite config_adjust_unfold. cbn [c_rules c_groups]. cbv zeta.
  assert (E0 : filter (fun kg => negb (is_default (snd kg))) g1 = g0).
  { subst g1. rewrite filter_nd_fold_add_default. subst g0. apply filter_nd_twice. }
  rewrite E0.
  rewrite (fold_add_default_map (fun r => set_group r (gget (r_gid r) g1))
             (fun r => r_gid_set_group r (gget (r_gid r) g1)) (c_rules c) g0).
  fold g1. f_equal. rewrite map_map. apply map_ext. intros [k r]. cbn [fst snd].
  rewrite r_gid_set_group, set_group_twice. reflexivity.
Qed.

Definition canonical (c : config) : Prop := config_adjust c = c.

Lemma patch_adjust_keeps c p :
  c_groups (fst (patch_adjust c p)) = c_groups c /\
  strip_rules (c_rules (fst (patch_adjust c p))) = strip_rules (c_rules c).
Proof.
  unfold patch_adjust, strip_rules. cbn [fst c_groups c_rules]. split; [reflexivity|].
  rewrite map_map. apply map_ext. intros [k r]. cbn [fst snd].
  destruct (mget pair_cmp k (m_rules p)); [reflexivity|]. cbn [fst snd]. unfold strip. rewrite set_group_twice. reflexivity.
Qed.

(* the served configuration after the error paths of tryCommitPatch (patch.adjust, then ruleConfig.adjust) *)
Lemma readjusted_is_served c p : canonical c -> config_adjust (fst (patch_adjust c p)) = c.
Proof.
  intros Hc. destruct (patch_adjust_keeps c p) as [K1 K2].
  rewrite config_adjust_via_strip, K1, K2, <- config_adjust_via_strip. exact Hc.
Qed.

(* a rejected or failed update leaves the RuleManager exactly as it was (and the storage too when the
   patch was rejected) *)
Theorem failed_update_changes_nothing m s p order f m' s' e ok :
  canonical (m_conf m) ->
  try_commit m s p order f = (m', s', Some e, ok) ->
  m' = m /\ (e = EBuild -> s' = s).
Proof.
  intros Hc H. unfold try_commit in H.
  pose proof (readjusted_is_served (m_conf m) p Hc) as R.
  destruct (patch_adjust (m_conf m) p) as [c1 p1]. cbn [fst] in R.
  destruct (build_rule_list (patch_view c1 p1)) as [be|rl].
  - inversion H; subst. rewrite R. split; [destruct m; reflexivity|reflexivity].
  - destruct (save_patch (patch_trim c1 p1) order f s) as [[s1 failed] ok1].
    destruct failed; inversion H; subst. rewrite R. split; [destruct m; reflexivity|discriminate].
Qed.

(* every configuration the state machine serves is canonical *)
Lemma try_commit_canonical m s p order f m' s' e ok :
  try_commit m s p order f = (m', s', e, ok) -> canonical (m_conf m').
Proof.
  unfold try_commit. intros H. destruct (patch_adjust (m_conf m) p) as [c1 p1].
  destruct (build_rule_list (patch_view c1 p1)) as [be|rl].
  - inversion H; subst. apply config_adjust_idem.
  - destruct (save_patch (patch_trim c1 p1) order f s) as [[s1 failed] ok1].
    destruct failed; inversion H; subst; cbn [m_conf]; [apply config_adjust_idem|].
    unfold patch_commit. apply config_adjust_idem.
Qed.

Lemma initialize_canonical s mr m s' : initialize s mr = (inl m, s') -> canonical (m_conf m).
Proof.
  unfold initialize. intros H. destruct (load_repairs s) as [acc s2].
  destruct (la_rules acc) as [|x rs];
    (destruct (build_rule_list _) as [e|rl]; inversion H; subst; apply config_adjust_idem).
Qed.

Definition live_canonical (st : state) : Prop :=
  match st_live st with Some m => canonical (m_conf m) | None => True end.

Lemma step_update_canonical st u f w : live_canonical st -> live_canonical (fst (step_update st u f w)).
Proof.
  unfold live_canonical, step_update. intros Hst.
  destruct (st_live st) as [m|] eqn:El; [|cbn; rewrite El; exact I].
  destruct (make_patch (m_conf m) u) as [p|]; [|cbn; rewrite El; exact Hst].
  destruct (try_commit m (st_store st) p w f) as [[[m' s'] e] ok] eqn:Et. cbn [fst st_live].
  eapply try_commit_canonical; exact Et.
Qed.

Lemma step_canonical st o : live_canonical st -> live_canonical (fst (step st o)).
Proof.
  intros Hst. destruct o as [mr|u f w|u w|ig|mr|k v|k]; cbn [step].
  - destruct (initialize (st_store st) mr) as [[m|e] s'] eqn:Ei; cbn; [|exact I].
    eapply initialize_canonical; exact Ei.
  - apply step_update_canonical; exact Hst.
  - apply step_update_canonical; exact Hst.
  - exact I.
  - destruct (initialize (st_store st) mr) as [[m|e] s'] eqn:Ei; cbn; [|exact I].
    eapply initialize_canonical; exact Ei.
  - exact Hst.
  - exact Hst.
Qed.

Theorem reachable_canonical ops : live_canonical (run_state step init_state ops).
Proof.
  assert (G : forall ops st, live_canonical st -> live_canonical (run_state step st ops)).
  { clear. induction ops as [|o rest IH]; intros st H; [exact H|]. cbn [run_state]. apply IH. apply step_canonical; exact H. }
  apply G. exact I.
Qed.

(* in every reachable state, an update that returns an error (of any kind, at any write) leaves the
   served state exactly as it was; a rejected one leaves the storage as it was, too *)
Theorem rejected_update_changes_nothing_pf ops u f w st' o e :
  step (run_state step init_state ops) (OUpdate u f w) = (st', o) ->
  o_res o = RErr e ->
  st_live st' = st_live (run_state step init_state ops) /\
  (e <> EStorage -> st_store st' = st_store (run_state step init_state ops)).
Proof.
  pose proof (reachable_canonical ops) as Hc. set (st := run_state step init_state ops) in *.
  cbn [step]. unfold step_update, live_canonical in *.
  destruct (st_live st) as [m|] eqn:El.
  - destruct (make_patch (m_conf m) u) as [p|].
    + destruct (try_commit m (st_store st) p w f) as [[[m' s'] e'] ok] eqn:Et.
      intros H Hr. inversion H; subst. cbn [o_res observe st_live st_store] in *.
      destruct ok; [|discriminate]. destruct e' as [e'|]; [|discriminate]. inversion Hr; subst e'.
      destruct (failed_update_changes_nothing m (st_store st) p w f m' s' e true Hc Et) as [-> Hs].
      split; [first [reflexivity|symmetry; exact El]|]. intros Hne.
      assert (e = EBuild).
      { unfold try_commit in Et. destruct (patch_adjust (m_conf m) p) as [c1 p1].
        destruct (build_rule_list (patch_view c1 p1)); [inversion Et; reflexivity|].
        destruct (save_patch (patch_trim c1 p1) w f (st_store st)) as [[? failed] ?].
        destruct failed; inversion Et; subst. congruence. }
      apply Hs; assumption.
    + intros H _. injection H as <- _. split; [exact El|reflexivity].
  - intros H _. injection H as <- _. split; [exact El|reflexivity].
Qed.

(* ---------- statements at the level of buildRuleList (used by props/C13.v) ---------- *)
Theorem rules_by_key_exact_build rules rl k :
  wf_rules rules -> build_rule_list rules = inr rl ->
  StronglySorted rule_lt (get_rules_by_key rl k) /\
  (forall y, In y (get_rules_by_key rl k) <-> In y rules /\ covers y k = true).
Proof.
  intros Hwf H. destruct (build_ok rules rl Hwf H) as (A & B & C).
  exact (rules_by_key_exact_pf rules rl A B C k).
Qed.

Theorem apply_region_exact_build rules rl s e :
  wf_rules rules -> build_rule_list rules = inr rl ->
  match get_rules_for_apply_region rl s e with
  | Some rs =>
      rs = prepare_rules_for_apply (get_rules_by_key rl s) /\ get_rules_by_key rl s <> [] /\
      check_apply_rules rs = None /\
      ~ (exists k, boundary rules k /\ key_lt s k /\ (e = [] \/ key_lt k e))
  | None =>
      get_rules_by_key rl s = [] \/ (exists k, boundary rules k /\ key_lt s k /\ (e = [] \/ key_lt k e))
  end.
Proof.
  intros Hwf H. destruct (build_ok rules rl Hwf H) as (A & B & C).
  exact (apply_region_exact_pf rules rl A B C s e).
Qed.

Theorem split_keys_exact_build rules rl s e :
  wf_rules rules -> build_rule_list rules = inr rl ->
  StronglySorted key_lt (get_split_keys rl s e) /\
  (forall k, In k (get_split_keys rl s e) <-> boundary rules k /\ key_lt s k /\ (e = [] \/ key_lt k e)).
Proof.
  intros Hwf H. destruct (build_ok rules rl Hwf H) as (A & B & C).
  exact (split_keys_exact_pf rules rl A B C s e).
Qed.

Theorem rule_order_documented_pf a b :
  rule_lt a b <->
  (group_index a < group_index b)%Z \/ (group_index a = group_index b /\
    (key_lt (r_gid a) (r_gid b) \/ (r_gid a = r_gid b /\
      ((r_index a < r_index b)%Z \/ (r_index a = r_index b /\ key_lt (r_id a) (r_id b)))))).
Proof.
  unfold rule_lt, compare_rule, key_lt.
  assert (L : forall c d, lexc c d = Lt <-> c = Lt \/ (c = Eq /\ d = Lt)).
  { intros c d. destruct c; cbn; split; intros H; auto; try discriminate.
    - destruct H as [H|[_ H]]; [discriminate|exact H].
    - destruct H as [H|[H _]]; discriminate. }
  assert (KE : forall x y, key_cmp x y = Eq <-> x = y).
  { intros x y. split; [apply key_cmp_eq|intros ->; apply key_cmp_refl]. }
  rewrite !L, !Z.compare_lt_iff, !Z.compare_eq_iff, !KE. tauto.
Qed.

Theorem covered_when_rule_starts_at_empty_key rules rl k y :
  wf_rules rules -> build_rule_list rules = inr rl -> In y rules -> r_start y = [] ->
  get_rules_by_key rl k <> [] /\ check_apply_rules (prepare_rules_for_apply (get_rules_by_key rl k)) = None.
Proof.
  intros Hwf H Hy Hs. apply (covered_above_first_boundary rules rl k Hwf H).
  exists []. split; [exists y; split; [exact Hy|left; symmetry; exact Hs]|apply nil_least].
Qed.
