(* C07 — the Gallina B-tree (model/C07_BTree.v, a transcription of pkg/btree) refines the ordered-list
   specification L0 (model/C07_BTreeSpec.v): whole trees, every operation, any degree >= 2, any strict weak order.

   tinv t  = the representation invariant: the root is balanced (all leaves at depth h), every node but the root has
             between degree-1 and 2*degree-1 items, an internal node with k items has k+1 children, `indices[i]` is the
             number of items in children 0..i plus i (binv), the in-order walk is strictly sorted, `length` is its length.
   tabs t  = the abstraction: the in-order walk. *)
From Coq Require Import List ZArith Bool Lia.
From PDV Require Import lib.Base model.C07_BTreeSpec model.C07_BTree proof.C07_BTreeOrder proof.C07_BTreeRefine.
Import ListNotations.

Section Tree.
  Context {A : Type} (ltb : A -> A -> bool).
  Hypothesis lt_irrefl : forall a, ltb a a = false.
  Hypothesis lt_trans : forall a b c, ltb a b = true -> ltb b c = true -> ltb a c = true.
  Hypothesis lt_negtrans : forall a b c, ltb a b = false -> ltb b c = false -> ltb a c = false.

  Definition root_inv (lo hi : nat) (len : Z) (r : node A) : Prop :=
    exists h, binv lo hi h r /\ sorted ltb (flatten r) /\ (length (n_its r) <= hi)%nat /\
              (h <> 0%nat -> n_its r <> []) /\ len = Z.of_nat (length (flatten r)).

  Definition tinv (t : btree A) : Prop :=
    (2 <= bt_degree t)%nat /\
    match bt_root t with
    | None => bt_length t = 0%Z
    | Some r => root_inv (min_items t) (max_items t) (bt_length t) r
    end.

  Definition tabs (t : btree A) : list A := match bt_root t with None => [] | Some r => flatten r end.

  Definition l0_rem (typ : to_remove) (L : list A) : list A * option A :=
    match typ with
    | RemoveItem x => l0_delete ltb x L
    | RemoveMin => l0_delete_min L
    | RemoveMax => l0_delete_max L
    end.

  Lemma tinv_new d : (2 <= d)%nat -> tinv (bt_new d).
  Proof. intros H. split; [exact H|reflexivity]. Qed.

  Lemma degree_facts d : (2 <= d)%nat -> (1 <= d - 1)%nat /\ (d * 2 - 1 = 2 * (d - 1) + 1)%nat.
  Proof. lia. Qed.

  Lemma tinv_length t : tinv t -> bt_length t = Z.of_nat (length (tabs t)).
  Proof.
    intros [_ H]. unfold tabs. destruct (bt_root t) as [r|]; [|exact H]. destruct H as (h & _ & _ & _ & _ & E). exact E.
  Qed.

  (* ReplaceOrInsert *)
  Theorem replace_or_insert_spec t x : tinv t ->
    exists t' out, replace_or_insert ltb t x = Some (t', out) /\ tinv t' /\ bt_degree t' = bt_degree t /\
                   l0_insert ltb x (tabs t) = (tabs t', out).
  Proof.
    intros [D R]. destruct (degree_facts _ D) as [LO HI].
    unfold replace_or_insert, tabs, min_items, max_items in *. destruct (bt_root t) as [r|] eqn:ER.
    - destruct R as (h & B & Hs & Hlen & Hne & EL).
      assert (STEP : forall h1 r1, binv (bt_degree t - 1) (bt_degree t * 2 - 1) h1 r1 -> flatten r1 = flatten r ->
                 (length (n_its r1) < bt_degree t * 2 - 1)%nat -> (h1 <> 0%nat -> n_its r1 <> []) ->
                 exists t' out,
                   match insert ltb (S (height r1)) r1 x (bt_degree t * 2 - 1) with
                   | Some (r2, out) => Some (BT (bt_degree t) match out with
                                                              | Some _ => bt_length t
                                                              | None => (bt_length t + 1)%Z
                                                              end (Some r2), out)
                   | None => None
                   end = Some (t', out) /\ tinv t' /\ bt_degree t' = bt_degree t /\
                   l0_insert ltb x (flatten r) = (match bt_root t' with Some r' => flatten r' | None => [] end, out)).
      { intros h1 r1 B1 EF Hl1 Hne1. rewrite <- EF in Hs.
        destruct (insert_spec ltb lt_irrefl lt_trans lt_negtrans _ _ LO HI x h1 r1 (S (height r1)) B1 Hs) as (n' & out & E & B' & EI & Hb);
          [rewrite (height_binv _ _ _ _ B1); lia|exact Hl1|].
        rewrite E. eexists. exists out. split; [reflexivity|]. split; [|split].
        - split; [exact D|]. cbn [bt_root bt_degree bt_length]. unfold root_inv, min_items, max_items. cbn [bt_degree]. exists h1.
          split; [exact B'|]. split.
          + pose proof (l0_insert_sorted ltb lt_trans lt_negtrans x _ Hs) as H. rewrite EI in H. exact H.
          + split; [lia|]. split.
            * intros NZ E0. apply (Hne1 NZ). destruct (n_its r1); [reflexivity|]. rewrite E0 in Hb. cbn in Hb. lia.
            * pose proof (l0_insert_length ltb _ _ LO HI x (flatten r1)) as HL. rewrite EI in HL. cbn [fst snd] in HL.
              rewrite EL, <- EF. destruct out; lia.
        - reflexivity.
        - cbn [bt_root]. rewrite <- EF. exact EI. }
      destruct (Nat.leb_spec (max_items t) (length (n_its r))) as [Full|NotFull].
Show. Abort.
